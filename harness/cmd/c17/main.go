// Engine C17 — compose.ToolsNode answers every tool call, in call order, whatever the
// completion order; the streamed form concatenates to the same list; failures, panics and
// unknown tool names are reported as the property says.
//
// One case = a tools-node configuration (tools of kind invokable-only / streamable-only /
// both, built with components/tool/utils or hand-written), a behaviour table keyed by the
// argument string (output chunks, failure, panic, delays), an unknown-tool handler setting and
// one assistant message.  The case is run five times on the real code:
// Invoke and Stream standalone, Invoke and Stream inside a graph, and Stream inside a graph
// whose next node is an invokable lambda (so that the framework itself concatenates the
// merged stream); further on a node shared with a concurrent second call and then a later
// call (shared-node runs), through Collect / Transform, and as the streamed form with several
// consumers (runFan).  Every run is sent to the model (Corr/C17.v) and checked by a direct
// oracle computed here from the property text alone.
package main

import (
	"context"
	"encoding/json"
	"errors"
	"fmt"
	"io"
	"os"
	"os/exec"
	"path/filepath"
	"regexp"
	"sort"
	"strconv"
	"strings"
	"sync"
	"time"

	"github.com/cloudwego/eino/components/tool"
	"github.com/cloudwego/eino/components/tool/utils"
	"github.com/cloudwego/eino/compose"
	"github.com/cloudwego/eino/schema"

	"verif/harness/lib"
)

// ---------------------------------------------------------------- case

type ToolDef struct {
	Name string `json:"name"`
	Kind string `json:"kind"` // inv | str | both | none (a BaseTool that implements neither run interface)
	Via  string `json:"via"`  // infer | new | raw | inferopt | raw2 | inferopt2 | inferjson | newum | inferptr | newptr | newmap (inferptr/newptr: utils tool whose argument type is a pointer to a struct, newmap: a map; raw/inferopt tools read the tag options, raw2/inferopt2 tools the options of the other implementation-specific type, the others none; inferjson: utils' default output marshalling, i.e. every output / chunk as a JSON string; newum: utils tool with a custom argument unmarshaller)
	// its Info call fails
	InfoErr bool `json:"info_err,omitempty"`
	// the tool is handed to the node as a struct VALUE (value receivers) of a type that is not comparable (it holds
	// a slice): a legal implementation of the tool interfaces that can be neither a map key nor an operand of ==
	Val bool `json:"val,omitempty"`
}

// convTools cannot take this tool
func (d ToolDef) bad() bool { return d.InfoErr || d.Kind == "none" }

// utils' default marshalling: the output (every chunk of a streamed output) is rendered as a JSON string
func (d ToolDef) jsonOut() bool { return d.Via == "inferjson" }

func quote(s string) string { b, _ := json.Marshal(s); return string(b) }

func anyBad(l []ToolDef) bool {
	for _, d := range l {
		if d.bad() {
			return true
		}
	}
	return false
}

// the implementation-specific option type the tool reads: 0 = none, 1 = tagOpt, 2 = altOpt
func (d ToolDef) optType() int {
	switch d.Via {
	case "raw", "inferopt":
		return 1
	case "raw2", "inferopt2":
		return 2
	}
	return 0
}

type Behav struct {
	Chunks     []string `json:"chunks"`            // output = name + ":" + join(chunks); streamed as these chunks (first one prefixed)
	Fail       int      `json:"fail,omitempty"`    // 0 = succeeds, otherwise the error code (>= 100)
	FailAt     int      `json:"fail_at,omitempty"` // streamed execution: -1 = fails at call time, k = error item after k chunks
	Panic      bool     `json:"panic,omitempty"`
	Delay      int      `json:"delay,omitempty"`       // microseconds before the tool returns
	ChunkDelay int      `json:"chunk_delay,omitempty"` // microseconds between chunks
	Cap        int      `json:"cap,omitempty"`         // -1 = array-backed stream, otherwise Pipe capacity
	Bare       bool     `json:"bare,omitempty"`        // output = join(chunks), no "<tag><name>:" prefix (the tool can answer "")
	Depth      int      `json:"depth,omitempty"`       // a panicking tool panics this many frames below its entry point
	Ctx        bool     `json:"ctx,omitempty"`         // the tool honours its context: while it is delayed it returns ctx.Err() as soon as the context is done
}

// the behaviour on arguments that carry the optional field s: s is appended to the output (to its last chunk)
func (b Behav) with(s string) Behav {
	if s == "" || len(b.Chunks) == 0 {
		return b
	}
	cs := append([]string{}, b.Chunks...)
	cs[len(cs)-1] += s
	b.Chunks = cs
	return b
}

type Call struct {
	ID   string `json:"id"`
	Name string `json:"name"`
	K    int    `json:"k"` // arguments are {"k":K}; K indexes the behaviour table; -1 = malformed arguments, -2 = the empty string
	// an optional second argument field: arguments {"k":K,"s":S}; the tool appends S to its output (to the
	// last chunk of a streamed output); "" = the field is left out of the arguments
	S string `json:"s,omitempty"`
}

func (cl Call) args() string { return argsOf(cl.K, cl.S) }

type Case struct {
	Tools   []ToolDef `json:"tools"`
	Behavs  []Behav   `json:"behavs"`
	Handler string    `json:"handler"` // "" | ok | err | panic
	RoleOK  bool      `json:"role_ok"`
	Calls   []Call    `json:"calls"`
	// call options
	CallTools *[]ToolDef `json:"call_tools,omitempty"` // WithToolList (nil = option absent; an empty list is passed as an empty non-nil slice)
	ToolOpts  [][]string `json:"tool_opts,omitempty"`  // one WithToolOption per inner list; every entry is a tag option
	// the call's options as a sequence, in the order given (replaces the two fields above when present)
	OptSeq []NodeOpt `json:"opt_seq,omitempty"`
	// graph-hosted runs: how the node options travel as graph call options: "" = one
	// WithToolsNodeOption carrying all, "split" = one per node option, "designated" = one per node
	// option, each designated to the tools node, "mixed" = alternately designated or not
	GraphOpts string `json:"graph_opts,omitempty"`
	// graph-hosted runs through the stream-input entries (Collect, Transform): how the assistant message
	// arrives as a stream: 0 = these entries are not exercised, 1 = one chunk, 2 = the calls dealt out over two
	// chunks (even positions, odd positions), 3 = every call's arguments cut in two (id and name in the first chunk)
	InputSplit int `json:"input_split,omitempty"`
	// what hosts the node in the graph-hosted runs: "" = a Graph, workflow = a Workflow, nested = a Graph that is
	// itself a node of an outer Graph
	GraphKind string `json:"graph_kind,omitempty"`
	// the streamed form with MORE THAN ONE consumer (the stream is copied; every consumer concatenates the frames
	// it is given): "" = not exercised, branch = tools node -> branch with an ordinary condition -> ordinary node
	// (the ReAct shape), fanout = tools node -> two ordinary nodes, copy = StreamReader.Copy(2) of ToolsNode.Stream,
	// each copy concatenated
	Fan string `json:"fan,omitempty"`
	// the shared-node run of the streamed form CONSUMED LATE: Stream returns its stream, then the later call on the
	// same node (an unrelated message: other calls, other ids) runs to completion, and only then are the frames of
	// the first stream read (what a stream carries - ids, positions, contents - is fixed when Stream returns it,
	// whatever the node does afterwards)
	Lazy bool `json:"lazy,omitempty"`
	// what the calls of the shared runs share: "" = one ToolsNode called directly, graph = one COMPILED graph
	// (Graph / Workflow / nested, as graph_kind says) hosting the node: the first calls on the freshly compiled
	// object run concurrently, the later call is another run of the same compiled object
	SharedIn string `json:"shared_in,omitempty"`
	// what the caller does with the *ToolsNodeConfig VALUE it handed to NewToolNode, after NewToolNode has returned
	// and before the node's first call (the node is what its configuration was when it was created; the value stays
	// the caller's, e.g. to derive the configuration of a second node from it): "" = nothing, flip = the
	// unknown-tool handler is replaced by the opposite setting (removed if there was one; another node's handler, which
	// answers every name, if there was none), every entry of the tool slice is overwritten by another node's tool
	// of the same name, and a second node is built from the edited value; zero = the entries of the tool slice are
	// set to nil and the whole value to its zero value, and a second node is built from that
	ConfEdit string `json:"conf_edit,omitempty"`
}

// the assistant message as the chunks of a model's output stream (they concatenate to c.message())
func (c *Case) messageChunks() []*schema.Message {
	m := c.message()
	if c.InputSplit <= 1 {
		return []*schema.Message{m}
	}
	a := &schema.Message{Role: m.Role}
	b := &schema.Message{Role: m.Role}
	for i, tc := range m.ToolCalls {
		switch {
		case c.InputSplit == 2 && i%2 == 0:
			a.ToolCalls = append(a.ToolCalls, tc)
		case c.InputSplit == 2:
			b.ToolCalls = append(b.ToolCalls, tc)
		default:
			args := tc.Function.Arguments
			cut := len(args) / 2
			first, second := tc, tc
			first.Function.Arguments = args[:cut]
			second.ID, second.Type = "", ""
			second.Function = schema.FunctionCall{Arguments: args[cut:]}
			a.ToolCalls = append(a.ToolCalls, first)
			b.ToolCalls = append(b.ToolCalls, second)
		}
	}
	return []*schema.Message{a, b}
}

// one ToolsNodeOption
type NodeOpt struct {
	List  *[]ToolDef `json:"list,omitempty"`   // WithToolList(list...) (an empty list is passed as an empty non-nil slice)
	NoArg bool       `json:"no_arg,omitempty"` // WithToolList() without argument: a nil slice
	Tags  []string   `json:"tags,omitempty"`   // otherwise WithToolOption(tags...): a tag starting with "~" is an option of the other implementation-specific type (altOpt), any other a tagOpt
}

func (o NodeOpt) isList() bool { return o.List != nil || o.NoArg }

func (c *Case) optSeq() []NodeOpt {
	if c.OptSeq != nil {
		return c.OptSeq
	}
	var out []NodeOpt
	if c.CallTools != nil {
		out = append(out, NodeOpt{List: c.CallTools})
	}
	for _, l := range c.ToolOpts {
		out = append(out, NodeOpt{Tags: l})
	}
	return out
}

// the tool list the call brings (nil: none, the configured tools answer): the last WithToolList decides
func (c *Case) callList() *[]ToolDef {
	var l *[]ToolDef
	for _, o := range c.optSeq() {
		if o.isList() {
			l = o.List // nil for WithToolList()
		}
	}
	return l
}

// the tool list in force for the call
func (c *Case) effTools() []ToolDef {
	if l := c.callList(); l != nil {
		return *l
	}
	return c.Tools
}

func splitTag(t string) (int, string) {
	if strings.HasPrefix(t, "~") {
		return 2, t[1:]
	}
	return 1, t
}

// what a tool that reads the options of type ot sees
func (c *Case) tag(ot int) string {
	var b strings.Builder
	for _, o := range c.optSeq() {
		if o.isList() {
			continue
		}
		for _, t := range o.Tags {
			if ty, payload := splitTag(t); ty == ot {
				b.WriteString(payload)
			}
		}
	}
	return b.String()
}

type tagOpt struct{ tag string }

type altOpt struct{ tag string }

func withTag(s string) tool.Option {
	if ty, payload := splitTag(s); ty == 2 {
		return tool.WrapImplSpecificOptFn(func(o *altOpt) { o.tag += payload })
	}
	return tool.WrapImplSpecificOptFn(func(o *tagOpt) { o.tag += s })
}

// what an implementation whose option type is ot reads from the options it is handed
func tagOf(ot int, opts []tool.Option) string {
	switch ot {
	case 1:
		return tool.GetImplSpecificOptions(&tagOpt{}, opts...).tag
	case 2:
		return tool.GetImplSpecificOptions(&altOpt{}, opts...).tag
	}
	return ""
}

func (c *Case) nodeOptions(rc *recorder) ([]compose.ToolsNodeOption, error) {
	var out []compose.ToolsNodeOption
	for _, o := range c.optSeq() {
		switch {
		case o.List != nil:
			tools := []tool.BaseTool{}
			for _, d := range *o.List {
				t, err := buildTool(rc, d)
				if err != nil {
					return nil, err
				}
				tools = append(tools, t)
			}
			out = append(out, compose.WithToolList(tools...))
		case o.NoArg:
			out = append(out, compose.WithToolList())
		default:
			var os []tool.Option
			for _, t := range o.Tags {
				os = append(os, withTag(t))
			}
			out = append(out, compose.WithToolOption(os...))
		}
	}
	return out, nil
}

// the node options as call options of a graph that hosts the node under the key "tools"
func (c *Case) graphOptions(nopts []compose.ToolsNodeOption) []compose.Option {
	return c.graphOptionsIn(nopts, c.GraphKind == "nested")
}

func (c *Case) graphOptionsIn(nopts []compose.ToolsNodeOption, nested bool) []compose.Option {
	if len(nopts) == 0 {
		return nil
	}
	if c.GraphOpts == "" {
		return []compose.Option{compose.WithToolsNodeOption(nopts...)}
	}
	var out []compose.Option
	for i, o := range nopts {
		g := compose.WithToolsNodeOption(o)
		if c.GraphOpts == "designated" || (c.GraphOpts == "mixed" && i%2 == 0) {
			if nested {
				g = g.DesignateNodeWithPath(compose.NewNodePath("inner", "tools"))
			} else {
				g = g.DesignateNode("tools")
			}
		}
		out = append(out, g)
	}
	return out
}

// K = -1: arguments that no tool of the harness can parse (the tool fails before its body runs)
func argsOf(k int, s string) string {
	if k == -2 { // no arguments at all (what a model emits for a tool without parameters): not JSON, no tool can parse it
		return ""
	}
	if k < 0 {
		return `{"k":"x"}`
	}
	if s != "" {
		return fmt.Sprintf(`{"k":%d,"s":%s}`, k, quote(s))
	}
	return fmt.Sprintf(`{"k":%d}`, k)
}

const handlerErrCode = 199

// ---------------------------------------------------------------- tool implementations

type toolErr struct{ Code int }

func (e *toolErr) Error() string { return fmt.Sprintf("TOOLERR#%d#", e.Code) }

type toolPanic struct{ K int }

func (p toolPanic) String() string { return fmt.Sprintf("TOOLPANIC#%d#", p.K) }

type xcall struct {
	Name string `json:"name"`
	Args string `json:"args"`
	ID   string `json:"id"`
	Tag  string `json:"tag,omitempty"` // the tool options the execution was handed (as seen by a tool that looks)
}

// recorder of one run
type recorder struct {
	mu        sync.Mutex
	c         *Case
	started   []xcall
	completed []xcall
	producers sync.WaitGroup
	nprod     int
	nprodDone int
	nClosed   int       // producers that saw their stream closed by the consumer
	peer      *recorder // shared-node runs: the executions of the concurrent peer call (told apart by a ctx value) go here
}

type peerKey struct{}

// the recorder of the call an execution belongs to: the calls that share a node with the main call of a
// run (the concurrent peer call, the later call) carry their own recorder in their context
func (rc *recorder) pick(ctx context.Context) *recorder {
	if r, ok := ctx.Value(peerKey{}).(*recorder); ok && r != nil {
		return r
	}
	return rc
}

func (rc *recorder) begin(ctx context.Context, name, args, tag string) xcall {
	x := xcall{name, args, compose.GetToolCallID(ctx), tag}
	rc.mu.Lock()
	rc.started = append(rc.started, x)
	rc.mu.Unlock()
	return x
}
func (rc *recorder) done(x xcall) {
	rc.mu.Lock()
	rc.completed = append(rc.completed, x)
	rc.mu.Unlock()
}

func sleepUS(us int) {
	if us > 0 {
		time.Sleep(time.Duration(us) * time.Microsecond)
	}
}

// the delay of a tool that honours its context (the usual shape of a tool that waits for something)
func sleepCtx(ctx context.Context, us int, honour bool) error {
	if !honour {
		sleepUS(us)
		return nil
	}
	if us > 0 {
		t := time.NewTimer(time.Duration(us) * time.Microsecond)
		defer t.Stop()
		select {
		case <-t.C:
		case <-ctx.Done():
			return ctx.Err()
		}
	}
	return ctx.Err()
}

func (rc *recorder) behav(k int) (Behav, bool) {
	if k < 0 || k >= len(rc.c.Behavs) {
		return Behav{}, false
	}
	return rc.c.Behavs[k], true
}

func (b Behav) output(tag, name string) string {
	if b.Bare {
		return strings.Join(b.Chunks, "")
	}
	return tag + name + ":" + strings.Join(b.Chunks, "")
}

func (b Behav) outChunks(tag, name string) []string {
	if b.Bare {
		return append([]string{}, b.Chunks...)
	}
	return prefixFirst(tag+name, b.Chunks)
}

// panic with v from depth frames further down (the deeper the stack, the longer whoever recovers
// the panic takes to record it)
//
//go:noinline
func panicAt(depth int, v any) int {
	if depth <= 0 {
		panic(v)
	}
	return panicAt(depth-1, v) + 1
}

func (rc *recorder) invoke(ctx context.Context, name string, k int, s string, tag string) (string, error) {
	rc = rc.pick(ctx)
	x := rc.begin(ctx, name, argsOf(k, s), tag)
	defer rc.done(x)
	b, ok := rc.behav(k)
	if !ok {
		return "", &toolErr{7}
	}
	b = b.with(s)
	if err := sleepCtx(ctx, b.Delay, b.Ctx); err != nil {
		return "", err
	}
	if b.Panic {
		panicAt(b.Depth, toolPanic{k})
	}
	if b.Fail != 0 {
		return "", &toolErr{b.Fail}
	}
	return b.output(tag, name), nil
}

func prefixFirst(name string, cs []string) []string {
	out := append([]string{}, cs...)
	if len(out) > 0 {
		out[0] = name + ":" + out[0]
	}
	return out
}

func (rc *recorder) stream(ctx context.Context, name string, k int, s string, tag string) (*schema.StreamReader[string], error) {
	rc = rc.pick(ctx)
	x := rc.begin(ctx, name, argsOf(k, s), tag)
	defer rc.done(x)
	b, ok := rc.behav(k)
	if !ok {
		return nil, &toolErr{7}
	}
	b = b.with(s)
	if err := sleepCtx(ctx, b.Delay, b.Ctx); err != nil {
		return nil, err
	}
	if b.Panic {
		panicAt(b.Depth, toolPanic{k})
	}
	if b.Fail != 0 && b.FailAt < 0 {
		return nil, &toolErr{b.Fail}
	}
	chunks := b.outChunks(tag, name)
	var tail error
	if b.Fail != 0 {
		if b.FailAt < len(chunks) {
			chunks = chunks[:b.FailAt]
		}
		tail = &toolErr{b.Fail}
	}
	if b.Cap < 0 && tail == nil {
		return schema.StreamReaderFromArray(chunks), nil
	}
	cp := b.Cap
	if cp < 0 {
		cp = 0
	}
	sr, sw := schema.Pipe[string](cp)
	rc.mu.Lock()
	rc.nprod++
	rc.mu.Unlock()
	rc.producers.Add(1)
	go func() {
		defer rc.producers.Done()
		closed := false
		defer func() {
			sw.Close()
			rc.mu.Lock()
			rc.nprodDone++
			if closed {
				rc.nClosed++
			}
			rc.mu.Unlock()
		}()
		for _, c := range chunks {
			sleepUS(b.ChunkDelay)
			if sw.Send(c, nil) {
				closed = true
				return
			}
		}
		if tail != nil {
			sleepUS(b.ChunkDelay)
			if sw.Send("", tail) {
				closed = true
			}
		}
	}()
	return sr, nil
}

type argT struct {
	K int    `json:"k"`
	S string `json:"s,omitempty"`
}

func rawMarshal(_ context.Context, out interface{}) (string, error) {
	s, ok := out.(string)
	if !ok {
		return "", fmt.Errorf("harness: output is %T", out)
	}
	return s, nil
}

// hand-written tools
type rawBase struct {
	name string
	rc   *recorder
	ot   int // the option type it reads
}

func (t *rawBase) Info(context.Context) (*schema.ToolInfo, error) {
	return &schema.ToolInfo{Name: t.name, Desc: "raw " + t.name}, nil
}
func (t *rawBase) parse(args string) (argT, error) {
	var a argT
	if err := json.Unmarshal([]byte(args), &a); err != nil {
		return a, err
	}
	return a, nil
}

type rawInv struct{ rawBase }

func (t *rawInv) InvokableRun(ctx context.Context, args string, opts ...tool.Option) (string, error) {
	a, err := t.parse(args)
	if err != nil {
		return "", err
	}
	return t.rc.invoke(ctx, t.name, a.K, a.S, tagOf(t.ot, opts))
}

type rawStr struct{ rawBase }

func (t *rawStr) StreamableRun(ctx context.Context, args string, opts ...tool.Option) (*schema.StreamReader[string], error) {
	a, err := t.parse(args)
	if err != nil {
		return nil, err
	}
	return t.rc.stream(ctx, t.name, a.K, a.S, tagOf(t.ot, opts))
}

type rawBoth struct{ rawBase }

func (t *rawBoth) InvokableRun(ctx context.Context, args string, opts ...tool.Option) (string, error) {
	a, err := t.parse(args)
	if err != nil {
		return "", err
	}
	return t.rc.invoke(ctx, t.name, a.K, a.S, tagOf(t.ot, opts))
}
func (t *rawBoth) StreamableRun(ctx context.Context, args string, opts ...tool.Option) (*schema.StreamReader[string], error) {
	a, err := t.parse(args)
	if err != nil {
		return nil, err
	}
	return t.rc.stream(ctx, t.name, a.K, a.S, tagOf(t.ot, opts))
}

// a tool that is both, assembled from the two utils tools
type utilBoth struct {
	i tool.InvokableTool
	s tool.StreamableTool
}

func (t *utilBoth) Info(ctx context.Context) (*schema.ToolInfo, error) { return t.i.Info(ctx) }
func (t *utilBoth) InvokableRun(ctx context.Context, a string, o ...tool.Option) (string, error) {
	return t.i.InvokableRun(ctx, a, o...)
}
func (t *utilBoth) StreamableRun(ctx context.Context, a string, o ...tool.Option) (*schema.StreamReader[string], error) {
	return t.s.StreamableRun(ctx, a, o...)
}

type badInfo struct{}

func (badInfo) Info(context.Context) (*schema.ToolInfo, error) {
	return nil, errors.New("harness: no tool info")
}

// tools as struct values of a non-comparable type (they implement exactly the run interfaces of what they wrap)
type valInv struct {
	t   tool.InvokableTool
	pad []int
}

func (v valInv) Info(ctx context.Context) (*schema.ToolInfo, error) { return v.t.Info(ctx) }
func (v valInv) InvokableRun(ctx context.Context, a string, o ...tool.Option) (string, error) {
	return v.t.InvokableRun(ctx, a, o...)
}

type valStr struct {
	t   tool.StreamableTool
	pad []int
}

func (v valStr) Info(ctx context.Context) (*schema.ToolInfo, error) { return v.t.Info(ctx) }
func (v valStr) StreamableRun(ctx context.Context, a string, o ...tool.Option) (*schema.StreamReader[string], error) {
	return v.t.StreamableRun(ctx, a, o...)
}

type valBoth struct {
	i   tool.InvokableTool
	s   tool.StreamableTool
	pad []int
}

func (v valBoth) Info(ctx context.Context) (*schema.ToolInfo, error) { return v.i.Info(ctx) }
func (v valBoth) InvokableRun(ctx context.Context, a string, o ...tool.Option) (string, error) {
	return v.i.InvokableRun(ctx, a, o...)
}
func (v valBoth) StreamableRun(ctx context.Context, a string, o ...tool.Option) (*schema.StreamReader[string], error) {
	return v.s.StreamableRun(ctx, a, o...)
}

func buildTool(rc *recorder, d ToolDef) (tool.BaseTool, error) {
	t, err := buildTool0(rc, d)
	if err != nil || !d.Val || d.bad() {
		return t, err
	}
	i, isInv := t.(tool.InvokableTool)
	s, isStr := t.(tool.StreamableTool)
	switch {
	case isInv && isStr:
		return valBoth{i, s, []int{1}}, nil
	case isInv:
		return valInv{i, []int{1}}, nil
	case isStr:
		return valStr{s, []int{1}}, nil
	}
	return t, nil
}

func buildTool0(rc *recorder, d ToolDef) (tool.BaseTool, error) {
	name := d.Name
	if d.InfoErr {
		return badInfo{}, nil
	}
	if d.Kind == "none" {
		return &rawBase{name: name, rc: rc}, nil
	}
	ot := d.optType()
	invFn := func(ctx context.Context, in argT) (string, error) { return rc.invoke(ctx, name, in.K, in.S, "") }
	strFn := func(ctx context.Context, in argT) (*schema.StreamReader[string], error) {
		return rc.stream(ctx, name, in.K, in.S, "")
	}
	invOptFn := func(ctx context.Context, in argT, opts ...tool.Option) (string, error) {
		return rc.invoke(ctx, name, in.K, in.S, tagOf(ot, opts))
	}
	strOptFn := func(ctx context.Context, in argT, opts ...tool.Option) (*schema.StreamReader[string], error) {
		return rc.stream(ctx, name, in.K, in.S, tagOf(ot, opts))
	}
	// the usual style: the argument type is a pointer to a struct (utils builds the value to decode into by reflection)
	invPtrFn := func(ctx context.Context, in *argT) (string, error) {
		if in == nil {
			return "", errors.New("harness: nil arguments")
		}
		return rc.invoke(ctx, name, in.K, in.S, "")
	}
	strPtrFn := func(ctx context.Context, in *argT) (*schema.StreamReader[string], error) {
		if in == nil {
			return nil, errors.New("harness: nil arguments")
		}
		return rc.stream(ctx, name, in.K, in.S, "")
	}
	// ... or a map
	mapArgs := func(in map[string]any) (int, string, error) {
		k, ok := in["k"].(float64)
		if !ok {
			return 0, "", fmt.Errorf("harness: argument k is %T", in["k"])
		}
		s, _ := in["s"].(string)
		return int(k), s, nil
	}
	invMapFn := func(ctx context.Context, in map[string]any) (string, error) {
		k, s, err := mapArgs(in)
		if err != nil {
			return "", err
		}
		return rc.invoke(ctx, name, k, s, "")
	}
	strMapFn := func(ctx context.Context, in map[string]any) (*schema.StreamReader[string], error) {
		k, s, err := mapArgs(in)
		if err != nil {
			return nil, err
		}
		return rc.stream(ctx, name, k, s, "")
	}
	var mk []utils.Option
	if !d.jsonOut() {
		mk = append(mk, utils.WithMarshalOutput(rawMarshal)) // otherwise utils falls back to JSON
	}
	if d.Via == "newum" {
		mk = append(mk, utils.WithUnmarshalArguments(func(_ context.Context, args string) (interface{}, error) {
			var a argT
			if err := json.Unmarshal([]byte(args), &a); err != nil {
				return nil, err
			}
			return a, nil
		}))
	}
	mkInv := func() (tool.InvokableTool, error) {
		if d.Via == "inferopt" || d.Via == "inferopt2" {
			return utils.InferOptionableTool[argT, string](name, "inferred optionable "+name, invOptFn, mk...)
		}
		if d.Via == "infer" || d.Via == "inferjson" {
			return utils.InferTool[argT, string](name, "inferred "+name, invFn, mk...)
		}
		if d.Via == "inferptr" {
			return utils.InferTool[*argT, string](name, "inferred (pointer arguments) "+name, invPtrFn, mk...)
		}
		if d.Via == "newptr" {
			return utils.NewTool[*argT, string](&schema.ToolInfo{Name: name, Desc: "new (pointer arguments) " + name}, invPtrFn, mk...), nil
		}
		if d.Via == "newmap" {
			return utils.NewTool[map[string]any, string](&schema.ToolInfo{Name: name, Desc: "new (map arguments) " + name}, invMapFn, mk...), nil
		}
		return utils.NewTool[argT, string](&schema.ToolInfo{Name: name, Desc: "new " + name}, invFn, mk...), nil
	}
	mkStr := func() (tool.StreamableTool, error) {
		if d.Via == "inferopt" || d.Via == "inferopt2" {
			return utils.InferOptionableStreamTool[argT, string](name, "inferred optionable "+name, strOptFn, mk...)
		}
		if d.Via == "infer" || d.Via == "inferjson" {
			return utils.InferStreamTool[argT, string](name, "inferred "+name, strFn, mk...)
		}
		if d.Via == "inferptr" {
			return utils.InferStreamTool[*argT, string](name, "inferred (pointer arguments) "+name, strPtrFn, mk...)
		}
		if d.Via == "newptr" {
			return utils.NewStreamTool[*argT, string](&schema.ToolInfo{Name: name, Desc: "new (pointer arguments) " + name}, strPtrFn, mk...), nil
		}
		if d.Via == "newmap" {
			return utils.NewStreamTool[map[string]any, string](&schema.ToolInfo{Name: name, Desc: "new (map arguments) " + name}, strMapFn, mk...), nil
		}
		return utils.NewStreamTool[argT, string](&schema.ToolInfo{Name: name, Desc: "new " + name}, strFn, mk...), nil
	}
	if d.Via == "raw" || d.Via == "raw2" {
		base := rawBase{name: name, rc: rc, ot: ot}
		switch d.Kind {
		case "inv":
			return &rawInv{base}, nil
		case "str":
			return &rawStr{base}, nil
		default:
			return &rawBoth{base}, nil
		}
	}
	switch d.Kind {
	case "inv":
		return mkInv()
	case "str":
		return mkStr()
	default:
		i, err := mkInv()
		if err != nil {
			return nil, err
		}
		s, err := mkStr()
		if err != nil {
			return nil, err
		}
		return &utilBoth{i, s}, nil
	}
}

func buildNode(rc *recorder) (*compose.ToolsNode, error) {
	c := rc.c
	var tools []tool.BaseTool
	for _, d := range c.Tools {
		t, err := buildTool(rc, d)
		if err != nil {
			return nil, err
		}
		tools = append(tools, t)
	}
	conf := &compose.ToolsNodeConfig{Tools: tools}
	switch c.Handler {
	case "ok":
		conf.UnknownToolsHandler = func(ctx context.Context, name, input string) (string, error) {
			rc := rc.pick(ctx)
			x := rc.begin(ctx, name, input, "")
			defer rc.done(x)
			return "unk:" + name + ":" + input, nil
		}
	case "err":
		conf.UnknownToolsHandler = func(ctx context.Context, name, input string) (string, error) {
			rc := rc.pick(ctx)
			x := rc.begin(ctx, name, input, "")
			defer rc.done(x)
			return "", &toolErr{handlerErrCode}
		}
	case "panic":
		conf.UnknownToolsHandler = func(ctx context.Context, name, input string) (string, error) {
			rc := rc.pick(ctx)
			x := rc.begin(ctx, name, input, "")
			defer rc.done(x)
			sleepUS(300)
			panicAt(40, toolPanic{-1})
			return "", nil
		}
	}
	// (a panic of NewToolNode on a legal tool list is reported as "the node could not be built", not a harness crash)
	var tn *compose.ToolsNode
	var err error
	if p := lib.Recover(func() { tn, err = compose.NewToolNode(context.Background(), conf) }); p != nil {
		return nil, fmt.Errorf("NewToolNode panicked: %v", p)
	}
	if err == nil && c.ConfEdit != "" {
		editConfig(c.ConfEdit, conf)
	}
	return tn, err
}

// another node's tool: it answers the same name, with an output no tool of the case gives, and is not recorded
type foreignTool struct{ name string }

func (f *foreignTool) Info(context.Context) (*schema.ToolInfo, error) {
	return &schema.ToolInfo{Name: f.name, Desc: "another node's " + f.name}, nil
}
func (f *foreignTool) InvokableRun(context.Context, string, ...tool.Option) (string, error) {
	return "foreign:" + f.name, nil
}
func (f *foreignTool) StreamableRun(context.Context, string, ...tool.Option) (*schema.StreamReader[string], error) {
	return schema.StreamReaderFromArray([]string{"foreign:" + f.name}), nil
}

// The caller goes on using the configuration value it created the node from (see Case.ConfEdit). Nothing of this
// may show in the node: the edits are made to memory the caller owns (its struct, its slice), and what a node
// answers is decided by the configuration it was created with.
func editConfig(how string, conf *compose.ToolsNodeConfig) {
	switch how {
	case "flip":
		if conf.UnknownToolsHandler != nil {
			conf.UnknownToolsHandler = nil
		} else {
			conf.UnknownToolsHandler = func(_ context.Context, name, _ string) (string, error) {
				return "foreign-handler:" + name, nil
			}
		}
		for i, t := range conf.Tools {
			name := "zz"
			if t != nil {
				if info, err := t.Info(context.Background()); err == nil && info != nil {
					name = info.Name
				}
			}
			conf.Tools[i] = &foreignTool{name}
		}
	case "zero":
		for i := range conf.Tools {
			conf.Tools[i] = nil
		}
		*conf = compose.ToolsNodeConfig{}
	}
	// the second node the caller derives from the edited value (built and dropped)
	lib.Recover(func() { _, _ = compose.NewToolNode(context.Background(), conf) })
}

func (c *Case) message() *schema.Message {
	m := &schema.Message{Role: schema.Assistant}
	if !c.RoleOK {
		m.Role = schema.User
	}
	for i, cl := range c.Calls {
		idx := i
		m.ToolCalls = append(m.ToolCalls, schema.ToolCall{Index: &idx, ID: cl.ID, Type: "function",
			Function: schema.FunctionCall{Name: cl.Name, Arguments: cl.args()}})
	}
	return m
}

// ---------------------------------------------------------------- observations

type Msg struct {
	Content string `json:"content"`
	ID      string `json:"id"`
}

type Chunk struct {
	Pos     int    `json:"pos"`
	Content string `json:"content"`
	ID      string `json:"id"`
}

type RunObs struct {
	Mode      string  `json:"mode"`                // invoke | stream | concat
	Host      string  `json:"host"`                // standalone | graph
	ReadLate  bool    `json:"read_late,omitempty"` // the stream was read only after a later call on the same node had returned
	InGraph   bool    `json:"in_graph,omitempty"`  // a shared run whose calls go through one compiled graph hosting the node
	Entry     string  `json:"entry,omitempty"`     // graph-hosted: "" = Invoke / Stream, collect = Collect (mode concat: the graph runs in stream mode and concatenates its output itself), transform = Transform; the message arrives as a stream
	Class     string  `json:"class"`               // msgs | err | panic | chunks | hang | setup
	Msgs      []*Msg  `json:"msgs,omitempty"`
	Err       int     `json:"err,omitempty"`
	ErrAs     bool    `json:"err_as,omitempty"` // the error (call error or the stream's error item) unwraps to the tool's own error value (errors.As)
	ErrMsg    string  `json:"err_msg,omitempty"`
	Chunks    []Chunk `json:"chunks,omitempty"`
	Fin       *int    `json:"fin,omitempty"`   // stream ended with this error class (nil = EOF)
	CCls      string  `json:"ccls,omitempty"`  // none | msgs | err : framework concatenation of the received chunks
	CMsgs     []*Msg  `json:"cmsgs,omitempty"` // (nil entry = nil message)
	CErr      int     `json:"cerr,omitempty"`
	Disturbed string  `json:"disturbed,omitempty"` // "" = the answer (the received frames) read again after a LATER call on the same node had returned is what it was; otherwise what it had become
	rawMsgs   []*schema.Message
	rawFrames [][]*schema.Message
	CAgain    string  `json:"cagain,omitempty"` // "" = concatenating the same frames a second time (what a second consumer of a copied stream does) gave the same list; otherwise what it gave
	Pi        []int   `json:"pi"`
	Exec      []xcall `json:"exec"`
	Leaked    int     `json:"leaked,omitempty"` // tool stream producers still blocked after the run
}

var markerRe = regexp.MustCompile(`TOOLERR#(\d+)#`)

func classify(err error) int {
	var te *toolErr
	if errors.As(err, &te) {
		return te.Code
	}
	s := err.Error()
	if strings.Contains(s, "TOOLPANIC#") {
		return 4
	}
	if m := markerRe.FindStringSubmatch(s); m != nil {
		n, _ := strconv.Atoi(m[1])
		return n
	}
	return 0
}

func unwraps(err error) bool {
	var te *toolErr
	return errors.As(err, &te)
}

func short(s string) string {
	if len(s) > 160 {
		return s[:160] + "..."
	}
	return s
}

func msgsOf(ms []*schema.Message) []*Msg {
	out := make([]*Msg, len(ms))
	for i, m := range ms {
		if m != nil {
			c := m.Content
			if m.Role != schema.Tool {
				c = "<role " + string(m.Role) + ">" + c
			}
			out[i] = &Msg{c, m.ToolCallID}
		}
	}
	return out
}

// watchdog: run f on its own goroutine; (panic value, hung). A call that does not return within
// 10 s is given another 50 s before it is called a hang (the machine may be heavily loaded: a
// slow call is no observation about the implementation); after three genuine hangs the grace
// period is dropped.
var hangs int

func guarded(f func()) (p any, hung bool) {
	done := make(chan any, 1)
	go func() { done <- lib.Recover(f) }()
	select {
	case p = <-done:
		return p, false
	case <-time.After(10 * time.Second):
	}
	if hangs >= 3 {
		return nil, true
	}
	select {
	case p = <-done:
		return p, false
	case <-time.After(50 * time.Second):
		hangs++
		return nil, true
	}
}

func panicClass(p any) string {
	if _, ok := p.(toolPanic); ok {
		return "panic"
	}
	return "panic-other"
}

// read a stream of sparse message lists to EOF or to the first error item
func readChunks(sr *schema.StreamReader[[]*schema.Message], n int, sparse bool) (raw [][]*schema.Message, chunks []Chunk, fin *int, finMsg string, finAs bool) {
	defer sr.Close()
	for {
		ms, err := sr.Recv()
		if err == io.EOF {
			return
		}
		if err != nil {
			c := classify(err)
			return raw, chunks, &c, short(err.Error()), unwraps(err)
		}
		raw = append(raw, ms)
		cnt := 0
		for pos, m := range ms {
			if m != nil {
				cnt++
				c := m.Content
				if m.Role != schema.Tool {
					c = "<role " + string(m.Role) + ">" + c
				}
				chunks = append(chunks, Chunk{pos, c, m.ToolCallID})
			}
		}
		if sparse && (len(ms) != n || cnt != 1) {
			// not a sparse list of the node's shape: make it visible (the model rejects position 9999)
			chunks = append(chunks, Chunk{9999, fmt.Sprintf("len=%d set=%d", len(ms), cnt), ""})
		}
	}
}

func (o *RunObs) setConcat(raw [][]*schema.Message) {
	var out []*schema.Message
	var err error
	p := lib.Recover(func() {
		out, err = compose.VerifConcatStreamReader(schema.StreamReaderFromArray(raw))
	})
	switch {
	case p != nil:
		o.CCls, o.CErr = "err", 9998
	case err != nil:
		o.CCls, o.CErr = "err", classify(err)
	default:
		o.CCls, o.CMsgs = "msgs", msgsOf(out)
		// the frames of a copied stream are shared by its consumers: a second consumer concatenates the very
		// same frames, after the first one did
		var out2 []*schema.Message
		var err2 error
		p2 := lib.Recover(func() {
			out2, err2 = compose.VerifConcatStreamReader(schema.StreamReaderFromArray(raw))
		})
		switch {
		case p2 != nil:
			o.CAgain = "panic: " + short(fmt.Sprint(p2))
		case err2 != nil:
			o.CAgain = "error: " + short(err2.Error())
		case !msgsEqual(msgsOf(out2), o.CMsgs):
			o.CAgain = js(msgsOf(out2))
		}
	}
}

func derivePi(c *Case, completed []xcall) []int {
	used := make([]bool, len(c.Calls))
	var pi []int
	for _, x := range completed {
		for i, cl := range c.Calls {
			if !used[i] && cl.Name == x.Name && cl.args() == x.Args && cl.ID == x.ID {
				used[i] = true
				pi = append(pi, i)
				break
			}
		}
	}
	for i := range c.Calls {
		if !used[i] {
			pi = append(pi, i)
		}
	}
	return pi
}

// one call of the node / the compiled graph, observed
func observe(o *RunObs, mode string, n int, inv func() ([]*schema.Message, error),
	str func() (*schema.StreamReader[[]*schema.Message], error)) {
	var err error
	switch mode {
	case "invoke":
		var out []*schema.Message
		p, hung := guarded(func() { out, err = inv() })
		switch {
		case hung:
			o.Class = "hang"
		case p != nil:
			o.Class, o.ErrMsg = panicClass(p), short(fmt.Sprint(p))
		case err != nil:
			o.Class, o.Err, o.ErrMsg, o.ErrAs = "err", classify(err), short(err.Error()), unwraps(err)
		default:
			o.Class, o.Msgs, o.rawMsgs = "msgs", msgsOf(out), out
		}
	default:
		var sr *schema.StreamReader[[]*schema.Message]
		var raw [][]*schema.Message
		p, hung := guarded(func() {
			sr, err = str()
			if err == nil {
				raw, o.Chunks, o.Fin, o.ErrMsg, o.ErrAs = readChunks(sr, n, mode == "stream")
			}
		})
		switch {
		case hung:
			o.Class = "hang"
		case p != nil:
			o.Class, o.ErrMsg = panicClass(p), short(fmt.Sprint(p))
		case err != nil:
			o.Class, o.Err, o.ErrMsg, o.ErrAs = "err", classify(err), short(err.Error()), unwraps(err)
		default:
			o.Class = "chunks"
			o.rawFrames = raw
			if o.Fin == nil {
				o.setConcat(raw)
			} else {
				o.CCls = "none"
			}
		}
	}
}

// the streamed form consumed late: the stream is opened; `between` runs (other calls on the same node, to
// completion); only then are the frames read
func observeLate(o *RunObs, n int, str func() (*schema.StreamReader[[]*schema.Message], error), between func()) {
	var err error
	var sr *schema.StreamReader[[]*schema.Message]
	var raw [][]*schema.Message
	p, hung := guarded(func() { sr, err = str() })
	if !hung && p == nil {
		between()
		if err == nil {
			o.ReadLate = true
			p, hung = guarded(func() { raw, o.Chunks, o.Fin, o.ErrMsg, o.ErrAs = readChunks(sr, n, true) })
		}
	}
	switch {
	case hung:
		o.Class = "hang"
	case p != nil:
		o.Class, o.ErrMsg = panicClass(p), short(fmt.Sprint(p))
	case err != nil:
		o.Class, o.Err, o.ErrMsg, o.ErrAs = "err", classify(err), short(err.Error()), unwraps(err)
	default:
		o.Class = "chunks"
		o.rawFrames = raw
		if o.Fin == nil {
			o.setConcat(raw)
		} else {
			o.CCls = "none"
		}
	}
}

// let the tools that were started on goroutines finish (they always do: after a panic of the
// inline task the node does not wait for them), then take the execution record
var slowSettles int

func (rc *recorder) settle(o *RunObs, c *Case) {
	expect := 0
	if o.Class != "setup" {
		expect = c.bodies()
	}
	// (on a heavily loaded machine a goroutine may not be scheduled for a long time: up to 3 s as
	// long as that happens rarely, 200 ms once it has happened five times: then it is no accident)
	limit := 6000
	if slowSettles >= 5 {
		limit = 400
	}
	// the call returned every answer (the stream was read to its end): every body it was going to enter has been
	// entered, an execution that has not started by now will not start; what is awaited is only the return of
	// the bodies that are running
	complete := o.Class == "msgs" || (o.Class == "chunks" && o.Fin == nil)
	for w := 0; ; w++ {
		rc.mu.Lock()
		st, cp := len(rc.started), len(rc.completed)
		rc.mu.Unlock()
		if st == cp && (st == 0 || st >= expect || complete) {
			break
		}
		if w >= limit {
			slowSettles++
			break
		}
		time.Sleep(500 * time.Microsecond)
	}
	// producers of tool streams: give them a moment, count the ones still blocked
	pd := make(chan struct{})
	go func() { rc.producers.Wait(); close(pd) }()
	select {
	case <-pd:
	case <-time.After(10 * time.Millisecond):
	}
	rc.mu.Lock()
	o.Exec = append([]xcall{}, rc.started...)
	o.Pi = derivePi(c, rc.completed)
	o.Leaked = rc.nprod - rc.nprodDone
	rc.mu.Unlock()
	sort.Slice(o.Exec, func(i, j int) bool {
		a, b := o.Exec[i], o.Exec[j]
		if a.Name != b.Name {
			return a.Name < b.Name
		}
		if a.Args != b.Args {
			return a.Args < b.Args
		}
		if a.ID != b.ID {
			return a.ID < b.ID
		}
		return a.Tag < b.Tag
	})
}

// the number of calls whose tool body (or the unknown-tool handler) is entered if the message is accepted
func (c *Case) bodies() int {
	n := 0
	for _, cl := range c.Calls {
		if cl.K >= 0 || c.kindOf(cl.Name) == "" {
			n++
		}
	}
	return n
}

// the peer call of a shared-node run: the same ids, in the same positions, on other calls
// (the call list reversed; a single call gets another behaviour)
func (c *Case) peerCase() *Case {
	p := *c
	n := len(c.Calls)
	p.Calls = make([]Call, n)
	for i := range c.Calls {
		src := c.Calls[n-1-i]
		p.Calls[i] = Call{ID: c.Calls[i].ID, Name: src.Name, K: src.K}
	}
	if n == 1 && p.Calls[0].K >= 0 {
		p.Calls[0].K = (p.Calls[0].K + 1) % len(c.Behavs)
	}
	// ... and its own tool options (the same option sequence, every tag marked): what one call is given
	// must not show in the other
	if seq := c.optSeq(); len(seq) > 0 {
		p.CallTools, p.ToolOpts = nil, nil
		p.OptSeq = make([]NodeOpt, len(seq))
		for i, o := range seq {
			p.OptSeq[i] = o
			if !o.isList() {
				p.OptSeq[i].Tags = make([]string, len(o.Tags))
				for j, t := range o.Tags {
					p.OptSeq[i].Tags[j] = t + "'"
				}
			}
		}
	}
	return &p
}

// host: standalone | graph | shared (standalone, with a second call running concurrently on the same node)
func runOne(c *Case, mode, host string, entry ...string) (o RunObs, peer *RunObs, pc *Case, late *RunObs, lc *Case) {
	o.Mode, o.Host = mode, host
	if len(entry) > 0 {
		o.Entry = entry[0]
	}
	rc := &recorder{c: c}
	ctx := context.Background()
	tn, err := buildNode(rc)
	if err != nil {
		if anyBad(c.Tools) {
			// NewToolNode refuses the configuration: there is no node to call; every way of
			// using it is "an error, nothing runs"
			o.Class, o.Err, o.ErrMsg = "err", classify(err), short(err.Error())
			return
		}
		o.Class, o.ErrMsg = "setup", short(err.Error())
		return
	}
	msg := c.message()
	n := len(c.Calls)
	nopts, err := c.nodeOptions(rc)
	if err != nil {
		o.Class, o.ErrMsg = "setup", short(err.Error())
		return
	}

	var inv func() ([]*schema.Message, error)
	var str func() (*schema.StreamReader[[]*schema.Message], error)
	// the entry points another call (the concurrent peer, the later call) of a shared run goes through
	invOf := func(cctx context.Context, cc *Case, m *schema.Message, no []compose.ToolsNodeOption) func() ([]*schema.Message, error) {
		return func() ([]*schema.Message, error) { return tn.Invoke(cctx, m, no...) }
	}
	strOf := func(cctx context.Context, cc *Case, m *schema.Message, no []compose.ToolsNodeOption) func() (*schema.StreamReader[[]*schema.Message], error) {
		return func() (*schema.StreamReader[[]*schema.Message], error) { return tn.Stream(cctx, m, no...) }
	}
	hosted := host == "graph" || (host == "shared" && c.SharedIn == "graph")
	o.InGraph = hosted && host == "shared"
	if !hosted {
		inv = func() ([]*schema.Message, error) { return tn.Invoke(ctx, msg, nopts...) }
		str = func() (*schema.StreamReader[[]*schema.Message], error) { return tn.Stream(ctx, msg, nopts...) }
	} else {
		after := compose.InvokableLambda(func(_ context.Context, in []*schema.Message) ([]*schema.Message, error) {
			return in, nil
		})
		withAfter := mode == "concat" && o.Entry == ""
		var r compose.Runnable[*schema.Message, []*schema.Message]
		if c.GraphKind == "workflow" { // the node in a Workflow (all-predecessor / eager engine)
			wf := compose.NewWorkflow[*schema.Message, []*schema.Message]()
			wf.AddToolsNode("tools", tn).AddInput(compose.START)
			last := "tools"
			if withAfter {
				last = "after"
				wf.AddLambdaNode("after", after).AddInput("tools")
			}
			wf.End().AddInput(last)
			r, err = wf.Compile(ctx)
		} else {
			g := compose.NewGraph[*schema.Message, []*schema.Message]()
			last := "tools"
			err = g.AddToolsNode("tools", tn)
			if err == nil && withAfter {
				last = "after"
				err = g.AddLambdaNode("after", after)
				if err == nil {
					err = g.AddEdge("tools", "after")
				}
			}
			if err == nil {
				err = g.AddEdge(compose.START, "tools")
			}
			if err == nil {
				err = g.AddEdge(last, compose.END)
			}
			switch {
			case err != nil:
			case c.GraphKind == "nested": // the graph with the node is itself a node of an outer graph
				outer := compose.NewGraph[*schema.Message, []*schema.Message]()
				err = outer.AddGraphNode("inner", g)
				if err == nil {
					err = outer.AddEdge(compose.START, "inner")
				}
				if err == nil {
					err = outer.AddEdge("inner", compose.END)
				}
				if err == nil {
					r, err = outer.Compile(ctx)
				}
			default:
				r, err = g.Compile(ctx)
			}
		}
		if err != nil {
			o.Class, o.ErrMsg = "setup", short(err.Error())
			return
		}
		gopts := c.graphOptions(nopts)
		inv = func() ([]*schema.Message, error) { return r.Invoke(ctx, msg, gopts...) }
		str = func() (*schema.StreamReader[[]*schema.Message], error) { return r.Stream(ctx, msg, gopts...) }
		invOf = func(cctx context.Context, cc *Case, m *schema.Message, no []compose.ToolsNodeOption) func() ([]*schema.Message, error) {
			return func() ([]*schema.Message, error) { return r.Invoke(cctx, m, cc.graphOptions(no)...) }
		}
		strOf = func(cctx context.Context, cc *Case, m *schema.Message, no []compose.ToolsNodeOption) func() (*schema.StreamReader[[]*schema.Message], error) {
			return func() (*schema.StreamReader[[]*schema.Message], error) {
				return r.Stream(cctx, m, cc.graphOptions(no)...)
			}
		}
		if o.Entry != "" { // the stream-input entries: the graph concatenates the chunks in front of the tools node
			str = func() (*schema.StreamReader[[]*schema.Message], error) {
				return r.Transform(ctx, schema.StreamReaderFromArray(c.messageChunks()), gopts...)
			}
			if o.Entry == "collect" { // the graph runs in stream mode and concatenates its output: one list, or the error
				str = func() (*schema.StreamReader[[]*schema.Message], error) {
					out, err := r.Collect(ctx, schema.StreamReaderFromArray(c.messageChunks()), gopts...)
					if err != nil {
						return nil, err
					}
					return schema.StreamReaderFromArray([][]*schema.Message{out}), nil
				}
			}
		}
	}

	var peerDone chan struct{}
	if host == "shared" {
		pc = c.peerCase()
		rc.peer = &recorder{c: pc}
		peer = &RunObs{Mode: mode, Host: "shared-peer", InGraph: o.InGraph}
		pctx := context.WithValue(ctx, peerKey{}, rc.peer)
		pmsg := pc.message()
		peerDone = make(chan struct{})
		pnopts, perr := pc.nodeOptions(rc)
		if perr != nil {
			o.Class, o.ErrMsg = "setup", short(perr.Error())
			return
		}
		go func() {
			defer close(peerDone)
			observe(peer, mode, len(pc.Calls), invOf(pctx, pc, pmsg, pnopts), strOf(pctx, pc, pmsg, pnopts))
		}()
	}

	// ... and a LATER call on the same node, after the first two have returned: it is answered on its own
	// calls, tool list and tool options (nothing of an earlier call survives in the node), and what the
	// earlier call returned is not touched by it
	lazy := c.Lazy && host == "shared" && mode == "stream"
	runLate := func() bool {
		lc = c.lateCase()
		if lazy { // an unrelated message: other ids as well
			for i := range lc.Calls {
				lc.Calls[i].ID += "~"
			}
		}
		lrec := &recorder{c: lc}
		late = &RunObs{Mode: mode, Host: "shared-late", InGraph: o.InGraph}
		lctx := context.WithValue(ctx, peerKey{}, lrec)
		lmsg := lc.message()
		lnopts, lerr := lc.nodeOptions(rc)
		if lerr != nil {
			late, lc = nil, nil
			return false
		}
		observe(late, mode, len(lc.Calls), invOf(lctx, lc, lmsg, lnopts), strOf(lctx, lc, lmsg, lnopts))
		lrec.settle(late, lc)
		return true
	}
	if lazy {
		// the stream is opened, the concurrent peer call and then the later call run to their end, and only then
		// are the frames of the first stream read
		observeLate(&o, n, str, func() {
			<-peerDone
			runLate()
		})
	} else {
		observe(&o, mode, n, inv, str)
	}
	if peerDone != nil {
		<-peerDone
	}
	rc.settle(&o, c)
	if peer != nil {
		rc.peer.settle(peer, pc)
	}
	if host == "shared" && !lazy && (o.Class == "msgs" || o.Class == "chunks" || o.Class == "err") {
		if !runLate() {
			return
		}
		switch {
		case o.rawMsgs != nil:
			if now := msgsOf(o.rawMsgs); !msgsEqual(now, o.Msgs) {
				o.Disturbed = js(now)
			}
		case o.rawFrames != nil:
			var now []Chunk
			for _, ms := range o.rawFrames {
				for pos, m := range ms {
					if m != nil {
						ct := m.Content
						if m.Role != schema.Tool {
							ct = "<role " + string(m.Role) + ">" + ct
						}
						now = append(now, Chunk{pos, ct, m.ToolCallID})
					}
				}
			}
			var was []Chunk
			for _, ch := range o.Chunks {
				if ch.Pos != 9999 {
					was = append(was, ch)
				}
			}
			if js(now) != js(was) {
				o.Disturbed = js(now)
			}
		}
	}
	return
}

// the later call of a shared-node run: the peer's calls, its own tool options, and - if the call brings a tool
// list - either that list without its first tool (a name that only that tool answered is unknown to the later
// call) or, for an odd number of calls, no list at all (the configured tools answer again)
func (c *Case) lateCase() *Case {
	p := *c.peerCase()
	seq := p.optSeq()
	p.CallTools, p.ToolOpts, p.OptSeq = nil, nil, nil
	lastList := -1
	for i, o := range seq {
		if o.List != nil {
			lastList = i
		}
	}
	noList := len(c.Calls)%2 == 1
	for i, o := range seq {
		if o.isList() && noList {
			continue
		}
		if !o.isList() {
			tags := make([]string, len(o.Tags))
			for j, t := range o.Tags {
				tags[j] = t + "'"
			}
			o.Tags = tags
		}
		if i == lastList && len(*o.List) > 0 {
			l := append([]ToolDef{}, (*o.List)[1:]...)
			o.List = &l
		}
		p.OptSeq = append(p.OptSeq, o)
	}
	return &p
}

// The streamed form with several consumers: the node's output stream is copied (by the graph, for a
// branch condition and the selected node, or for two successors; or by the caller, StreamReader.Copy)
// and every consumer concatenates the frames it is given. Each consumer must receive the list Invoke
// returns. One observation per consumer (mode concat), all with the run's executions.
func runFan(c *Case) []RunObs {
	host := "graph"
	if c.Fan == "copy" {
		host = "standalone"
	}
	mk := func(consumer string) RunObs {
		return RunObs{Mode: "concat", Host: host, Entry: "fan:" + c.Fan + ":" + consumer}
	}
	rc := &recorder{c: c}
	ctx := context.Background()
	one := mk("all")
	tn, err := buildNode(rc)
	if err != nil {
		if anyBad(c.Tools) {
			one.Class, one.Err, one.ErrMsg = "err", classify(err), short(err.Error())
		} else {
			one.Class, one.ErrMsg = "setup", short(err.Error())
		}
		return []RunObs{one}
	}
	msg := c.message()
	nopts, err := c.nodeOptions(rc)
	if err != nil {
		one.Class, one.ErrMsg = "setup", short(err.Error())
		return []RunObs{one}
	}
	gopts := c.graphOptionsIn(nopts, false)

	type view struct {
		who  string
		msgs []*Msg
	}
	var mu sync.Mutex
	var views []view
	see := func(who string, in []*schema.Message) {
		ms := msgsOf(in) // what the consumer sees when it is handed the list
		mu.Lock()
		views = append(views, view{who, ms})
		mu.Unlock()
	}
	ident := func(who string) *compose.Lambda {
		return compose.InvokableLambda(func(_ context.Context, in []*schema.Message) ([]*schema.Message, error) {
			see(who, in)
			return in, nil
		})
	}
	keyed := func(who string) *compose.Lambda {
		return compose.InvokableLambda(func(_ context.Context, in []*schema.Message) (map[string]any, error) {
			see(who, in)
			return map[string]any{who: in}, nil
		})
	}

	var run func() error
	switch c.Fan {
	case "branch":
		g := compose.NewGraph[*schema.Message, []*schema.Message]()
		err = g.AddToolsNode("tools", tn)
		if err == nil {
			err = g.AddLambdaNode("next", ident("selected-node"))
		}
		if err == nil {
			err = g.AddLambdaNode("other", ident("other-node"))
		}
		if err == nil {
			err = g.AddEdge(compose.START, "tools")
		}
		if err == nil {
			err = g.AddBranch("tools", compose.NewGraphBranch(func(_ context.Context, in []*schema.Message) (string, error) {
				see("branch-condition", in)
				return "next", nil
			}, map[string]bool{"next": true, "other": true}))
		}
		if err == nil {
			err = g.AddEdge("next", compose.END)
		}
		if err == nil {
			err = g.AddEdge("other", compose.END)
		}
		var r compose.Runnable[*schema.Message, []*schema.Message]
		if err == nil {
			r, err = g.Compile(ctx)
		}
		run = func() error {
			sr, err := r.Stream(ctx, msg, gopts...)
			if err != nil {
				return err
			}
			out, err := compose.VerifConcatStreamReader(sr)
			if err != nil {
				return err
			}
			see("output", out)
			return nil
		}
	case "fanout":
		var r compose.Runnable[*schema.Message, map[string]any]
		if c.GraphKind == "workflow" {
			wf := compose.NewWorkflow[*schema.Message, map[string]any]()
			wf.AddToolsNode("tools", tn).AddInput(compose.START)
			wf.AddLambdaNode("a", ident("successor-a")).AddInput("tools")
			wf.AddLambdaNode("b", ident("successor-b")).AddInput("tools")
			wf.End().AddInput("a", compose.ToField("successor-a")).AddInput("b", compose.ToField("successor-b"))
			r, err = wf.Compile(ctx)
		} else {
			g := compose.NewGraph[*schema.Message, map[string]any]()
			err = g.AddToolsNode("tools", tn)
			if err == nil {
				err = g.AddLambdaNode("a", keyed("successor-a"))
			}
			if err == nil {
				err = g.AddLambdaNode("b", keyed("successor-b"))
			}
			for _, e := range [][2]string{{compose.START, "tools"}, {"tools", "a"}, {"tools", "b"}, {"a", compose.END}, {"b", compose.END}} {
				if err == nil {
					err = g.AddEdge(e[0], e[1])
				}
			}
			if err == nil {
				r, err = g.Compile(ctx)
			}
		}
		run = func() error {
			sr, err := r.Stream(ctx, msg, gopts...)
			if err != nil {
				return err
			}
			defer sr.Close()
			for {
				m, err := sr.Recv()
				if err == io.EOF {
					return nil
				}
				if err != nil {
					return err
				}
				keys := make([]string, 0, len(m))
				for k := range m {
					keys = append(keys, k)
				}
				sort.Strings(keys)
				for _, k := range keys {
					if l, ok := m[k].([]*schema.Message); ok {
						see("output["+k+"]", l)
					}
				}
			}
		}
	default: // copy
		run = func() error {
			sr, err := tn.Stream(ctx, msg, nopts...)
			if err != nil {
				return err
			}
			var first error
			for i, cp := range sr.Copy(2) {
				out, err := compose.VerifConcatStreamReader(cp)
				if err != nil {
					if first == nil {
						first = err
					}
					continue
				}
				see(fmt.Sprintf("copy-%d", i), out)
			}
			return first
		}
	}
	if err != nil {
		one.Class, one.ErrMsg = "setup", short(err.Error())
		return []RunObs{one}
	}

	var runErr error
	p, hung := guarded(func() { runErr = run() })
	var out []RunObs
	switch {
	case hung:
		one.Class = "hang"
		out = []RunObs{one}
	case p != nil:
		one.Class, one.ErrMsg = panicClass(p), short(fmt.Sprint(p))
		out = []RunObs{one}
	case runErr != nil:
		one.Class, one.Err, one.ErrMsg, one.ErrAs = "err", classify(runErr), short(runErr.Error()), unwraps(runErr)
		out = []RunObs{one}
	default:
		mu.Lock()
		sort.SliceStable(views, func(i, j int) bool { return views[i].who < views[j].who })
		for _, v := range views {
			o := mk(v.who)
			o.Class, o.CCls, o.CMsgs = "chunks", "msgs", v.msgs
			for pos, m := range v.msgs {
				if m != nil {
					o.Chunks = append(o.Chunks, Chunk{pos, m.Content, m.ID})
				}
			}
			out = append(out, o)
		}
		mu.Unlock()
		if len(out) == 0 { // nobody was handed anything
			one.Class = "unclassified"
			out = []RunObs{one}
		}
	}
	rc.settle(&out[0], c)
	for i := range out {
		out[i].Pi, out[i].Exec, out[i].Leaked = out[0].Pi, out[0].Exec, out[0].Leaked
	}
	return out
}

// ---------------------------------------------------------------- Gallina printing

// Coq elaborates a string literal character by character (nine constructors each), which
// dominates the cost of a cases file; every distinct string of a case is therefore bound once
// by a let in front of the case term.
type interner struct {
	names map[string]string
	order []string
}

var cur *interner

func S(s string) string {
	if cur == nil {
		return lib.CoqStr(s)
	}
	if n, ok := cur.names[s]; ok {
		return n
	}
	n := fmt.Sprintf("s%d", len(cur.order))
	cur.names[s] = n
	cur.order = append(cur.order, s)
	return n
}

func sList(ss []string) string {
	items := make([]string, len(ss))
	for i, x := range ss {
		items[i] = S(x)
	}
	return lib.CoqList(items)
}

func (in *interner) wrap(term string) string {
	var b strings.Builder
	b.WriteString("(")
	for i, s := range in.order {
		fmt.Fprintf(&b, "let s%d := %s in ", i, lib.CoqStr(s))
	}
	b.WriteString(term)
	b.WriteString(")")
	return b.String()
}

func coqMsg(m *Msg) string { return lib.CoqApp("M", S(m.Content), S(m.ID)) }

func coqOptMsgs(ms []*Msg) string {
	items := make([]string, len(ms))
	for i, m := range ms {
		if m == nil {
			items[i] = "NoMsg"
		} else {
			items[i] = coqMsg(m)
		}
	}
	return lib.CoqList(items)
}

func coqNatList(xs []int) string {
	items := make([]string, len(xs))
	for i, x := range xs {
		items[i] = lib.CoqNat(x)
	}
	return lib.CoqList(items)
}

func coqExec(xs []xcall) string {
	items := make([]string, len(xs))
	for i, x := range xs {
		items[i] = lib.CoqApp("X", S(x.Name), S(x.Args), S(x.ID), S(x.Tag))
	}
	return lib.CoqList(items)
}

func (o *RunObs) coqConcat() string {
	switch o.CCls {
	case "msgs":
		return lib.CoqApp("CMsgs", coqOptMsgs(o.CMsgs))
	case "err":
		return lib.CoqApp("CErr", lib.CoqN(uint64(o.CErr)))
	}
	return "CNone"
}

// "" if the run cannot be expressed as a model observation (hang, foreign panic, setup error)
func (o *RunObs) coq() string {
	host := "HStandalone" // also for "shared": the concurrent peer call must not matter
	if o.Host == "graph" || o.InGraph {
		host = "HGraph"
	}
	pi, ex := coqNatList(o.Pi), coqExec(o.Exec)
	switch o.Mode {
	case "invoke":
		var ob string
		switch o.Class {
		case "msgs":
			ob = lib.CoqApp("IMsgs", coqOptMsgs(o.Msgs))
		case "err":
			ob = lib.CoqApp("IErr", lib.CoqN(uint64(o.Err)))
		case "panic":
			ob = "IPanic"
		default:
			return ""
		}
		return lib.CoqApp("RInvoke", host, pi, ob, ex)
	case "stream":
		var ob string
		switch o.Class {
		case "chunks":
			items := make([]string, len(o.Chunks))
			for i, c := range o.Chunks {
				items[i] = lib.CoqApp("Ch", lib.CoqNat(c.Pos), S(c.Content), S(c.ID))
			}
			fin := "None"
			if o.Fin != nil {
				fin = lib.CoqSome(lib.CoqN(uint64(*o.Fin)))
			}
			ob = lib.CoqApp("SChunks", lib.CoqList(items), fin, o.coqConcat())
		case "err":
			ob = lib.CoqApp("SCallErr", lib.CoqN(uint64(o.Err)))
		case "panic":
			ob = "SCallPanic"
		default:
			return ""
		}
		return lib.CoqApp("RStream", host, pi, ob, ex)
	default: // concat: the graph's output is one chunk (what the lambda received) or an error
		var ob string
		switch o.Class {
		case "chunks":
			if o.Fin != nil {
				ob = lib.CoqApp("CErr", lib.CoqN(uint64(*o.Fin)))
			} else {
				ob = o.coqConcat()
			}
		case "err":
			ob = lib.CoqApp("CErr", lib.CoqN(uint64(o.Err)))
		default:
			return ""
		}
		return lib.CoqApp("RConcat", pi, ob, ex)
	}
}

func (c *Case) coq(runs []string) string {
	tdefs := func(l []ToolDef) string {
		items := make([]string, len(l))
		for i, t := range l {
			k := map[string]string{"inv": "(Some KInv)", "str": "(Some KStr)", "both": "(Some KBoth)", "none": "None"}[t.Kind]
			items[i] = lib.CoqApp("T", S(t.Name), k, lib.CoqN(uint64(t.optType())), lib.CoqBool(t.jsonOut()), lib.CoqBool(!t.InfoErr))
		}
		return lib.CoqList(items)
	}
	var nopts []string
	for _, o := range c.optSeq() {
		switch {
		case o.List != nil:
			nopts = append(nopts, lib.CoqApp("NList", lib.CoqSome(tdefs(*o.List))))
		case o.NoArg:
			nopts = append(nopts, "(NList None)")
		default:
			tags := make([]string, len(o.Tags))
			for i, t := range o.Tags {
				ty, payload := splitTag(t)
				tags[i] = lib.CoqApp("TG", lib.CoqN(uint64(ty)), S(payload))
			}
			nopts = append(nopts, lib.CoqApp("NOpts", lib.CoqList(tags)))
		}
	}
	// the tools as functions of the argument string: one row per behaviour (arguments {"k":K}) and one per
	// distinct argument string with the optional field that a call of the case carries
	var tbl []string
	row := func(args string, b Behav) {
		failat := "None"
		if b.FailAt >= 0 {
			failat = lib.CoqSome(lib.CoqNat(b.FailAt))
		}
		tbl = append(tbl, lib.CoqApp("B", S(args),
			lib.CoqApp("mkB", sList(b.Chunks), lib.CoqN(uint64(b.Fail)), failat, lib.CoqBool(b.Panic), lib.CoqBool(b.Bare))))
	}
	for i, b := range c.Behavs {
		row(argsOf(i, ""), b)
	}
	seenArgs := map[string]bool{}
	for _, cl := range c.Calls {
		if cl.K >= 0 && cl.S != "" && !seenArgs[cl.args()] {
			seenArgs[cl.args()] = true
			row(cl.args(), c.Behavs[cl.K].with(cl.S))
		}
	}
	h := map[string]string{"": "HNone", "ok": "HOk", "err": fmt.Sprintf("(HErr %d%%N)", handlerErrCode), "panic": "HPanic"}[c.Handler]
	calls := make([]string, len(c.Calls))
	for i, cl := range c.Calls {
		calls[i] = lib.CoqApp("mkCall", S(cl.ID), S(cl.Name), S(cl.args()))
	}
	return lib.CoqApp("mkCase", tdefs(c.Tools), lib.CoqList(nopts), lib.CoqList(tbl), h, lib.CoqBool(c.RoleOK),
		lib.CoqList(calls), lib.CoqList(runs))
}

// ---------------------------------------------------------------- direct oracle (property text, in Go)

type spec struct {
	pre      bool     // the node must reject the message before running anything (role, no call, unknown without handler)
	errs     []int    // error classes of all failing calls (4 = panic)
	panics   bool     // some called tool panics
	msgs     []*Msg   // the answer when nothing fails
	tags     []string // per call: the option tag its execution must be handed
	inDomain bool     // stream = invoke is claimed (no called streamable execution without a chunk; "both" tools consistent)
	first    int      // error class of the lowest-index call that fails when it is called (-1 = none): the call's error
	firstIdx int
	mid      []int // error classes delivered as error items of natively streamed executions
}

// kind and option type of the tool a name resolves to in the tool list in force ("" = unknown)
func (c *Case) lookup(name string) (kind string, ot int) {
	for _, t := range c.effTools() {
		if t.Name == name {
			kind, ot = t.Kind, t.optType() // the last one wins, as in a Go map
		}
	}
	return
}

func (c *Case) kindOf(name string) string { k, _ := c.lookup(name); return k }

// the tool a name resolves to in the list in force (zero value: unknown)
func (c *Case) toolOf(name string) (d ToolDef) {
	for _, t := range c.effTools() {
		if t.Name == name {
			d = t
		}
	}
	return
}

func (c *Case) spec(streamed bool) spec {
	s := spec{inDomain: true, first: -1, firstIdx: -1}
	if !c.RoleOK || len(c.Calls) == 0 || anyBad(c.Tools) || anyBad(c.effTools()) {
		s.pre = true
		return s
	}
	for _, cl := range c.Calls {
		if c.kindOf(cl.Name) == "" && c.Handler == "" {
			s.pre = true
			return s
		}
	}
	callFails := func(i, code int) {
		if s.first < 0 {
			s.first, s.firstIdx = code, i
		}
	}
	for i, cl := range c.Calls {
		kind, ot := c.lookup(cl.Name)
		if kind == "" {
			if c.Handler == "err" {
				s.errs = append(s.errs, handlerErrCode)
				callFails(i, handlerErrCode)
			}
			if c.Handler == "panic" {
				s.panics = true
				s.errs = append(s.errs, 4)
				callFails(i, 4)
			}
			s.msgs = append(s.msgs, &Msg{"unk:" + cl.Name + ":" + cl.args(), cl.ID})
			s.tags = append(s.tags, "")
			continue
		}
		tag := c.tag(ot) // the options of the type the tool reads, in the order given
		if cl.K < 0 {    // arguments the tool cannot parse: it fails when called, its body never runs
			s.errs = append(s.errs, 0)
			callFails(i, 0)
			s.msgs = append(s.msgs, nil)
			s.tags = append(s.tags, tag)
			continue
		}
		b := c.Behavs[cl.K].with(cl.S)
		if b.Panic {
			s.panics = true
			s.errs = append(s.errs, 4)
			callFails(i, 4)
		} else if b.Fail != 0 {
			s.errs = append(s.errs, b.Fail)
			if streamed && kind != "inv" && b.FailAt >= 0 {
				s.mid = append(s.mid, b.Fail) // the tool streams itself: the failure is an error item of its stream
			} else {
				callFails(i, b.Fail)
			}
		}
		if len(b.Chunks) == 0 {
			s.inDomain = false
		}
		out := b.output(tag, cl.Name)
		if d := c.toolOf(cl.Name); d.jsonOut() { // utils renders the output / every chunk as a JSON string
			if kind == "inv" {
				out = quote(out)
			} else {
				out = ""
				for _, ch := range b.outChunks(tag, cl.Name) {
					out += quote(ch)
				}
			}
		}
		s.msgs = append(s.msgs, &Msg{out, cl.ID})
		s.tags = append(s.tags, tag)
	}
	return s
}

func has(xs []int, x int) bool {
	for _, y := range xs {
		if y == x {
			return true
		}
	}
	return false
}

func msgsEqual(a, b []*Msg) bool {
	if len(a) != len(b) {
		return false
	}
	for i := range a {
		if (a[i] == nil) != (b[i] == nil) {
			return false
		}
		if a[i] != nil && *a[i] != *b[i] {
			return false
		}
	}
	return true
}

// oracle on one run; returns (what failed, signature)
func (c *Case) oracle(o *RunObs) (string, string) {
	s := c.spec(o.Mode != "invoke")
	tag := o.Mode + "/" + o.Host
	if o.InGraph {
		tag += "(the calls of this run share one compiled graph hosting the node)"
	}
	if o.ReadLate {
		tag += "(the stream was read after a later call on the same node, with other calls and ids, had returned)"
	}
	fan := strings.HasPrefix(o.Entry, "fan:")
	switch {
	case fan:
		tag += "(the node's stream has several consumers, " + o.Entry + ")"
	case o.Entry != "":
		tag += "(" + o.Entry + fmt.Sprintf(", the message arrives in %d chunks)", len(c.messageChunks()))
	}
	switch o.Class {
	case "hang":
		return tag + ": the call did not return within 10s", "hang"
	case "panic-other":
		return tag + ": panic that is not the tool's: " + o.ErrMsg, "foreign-panic"
	case "setup":
		return tag + ": the node / graph could not be built: " + o.ErrMsg, "setup"
	case "panic":
		if !s.panics {
			return tag + ": panic although no called tool panics", "foreign-panic"
		}
		if o.Host == "graph" || o.InGraph {
			return tag + ": a panicking tool escaped from the graph run as a panic", "panic-escaped-run"
		}
		return "", "" // standalone: there is no enclosing run; the panic reaches the caller (recorded)
	}
	// executions: every call exactly once, unless the message is rejected up front
	wantExec := c.bodies()
	if s.pre {
		wantExec = 0
	}
	// (a call that FAILS: the property asks for the failing tool's error, not that every sibling ran; no call is
	// executed twice, and none at all if the message is rejected)
	if len(o.Exec) > wantExec || (len(o.Exec) != wantExec && o.Class != "err") {
		return fmt.Sprintf("%s: %d tool executions for %d calls", tag, len(o.Exec), wantExec), "exec-count"
	}
	for _, x := range o.Exec {
		found := false
		for i, cl := range c.Calls {
			if cl.Name == x.Name && cl.args() == x.Args && cl.ID == x.ID && s.tags[i] == x.Tag {
				found = true
			}
		}
		if !found {
			return fmt.Sprintf("%s: execution %v matches no call (name, arguments, call id in ctx, tool options)", tag, x), "exec-foreign"
		}
	}
	if o.Disturbed != "" {
		was := js(o.Msgs)
		if o.Class == "chunks" {
			was = js(o.Chunks)
		}
		return fmt.Sprintf("%s: the call returned %s; after a LATER call on the same node had returned, the very same answer reads %s", tag, was, o.Disturbed), "answer-disturbed-by-later-call"
	}
	if o.CAgain != "" {
		return fmt.Sprintf("%s: the framework's concatenation of the received frames gave %s; concatenating the same frames once more (a second consumer of the copied stream) gives %s", tag, js(o.CMsgs), o.CAgain), "stream-concat-not-repeatable"
	}
	failing := s.pre || len(s.errs) > 0
	if !s.inDomain {
		return "", "" // a called tool streams no chunk at all: outside the property's domain (recorded, still sent to the model)
	}
	switch {
	case o.Class == "err":
		if !failing {
			return tag + ": error although every tool succeeds: " + o.ErrMsg, "spurious-error"
		}
		if !s.pre && !has(s.errs, o.Err) {
			return fmt.Sprintf("%s: failed with class %d which is no failing tool's error %v: %s", tag, o.Err, s.errs, o.ErrMsg), "wrong-error"
		}
		if !s.pre && s.first >= 0 && o.Err != s.first {
			return fmt.Sprintf("%s: failed with class %d, but the first call (in call order) that fails is call %d with class %d: %s", tag, o.Err, s.firstIdx, s.first, o.ErrMsg), "error-not-of-first-failing-call"
		}
		if !s.pre && s.first < 0 && !has(s.mid, o.Err) {
			return fmt.Sprintf("%s: the call failed with class %d although no call fails when called (error items: %v)", tag, o.Err, s.mid), "wrong-error"
		}
		if !s.pre && o.Err >= 100 && !o.ErrAs {
			return fmt.Sprintf("%s: the error does not unwrap to the failing tool's error value (errors.As): %s", tag, o.ErrMsg), "tool-error-not-unwrappable"
		}
		return "", ""
	case o.Class == "msgs":
		if failing {
			return tag + ": succeeded although a tool fails / the message must be rejected", "missed-failure"
		}
		if !msgsEqual(o.Msgs, s.msgs) {
			return fmt.Sprintf("%s: answer %s, expected %s", tag, js(o.Msgs), js(s.msgs)), "wrong-answer"
		}
		return "", ""
	case o.Class == "chunks":
		if s.pre {
			return tag + ": a stream was returned although the message must be rejected", "missed-failure"
		}
		if s.first >= 0 {
			return fmt.Sprintf("%s: a stream was returned although call %d fails when called (class %d)", tag, s.firstIdx, s.first), "missed-failure"
		}
		if o.Fin != nil {
			if !has(s.mid, *o.Fin) {
				return fmt.Sprintf("%s: stream ended with class %d which is no streaming tool's error item %v", tag, *o.Fin, s.mid), "wrong-error"
			}
			if *o.Fin >= 100 && !o.ErrAs {
				return fmt.Sprintf("%s: the stream's error item does not unwrap to the failing tool's error value (errors.As): %s", tag, o.ErrMsg), "tool-error-not-unwrappable"
			}
			return "", ""
		}
		// the stream ended normally: no tool may have failed (a call-time failure fails the call,
		// an error item ends the stream)
		if len(s.errs) > 0 {
			// a mid-stream failure of tool i is only observable if its stream is read to the item;
			// EOF of the merged stream means every source reached EOF, so this is a missed failure
			return tag + ": stream reached EOF although a tool fails", "missed-failure"
		}
		if !s.inDomain {
			return "", "" // a streamable tool without any chunk: outside the property's domain (recorded)
		}
		// independent position-wise concatenation of the received chunks
		got := make([]*Msg, len(c.Calls))
		for _, ch := range o.Chunks {
			if ch.Pos < 0 || ch.Pos >= len(got) {
				return fmt.Sprintf("%s: malformed chunk %v", tag, ch), "malformed-chunk"
			}
			if got[ch.Pos] == nil {
				got[ch.Pos] = &Msg{"", ch.ID}
			}
			if got[ch.Pos].ID != ch.ID {
				return fmt.Sprintf("%s: chunks of position %d carry different ids", tag, ch.Pos), "stream-id"
			}
			got[ch.Pos].Content += ch.Content
		}
		if fan && !msgsEqual(got, s.msgs) {
			return fmt.Sprintf("%s: this consumer received %s, expected (the Invoke answer) %s", tag, js(got), js(s.msgs)), "stream-concat-differs"
		}
		if !msgsEqual(got, s.msgs) {
			return fmt.Sprintf("%s: chunks concatenate to %s, expected %s", tag, js(got), js(s.msgs)), "stream-concat-differs"
		}
		if o.CCls != "msgs" || !msgsEqual(o.CMsgs, s.msgs) {
			return fmt.Sprintf("%s: the framework's concatenation gives %s/%d %s, expected %s", tag, o.CCls, o.CErr, js(o.CMsgs), js(s.msgs)), "stream-concat-differs"
		}
		return "", ""
	}
	return tag + ": unclassified observation " + o.Class, "unclassified"
}

func js(x any) string { b, _ := json.Marshal(x); return string(b) }

// ---------------------------------------------------------------- generator

var toolNames = []string{"ta", "tb", "tc", "td"}
var vias = []string{"infer", "new", "raw", "inferopt", "raw", "inferopt", "raw2", "inferopt2", "newum", "inferjson", "inferptr", "inferptr", "newptr", "newmap"}

func genTool(r *lib.Rng, name string) ToolDef {
	d := ToolDef{Name: name, Kind: r.Pick([]string{"inv", "str", "both"}), Via: r.Pick(vias)}
	if d.jsonOut() && d.Kind == "both" {
		d.Kind = r.Pick([]string{"inv", "str"})
	}
	d.Val = r.Chance(1, 6)
	return d
}

var tagPool = []string{"<o1>", "<o2>", "<x>", "", "~<a1>", "~<a2>", "~"}

// another way of building a tool with the same attitude towards its options
func sameSeesVia(r *lib.Rng, via string) string {
	switch via {
	case "raw", "inferopt":
		return r.Pick([]string{"raw", "inferopt"})
	case "raw2", "inferopt2":
		return r.Pick([]string{"raw2", "inferopt2"})
	case "inferjson":
		return via
	}
	return r.Pick([]string{"infer", "new", "newum", "inferptr", "newptr", "newmap"})
}

var unknownNames = []string{"zz", "yy", "TA", "tb ", "t"} // among them near misses of the tool names (case, trailing blank, prefix)
var optFieldPool = []string{"+s1", "+s2", "!", "+s1"}
var chunkPool = []string{"a", "b", "", "xy", "q ", "0", "W", "hello", ""}

func genCase(r *lib.Rng, tier string) *Case {
	maxCalls := 8
	if tier == "thorough" {
		maxCalls = 20
	} else if r.Chance(1, 12) {
		maxCalls = 14
	}
	c := &Case{RoleOK: true}
	nt := r.Range(1, 4)
	perm := r.Perm(len(toolNames))
	for i := 0; i < nt; i++ {
		c.Tools = append(c.Tools, genTool(r, toolNames[perm[i]]))
	}
	if r.Chance(1, 20) {
		// the same name twice in the configuration: same kind and same attitude towards options, built
		// another way, so that the answer does not depend on which of the two the node picks (the
		// property does not say; convTools keeps the later one)
		d := c.Tools[r.Intn(len(c.Tools))]
		d.Via = sameSeesVia(r, d.Via)
		c.Tools = append(c.Tools, d)
	}
	if r.Chance(1, 40) { // a tool NewToolNode cannot take
		i := r.Intn(len(c.Tools))
		if r.Chance(1, 2) {
			c.Tools[i].Kind = "none"
		} else {
			c.Tools[i].InfoErr = true
		}
	}
	names := []string{}
	for _, t := range c.Tools {
		names = append(names, t.Name)
	}
	if r.Chance(1, 30) {
		// a node configured with NO tool at all (every call is answered by the unknown-tool handler, by the tools
		// of the call's own list, or is an unknown name)
		c.Tools = nil
		names = names[:1]
	}
	genList := func() *[]ToolDef {
		l := []ToolDef{}
		if !r.Chance(1, 6) {
			p2 := r.Perm(len(toolNames))
			for i, m := 0, r.Range(1, 3); i < m; i++ {
				l = append(l, genTool(r, toolNames[p2[i]]))
				names = append(names, toolNames[p2[i]])
			}
		}
		if len(l) > 0 && r.Chance(1, 5) { // a tool the call's convTools cannot take
			i := r.Intn(len(l))
			if r.Chance(1, 2) {
				l[i].Kind = "none"
			} else {
				l[i].InfoErr = true
			}
		}
		return &l
	}
	var seq []NodeOpt
	if r.Chance(1, 5) { // WithToolList: the call brings its own tool set
		seq = append(seq, NodeOpt{List: genList()})
		if r.Chance(1, 3) { // ... and says so more than once: the last one decides
			if r.Chance(1, 2) {
				seq = append(seq, NodeOpt{NoArg: true}) // WithToolList(): back to the configured tools
			} else {
				seq = append(seq, NodeOpt{List: genList()})
			}
		}
	} else if r.Chance(1, 30) {
		seq = append(seq, NodeOpt{NoArg: true})
	}
	if r.Chance(1, 3) { // WithToolOption
		for i, m := 0, r.Range(1, 3); i < m; i++ {
			l := []string{}
			for j, m2 := 0, r.Range(0, 2); j < m2; j++ {
				l = append(l, r.Pick(tagPool))
			}
			// anywhere among the options given so far (their order among themselves is kept)
			at := r.Intn(len(seq) + 1)
			if r.Chance(1, 2) {
				at = len(seq)
			}
			seq = append(seq[:at], append([]NodeOpt{{Tags: l}}, seq[at:]...)...)
		}
	}
	if len(seq) > 0 {
		c.OptSeq = seq
		c.GraphOpts = r.Pick([]string{"", "", "split", "designated", "mixed"})
	}
	faults := r.Chance(1, 2)
	zero := r.Chance(1, 25)
	nb := r.Range(1, 6)
	for k := 0; k < nb; k++ {
		b := Behav{FailAt: -1, Cap: []int{-1, 0, 0, 1, 8}[r.Intn(5)]}
		nc := r.Range(1, 4)
		for j := 0; j < nc; j++ {
			b.Chunks = append(b.Chunks, r.Pick(chunkPool))
		}
		if zero && r.Chance(1, 3) {
			b.Chunks = []string{}
		}
		if r.Chance(1, 6) {
			b.Bare = true
			if r.Chance(1, 2) { // a tool that answers the empty string, in one or several empty chunks
				for j := range b.Chunks {
					b.Chunks[j] = ""
				}
			}
		}
		switch r.Intn(4) {
		case 0:
		case 1:
			b.Delay = r.Intn(200)
		default:
			b.Delay = r.Intn(800)
		}
		b.ChunkDelay = []int{0, 0, 50, 200}[r.Intn(4)]
		b.Ctx = r.Chance(1, 2)
		if faults {
			switch {
			case r.Chance(1, 5):
				b.Fail = 100 + k
				if r.Chance(1, 2) {
					b.FailAt = r.Intn(len(b.Chunks) + 1)
				}
			case r.Chance(1, 10):
				b.Panic = true
				b.Depth = []int{0, 0, 40, 300}[r.Intn(4)]
			}
		}
		c.Behavs = append(c.Behavs, b)
	}
	n := r.Range(1, maxCalls)
	if r.Chance(1, 4) {
		n = 1
	}
	unknown := r.Chance(1, 6)
	dupIDs := r.Chance(1, 15)
	optField := r.Chance(1, 3) // some calls carry the optional argument field
	for i := 0; i < n; i++ {
		cl := Call{ID: fmt.Sprintf("c%d", i), Name: names[r.Intn(len(names))], K: r.Intn(nb)}
		if optField && r.Chance(1, 2) {
			cl.S = r.Pick(optFieldPool)
		}
		if unknown && r.Chance(1, 3) {
			cl.Name = r.Pick(unknownNames)
		}
		if dupIDs && r.Chance(1, 2) {
			cl.ID = r.Pick([]string{"", "c0", "dup"})
		}
		c.Calls = append(c.Calls, cl)
	}
	if r.Chance(1, 25) { // arguments no tool can parse: malformed, or empty
		c.Calls[r.Intn(n)].K = -1 - r.Intn(2)
	}
	if unknown && r.Chance(1, 2) { // make sure at least one unknown call exists
		c.Calls[r.Intn(n)].Name = r.Pick(unknownNames)
	}
	switch {
	case unknown:
		c.Handler = []string{"", "ok", "ok", "err", "", "ok", "err", "panic"}[r.Intn(8)]
	case r.Chance(1, 4):
		c.Handler = "ok"
	}
	if r.Chance(1, 50) {
		c.RoleOK = false
	}
	if r.Chance(1, 3) {
		c.InputSplit = r.Range(1, 3)
	}
	c.GraphKind = r.Pick([]string{"", "", "workflow", "nested"})
	if r.Chance(1, 50) {
		c.Calls = nil
	}
	c.Fan = r.Pick([]string{"branch", "fanout", "copy", "branch", "fanout", ""})
	c.Lazy = r.Chance(1, 2)
	if r.Chance(1, 2) {
		c.SharedIn = "graph"
	}
	c.ConfEdit = r.Pick([]string{"flip", "flip", "zero", ""})
	return c
}

// ---------------------------------------------------------------- engine

type engine struct{}

func (engine) ID() string { return "C17" }
func (engine) CoqHeader() string {
	return "From Eino Require Import Base.Util Model.Tools Model.ToolsPar Corr.C17.\n"
}
func (engine) CoqCaseType() string { return "ccase" }

func (engine) Generate(r *lib.Rng, tier string, i int) any { return genCase(r, tier) }

func (engine) Decode(raw json.RawMessage) (any, error) {
	c := &Case{RoleOK: true}
	if err := json.Unmarshal(raw, c); err != nil {
		return nil, err
	}
	for _, cl := range c.Calls {
		if cl.K < -2 || cl.K >= len(c.Behavs) {
			return nil, fmt.Errorf("call refers to behaviour %d of %d", cl.K, len(c.Behavs))
		}
	}
	if c.InputSplit < 0 || c.InputSplit > 3 {
		return nil, fmt.Errorf("input_split %d", c.InputSplit)
	}
	if c.GraphKind != "" && c.GraphKind != "workflow" && c.GraphKind != "nested" {
		return nil, fmt.Errorf("graph_kind %q", c.GraphKind)
	}
	if c.SharedIn != "" && c.SharedIn != "graph" {
		return nil, fmt.Errorf("shared_in %q", c.SharedIn)
	}
	switch c.Fan {
	case "", "branch", "fanout", "copy":
	default:
		return nil, fmt.Errorf("fan %q", c.Fan)
	}
	switch c.ConfEdit {
	case "", "flip", "zero":
	default:
		return nil, fmt.Errorf("conf_edit %q", c.ConfEdit)
	}
	lists := [][]ToolDef{c.Tools}
	for _, o := range c.optSeq() {
		if o.List != nil {
			lists = append(lists, *o.List)
		}
	}
	for _, l := range lists {
		for _, d := range l {
			if d.jsonOut() && d.Kind == "both" {
				return nil, fmt.Errorf("tool %s: a JSON-marshalling tool of kind both answers differently when invoked and when streamed", d.Name)
			}
		}
	}
	return c, nil
}

var runPlan = [][3]string{{"invoke", "standalone"}, {"stream", "standalone"}, {"invoke", "graph"}, {"stream", "graph"}, {"concat", "graph"},
	{"invoke", "shared"}, {"stream", "shared"}, {"concat", "graph", "collect"}, {"stream", "graph", "transform"}, {"concat", "graph", "fan"}}

// failures observed in an earlier execution of the same case: a schedule-dependent failure (a
// result published after the waiter was released, ...) need not show in every execution, and
// lib.Main executes a failing case again after shrinking
var sticky = map[string]lib.Result{}

func (e engine) Run(ci any) lib.Result {
	c := ci.(*Case)
	if os.Getenv(childEnv) != "" {
		return childProbes(c)
	}
	key := js(c)
	if prev, ok := sticky[key]; ok {
		return prev // a failure observed once on this case is the verdict on it
	}
	res := e.runCase(c)
	if res.Oracle != "" {
		sticky[key] = res
	}
	return res
}

// set while a failing case is being minimised
var (
	shrinkingFrom string // the failure being minimised (for the crash marker)
	invokeOnly    bool   // candidates are judged by the value-returning runs only
)

// a call that runs on a goroutine of the node (index >= 1) and panics, in a message the node accepts
func (c *Case) goroutinePanic() bool {
	if s := c.spec(false); s.pre {
		return false
	}
	for i, cl := range c.Calls {
		if i >= 1 && cl.K >= 0 && c.kindOf(cl.Name) != "" && c.Behavs[cl.K].Panic {
			return true
		}
		if i >= 1 && c.kindOf(cl.Name) == "" && c.Handler == "panic" {
			return true
		}
	}
	return false
}

// the same case under another schedule: the panicking executions finish last (the caller is
// already waiting for the goroutines when they panic), everything else answers at once
func (c *Case) panicLast() *Case {
	p := *c
	p.Behavs = append([]Behav{}, c.Behavs...)
	for i := range p.Behavs {
		b := &p.Behavs[i]
		b.ChunkDelay = 0
		if b.Panic {
			b.Delay = 600 + b.Delay%400
		} else if b.Delay > 60 {
			b.Delay = 60
		}
	}
	return &p
}

func (engine) runCase(c *Case) lib.Result {
	at, done := markRunning(c)
	defer done()
	res := lib.Result{}
	var obs []RunObs
	var terms []string
	sendable := true
	cur = &interner{names: map[string]string{}}
	defer func() { cur = nil }()
	// whether the panic error of a goroutine task is in its cell when the scan reads it depends on the
	// schedule, and a lost failure can take the whole process down (the streamed form dereferences the
	// missing stream; an unrecovered panic of a goroutine): such a case is first put, in a child
	// process, through repetitions of the value-returning and of the streamed call, half of them
	// under the schedule in which the panicking executions finish last; likewise its peer call of
	// the shared-node runs
	if c.goroutinePanic() || c.peerCase().goroutinePanic() {
		at("repeated calls in a child process")
		if w, sig, o := isolatedProbes(c); w != "" {
			res.Oracle, res.Sig = w, sig
			if o != nil {
				obs = append(obs, o...)
			}
		}
	}
	// the static tie of the protocol model: the order in which the goroutine of a task runs the tool,
	// the recover handler and wg.Done, as the source has it
	static, staticTag := "", ""
	if c.goroutinePanic() || c.peerCase().goroutinePanic() {
		prog, why := goroutineProg()
		switch {
		case prog == nil:
			staticTag = "static:goroutine-epilogue:unrecognised(" + why + ")"
		default:
			staticTag = "static:goroutine-epilogue:" + strings.Join(prog, ";")
			static = lib.CoqApp("RStatic", lib.CoqList(prog))
			if res.Oracle == "" && !progIsCode(prog) {
				res.Oracle = "parallelRunToolCall (source): a task's goroutine executes " + strings.Join(prog, "; ") +
					": wg.Done runs before the recover handler has stored the panic error, so the caller can pass wg.Wait and scan the cells while the error of a panicking call (here a call of index >= 1 panics) is not yet there (theorem tools_par_v0_refuted); the repeated runs of this case did not hit that schedule"
				res.Sig = "defer-order"
			}
		}
	}
	for _, p := range runPlan {
		if res.Oracle != "" {
			break
		}
		if invokeOnly && p[0] != "invoke" {
			sendable = false
			continue
		}
		if p[2] == "fan" {
			if c.Fan == "" {
				continue
			}
			at("concat/" + c.Fan + " (several consumers of the node's stream)")
			for _, o := range runFan(c) {
				obs = append(obs, o)
				if o.Class == "panic" && o.Host == "standalone" {
					continue // the inline task's panic reaches the caller of a standalone call: recorded, not compared
				}
				if t := o.coq(); t != "" {
					terms = append(terms, t)
				} else {
					sendable = false
				}
				if res.Oracle == "" {
					res.Oracle, res.Sig = c.oracle(&o)
				}
			}
			if res.Oracle != "" {
				sendable = false
				break
			}
			continue
		}
		if p[2] != "" && c.InputSplit == 0 {
			continue
		}
		at(p[0] + "/" + p[1] + p[2])
		o, peer, pc, late, lc := runOne(c, p[0], p[1], p[2])
		obs = append(obs, o)
		if t := o.coq(); t != "" {
			terms = append(terms, t)
		} else {
			sendable = false
		}
		if res.Oracle == "" {
			res.Oracle, res.Sig = c.oracle(&o)
		}
		if peer != nil {
			obs = append(obs, *peer)
			if res.Oracle == "" {
				res.Oracle, res.Sig = pc.oracle(peer)
			}
		}
		if late != nil {
			obs = append(obs, *late)
			if res.Oracle == "" {
				res.Oracle, res.Sig = lc.oracle(late)
			}
		}
		if res.Oracle != "" {
			// the verdict on this case is in; the remaining runs are not needed (and after a lost
			// failure the streamed form may take the process down)
			sendable = false
			break
		}
	}
	res.Obs = obs
	if sendable && res.Oracle == "" {
		if static != "" {
			terms = append(terms, static)
		}
		res.CoqTerm = cur.wrap(c.coq(terms))
	}
	// distribution
	kinds := map[string]bool{}
	viasCalled := map[string]bool{}
	unknown, fails, panics, zero, malformed := 0, 0, 0, 0, 0
	for _, cl := range c.Calls {
		k := c.kindOf(cl.Name)
		if k == "" {
			unknown++
			continue
		}
		kinds[k] = true
		viasCalled[c.toolOf(cl.Name).Via] = true
		if c.toolOf(cl.Name).Val {
			viasCalled["(a struct value of a non-comparable type)"] = true
		}
		if cl.K < 0 {
			malformed++
			continue
		}
		b := c.Behavs[cl.K]
		if b.Panic {
			panics++
		} else if b.Fail != 0 {
			fails++
		}
		if len(b.Chunks) == 0 {
			zero++
		}
	}
	ks := []string{}
	for k := range kinds {
		ks = append(ks, k)
	}
	sort.Strings(ks)
	res.Tags = []string{fmt.Sprintf("calls:%d", len(c.Calls)), "kinds:" + strings.Join(ks, "+"),
		"handler:" + map[string]string{"": "none", "ok": "ok", "err": "err", "panic": "panic"}[c.Handler],
		fmt.Sprintf("unknown:%v", unknown > 0), fmt.Sprintf("failing:%d", min(fails, 3)), fmt.Sprintf("panicking:%d", min(panics, 2))}
	if zero > 0 {
		res.Tags = append(res.Tags, "domain:zero-chunk-stream(outside)")
	}
	for v := range viasCalled {
		res.Tags = append(res.Tags, "called-tool-built-via:"+v)
	}
	nList, nOpt := 0, 0
	for _, o := range c.optSeq() {
		if o.isList() {
			nList++
		} else {
			nOpt++
		}
	}
	listTag := "none"
	switch l := c.callList(); {
	case l != nil && len(*l) == 0:
		listTag = "empty"
	case l != nil:
		listTag = "replaces"
	case nList > 0:
		listTag = "withdrawn(nil)"
	}
	res.Tags = append(res.Tags, fmt.Sprintf("callopt:toollist-options:%d", nList), "callopt:toollist:"+listTag,
		fmt.Sprintf("callopt:tooloptions:%d", nOpt), "callopt:graph-passing:"+map[string]string{"": "one"}[c.GraphOpts]+c.GraphOpts)
	if c.tag(1) != "" && c.tag(2) != "" {
		res.Tags = append(res.Tags, "callopt:two-option-types")
	}
	if !c.RoleOK {
		res.Tags = append(res.Tags, "malformed:role")
	}
	res.Tags = append(res.Tags, "graph-host:"+map[string]string{"": "graph", "workflow": "workflow", "nested": "nested-graph"}[c.GraphKind])
	res.Tags = append(res.Tags, "entries:collect+transform:"+[]string{"not-run", "one-chunk", "calls-over-two-chunks", "arguments-cut-in-two"}[c.InputSplit])
	res.Tags = append(res.Tags, "stream-consumers:"+map[string]string{"": "one", "branch": "branch-condition+selected-node", "fanout": "two-successors", "copy": "StreamReader.Copy(2)"}[c.Fan])
	if len(c.Tools) == 0 {
		res.Tags = append(res.Tags, "configured-tools:none")
	}
	res.Tags = append(res.Tags, "shared-runs-share:"+map[string]string{"": "the-node", "graph": "a-compiled-graph-hosting-the-node"}[c.SharedIn])
	res.Tags = append(res.Tags, "shared-node-stream-read:"+map[bool]string{false: "at-once", true: "after-the-later-call"}[c.Lazy])
	res.Tags = append(res.Tags, "callers-config-value-after-NewToolNode:"+map[string]string{"": "untouched", "flip": "handler-flipped+tools-overwritten", "zero": "zeroed"}[c.ConfEdit])
	if malformed > 0 {
		res.Tags = append(res.Tags, "malformed:arguments")
	}
	withS, withoutS, ctxTools := map[string]bool{}, map[string]bool{}, false
	for _, cl := range c.Calls {
		if c.kindOf(cl.Name) == "" || cl.K < 0 {
			continue
		}
		if cl.S != "" {
			withS[cl.Name] = true
		} else {
			withoutS[cl.Name] = true
		}
		if c.Behavs[cl.K].Ctx && c.Behavs[cl.K].Delay > 0 {
			ctxTools = true
		}
	}
	if len(withS) > 0 {
		res.Tags = append(res.Tags, "args:optional-field")
		for n := range withS {
			if withoutS[n] {
				res.Tags = append(res.Tags, "args:one-tool-called-with-and-without-optional-field")
				break
			}
		}
	}
	if ctxTools {
		res.Tags = append(res.Tags, "tool:honours-ctx-while-delayed")
	}
	if anyBad(c.Tools) {
		res.Tags = append(res.Tags, "malformed:configured-tool")
	}
	if l := c.callList(); l != nil && anyBad(*l) {
		res.Tags = append(res.Tags, "malformed:call-list-tool")
	}
	ooo := false
	for _, o := range obs {
		cls := o.Class
		if o.Class == "chunks" && o.Fin != nil {
			cls = "chunks+erritem"
		}
		res.Tags = append(res.Tags, "outcome:"+o.Mode+"/"+o.Host+o.Entry+":"+cls)
		if !sort.IntsAreSorted(o.Pi) {
			ooo = true
		}
		if o.Leaked > 0 {
			if o.Class == "err" {
				res.Tags = append(res.Tags, "open-item:tool-stream-left-open-after-call-time-failure")
			} else {
				res.Tags = append(res.Tags, "open-item:tool-stream-producer-blocked:"+cls)
			}
		}
	}
	res.Tags = append(res.Tags, fmt.Sprintf("completion-out-of-order:%v", ooo))
	if staticTag != "" {
		res.Tags = append(res.Tags, staticTag)
	}
	res.Nontrivial = len(c.Calls) >= 2
	return res
}

func min(a, b int) int {
	if a < b {
		return a
	}
	return b
}

// the time one process spends on minimising failing cases, in all
const shrinkBudget = 8 * time.Second

var shrinkSpent time.Duration

// Shrink: drop calls, then call options, then delays, while the same oracle failure persists.
func (engine) Shrink(ci any, stillFailsAll func(any) bool) any {
	c := ci.(*Case)
	// a change of the code that makes a whole class of cases fail gives dozens of failing cases per run: the first
	// ones are minimised, the others are reported as generated once the time set aside for minimising is used up
	if shrinkSpent >= shrinkBudget {
		return ci
	}
	began := time.Now()
	defer func() { shrinkSpent += time.Since(began) }()
	stillFails := func(x any) bool {
		if shrinkSpent+time.Since(began) >= shrinkBudget {
			return false
		}
		return stillFailsAll(x)
	}
	// a lost panic of a goroutine task may take the process down in the streamed form: its smaller
	// variants are judged by the value-returning runs; so are those of any failure that showed in a
	// value-returning run (a lost result would leave the streamed form without a stream to read)
	invokeOnly = c.goroutinePanic() || c.peerCase().goroutinePanic()
	if prev, ok := sticky[js(c)]; ok {
		shrinkingFrom = "while minimising this failure: " + prev.Oracle + " -- found on case " + js(c)
		if obs, ok := prev.Obs.([]RunObs); ok && len(obs) > 0 && strings.HasPrefix(obs[len(obs)-1].Mode, "invoke") {
			invokeOnly = true
		}
	}
	defer func() { shrinkingFrom, invokeOnly = "", false }()
	cur := *c
	for changed := true; changed; {
		changed = false
		for i := range cur.Calls {
			t := cur
			t.Calls = append(append([]Call{}, cur.Calls[:i]...), cur.Calls[i+1:]...)
			if len(t.Calls) > 0 && stillFails(&t) {
				cur, changed = t, true
				break
			}
		}
	}
	for changed := true; changed; {
		changed = false
		for i := range cur.OptSeq {
			t := cur
			t.OptSeq = append(append([]NodeOpt{}, cur.OptSeq[:i]...), cur.OptSeq[i+1:]...)
			if stillFails(&t) {
				cur, changed = t, true
				break
			}
		}
	}
	if cur.SharedIn != "" {
		t := cur
		t.SharedIn = ""
		if stillFails(&t) {
			cur = t
		}
	}
	if cur.Lazy {
		t := cur
		t.Lazy = false
		if stillFails(&t) {
			cur = t
		}
	}
	if cur.ConfEdit != "" {
		t := cur
		t.ConfEdit = ""
		if stillFails(&t) {
			cur = t
		}
	}
	if cur.GraphOpts != "" {
		t := cur
		t.GraphOpts = ""
		if stillFails(&t) {
			cur = t
		}
	}
	if cur.ToolOpts != nil {
		t := cur
		t.ToolOpts = nil
		if stillFails(&t) {
			cur = t
		}
	}
	if cur.CallTools != nil {
		t := cur
		t.CallTools = nil
		if stillFails(&t) {
			cur = t
		}
	}
	t := cur
	t.Behavs = append([]Behav{}, cur.Behavs...)
	for i := range t.Behavs {
		t.Behavs[i].Delay, t.Behavs[i].ChunkDelay = 0, 0
	}
	if stillFails(&t) {
		cur = t
	}
	return &cur
}

// ---------------------------------------------------------------- repeated calls, isolated
//
// When the failure of a goroutine task gets lost, the streamed form has no stream for that call
// and the first read takes the whole process down (on a goroutine of the implementation, which
// nothing can guard); so does a panic of a goroutine task that is not recovered. A case with a
// panicking goroutine task is therefore first exercised in a child process (this binary,
// --replay on the case, childEnv set): the child repeats the value-returning and the streamed
// call under the case's own delays and under the schedule in which the panicking executions
// finish last; the parent reads the child's verdict, or its crash.
const childEnv = "VERIF_C17_STREAM_CHILD"
const probeN = 8

// child side
func childProbes(c *Case) lib.Result {
	res := lib.Result{}
	var obs []RunObs
	for _, mode := range []string{"invoke", "stream"} {
		for _, pc := range []*Case{c, c.peerCase()} {
			if !pc.goroutinePanic() {
				continue
			}
			late := pc.panicLast()
			for i := 0; i < probeN && res.Oracle == ""; i++ {
				host := []string{"standalone", "graph"}[i%2]
				rcase, sched := pc, "the case's own delays"
				if i%4 >= 2 {
					rcase, sched = late, "panicking executions delayed so that they finish last"
				}
				which := ""
				if pc != c {
					which = " of the same ids on the calls in reverse order (the peer call of the shared-node runs)"
				}
				fmt.Fprintf(os.Stderr, "C17-CHILD %s/%s repetition %d%s (%s)\n", mode, host, i, which, sched)
				o, _, _, _, _ := runOne(rcase, mode, host)
				if w, sig := pc.oracle(&o); w != "" {
					o.Mode = mode + "(repeated)"
					obs = append(obs, o)
					res.Oracle, res.Sig = fmt.Sprintf("repetition %d%s, schedule: %s: %s", i, which, sched, w), sig
				}
			}
		}
	}
	res.Obs = obs
	return res
}

// parent side: ("", "", nil) if the child saw nothing
func isolatedProbes(c *Case) (string, string, []RunObs) {
	dir, err := os.MkdirTemp("", "c17-child-")
	if err != nil {
		return "", "", nil
	}
	defer os.RemoveAll(dir)
	rf := filepath.Join(dir, "case.json")
	b, _ := json.Marshal(map[string]any{"case": c})
	if os.WriteFile(rf, b, 0o644) != nil {
		return "", "", nil
	}
	ctx, cancel := context.WithTimeout(context.Background(), 90*time.Second)
	defer cancel()
	cmd := exec.CommandContext(ctx, os.Args[0], "--replay", rf, "--oracle-only", "--n", "0", "--shards", "1", "--out", dir)
	env := []string{childEnv + "=1"}
	for _, kv := range os.Environ() {
		switch {
		case strings.HasPrefix(kv, "VERIF_RUNDIR="): // the crash marker is the parent's
		case strings.HasPrefix(kv, "GORACE="): // below
		default:
			env = append(env, kv)
		}
	}
	// same race log as the parent; without the race runtime's one-second sleep at exit
	env = append(env, strings.TrimSpace("GORACE="+os.Getenv("GORACE")+" atexit_sleep_ms=0"))
	cmd.Env = env
	var stderr strings.Builder
	cmd.Stderr = &stderr
	runErr := cmd.Run()
	if ctx.Err() != nil {
		return "", "", nil // the machine is too loaded to tell; the in-process runs follow
	}
	log := stderr.String()
	if m := crashRe.FindString(log); runErr != nil && m != "" && strings.Contains(log, "github.com/cloudwego/eino") {
		last := ""
		for _, l := range strings.Split(log, "\n") {
			if strings.HasPrefix(l, "C17-CHILD ") {
				last = strings.TrimPrefix(l, "C17-CHILD ")
			}
		}
		where := ""
		if i := strings.Index(log, m); i >= 0 {
			where = short(strings.Join(strings.Fields(log[i:]), " "))
		}
		return "this case killed the process (observed in a child process, during " + last + "): a panic of a tool call was not contained, or a failure got lost and the call went on without it: " + where, "process-crash", nil
	}
	raw, err := os.ReadFile(filepath.Join(dir, "obs.jsonl"))
	if err != nil {
		return "", "", nil
	}
	var rec struct {
		Obs    []RunObs `json:"obs"`
		Oracle string   `json:"oracle"`
		Sig    string   `json:"sig"`
	}
	if json.Unmarshal([]byte(strings.SplitN(string(raw), "\n", 2)[0]), &rec) != nil || rec.Oracle == "" {
		return "", "", nil
	}
	return "in a child process: " + rec.Oracle, rec.Sig, rec.Obs
}

var crashRe = regexp.MustCompile(`(?m)^(panic:|fatal error:).*$`)

// crash marker: if the implementation kills the process (an unrecovered panic on a goroutine
// the harness cannot guard, a fatal runtime error), ./check finds fatal.json in the run
// directory and reports a violation whose replay is the marker's content. ./check blanks the
// marker's "case" key, so the case is also given under "failing_case", and as a file of its own
// that ./check C17 --replay accepts. The marker stays in place between two cases (goroutines
// the implementation left behind may still be running) and is removed when the harness ends.
var lastCase *Case

func markerPaths() (string, string) {
	dir := os.Getenv("VERIF_RUNDIR")
	if dir == "" {
		return "", ""
	}
	return filepath.Join(dir, "fatal.json"), filepath.Join(dir, "fatal_case_C17.json")
}

func clearMarker() {
	if p, rp := markerPaths(); p != "" {
		_ = os.Remove(p)
		_ = os.Remove(rp)
	}
}

func markRunning(c *Case) (at func(label string), done func()) {
	p, rp := markerPaths()
	if p == "" {
		return func(string) {}, func() {}
	}
	prev := lastCase
	write := func(label, what string) {
		b, _ := json.Marshal(map[string]any{"case": c, "failing_case": c, "run": label, "previous_case": prev,
			"what": what + ": " + js(c), "context": shrinkingFrom,
			"replay_file": rp, "how_to_replay": "./check C17 --replay " + rp})
		_ = os.WriteFile(p, b, 0o644)
	}
	b, _ := json.Marshal(map[string]any{"case": c, "note": "the process died while (or just after) this case was running on the implementation"})
	_ = os.WriteFile(rp, b, 0o644)
	at = func(label string) {
		write(label, "the process died while run "+label+" of this case (key failing_case) was executing on the implementation")
	}
	at("setup")
	return at, func() {
		lastCase = c
		write("finished", "the process died just after the runs of this case (key failing_case) on the implementation had returned, before the next case started (a goroutine the implementation left behind)")
	}
}

func main() {
	defer func() {
		if r := recover(); r != nil { // a fault of the harness itself is no observation
			clearMarker()
			panic(r)
		}
	}()
	lib.Main(engine{})
	clearMarker()
}
