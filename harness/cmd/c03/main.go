// Engine C03 — run result independent of node completion order; every started node execution
// collected exactly once; no hang; no return before the nodes feeding END finished.
//
// Own small generator: layered graphs / workflows with 2–8 parallel nodes per step. Every case
// is one graph run under many delay seeds (node bodies sleep / yield by a pure function of
// (seed, node), the hand-off windows of the taskManager are widened by the verifYield hook),
// in batch mode (Graph, AnyPredecessor = pregel channels, AllPredecessor = dag channels) or
// eager mode (Workflow). Direct oracle: all runs give the same result and the same multiset of
// executions feeding it, nothing hangs, no panic escapes, every node feeding END has finished
// when a result is returned (batch: every started node), no task is collected twice or without
// having been submitted (batch: every submitted task is collected exactly once before the return).
// An eager run may return its result while nodes that do not feed END are still running, and it
// returns a node error at once (the statement only requires the nodes feeding END to have
// finished): both are recorded as tags, not failures. Correspondence: result and executions equal the Coq evaluator's canonical
// prediction, and the hook traces of the hand-off protocol are accepted by the LTS of
// Model/TaskMgr.v.
package main

import (
	"context"
	"encoding/json"
	"errors"
	"fmt"
	"io"
	"runtime"
	"sort"
	"strings"
	"sync"
	"sync/atomic"
	"time"

	"github.com/cloudwego/eino/compose"
	"github.com/cloudwego/eino/schema"

	"verif/harness/lib"
)

const (
	idStart = 0
	idEnd   = 1
	tokIn   = 2
)

type Node struct {
	ID    int   `json:"id"`
	Preds []int `json:"preds"`          // increasing; 0 = START; ordinary edges (data and control)
	Ctl   []int `json:"ctl,omitempty"`  // eager: control-only predecessors (WorkflowNode.AddDependency)
	Dat   []int `json:"dat,omitempty"`  // eager: data-only predecessors (AddInputWithOptions(.., WithNoDirectDependency()))
	Fail  int   `json:"fail,omitempty"` // 0 ok, 1 error, 2 panic, 3 the state post-handler returns an error, 4 the state pre-handler returns an error (submit fails before the step is started), 5 (batch modes) the body cancels the context of the run and succeeds, 6 the first execution of the body returns compose.InterruptAndRerun (the run is interrupted and resumed from its checkpoint; the node runs again and succeeds)
	Pre   bool  `json:"pre,omitempty"`  // the node has a state pre-handler (taskManager.submit runs it: preProcessor)
	Post  bool  `json:"post,omitempty"` // the node has a state post-handler (taskManager.waitOne runs it: postProcessor)
	Slow  bool  `json:"slow,omitempty"` // body sleeps 12-20 ms (eager: widen the return window)
	Sub   int   `json:"sub,omitempty"`  // the node is a nested Graph with two parallel inner nodes (the body, and a node that returns an empty map after a seeded delay): 1 any-predecessor, 2 all-predecessor inner graph; 3 / 4: the same two with the second inner node feeding nothing (the nested run, a Graph, still has to collect it before it returns)
}

// Branch: a multi-branch on node From whose condition always selects Sel (a subset of Ends).
// Cases with branches are outside the Coq order-side model (skip propagation belongs to C01/C02):
// they are checked by the direct oracle and by the protocol-trace conformance only.
type Branch struct {
	From int   `json:"from"`
	Ends []int `json:"ends"`
	Sel  []int `json:"sel"`
}

type Case struct {
	Mode      string   `json:"mode"`  // pregel | dag | eager
	Nodes     []Node   `json:"nodes"` // layered order; the last one is END (id 1)
	Branches  []Branch `json:"branches,omitempty"`
	Entry     string   `json:"entry,omitempty"`      // "" = Invoke; "stream" = Stream, the chunks merged by key; "collect" / "transform" = the same two with the input handed in as a one-chunk stream
	MaxSteps  int      `json:"max_steps,omitempty"`  // pregel only: compose.WithMaxRunSteps; > 0 marks a case whose graph may have cycles (a node may run in several steps)
	Seeds     []uint64 `json:"seeds"`                // one run per delay seed
	Traced    int      `json:"traced"`               // the first Traced runs record the protocol trace
	IntAfter  []int    `json:"int_after,omitempty"`  // compose.WithInterruptAfterNodes: the run is interrupted once these nodes have completed, and resumed from its checkpoint by the next call
	IntBefore []int    `json:"int_before,omitempty"` // compose.WithInterruptBeforeNodes
	Together  int      `json:"together,omitempty"`   // >= 2: the first calls of the freshly compiled object are that many calls made at the same time (with the last delay seeds), before the calls made one after the other (with the other seeds)
}

func key(id int) string {
	switch id {
	case idStart:
		return compose.START
	case idEnd:
		return compose.END
	}
	return fmt.Sprintf("n%d", id)
}

func field(id int) string {
	if id == idStart {
		return "in"
	}
	return fmt.Sprintf("n%d", id)
}

func tokOf(k string) uint64 {
	if k == "in" {
		return tokIn
	}
	var n uint64
	if _, err := fmt.Sscanf(k, "n%d", &n); err == nil {
		return n
	}
	return 9999
}

// render serialises a value exactly as Model/Confluence.v does.
func render(v any, out *[]uint64) {
	m, ok := v.(map[string]any)
	if !ok {
		*out = append(*out, 9998)
		return
	}
	ks := make([]string, 0, len(m))
	for k := range m {
		ks = append(ks, k)
	}
	sort.Slice(ks, func(i, j int) bool { return tokOf(ks[i]) < tokOf(ks[j]) })
	for _, k := range ks {
		*out = append(*out, tokOf(k), 0)
		render(m[k], out)
		*out = append(*out, 1)
	}
}

func mix(a, b uint64) uint64 {
	h := a ^ (b+0x9E3779B97F4A7C15)*0xBF58476D1CE4E5B9
	h ^= h >> 30
	h *= 0xBF58476D1CE4E5B9
	h ^= h >> 27
	h *= 0x94D049BB133111EB
	return h ^ (h >> 31)
}

// ---------------------------------------------------------------- one run

type exec struct {
	ID int      `json:"id"`
	In []uint64 `json:"in"`
}

type runState struct {
	seed    uint64
	state   []int32 // per node id: 0 not started, 1 running, 2 finished
	starts  []int32
	logMu   chan struct{}
	log     []exec
	pre     []int32            // per node id: calls of its state pre-handler
	post    []int32            // per node id: calls of its state post-handler
	postNil int32              // post-handler calls that were handed a nil output (the execution had failed)
	cancel  context.CancelFunc // cancels the context of this run (behaviour 5 of a node)
	inner   []int32            // per node id: inner nodes (of the nested graph the node is) that are running
	late    int32              // a nested graph node a successor of which started while an inner node of it was running (0 = none)
	lateBy  int32
}

// hstate is the local state of a graph whose nodes carry state handlers
type hstate struct{ calls int }

type rsKey struct{}

type runObs struct {
	Class        string   `json:"class"` // val | err | panic | hang
	Val          []uint64 `json:"val,omitempty"`
	Log          []exec   `json:"log"`
	Running      []int    `json:"running,omitempty"`       // bodies started and not finished at return
	InnerRunning []int    `json:"inner_running,omitempty"` // nested graph nodes an inner node of which is running at return
	Late, LateBy int      `json:"-"`
	Ints         int      `json:"ints,omitempty"`        // interrupted calls of the chain (each resumed by the next call)
	IntRunning   []int    `json:"int_running,omitempty"` // bodies still running at the return of an interrupted call
	events       []compose.VerifC03Event
	spawned      int
	collect      int // completed collector sections (unlockC): a task counts as collected for the protocol model after it
	recvd        int // tasks the collector received from the hand-off channel
	wd           time.Duration
	proto        string   // "" or what is wrong with the submit/collect bookkeeping seen in the trace
	handler      string   // "" or what is wrong with the calls of the state handlers (pre/post processors)
	flag         string   // "" or a handed-off task whose error flag is not the outcome of its body
	subs         []string // the complete protocol traces of the nested runs (task managers of nested graph nodes), as Gallina terms
}

type built struct {
	c       *Case
	run     func(ctx context.Context, in map[string]any, opts ...compose.Option) (map[string]any, error)
	cur     atomic.Value // *runState
	maxID   int
	anc     map[int]bool
	byID    map[int]*Node
	buildE  string
	preFail bool // some node's pre-handler fails: submit returns before the step is started
}

func (b *built) body(n *Node) func(ctx context.Context, in map[string]any) (map[string]any, error) {
	return func(ctx context.Context, in map[string]any) (map[string]any, error) {
		// the run state travels in the context of the run: a task goroutine of an abandoned earlier
		// run (eager mode returns without collecting everything) that starts its body late must not
		// write into the log of the next run
		rs, _ := ctx.Value(rsKey{}).(*runState)
		if rs == nil {
			rs = b.cur.Load().(*runState)
		}
		atomic.AddInt32(&rs.starts[n.ID], 1)
		atomic.StoreInt32(&rs.state[n.ID], 1)
		// a control predecessor that is a nested graph has completed, so its nested run - a Graph: it collects
		// every task it started - has returned and none of its inner nodes is running any more. (Not in a
		// graph with back edges: there an any-predecessor node may run in the same step as one of its
		// predecessors, started by another one. Not for a data-only predecessor: the consumer does not wait for it.)
		if b.c.MaxSteps == 0 {
			for _, p := range append(append([]int(nil), n.Preds...), n.Ctl...) {
				if pn := b.byID[p]; pn != nil && pn.Sub > 0 && atomic.LoadInt32(&rs.inner[p]) > 0 {
					atomic.StoreInt32(&rs.lateBy, int32(n.ID))
					atomic.StoreInt32(&rs.late, int32(p))
				}
			}
		}
		var r []uint64
		render(in, &r)
		<-rs.logMu
		rs.log = append(rs.log, exec{ID: n.ID, In: r})
		rs.logMu <- struct{}{}
		h := mix(rs.seed, uint64(n.ID))
		if n.Slow {
			time.Sleep(time.Duration(12+h%8) * time.Millisecond)
		} else {
			switch h % 6 {
			case 0:
			case 1:
				runtime.Gosched()
			case 2, 3:
				time.Sleep(time.Duration((h>>8)%300) * time.Microsecond)
			case 4:
				time.Sleep(time.Duration((h>>8)%2000) * time.Microsecond)
			case 5:
				for i := 0; i < int((h>>8)%20); i++ {
					runtime.Gosched()
				}
			}
		}
		defer atomic.StoreInt32(&rs.state[n.ID], 2)
		switch n.Fail {
		case 1:
			return nil, errors.New("node failure")
		case 2:
			if mix(rs.seed, uint64(n.ID)+977)&1 == 0 {
				// a panic with a nil value is a panic of the node too (recover() returns nil for it unless
				// the main module asks for go >= 1.21; fix 823ff5c)
				var none error
				panic(none)
			}
			panic("node panic")
		case 6:
			if atomic.LoadInt32(&rs.starts[n.ID]) == 1 {
				return nil, compose.InterruptAndRerun
			}
		case 5:
			// the run is cancelled from inside a running step: the run loop must still collect the whole
			// step before it returns the cancellation (batch mode)
			rs.cancel()
		}
		return map[string]any{field(n.ID): in}, nil
	}
}

func (b *built) rsOf(ctx context.Context) *runState {
	rs, _ := ctx.Value(rsKey{}).(*runState)
	if rs == nil {
		rs = b.cur.Load().(*runState)
	}
	return rs
}

// state handlers: identity on the value; they count their calls (the state object too)
func (b *built) nodeOpts(n *Node) []compose.GraphAddNodeOpt {
	var opts []compose.GraphAddNodeOpt
	if n.Pre {
		opts = append(opts, compose.WithStatePreHandler(func(ctx context.Context, in map[string]any, st *hstate) (map[string]any, error) {
			st.calls++
			atomic.AddInt32(&b.rsOf(ctx).pre[n.ID], 1)
			if n.Fail == 4 {
				return nil, errors.New("pre-handler failure")
			}
			return in, nil
		}))
	}
	if n.Post {
		opts = append(opts, compose.WithStatePostHandler(func(ctx context.Context, out map[string]any, st *hstate) (map[string]any, error) {
			st.calls++
			rs := b.rsOf(ctx)
			atomic.AddInt32(&rs.post[n.ID], 1)
			if out == nil {
				atomic.AddInt32(&rs.postNil, 1)
			}
			if n.Fail == 3 {
				return nil, errors.New("post-handler failure")
			}
			return out, nil
		}))
	}
	return opts
}

// subGraph: node n as a nested graph START -> {x, y} -> END. x is the body of n (logs the execution, delays,
// fails as n does, returns {n: in}); y returns an empty map after a delay of its own, so END's fan-in merges
// {n: in} with {} and the nested run has its own task manager with two parallel tasks, whichever finishes first.
func (b *built) subGraph(n *Node) (compose.AnyGraph, []compose.GraphAddNodeOpt, error) {
	g := compose.NewGraph[map[string]any, map[string]any]()
	if err := g.AddLambdaNode("x", compose.InvokableLambda(b.body(n))); err != nil {
		return nil, nil, err
	}
	id := n.ID
	if err := g.AddLambdaNode("y", compose.InvokableLambda(func(ctx context.Context, in map[string]any) (map[string]any, error) {
		rs := b.rsOf(ctx)
		atomic.AddInt32(&rs.inner[id], 1)
		defer atomic.AddInt32(&rs.inner[id], -1)
		h := mix(rs.seed, uint64(id)+5003)
		switch h % 4 {
		case 1:
			runtime.Gosched()
		case 2:
			time.Sleep(time.Duration((h>>8)%400) * time.Microsecond)
		case 3:
			time.Sleep(time.Duration((h>>8)%1500) * time.Microsecond)
		}
		if n.Sub >= 3 && (h>>20)&1 == 0 {
			time.Sleep(time.Duration(1+(h>>24)%3) * time.Millisecond) // outlast the body now and then
		}
		return map[string]any{}, nil
	})); err != nil {
		return nil, nil, err
	}
	edges := [][2]string{{compose.START, "x"}, {compose.START, "y"}, {"x", compose.END}, {"y", compose.END}}
	if n.Sub >= 3 {
		edges = edges[:3] // y feeds nothing
	}
	for _, e := range edges {
		if err := g.AddEdge(e[0], e[1]); err != nil {
			return nil, nil, err
		}
	}
	var opts []compose.GraphAddNodeOpt
	if n.Sub == 2 || n.Sub == 4 {
		opts = append(opts, compose.WithGraphCompileOptions(compose.WithNodeTriggerMode(compose.AllPredecessor)))
	}
	return g, opts, nil
}

// allPreds: the predecessors by an edge of any kind
func (n *Node) allPreds() []int {
	if len(n.Ctl) == 0 && len(n.Dat) == 0 {
		return n.Preds
	}
	return append(append(append([]int(nil), n.Preds...), n.Ctl...), n.Dat...)
}

func (c *Case) specialEdges() (ctl, dat int) {
	for _, n := range c.Nodes {
		ctl += len(n.Ctl)
		dat += len(n.Dat)
	}
	return
}

func (c *Case) hasHandlers() bool {
	for _, n := range c.Nodes {
		if n.Pre || n.Post {
			return true
		}
	}
	return false
}

// interrupts: the case has a node that interrupts the run (the run then returns an interrupt error and is
// resumed, from the checkpoint it wrote, by the next call with the same checkpoint id)
func (c *Case) interrupts() bool {
	if len(c.IntAfter)+len(c.IntBefore) > 0 {
		return true
	}
	for _, n := range c.Nodes {
		if n.Fail == 6 {
			return true
		}
	}
	return false
}

type memStore struct {
	mu sync.Mutex
	m  map[string][]byte
}

func (s *memStore) Get(_ context.Context, id string) ([]byte, bool, error) {
	s.mu.Lock()
	defer s.mu.Unlock()
	v, ok := s.m[id]
	return v, ok, nil
}

func (s *memStore) Set(_ context.Context, id string, cp []byte) error {
	s.mu.Lock()
	defer s.mu.Unlock()
	s.m[id] = append([]byte(nil), cp...)
	return nil
}

func (c *Case) interruptOpts() []compose.GraphCompileOption {
	if !c.interrupts() {
		return nil
	}
	keys := func(ids []int) []string {
		var ks []string
		for _, id := range ids {
			ks = append(ks, key(id))
		}
		return ks
	}
	opts := []compose.GraphCompileOption{compose.WithCheckPointStore(&memStore{m: map[string][]byte{}})}
	if len(c.IntAfter) > 0 {
		opts = append(opts, compose.WithInterruptAfterNodes(keys(c.IntAfter)))
	}
	if len(c.IntBefore) > 0 {
		opts = append(opts, compose.WithInterruptBeforeNodes(keys(c.IntBefore)))
	}
	return opts
}

var chainSeq uint64

func build(c *Case) *built {
	b := &built{c: c, byID: map[int]*Node{}}
	for i := range c.Nodes {
		n := &c.Nodes[i]
		b.byID[n.ID] = n
		if n.ID > b.maxID {
			b.maxID = n.ID
		}
		if n.Fail == 4 {
			b.preFail = true
		}
	}
	// ancestors of END (data edges, and the branches that decide whether an ancestor runs)
	b.anc = build0(c)
	ctx := context.Background()
	var err error
	if p := lib.Recover(func() {
		switch c.Mode {
		case "pregel", "dag":
			var gopts []compose.NewGraphOption
			if c.hasHandlers() {
				gopts = append(gopts, compose.WithGenLocalState(func(ctx context.Context) *hstate { return &hstate{} }))
			}
			g := compose.NewGraph[map[string]any, map[string]any](gopts...)
			for i := range c.Nodes {
				n := &c.Nodes[i]
				if n.ID != idEnd && n.Sub > 0 {
					sub, sopts, e := b.subGraph(n)
					if err = e; err != nil {
						return
					}
					if err = g.AddGraphNode(key(n.ID), sub, append(b.nodeOpts(n), sopts...)...); err != nil {
						return
					}
				} else if n.ID != idEnd {
					if err = g.AddLambdaNode(key(n.ID), compose.InvokableLambda(b.body(n)), b.nodeOpts(n)...); err != nil {
						return
					}
				}
			}
			for i := range c.Nodes {
				n := &c.Nodes[i]
				for _, p := range n.Preds {
					if err = g.AddEdge(key(p), key(n.ID)); err != nil {
						return
					}
				}
			}
			for _, br := range c.Branches {
				if err = g.AddBranch(key(br.From), branchOf(br)); err != nil {
					return
				}
			}
			var opts []compose.GraphCompileOption
			if c.Mode == "dag" {
				opts = append(opts, compose.WithNodeTriggerMode(compose.AllPredecessor))
			}
			if c.Mode == "pregel" && c.MaxSteps > 0 {
				opts = append(opts, compose.WithMaxRunSteps(c.MaxSteps))
			}
			opts = append(opts, c.interruptOpts()...)
			var r compose.Runnable[map[string]any, map[string]any]
			r, err = g.Compile(ctx, opts...)
			if err == nil {
				b.run = entryOf(c, r)
			}
		case "eager":
			var gopts []compose.NewGraphOption
			if c.hasHandlers() {
				gopts = append(gopts, compose.WithGenLocalState(func(ctx context.Context) *hstate { return &hstate{} }))
			}
			wf := compose.NewWorkflow[map[string]any, map[string]any](gopts...)
			for i := range c.Nodes {
				n := &c.Nodes[i]
				var wn *compose.WorkflowNode
				if n.ID == idEnd {
					wn = wf.End()
				} else if n.Sub > 0 {
					sub, sopts, e := b.subGraph(n)
					if err = e; err != nil {
						return
					}
					wn = wf.AddGraphNode(key(n.ID), sub, append(b.nodeOpts(n), sopts...)...)
				} else {
					wn = wf.AddLambdaNode(key(n.ID), compose.InvokableLambda(b.body(n)), b.nodeOpts(n)...)
				}
				for _, p := range n.Preds {
					wn.AddInput(key(p), compose.MapFields(field(p), field(p)))
				}
				for _, p := range n.Ctl {
					wn.AddDependency(key(p))
				}
				for _, p := range n.Dat {
					wn.AddInputWithOptions(key(p), []*compose.FieldMapping{compose.MapFields(field(p), field(p))}, compose.WithNoDirectDependency())
				}
			}
			for _, br := range c.Branches {
				wf.AddBranch(key(br.From), branchOf(br))
			}
			var r compose.Runnable[map[string]any, map[string]any]
			r, err = wf.Compile(ctx, c.interruptOpts()...)
			if err == nil {
				b.run = entryOf(c, r)
			}
		default:
			err = errors.New("unknown mode")
		}
	}); p != nil {
		b.buildE = fmt.Sprint("panic at build: ", p)
	} else if err != nil {
		b.buildE = "build error: " + err.Error()
	}
	return b
}

// A run that has not returned after the watchdog is a hang. After a hang the goroutines of that run
// are still alive, so no further run of the same compiled graph is made; after three hanging cases
// the remaining cases are run with a short watchdog and two delay seeds each (the verdict is
// already decided, this only bounds the time a broken hand-off costs).
const watchdogFull = 10 * time.Second

var hangingCases int32

func watchdog() time.Duration {
	if atomic.LoadInt32(&hangingCases) >= 3 {
		return 2 * time.Second
	}
	return watchdogFull
}

func (b *built) once(seed uint64, traced bool) *runObs {
	compose.VerifC03Begin(seed|1, traced)
	o := b.runOne(seed, traced)
	compose.VerifC03End()
	return o
}

// together: len(seeds) calls of the same compiled object at the same time (untraced: the hook's event log is
// one per process; the yields of the hand-off windows are on). Every call is a run of its own - its own task
// manager, channels, state - so each of them must behave exactly as a run made alone.
func (b *built) together(seeds []uint64) []*runObs {
	compose.VerifC03Begin(seeds[0]|1, false)
	obs := make([]*runObs, len(seeds))
	var wg sync.WaitGroup
	for i := range seeds {
		wg.Add(1)
		go func(i int) {
			defer wg.Done()
			obs[i] = b.runOne(seeds[i], false)
		}(i)
	}
	wg.Wait()
	compose.VerifC03End()
	return obs
}

func (b *built) runOne(seed uint64, traced bool) *runObs {
	rs := &runState{seed: seed, state: make([]int32, b.maxID+1), starts: make([]int32, b.maxID+1), logMu: make(chan struct{}, 1),
		pre: make([]int32, b.maxID+1), post: make([]int32, b.maxID+1), inner: make([]int32, b.maxID+1)}
	rs.logMu <- struct{}{}
	runCtx, cancel := context.WithCancel(context.WithValue(context.Background(), rsKey{}, rs))
	rs.cancel = cancel
	defer cancel()
	b.cur.Store(rs)
	type ret struct {
		out        map[string]any
		err        error
		pan        any
		ints       int
		intRunning []int
		firstTMs   map[int]bool // traced chain with an interrupt: the task managers seen until the first call returned
	}
	ch := make(chan ret, 1)
	go func() {
		var r ret
		r.pan = lib.Recover(func() {
			var opts []compose.Option
			if b.c.interrupts() {
				opts = append(opts, compose.WithCheckPointID(fmt.Sprintf("cp-%d-%d", seed, atomic.AddUint64(&chainSeq, 1))))
			}
			in := map[string]any{"in": map[string]any{}}
			r.out, r.err = b.run(runCtx, in, opts...)
			// an interrupted run is resumed from its checkpoint by the next call with the same checkpoint id,
			// until the chain ends with a result or an error that is not an interrupt
			for limit := len(b.c.Nodes) + 2; r.err != nil && limit > 0; limit-- {
				if _, ok := compose.ExtractInterruptInfo(r.err); !ok {
					break
				}
				r.ints++
				if traced && r.firstTMs == nil {
					r.firstTMs = map[int]bool{}
					for _, e := range compose.VerifC03Events() {
						r.firstTMs[e.TM] = true
					}
				}
				// what is still running at the return of the interrupted call: the checkpoint it wrote
				// cannot hold the result of an execution that has not been collected
				for id := 2; id <= b.maxID; id++ {
					if atomic.LoadInt32(&rs.state[id]) == 1 && !containsInt(r.intRunning, id) {
						r.intRunning = append(r.intRunning, id)
					}
				}
				r.out, r.err = b.run(runCtx, in, opts...)
			}
		})
		ch <- r
	}()
	o := &runObs{}
	var r ret
	wd := watchdog()
	o.wd = wd
	select {
	case r = <-ch:
	case <-time.After(wd):
		o.Class = "hang"
	}
	// what is still running at the moment of the return
	for id := 2; id <= b.maxID; id++ {
		if atomic.LoadInt32(&rs.state[id]) == 1 {
			o.Running = append(o.Running, id)
		}
		if atomic.LoadInt32(&rs.inner[id]) > 0 {
			o.InnerRunning = append(o.InnerRunning, id)
		}
	}
	o.Late, o.LateBy = int(atomic.LoadInt32(&rs.late)), int(atomic.LoadInt32(&rs.lateBy))
	o.Ints, o.IntRunning = r.ints, r.intRunning
	var atReturn []compose.VerifC03Event
	if traced {
		atReturn = compose.VerifC03Events()
	}
	if o.Class == "" {
		switch {
		case r.pan != nil:
			o.Class = "panic"
		case r.err != nil:
			o.Class = "err"
		default:
			o.Class = "val"
			o.Val = []uint64{}
			render(r.out, &o.Val)
		}
	}
	// let the abandoned executions (eager mode) finish before the next run starts
	deadline := time.Now().Add(3 * time.Second)
	if o.Class != "hang" {
		for time.Now().Before(deadline) {
			busy := false
			for id := 2; id <= b.maxID; id++ {
				if atomic.LoadInt32(&rs.state[id]) == 1 || atomic.LoadInt32(&rs.inner[id]) > 0 {
					busy = true
				}
				// a task whose pre-handler has run (submit) has been handed to a goroutine that may
				// not have reached the node body yet
				if !b.preFail && atomic.LoadInt32(&rs.starts[id]) < atomic.LoadInt32(&rs.pre[id]) {
					busy = true
				}
			}
			if !busy {
				break
			}
			time.Sleep(200 * time.Microsecond)
		}
	}
	if traced {
		if r.firstTMs != nil {
			// a chain of calls: the traced task manager is the one of the first call (the interrupted one)
			var first []compose.VerifC03Event
			for _, e := range atReturn {
				if r.firstTMs[e.TM] {
					first = append(first, e)
				}
			}
			atReturn = first
		}
		main := mainTM(atReturn)
		sub := map[string]int{}
		got := map[string]int{}
		for _, e := range atReturn {
			if e.TM != main {
				continue
			}
			switch e.Kind {
			case "spawn", "sync":
				o.spawned++
				sub[e.Key]++
			case "push":
				// a panic / an error of the node body is that task's error from the moment the task is
				// handed off (the pushed entry is what the collector will look at)
				if id, ok := nodeNum(e.Key); ok && o.flag == "" {
					if n := b.byID[int(id)]; n != nil && (n.Fail == 1 || n.Fail == 2 || n.Fail == 6) != e.Err {
						if e.Err {
							o.flag = "task " + e.Key + " was handed off with an error although its body succeeded"
						} else if n.Fail == 2 {
							o.flag = "task " + e.Key + " panicked and was handed to the collector without an error: the panic is not (yet) that task's error"
						} else {
							o.flag = "task " + e.Key + " returned an error and was handed to the collector without it"
						}
					}
				}
			case "recv":
				if id, ok := nodeNum(e.Key); ok && o.flag == "" {
					if n := b.byID[int(id)]; n != nil && (n.Fail == 1 || n.Fail == 2 || n.Fail == 6) != e.Err {
						o.flag = "the collector received task " + e.Key + " with an error flag that is not the outcome of its body"
					}
				}
				got[e.Key]++
				o.recvd++
				if got[e.Key] > sub[e.Key] && o.proto == "" {
					if sub[e.Key] == 0 {
						o.proto = "task " + e.Key + " was collected without having been submitted"
					} else {
						o.proto = "task " + e.Key + " was collected twice"
					}
				}
			case "unlockC":
				o.collect++
			}
		}
		// the executions that feed a returned value must have been collected before the return
		if o.Class == "val" && o.proto == "" {
			for k, n := range sub {
				id, ok := nodeNum(k)
				if ok && b.anc[int(id)] && got[k] < n {
					o.proto = "the run returned a value before task " + k + ", which feeds END, was collected"
				}
			}
		}
		// wait until every executor has left the protocol
		for {
			evs := compose.VerifC03Events()
			n := 0
			for _, e := range evs {
				if e.TM == main && e.Kind == "unlockE" {
					n++
				}
			}
			if n >= o.spawned || o.Class == "hang" || !time.Now().Before(deadline) {
				for _, e := range evs {
					if e.TM == main {
						o.events = append(o.events, e)
					}
				}
				o.subs = subTraces(evs, main)
				break
			}
			time.Sleep(200 * time.Microsecond)
		}
	}
	<-rs.logMu
	o.Log = append([]exec(nil), rs.log...)
	rs.logMu <- struct{}{}
	// state handlers (pre/post processors of the task manager): every execution is preceded by exactly
	// one pre-handler call; the post-handler runs once per collected successful execution, never for a
	// failed one; a run that returns a value has post-processed every execution that feeds it
	if o.Class != "hang" {
		for i := range b.c.Nodes {
			n := &b.c.Nodes[i]
			st, pr, po := atomic.LoadInt32(&rs.starts[n.ID]), atomic.LoadInt32(&rs.pre[n.ID]), atomic.LoadInt32(&rs.post[n.ID])
			switch {
			case n.Pre && pr != st && !(b.preFail && o.Class == "err" && pr == st+1):
				// (a submit that fails on a pre-handler has pre-processed the tasks before it, once, and starts none)
				o.handler = fmt.Sprintf("node n%d was executed %d time(s), its state pre-handler %d time(s)", n.ID, st, pr)
			case n.Fail == 4 && st != 0:
				o.handler = fmt.Sprintf("node n%d was executed although its state pre-handler failed", n.ID)
			case n.Post && po > st:
				o.handler = fmt.Sprintf("node n%d was executed %d time(s), its state post-handler %d time(s)", n.ID, st, po)
			case n.Post && o.Class == "val" && po != st && (b.c.Mode != "eager" || b.anc[n.ID]):
				o.handler = fmt.Sprintf("the run returned a value; node n%d, which feeds it, was executed %d time(s), its state post-handler %d time(s)", n.ID, st, po)
			case n.Post && (n.Fail == 1 || n.Fail == 2) && po != 0:
				o.handler = fmt.Sprintf("the state post-handler of node n%d ran although its execution failed", n.ID)
			}
		}
		if o.handler == "" && atomic.LoadInt32(&rs.postNil) != 0 {
			o.handler = "a state post-handler was handed the nil output of a failed execution"
		}
	}
	sort.Slice(o.Log, func(i, j int) bool {
		if o.Log[i].ID != o.Log[j].ID {
			return o.Log[i].ID < o.Log[j].ID
		}
		return lessU(o.Log[i].In, o.Log[j].In)
	})
	return o
}

// mainTM: the task manager of the run itself = the one that starts a task of an outer node (keys n<id>; the
// inner nodes of a nested graph are x / y). The task manager of a nested run - also one abandoned by an earlier
// eager run or an earlier case, which may still log events after this run has begun - is never the main one.
func mainTM(evs []compose.VerifC03Event) int {
	for _, e := range evs {
		if e.Kind == "spawn" || e.Kind == "sync" {
			if _, ok := nodeNum(e.Key); ok {
				return e.TM
			}
		}
	}
	return -1
}

// subTraces: the protocol traces of the nested runs recorded beside the main task manager's, one per task manager
// whose trace is complete - it begins with the hand-over of the two inner tasks x and y, every executor has left the
// protocol and it ends with the waitOne that finds nothing outstanding (a nested run is a batch run: waitAll). A nested
// run that is still going on (abandoned by an eager run that has returned) or that began before this run's log did is
// left out. The inner tasks are 3 (x, the body of the node) and 4 (y); the outcome of a body is read off its push event.
func subTraces(evs []compose.VerifC03Event, main int) []string {
	by := map[int][]compose.VerifC03Event{}
	var order []int
	for _, e := range evs {
		if e.TM == main {
			continue
		}
		if _, ok := by[e.TM]; !ok {
			order = append(order, e.TM)
		}
		by[e.TM] = append(by[e.TM], e)
	}
	var out []string
	for _, tm := range order {
		tr := by[tm]
		if k := tr[0].Kind; k != "spawn" && k != "sync" || tr[len(tr)-1].Kind != "empty" {
			continue
		}
		id := func(k string) int {
			switch k {
			case "x":
				return 3
			case "y":
				return 4
			}
			return 0
		}
		failed := map[string]bool{}
		started, left, ok := 0, 0, true
		for _, e := range tr {
			switch e.Kind {
			case "spawn", "sync":
				started++
				ok = ok && id(e.Key) != 0
			case "push":
				failed[e.Key] = e.Err
			case "unlockE":
				left++
			}
		}
		if !ok || started != 2 || left != 2 {
			continue
		}
		var s []string
		for _, e := range tr {
			t := id(e.Key)
			bres := "BOk"
			if failed[e.Key] {
				bres = "BErr"
			}
			switch e.Kind {
			case "spawn":
				s = append(s, fmt.Sprintf("EvSpawn %d %s", t, bres))
			case "sync":
				s = append(s, fmt.Sprintf("EvSync %d %s", t, bres))
			case "syncret":
				s = append(s, fmt.Sprintf("EvSyncRet %d", t))
			case "await":
				s = append(s, "EvAwait")
			case "empty":
				s = append(s, "EvEmpty")
			case "lockE":
				s = append(s, fmt.Sprintf("EvLockE %d", t))
			case "push":
				s = append(s, fmt.Sprintf("EvPush %d %s", t, lib.CoqBool(e.Err)))
			case "send":
				s = append(s, fmt.Sprintf("EvSend %d", t))
			case "full":
				s = append(s, "EvFull")
			case "unlockE":
				s = append(s, fmt.Sprintf("EvUnlockE %d", t))
			case "recv":
				s = append(s, fmt.Sprintf("EvRecv %d %s", t, lib.CoqBool(e.Err)))
			case "lockC":
				s = append(s, "EvLockC")
			case "unlockC":
				s = append(s, "EvUnlockC")
			default:
				ok = false
			}
		}
		if ok {
			out = append(out, "["+strings.Join(s, ";")+"]")
		}
	}
	return out
}

func lessU(a, b []uint64) bool {
	for i := 0; i < len(a) && i < len(b); i++ {
		if a[i] != b[i] {
			return a[i] < b[i]
		}
	}
	return len(a) < len(b)
}

// ---------------------------------------------------------------- engine

type engine struct{}

func (engine) ID() string { return "C03" }
func (engine) CoqHeader() string {
	return "From Eino Require Import Base.Util Model.TaskMgr Model.Confluence Model.EagerSkip Corr.C03.\nOpen Scope N_scope.\n"
}
func (engine) CoqCaseType() string { return "ccase" }

func (engine) Decode(raw json.RawMessage) (any, error) {
	var c Case
	if err := json.Unmarshal(raw, &c); err != nil {
		return nil, err
	}
	if len(c.Nodes) == 0 || c.Nodes[len(c.Nodes)-1].ID != idEnd {
		return nil, errors.New("last node must be END (id 1)")
	}
	return &c, nil
}

func pickSome(r *lib.Rng, xs []int, k int) []int {
	if k > len(xs) {
		k = len(xs)
	}
	p := r.Perm(len(xs))
	out := make([]int, 0, k)
	for i := 0; i < k; i++ {
		out = append(out, xs[p[i]])
	}
	sort.Ints(out)
	return out
}

func (engine) Generate(r *lib.Rng, tier string, i int) any {
	c := &Case{}
	switch r.Intn(5) {
	case 0:
		c.Mode = "pregel"
	case 1, 2:
		c.Mode = "dag"
	default:
		c.Mode = "eager"
	}
	nseeds, maxL, budget := 20, 4, 16
	if tier == "thorough" {
		nseeds, maxL, budget = 200, 5, 22
	}
	L := r.Range(2, maxL)
	next := 3
	var layers [][]int
	wide := false
	for l := 0; l < L; l++ {
		w := r.Range(2, 8)
		if r.Chance(1, 4) {
			w = r.Range(1, 3)
		}
		if left := budget - (next - 3) - (L - l - 1); w > left {
			w = left
		}
		if w < 1 {
			w = 1
		}
		if l == L-1 && !wide && w < 2 {
			w = 2
		}
		if w >= 2 {
			wide = true
		}
		var layer []int
		for k := 0; k < w; k++ {
			layer = append(layer, next)
			next++
		}
		layers = append(layers, layer)
	}
	skip := c.Mode != "pregel"
	for l, layer := range layers {
		for _, id := range layer {
			n := Node{ID: id}
			if l == 0 {
				n.Preds = []int{idStart}
			} else {
				n.Preds = pickSome(r, layers[l-1], r.Range(1, 3))
				if skip && r.Chance(1, 4) {
					// an edge from an earlier layer or from START
					if l >= 2 && r.Chance(2, 3) {
						e := layers[r.Intn(l-1)]
						n.Preds = append(n.Preds, e[r.Intn(len(e))])
					} else {
						n.Preds = append(n.Preds, idStart)
					}
					sort.Ints(n.Preds)
					n.Preds = dedup(n.Preds)
				}
			}
			c.Nodes = append(c.Nodes, n)
		}
	}
	end := Node{ID: idEnd}
	last := layers[L-1]
	end.Preds = pickSome(r, last, r.Range(1, 3))
	if skip && r.Chance(1, 2) {
		e := layers[r.Intn(L)]
		end.Preds = dedup(sortInts(append(end.Preds, e[r.Intn(len(e))])))
	}
	if skip && r.Chance(1, 6) {
		// END fed from an inner layer only: the later layers do not feed the result
		e := layers[r.Intn(L)]
		end.Preds = pickSome(r, e, r.Range(1, 2))
	}
	c.Nodes = append(c.Nodes, end)
	// one case in five (Workflows: one in three) carries one or two multi-branches (skip propagation in the all-predecessor
	// modes): From in a layer, Ends = 2-3 nodes of the next layer, Sel = a subset, possibly empty.
	// Half of the two-branch cases are "contested": both branches (different sources of one layer)
	// have the same node among their ends and neither selects it, and the first source also has a
	// direct edge to it - the node is triggered by an edge and discarded by branches at once.
	brNum, brDen := 1, 5
	if c.Mode == "eager" {
		brNum, brDen = 1, 3 // skip propagation and the order of skip / ready reports matter in eager mode
	}
	if L >= 2 && r.Chance(brNum, brDen) {
		nb := r.Range(1, 2)
		used := map[int]bool{}
		contested := -1
		for k := 0; k < nb; k++ {
			l := r.Intn(L - 1)
			if contested >= 0 {
				l = layerOf(layers, contested) - 1
			}
			if len(layers[l+1]) < 2 {
				continue // a multi-branch needs at least two end nodes
			}
			from := layers[l][r.Intn(len(layers[l]))]
			if used[from] {
				continue
			}
			used[from] = true
			ends := pickSome(r, layers[l+1], r.Range(2, 3))
			var sel []int
			for _, e := range ends {
				if r.Chance(1, 2) {
					sel = append(sel, e)
				}
			}
			if c.Mode != "pregel" && nb == 2 && (r.Chance(1, 2) || c.Mode == "eager" && r.Chance(1, 3)) || contested >= 0 {
				if contested < 0 {
					contested = ends[r.Intn(len(ends))]
					if r.Chance(2, 3) {
						setPreds(c, contested, []int{from}) // the edge from the first source is its only edge
					} else {
						addPred(c, contested, from) // direct edge from the first source
					}
					if c.Mode == "eager" && r.Chance(1, 2) {
						makeCtlOnly(c, contested, from) // ... a control-only edge (AddDependency)
					}
				} else if !contains(ends, contested) {
					ends = sortInts(append(ends, contested))
				}
				sel = without(sel, contested)
			}
			if c.Mode == "pregel" && len(sel) == 0 {
				sel = ends[:1]
			}
			c.Branches = append(c.Branches, Branch{From: from, Ends: ends, Sel: sel})
		}
		// one branch case in three: a further branch on a node that already carries one, sharing an end
		// node with it (a node selected by one branch of a node and discarded by another one of the same
		// node is not skipped; "contested" cases: the shared end is the contested node, selected here
		// one time in two)
		if len(c.Branches) > 0 && r.Chance(1, 3) {
			b0 := c.Branches[0]
			next := layers[layerOf(layers, b0.From)+1]
			shared := b0.Ends[r.Intn(len(b0.Ends))]
			if contested >= 0 && contains(b0.Ends, contested) {
				shared = contested
			}
			ends := dedup(sortInts(append(pickSome(r, next, r.Range(1, 2)), shared)))
			if len(ends) >= 2 {
				var sel []int
				for _, e := range ends {
					if r.Chance(1, 2) {
						sel = append(sel, e)
					}
				}
				if c.Mode == "pregel" && len(sel) == 0 {
					sel = ends[:1]
				}
				c.Branches = append(c.Branches, Branch{From: b0.From, Ends: ends, Sel: sel})
			}
		}
		// a branch end is a pure branch target one time in three: no edge leads to it, its branch
		// sources are its only control predecessors (Workflow: it then has no input at all; Graph: the
		// branch hands it the output of its source)
		for _, br := range c.Branches {
			for _, e := range br.Ends {
				if e != contested && r.Chance(1, 3) {
					setPreds(c, e, nil)
				}
			}
		}
	}
	// Workflows, one in three: the other two kinds of edges. Every edge that does not come from START is
	// turned into a control-only edge (AddDependency: the successor waits for the node and gets nothing
	// from it) one time in six; one or two nodes get a data-only input (WithNoDirectDependency) from a
	// node that precedes them by a control path of two or more edges (as the documentation of the
	// option demands); END may read one of several predecessors by a data-only edge.
	if c.Mode == "eager" && r.Chance(1, 3) {
		for k := range c.Nodes {
			n := &c.Nodes[k]
			if n.ID == idEnd {
				continue
			}
			for _, p := range append([]int(nil), n.Preds...) {
				if p != idStart && r.Chance(1, 6) {
					makeCtlOnly(c, n.ID, p)
				}
			}
		}
		for k := r.Range(0, 2); k > 0; k-- {
			n := &c.Nodes[r.Intn(len(c.Nodes))]
			var cand []int
			if r.Chance(1, 2) {
				for id := range ctlAncestors(c, n.ID) {
					cand = append(cand, id)
				}
			} else if l := layerOf(layers, n.ID); n.ID != idEnd && l >= 1 {
				// any node of an earlier layer: cross-branch data access - the source may be skipped (the
				// consumer then runs without it) or finish after the consumer's control predecessors
				for _, layer := range layers[:l] {
					cand = append(cand, layer...)
				}
			}
			cand = filterInts(cand, func(id int) bool {
				return id != idStart && id != n.ID && !contains(n.Preds, id) && !contains(n.Ctl, id) && !contains(n.Dat, id)
			})
			sort.Ints(cand)
			if len(cand) > 0 {
				n.Dat = sortInts(append(n.Dat, cand[r.Intn(len(cand))]))
			}
		}
		if end := &c.Nodes[len(c.Nodes)-1]; len(end.Preds) >= 2 && r.Chance(1, 4) {
			p := end.Preds[r.Intn(len(end.Preds))]
			if anc := ctlAncestors(c, idEnd); anc[p] && hasIndirectPath(c, p, idEnd) {
				end.Preds = without(end.Preds, p)
				end.Dat = sortInts(append(end.Dat, p))
			}
		}
	}
	// any-predecessor graphs, one in three: a step limit and one or two back edges (a node of a later or
	// the same layer feeds a node of an earlier layer): nodes run again in later steps with other
	// inputs, the task manager sees the same node key several times, the run ends with END's value or
	// by exceeding the step limit
	if c.Mode == "pregel" && r.Chance(1, 3) {
		c.MaxSteps = r.Range(2, L+3)
		for k := r.Range(1, 2); k > 0; k-- {
			i := r.Intn(L)
			j := i + r.Intn(L-i)
			to := layers[i][r.Intn(len(layers[i]))]
			from := layers[j][r.Intn(len(layers[j]))]
			if from != to {
				addPred(c, to, from)
			}
		}
	}
	b := build0(c)
	// one case in four: state handlers (pre-processor at submit, post-processor at collection) on a third
	// of the nodes each
	handlers := r.Chance(1, 4)
	if handlers {
		for k := range c.Nodes {
			if c.Nodes[k].ID != idEnd {
				c.Nodes[k].Pre = r.Chance(1, 3)
				c.Nodes[k].Post = r.Chance(1, 3)
			}
		}
	}
	failKind := func(id int) int {
		if handlers && r.Chance(1, 2) {
			for k := range c.Nodes {
				if c.Nodes[k].ID == id {
					c.Nodes[k].Post = true
					return 3 // the body succeeds, the post-handler fails
				}
			}
		}
		return 1 + r.Intn(2)
	}
	// failures
	if r.Chance(1, 5) || handlers && r.Chance(1, 3) {
		var cand, nonAnc []int
		for _, n := range c.Nodes {
			if n.ID != idEnd && (c.Mode != "eager" || b[n.ID]) {
				cand = append(cand, n.ID)
			}
			if n.ID != idEnd && c.Mode == "eager" && !b[n.ID] {
				nonAnc = append(nonAnc, n.ID)
			}
		}
		if len(nonAnc) > 0 && r.Chance(1, 3) {
			// eager: a failing node that does not feed END races with END (finding F-C03c)
			f := nonAnc[r.Intn(len(nonAnc))]
			setFail(c, f, failKind(f))
		} else if len(cand) > 0 {
			f := cand[r.Intn(len(cand))]
			kind := failKind(f)
			setFail(c, f, kind)
			if r.Chance(1, 4) {
				// a second failure in the same layer
				for _, layer := range layers {
					if contains(layer, f) {
						g := layer[r.Intn(len(layer))]
						if c.Mode != "eager" || b[g] {
							setFail(c, g, failKind(g))
						}
					}
				}
			}
		}
	}
	// a state pre-handler that fails (submit returns before anything of that step is started): one
	// handlers case in four, instead of the other failures; such cases are outside the Coq models
	if handlers && r.Chance(1, 4) {
		for k := range c.Nodes {
			c.Nodes[k].Fail = 0
		}
		var cand []int
		for _, n := range c.Nodes {
			if n.ID != idEnd && (c.Mode != "eager" || b[n.ID] || r.Chance(1, 3)) {
				cand = append(cand, n.ID)
			}
		}
		if len(cand) > 0 {
			f := cand[r.Intn(len(cand))]
			for k := range c.Nodes {
				if c.Nodes[k].ID == f {
					c.Nodes[k].Fail, c.Nodes[k].Pre = 4, true
				}
			}
		}
	}
	// batch modes, one case in eight (no cycles): a node whose body cancels the context of the run and then
	// succeeds, in a layer that holds no predecessor of END (so END cannot become ready in the step that
	// is cancelled: the run loop notices the cancellation at the top of its next iteration, after the
	// whole step has been collected - for the order-side model this is a node whose failure is seen
	// once the step is complete, behaviour 3). An eager run notices a cancellation whenever its loop
	// comes round, which is timing: not generated.
	if c.Mode != "eager" && c.MaxSteps == 0 && r.Chance(1, 8) {
		endPred := map[int]bool{}
		for _, p := range c.Nodes[len(c.Nodes)-1].Preds {
			endPred[p] = true
		}
		var cand []int
		for _, layer := range layers {
			ok := true
			for _, id := range layer {
				if endPred[id] {
					ok = false
				}
			}
			if ok {
				for _, id := range layer {
					if nd := nodeOf(c, id); nd != nil && nd.Fail == 0 {
						cand = append(cand, id)
					}
				}
			}
		}
		if len(cand) > 0 {
			setFail(c, cand[r.Intn(len(cand))], 5)
		}
	}
	// eager: a slow node that does not feed END (the F-C03 window)
	if c.Mode == "eager" && r.Chance(1, 3) {
		var cand []int
		for _, n := range c.Nodes {
			if !b[n.ID] {
				cand = append(cand, n.ID)
			}
		}
		if len(cand) > 0 {
			s := cand[r.Intn(len(cand))]
			for k := range c.Nodes {
				if c.Nodes[k].ID == s {
					c.Nodes[k].Slow = true
				}
			}
		}
	}
	// one case in five: one to three nodes are nested graphs (a task manager of their own, two parallel inner
	// tasks one of which returns an empty map; the node's value for the model is unchanged: {n: in})
	// (not beside a node that cancels the context of the run: a nested run looks at the context itself)
	cancels := false
	for _, n := range c.Nodes {
		cancels = cancels || n.Fail == 5
	}
	if r.Chance(1, 5) && !cancels {
		for k := r.Range(1, 3); k > 0; k-- {
			n := &c.Nodes[r.Intn(len(c.Nodes))]
			if n.ID != idEnd {
				n.Sub = r.Range(1, 4)
			}
		}
	}
	switch r.Intn(8) {
	case 0, 1:
		c.Entry = "stream"
	case 2:
		c.Entry = "transform"
	case 3:
		c.Entry = "collect"
	}
	for k := 0; k < nseeds; k++ {
		c.Seeds = append(c.Seeds, r.U64()>>1)
	}
	c.Traced = 5
	c.Together = 3
	if tier == "thorough" {
		c.Traced = 25
		c.Together = 4
	}
	// all-predecessor Graphs and Workflows without branches and special edges, one in five: one or two nodes
	// interrupt the run (interrupt after / before the node: compile options; or the node's first execution
	// answers InterruptAndRerun); the call returns an interrupt error after it has collected everything it
	// started - an eager run too - and the next call resumes from the checkpoint. Such a case has no failing
	// node, no state handlers, no nested graph (those dimensions are generated without interrupts).
	if nCtl, nDat := c.specialEdges(); c.Mode != "pregel" && len(c.Branches) == 0 && nCtl+nDat == 0 && (r.Chance(1, 5) || c.Mode == "eager" && r.Chance(1, 4)) {
		for k := range c.Nodes {
			c.Nodes[k].Fail, c.Nodes[k].Pre, c.Nodes[k].Post, c.Nodes[k].Sub = 0, false, false, 0
		}
		for _, id := range pickSome(r, idsOf(c), r.Range(1, 2)) {
			switch r.Intn(3) {
			case 0:
				c.IntAfter = append(c.IntAfter, id)
			case 1:
				c.IntBefore = append(c.IntBefore, id)
			default:
				setFail(c, id, 6)
			}
		}
	}
	return c
}

// idsOf: the nodes of the case, END excluded
func idsOf(c *Case) []int {
	var ids []int
	for _, n := range c.Nodes {
		if n.ID != idEnd {
			ids = append(ids, n.ID)
		}
	}
	return ids
}

func layerOf(layers [][]int, id int) int {
	for l, layer := range layers {
		if contains(layer, id) {
			return l
		}
	}
	return 0
}

func addPred(c *Case, id, p int) {
	for k := range c.Nodes {
		if c.Nodes[k].ID == id && !contains(c.Nodes[k].Preds, p) {
			c.Nodes[k].Preds = sortInts(append(c.Nodes[k].Preds, p))
		}
	}
}

// makeCtlOnly turns the ordinary edge p -> id into a control-only edge
func makeCtlOnly(c *Case, id, p int) {
	if n := nodeOf(c, id); n != nil && contains(n.Preds, p) {
		n.Preds = without(n.Preds, p)
		n.Ctl = sortInts(append(n.Ctl, p))
	}
}

// ctlAncestors: the nodes from which id is reached by control edges (ordinary or control-only) and
// branches, id itself excluded
func ctlAncestors(c *Case, id int) map[int]bool {
	anc := map[int]bool{}
	work := []int{id}
	for len(work) > 0 {
		x := work[0]
		work = work[1:]
		var ps []int
		if n := nodeOf(c, x); n != nil {
			ps = append(append(ps, n.Preds...), n.Ctl...)
		}
		for _, br := range c.Branches {
			if contains(br.Ends, x) {
				ps = append(ps, br.From)
			}
		}
		for _, p := range ps {
			if !anc[p] {
				anc[p] = true
				work = append(work, p)
			}
		}
	}
	return anc
}

// hasIndirectPath: p reaches id by control edges through at least one other node
func hasIndirectPath(c *Case, p, id int) bool {
	n := nodeOf(c, id)
	if n == nil {
		return false
	}
	for _, q := range append(append([]int(nil), n.Preds...), n.Ctl...) {
		if q != p && (ctlAncestors(c, q)[p]) {
			return true
		}
	}
	return false
}

func filterInts(xs []int, keep func(int) bool) []int {
	var out []int
	for _, x := range xs {
		if keep(x) {
			out = append(out, x)
		}
	}
	return out
}

func setPreds(c *Case, id int, ps []int) {
	for k := range c.Nodes {
		if c.Nodes[k].ID == id {
			c.Nodes[k].Preds = ps
		}
	}
}

func without(xs []int, x int) []int {
	var out []int
	for _, y := range xs {
		if y != x {
			out = append(out, y)
		}
	}
	return out
}

func nodeOf(c *Case, id int) *Node {
	for k := range c.Nodes {
		if c.Nodes[k].ID == id {
			return &c.Nodes[k]
		}
	}
	return nil
}

func setFail(c *Case, id, kind int) {
	for k := range c.Nodes {
		if c.Nodes[k].ID == id {
			c.Nodes[k].Fail = kind
		}
	}
}

func contains(xs []int, x int) bool {
	for _, y := range xs {
		if x == y {
			return true
		}
	}
	return false
}

func sortInts(xs []int) []int { sort.Ints(xs); return xs }

func containsInt(xs []int, x int) bool { return contains(xs, x) }

func dedup(xs []int) []int {
	var out []int
	for i, x := range xs {
		if i == 0 || x != xs[i-1] {
			out = append(out, x)
		}
	}
	return out
}

// build0: ancestors of END only (no compile)
func build0(c *Case) map[int]bool {
	anc := map[int]bool{idEnd: true}
	for changed := true; changed; {
		changed = false
		for i := range c.Nodes {
			n := &c.Nodes[i]
			if anc[n.ID] {
				for _, p := range n.allPreds() {
					if !anc[p] {
						anc[p] = true
						changed = true
					}
				}
			}
		}
		for _, br := range c.Branches {
			for _, e := range br.Ends {
				if anc[e] && !anc[br.From] {
					anc[br.From] = true
					changed = true
				}
			}
		}
	}
	return anc
}

// entryOf: the public entry point the case goes through. Stream returns a stream of maps with
// disjoint keys (one chunk per predecessor of END); the harness merges them into one map.
func entryOf(c *Case, r compose.Runnable[map[string]any, map[string]any]) func(ctx context.Context, in map[string]any, opts ...compose.Option) (map[string]any, error) {
	switch c.Entry {
	case "collect":
		return func(ctx context.Context, in map[string]any, opts ...compose.Option) (map[string]any, error) {
			return r.Collect(ctx, schema.StreamReaderFromArray([]map[string]any{in}), opts...)
		}
	case "stream", "transform":
	default:
		return func(ctx context.Context, in map[string]any, opts ...compose.Option) (map[string]any, error) {
			return r.Invoke(ctx, in, opts...)
		}
	}
	return func(ctx context.Context, in map[string]any, opts ...compose.Option) (map[string]any, error) {
		var sr *schema.StreamReader[map[string]any]
		var err error
		if c.Entry == "transform" {
			sr, err = r.Transform(ctx, schema.StreamReaderFromArray([]map[string]any{in}), opts...)
		} else {
			sr, err = r.Stream(ctx, in, opts...)
		}
		if err != nil {
			return nil, err
		}
		defer sr.Close()
		out := map[string]any{}
		for {
			chunk, err := sr.Recv()
			if err == io.EOF {
				return out, nil
			}
			if err != nil {
				return nil, err
			}
			for k, v := range chunk {
				if _, dup := out[k]; dup {
					return nil, fmt.Errorf("harness: key %s delivered twice in the output stream", k)
				}
				out[k] = v
			}
		}
	}
}

func branchOf(br Branch) *compose.GraphBranch {
	ends := map[string]bool{}
	for _, e := range br.Ends {
		ends[key(e)] = true
	}
	sel := map[string]bool{}
	for _, e := range br.Sel {
		sel[key(e)] = true
	}
	return compose.NewGraphMultiBranch(func(ctx context.Context, in map[string]any) (map[string]bool, error) {
		out := make(map[string]bool, len(sel))
		for k := range sel {
			out[k] = true
		}
		return out, nil
	}, ends)
}

func coqNs(xs []uint64) string {
	s := make([]string, len(xs))
	for i, x := range xs {
		s[i] = fmt.Sprint(x)
	}
	return "[" + strings.Join(s, ";") + "]"
}

func coqLog(l []exec) string {
	s := make([]string, len(l))
	for i, e := range l {
		s[i] = fmt.Sprintf("(%d,%s)", e.ID, coqNs(e.In))
	}
	return "[" + strings.Join(s, ";") + "]"
}

func (o *runObs) coqOut() string {
	switch o.Class {
	case "val":
		return "RVal " + coqNs(o.Val)
	case "err":
		return "RErr"
	case "panic":
		return "RPanic"
	}
	return "RHang"
}

func (o *runObs) coq() string {
	switch o.Class {
	case "val":
		return fmt.Sprintf("(RVal %s, %s)", coqNs(o.Val), coqLog(o.Log))
	case "err":
		return fmt.Sprintf("(RErr, %s)", coqLog(o.Log))
	case "panic":
		return fmt.Sprintf("(RPanic, %s)", coqLog(o.Log))
	}
	return fmt.Sprintf("(RHang, %s)", coqLog(o.Log))
}

func nodeNum(k string) (uint64, bool) {
	var n uint64
	if _, err := fmt.Sscanf(k, "n%d", &n); err == nil {
		return n, true
	}
	return 0, false
}

func coqTrace(b *built, evs []compose.VerifC03Event) string {
	var s []string
	bres := func(id uint64) string {
		if n, ok := b.byID[int(id)]; ok {
			switch n.Fail {
			case 1, 6: // 6: the traced task manager is the one of the first call, where the node answers InterruptAndRerun
				return "BErr"
			case 2:
				return "BPanic"
			}
		}
		return "BOk" // also Fail == 3: the body succeeds, the post-handler fails after the hand-off
	}
	// a node of a cyclic (any-predecessor) graph runs in several steps: the task of its k-th submission
	// has the key node + 64*k (a node is never in flight twice at the same time in batch mode, so the
	// other events of a key belong to its latest submission)
	subs := map[uint64]uint64{}
	for _, e := range evs {
		nid, _ := nodeNum(e.Key)
		if e.Kind == "spawn" || e.Kind == "sync" {
			subs[nid]++
		}
		id := nid
		if subs[nid] > 1 {
			id = nid + 64*(subs[nid]-1)
		}
		bres := func(uint64) string { return bres(nid) }
		switch e.Kind {
		case "spawn":
			s = append(s, fmt.Sprintf("EvSpawn %d %s", id, bres(id)))
		case "sync":
			s = append(s, fmt.Sprintf("EvSync %d %s", id, bres(id)))
		case "syncret":
			s = append(s, fmt.Sprintf("EvSyncRet %d", id))
		case "await":
			s = append(s, "EvAwait")
		case "empty":
			s = append(s, "EvEmpty")
		case "lockE":
			s = append(s, fmt.Sprintf("EvLockE %d", id))
		case "push":
			s = append(s, fmt.Sprintf("EvPush %d %s", id, lib.CoqBool(e.Err)))
		case "send":
			s = append(s, fmt.Sprintf("EvSend %d", id))
		case "full":
			s = append(s, "EvFull")
		case "unlockE":
			s = append(s, fmt.Sprintf("EvUnlockE %d", id))
		case "recv":
			s = append(s, fmt.Sprintf("EvRecv %d %s", id, lib.CoqBool(e.Err)))
		case "lockC":
			s = append(s, "EvLockC")
		case "unlockC":
			s = append(s, "EvUnlockC")
		default:
			s = append(s, "EvEmpty (* unknown kind "+e.Kind+" *)")
		}
	}
	return "[" + strings.Join(s, ";") + "]"
}

func (c *Case) coqGraph() string {
	s := make([]string, len(c.Nodes))
	for i, n := range c.Nodes {
		ps := make([]string, len(n.Preds))
		for j, p := range n.Preds {
			ps[j] = fmt.Sprint(p)
		}
		fail := n.Fail
		if fail == 5 {
			// a cancellation from inside a batch step is noticed after the step has been collected, like
			// a failure of the node that is seen after the hand-off (behaviour 3 of the Coq models)
			fail = 3
		}
		s[i] = fmt.Sprintf("mkn %d [%s] %d", n.ID, strings.Join(ps, ";"), fail)
	}
	return "[" + strings.Join(s, ";") + "]"
}

func coqInts(xs []int) string {
	s := make([]string, len(xs))
	for i, x := range xs {
		s[i] = fmt.Sprint(x)
	}
	return "[" + strings.Join(s, ";") + "]"
}

// coqEdges: the control-only / data-only edges as (target, source) pairs
func (c *Case) coqEdges(dat bool) string {
	var s []string
	for _, n := range c.Nodes {
		ps := n.Ctl
		if dat {
			ps = n.Dat
		}
		for _, p := range ps {
			s = append(s, fmt.Sprintf("(%d,%d)", n.ID, p))
		}
	}
	return "[" + strings.Join(s, ";") + "]"
}

func (c *Case) coqBranches() string {
	s := make([]string, len(c.Branches))
	for i, b := range c.Branches {
		s[i] = fmt.Sprintf("mkbr %d %s %s", b.From, coqInts(b.Ends), coqInts(b.Sel))
	}
	return "[" + strings.Join(s, ";") + "]"
}

func sameLog(a, b []exec) bool {
	if len(a) != len(b) {
		return false
	}
	for i := range a {
		if a[i].ID != b[i].ID || len(a[i].In) != len(b[i].In) {
			return false
		}
		for j := range a[i].In {
			if a[i].In[j] != b[i].In[j] {
				return false
			}
		}
	}
	return true
}

func (b *built) feeding(l []exec) []exec {
	var out []exec
	for _, e := range l {
		if b.anc[e.ID] {
			out = append(out, e)
		}
	}
	return out
}

func sameVal(a, b *runObs) bool {
	if a.Class != b.Class || len(a.Val) != len(b.Val) {
		return false
	}
	for i := range a.Val {
		if a.Val[i] != b.Val[i] {
			return false
		}
	}
	return true
}

type obsOut struct {
	Runs      int      `json:"runs"`
	Class     string   `json:"class"`
	Val       []uint64 `json:"val,omitempty"`
	Log       []exec   `json:"log"`
	Distinct  int      `json:"distinct_observations"`
	Uncoll    int      `json:"runs_with_running_nodes_at_return"`
	Traces    int      `json:"traces"`
	Events    int      `json:"events"`
	SubTraces int      `json:"nested_traces,omitempty"`     // complete protocol traces of nested runs sent to the LTS
	Ints      int      `json:"interrupted_calls,omitempty"` // calls that returned an interrupt and were resumed by the next call, over all runs
	BuildErr  string   `json:"build_error,omitempty"`
	FirstDiff string   `json:"first_difference,omitempty"`
}

func (engine) Run(ci any) lib.Result {
	c := ci.(*Case)
	b := build(c)
	res := lib.Result{}
	width := 0
	{
		// widest step: nodes sharing the same predecessor layer is not recorded; use a simple proxy
		cnt := map[string]int{}
		for _, n := range c.Nodes {
			k := fmt.Sprint(n.Preds)
			cnt[k]++
		}
		_ = cnt
		width = len(c.Nodes) - 1
	}
	res.Tags = []string{"mode:" + c.Mode, fmt.Sprintf("nodes:%d", width)}
	if c.Entry != "" {
		res.Tags = append(res.Tags, "entry:"+c.Entry)
	} else {
		res.Tags = append(res.Tags, "entry:invoke")
	}
	if b.buildE != "" {
		res.Obs = obsOut{BuildErr: b.buildE}
		res.Oracle = "generated graph does not build: " + b.buildE
		res.Sig = "build"
		res.Tags = append(res.Tags, "class:build-error")
		return res
	}
	var first *runObs
	var distinct []*runObs
	var traces, subs []string
	out := obsOut{}
	nfail := 0
	for _, n := range c.Nodes {
		if n.Fail != 0 && n.Fail != 6 {
			nfail++
		}
	}
	// a known-finding signature (prefix "eager-") must not mask another failure of the same case
	fail := func(sig, what string) {
		if res.Oracle == "" || strings.HasPrefix(res.Sig, "eager-") && !strings.HasPrefix(sig, "eager-") {
			res.Oracle, res.Sig = what, sig
		}
	}
	leftNonAnc, leftAtErr := false, false
	failNonAnc := c.Mode == "eager" && hasFailNonAnc(b)
	hung := false
	var firstSeed uint64
	observe := func(seed uint64, traced bool, o *runObs) {
		out.Runs++
		out.Ints += o.Ints
		if o.Class == "hang" {
			hung = true
			atomic.AddInt32(&hangingCases, 1)
		}
		if o.Class == "hang" {
			fail("hang", fmt.Sprintf("run with delay seed %d did not return within %v", seed, o.wd))
		}
		if o.Class == "panic" {
			fail("escaped-panic", fmt.Sprintf("run with delay seed %d panicked on the caller's goroutine", seed))
		}
		// started executions still running at the return
		if len(o.Running) > 0 {
			out.Uncoll++
			switch {
			case c.Mode == "eager" && o.Class == "val" && allNonAnc(b, o.Running):
				leftNonAnc = true // permitted: only the nodes feeding END must have finished
			case c.Mode == "eager" && o.Class == "err":
				leftAtErr = true // a node error is returned at once
			default:
				fail("returned-before-nodes-finished",
					fmt.Sprintf("%s run returned (%s) while node(s) %v were still running", c.Mode, o.Class, o.Running))
			}
		}
		// a nested graph is a Graph: it collects every task it started before it returns, so no inner node
		// of a nested node that has completed is still running. (An eager run may abandon a nested node
		// that does not feed END, or any node once it has failed: then the nested run is still going on.)
		if len(o.InnerRunning) > 0 {
			if c.Mode != "eager" || o.Class == "val" && !allNonAnc(b, o.InnerRunning) {
				fail("returned-before-nodes-finished",
					fmt.Sprintf("%s run returned (%s) while an inner node of the nested graph node(s) %v was still running", c.Mode, o.Class, o.InnerRunning))
			}
		}
		if o.Late != 0 {
			fail("returned-before-nodes-finished",
				fmt.Sprintf("delay seed %d: the nested graph node n%d had completed (its successor n%d was started) while one of its inner nodes was still running: the nested run returned before it had collected every task it started", seed, o.Late, o.LateBy))
		}
		// a call that returns an interrupt has written the checkpoint the next call resumes from: every
		// execution it started must have been collected by then (in eager mode too: the run loop waits for
		// all outstanding tasks before it builds the checkpoint), or its result is in no channel and no
		// pending input and is lost
		if len(o.IntRunning) > 0 {
			fail("returned-before-nodes-finished",
				fmt.Sprintf("delay seed %d: an interrupted call of the %s run returned while node(s) %v were still running: the checkpoint it wrote cannot hold their results", seed, c.Mode, o.IntRunning))
		}
		if o.proto != "" {
			fail("collect-bookkeeping", fmt.Sprintf("delay seed %d: %s", seed, o.proto))
		}
		if o.handler != "" {
			fail("handler-bookkeeping", fmt.Sprintf("delay seed %d: %s", seed, o.handler))
		}
		if o.flag != "" {
			fail("handoff-error-flag", fmt.Sprintf("delay seed %d: %s", seed, o.flag))
		}
		if traced {
			out.Traces++
			out.Events += len(o.events)
			out.SubTraces += len(o.subs)
			subs = append(subs, o.subs...)
			if c.Mode != "eager" && o.spawned != o.recvd {
				fail("uncollected", fmt.Sprintf("batch run returned with %d of %d submitted tasks collected", o.recvd, o.spawned))
			}
			if c.Mode == "eager" && o.Ints > 0 && o.spawned != o.recvd {
				// (the traced task manager is the one of the first call of the chain, the interrupted one)
				fail("uncollected", fmt.Sprintf("eager run returned an interrupt with %d of %d submitted tasks collected", o.recvd, o.spawned))
			}
			if o.Class != "hang" && o.recvd != o.collect {
				// the mechanism the property is anchored on: the collector receives one task and tops the
				// one-slot channel up again under the mutex; a receive without that section leaves a task that
				// was pushed while the slot was full on the overflow list with nobody to hand it over
				fail("collector-top-up-skipped", fmt.Sprintf("the collector received %d task(s) but refilled the hand-off channel under the mutex only %d time(s): a finished task left on the overflow list is then never handed over", o.recvd, o.collect))
			}
			// the whole traced run: trace, outstanding tasks at the return, outcome, every execution started
			// (a chain whose first call started nothing - interrupt before a node of the first step - has no trace)
			if !(c.interrupts() && len(o.events) == 0) {
				traces = append(traces, fmt.Sprintf("mkrun %s %d%%nat (%s) %s", coqTrace(b, o.events), o.spawned-o.collect, o.coqOut(), coqLog(o.Log)))
			}
		}
		// comparable projection of this run
		cmpLog := o.Log
		if c.Mode == "eager" {
			if o.Class == "val" {
				cmpLog = b.feeding(o.Log)
			} else {
				cmpLog = nil // which executions had started when the failure was collected is timing
			}
		}
		o.Log = cmpLog
		if first == nil {
			first, firstSeed = o, seed
			distinct = append(distinct, o)
		} else if !sameVal(first, o) || !sameLog(first.Log, o.Log) {
			if out.FirstDiff == "" {
				out.FirstDiff = fmt.Sprintf("seed %d: %s %v vs seed %d: %s %v", firstSeed, first.Class, first.Val, seed, o.Class, o.Val)
			}
			dup := false
			for _, d := range distinct {
				if sameVal(d, o) && sameLog(d.Log, o.Log) {
					dup = true
				}
			}
			if !dup {
				// F-C03c: an eager run with a failing node that does not feed END returns the value or
				// the error, whichever comes first. Exactly that difference (value vs error, every
				// value run equal to every other value run) gets the known signature.
				known := failNonAnc && first.Class != o.Class && isValErr(first.Class, o.Class)
				for _, d := range distinct {
					if d.Class == o.Class {
						known = false // two different observations of the same class
					}
				}
				distinct = append(distinct, o)
				if known {
					fail("eager-result-depends-on-failing-non-ancestor", fmt.Sprintf(
						"eager run: result is a %s with delay seed %d and a %s with delay seed %d (a failing node that does not feed END races with END)",
						className(first.Class), firstSeed, className(o.Class), seed))
				} else {
					what := "result"
					if sameVal(first, o) {
						what = "execution multiset"
					}
					fail("order-dependent-"+strings.ReplaceAll(what, " ", "-"),
						fmt.Sprintf("%s differs between delay seeds %d and %d", what, firstSeed, seed))
				}
			}
		}
	}
	// the first calls of the freshly compiled object are made at the same time (with the last Together delay
	// seeds; the other seeds are used below for calls made one after the other): every call is a run of its own,
	// so it must give the result and the executions of every other run of the case, collect what it started, not hang
	alone := c.Seeds
	if n := c.Together; n >= 2 && n < len(c.Seeds) {
		tg := c.Seeds[len(c.Seeds)-n:]
		alone = c.Seeds[:len(c.Seeds)-n]
		for i, o := range b.together(tg) {
			observe(tg[i], false, o)
		}
		res.Tags = append(res.Tags, fmt.Sprintf("together:%d", n))
	}
	for k, seed := range alone {
		if hung || atomic.LoadInt32(&hangingCases) >= 3 && k >= 2 {
			break
		}
		traced := k < c.Traced
		observe(seed, traced, b.once(seed, traced))
	}
	if first != nil {
		out.Class, out.Val, out.Log = first.Class, first.Val, first.Log
		res.Tags = append(res.Tags, "class:"+first.Class)
	}
	out.Distinct = len(distinct)
	res.Obs = out
	if nfail > 0 {
		res.Tags = append(res.Tags, fmt.Sprintf("failing:%d", nfail))
	}
	if leftNonAnc {
		res.Tags = append(res.Tags, "left-running:non-ancestor-at-value-return")
	}
	if leftAtErr {
		res.Tags = append(res.Tags, "left-running:at-error-return")
	}
	if failNonAnc {
		res.Tags = append(res.Tags, "failing-non-ancestor")
	}
	for _, n := range c.Nodes {
		if n.Fail == 5 {
			res.Tags = append(res.Tags, "cancel:in-step")
			break
		}
	}
	if c.hasHandlers() {
		res.Tags = append(res.Tags, "handlers:yes")
		for _, n := range c.Nodes {
			if n.Fail == 3 {
				res.Tags = append(res.Tags, "failing:post-handler")
				break
			}
		}
	}
	maxPar := parallelism(c)
	res.Tags = append(res.Tags, fmt.Sprintf("par:%d", maxPar))
	res.Nontrivial = maxPar >= 2 && len(c.Seeds) >= 2
	modeN := map[string]int{"pregel": 0, "dag": 1, "eager": 2}[c.Mode]
	obsS := make([]string, len(distinct))
	for i, d := range distinct {
		obsS[i] = d.coq()
	}
	if b.preFail {
		// behaviour 4 of a node in the Coq models: submit fails before anything of the step is started
		res.Tags = append(res.Tags, "failing:pre-handler")
	}
	nCtl, nDat := c.specialEdges()
	if nCtl > 0 {
		res.Tags = append(res.Tags, "edges:control-only")
	}
	if nDat > 0 {
		res.Tags = append(res.Tags, "edges:data-only")
	}
	for _, n := range c.Nodes {
		if n.Sub > 0 {
			res.Tags = append(res.Tags, "nested:yes")
			break
		}
	}
	switch {
	case c.interrupts():
		// interrupted and resumed runs are outside the order-side models: the direct oracles (same result and
		// feeding executions under every delay seed, everything collected at an interrupt return) and the
		// protocol trace of the first call of the chain
		res.CoqTerm = fmt.Sprintf("mkcase %d 0%%nat [] [] [] [] [%s] [%s] [%s]", modeN, strings.Join(obsS, ";"), strings.Join(traces, ";\n  "), strings.Join(subs, ";\n  "))
		res.Tags = append(res.Tags, "interrupt:yes")
	case len(c.Branches) == 0 && nCtl+nDat == 0:
		res.CoqTerm = fmt.Sprintf("mkcase %d %d%%nat %s [] [] [] [%s] [%s] [%s]", modeN, c.MaxSteps, c.coqGraph(), strings.Join(obsS, ";"), strings.Join(traces, ";\n  "), strings.Join(subs, ";\n  "))
		if c.MaxSteps > 0 {
			res.Tags = append(res.Tags, "cyclic:yes")
		}
	case c.Mode == "eager":
		// Workflow with branches, control-only or data-only edges: Model/EagerSkip.v
		res.CoqTerm = fmt.Sprintf("mkcase %d 0%%nat %s %s %s %s [%s] [%s] [%s]", modeN, c.coqGraph(), c.coqBranches(), c.coqEdges(false), c.coqEdges(true), strings.Join(obsS, ";"), strings.Join(traces, ";\n  "), strings.Join(subs, ";\n  "))
		res.Tags = append(res.Tags, fmt.Sprintf("branches:%d", len(c.Branches)))
	default:
		// batch mode with branches is outside the order-side models: only the protocol traces go to Coq
		res.CoqTerm = fmt.Sprintf("mkcase %d 0%%nat [] [] [] [] [%s] [%s] [%s]", modeN, strings.Join(obsS, ";"), strings.Join(traces, ";\n  "), strings.Join(subs, ";\n  "))
		res.Tags = append(res.Tags, fmt.Sprintf("branches:%d", len(c.Branches)))
	}
	return res
}

func isValErr(a, b string) bool {
	return a == "val" && b == "err" || a == "err" && b == "val"
}

func className(c string) string {
	if c == "val" {
		return "value"
	}
	return "node error"
}

func hasFailNonAnc(b *built) bool {
	for _, n := range b.c.Nodes {
		if n.Fail != 0 && n.Fail != 6 && !b.anc[n.ID] {
			return true
		}
	}
	return false
}

func allNonAnc(b *built, ids []int) bool {
	for _, id := range ids {
		if b.anc[id] {
			return false
		}
	}
	return true
}

// parallelism: the largest number of nodes with the same depth (longest path from START)
func parallelism(c *Case) int {
	depth := map[int]int{idStart: 0}
	cnt := map[int]int{}
	best := 0
	for _, n := range c.Nodes {
		d := 0
		for _, p := range n.allPreds() {
			if depth[p]+1 > d {
				d = depth[p] + 1
			}
		}
		depth[n.ID] = d
		if n.ID != idEnd {
			cnt[d]++
			if cnt[d] > best {
				best = cnt[d]
			}
		}
	}
	return best
}

func main() { lib.Main(engine{}) }
