// Engine C18 — the ReAct agent (flow/agent/react) alternates model and tools faithfully and stops.
//
// One case = an agent configuration (recording tools of kind invokable / streamable / both,
// failing argument strings, unknown-tool handler, return-directly set, MaxStep, default or
// exact StreamToolCallChecker, optional persona modifier, ChatModel or ToolCallingChatModel
// API), the original messages and a model script: every scripted reply is given whole (what
// Generate returns) and as the chunk list Stream delivers.  The case is run through
// Agent.Generate and Agent.Stream, and additionally from several goroutines at once on the
// same agent (each concurrent run must equal the sequential one; the binary is built with
// -race).  Observables: every model call's input history, the tool executions grouped by
// round, the final answer or error class.  Direct oracle: the property text as a loop written
// here in Go; correspondence: Model/React.v's graph-level model evaluated in Coq.
package main

import (
	"context"
	"encoding/json"
	"errors"
	"fmt"
	"io"
	"os"
	"path/filepath"
	"reflect"
	"sort"
	"strings"
	"sync"
	"sync/atomic"
	"time"

	"github.com/cloudwego/eino/components/model"
	"github.com/cloudwego/eino/components/tool"
	"github.com/cloudwego/eino/compose"
	"github.com/cloudwego/eino/flow/agent"
	"github.com/cloudwego/eino/flow/agent/react"
	"github.com/cloudwego/eino/schema"

	"verif/harness/lib"
)

// ---------------------------------------------------------------- case

type TCall struct {
	ID   string `json:"id"`
	Name string `json:"name"`
	Args string `json:"args"`
}

type Frag struct {
	Index int    `json:"index"`
	ID    string `json:"id,omitempty"`
	Name  string `json:"name,omitempty"`
	Args  string `json:"args,omitempty"`
}

type Chunk struct {
	Content string `json:"content,omitempty"`
	Frags   []Frag `json:"frags,omitempty"`
}

type Step struct {
	Fail    bool    `json:"fail,omitempty"`
	Content string  `json:"content,omitempty"`
	Calls   []TCall `json:"calls,omitempty"`
	Chunks  []Chunk `json:"chunks,omitempty"`
}

type Msg struct {
	Role    int     `json:"role"` // 0 system, 1 user, 2 assistant, 3 tool
	Content string  `json:"content"`
	Calls   []TCall `json:"calls,omitempty"`
	TCID    string  `json:"tcid,omitempty"`
}

type ToolDef struct {
	Name string `json:"name"`
	Kind string `json:"kind"` // inv | str | both
}

// ToolOut: a tool called with the argument string Args streams exactly Chunks (at least one,
// any of them may be empty) and returns their concatenation when it is invoked; every other
// argument string gives name(args), streamed as name, "(", args, ")"
type ToolOut struct {
	Args   string   `json:"args"`
	Chunks []string `json:"chunks"`
	Fail   bool     `json:"fail,omitempty"`  // the stream ends with an error item after the chunks (the tool fails when invoked)
	Panic  bool     `json:"panic,omitempty"` // the tool panics as it is called (either form)
}

type Case struct {
	Tools        []ToolDef `json:"tools"`
	FailArgs     []string  `json:"fail_args,omitempty"`
	Outs         []ToolOut `json:"outs,omitempty"`
	Handler      bool      `json:"handler,omitempty"`
	RD           []string  `json:"rd,omitempty"`
	MaxStep      int       `json:"max_step"`
	Checker      string    `json:"checker"` // default | exact
	Persona      string    `json:"persona,omitempty"`
	Mod          string    `json:"mod,omitempty"`         // "" | rewrite | window : a MessageModifier that works in place on the slice it is given
	Twin         bool      `json:"twin,omitempty"`        // two agents are built from ONE AgentConfig value; the runs use the second, the first is run afterwards and must behave alike
	EmptyRD      bool      `json:"empty_rd,omitempty"`    // no return-directly tool: ToolReturnDirectly is an empty non-nil map instead of nil
	RuntimeMax   int       `json:"runtime_max,omitempty"` // > 0: call option compose.WithRuntimeMaxSteps through agent.WithComposeOptions
	ToolOpt      bool      `json:"tool_opt,omitempty"`    // call option react.WithToolOptions(marker): every tool must receive it
	Future       bool      `json:"future,omitempty"`      // call option react.WithMessageFuture: the messages handed out are observed
	Exported     bool      `json:"exported,omitempty"`    // additionally run the agent as a node of a parent graph (Agent.ExportGraph)
	ToolList     []ToolDef `json:"tool_list,omitempty"`   // call option compose.WithToolList through agent.WithComposeOptions: replaces the tools of the tools node for this call
	Host         *HostCase `json:"host,omitempty"`        // a host multi-agent case (host.go); only input, checker, model_api, index_in_whole, pipe_stream, exported are used besides
	SetupFault   string    `json:"setup_fault,omitempty"` // nomodel | infofail | bindfail : NewAgent must return an error (no run)
	ModelAPI     string    `json:"model_api"`             // chat | toolcalling
	IndexInWhole bool      `json:"index_in_whole,omitempty"`
	IndexBase    int       `json:"index_base,omitempty"`   // the ToolCall.Index the model gives the i-th call of a message is
	IndexStride  int       `json:"index_stride,omitempty"` // IndexBase + IndexStride*i (stride 0 = 1): numbering from 1, with gaps, ...
	PipeStream   bool      `json:"pipe_stream,omitempty"`  // the model streams through a Pipe (else array-backed)
	Input        []Msg     `json:"input"`
	Script       []Step    `json:"script"`
	Concurrent   int       `json:"concurrent,omitempty"`
	// what the model reports besides content and tool calls (schema.Message.ResponseMeta): "" nothing |
	// stop (always "stop", also with tool calls - several OpenAI-compatible servers do) | accurate ("tool_calls"
	// when the message has some, else "stop") | length.  The agent's routing is about tool calls only.
	Finish   string `json:"finish,omitempty"`
	FinishAt string `json:"finish_at,omitempty"` // Stream: the chunk(s) carrying the meta: last (default) | first | all
	// the streaming / invokable tools honour the context they are called with: stop ("stop": the stream just ends)
	// or say so ("report": an error item / error) once it is cancelled.  The caller's context is never cancelled,
	// so a tool that sees a cancelled context was cancelled by the agent itself.
	CtxTools string `json:"ctx_tools,omitempty"`
	// the concurrent runs are the FIRST runs of the freshly built agent (else they come after a Generate and a
	// Stream run): whatever the agent sets up lazily is then set up by overlapping calls
	ConcFirst bool `json:"conc_first,omitempty"`
}

// ---------------------------------------------------------------- recording

type exec struct {
	Round int
	Call  TCall
	Opt   bool // the tool received the marker option of react.WithToolOptions
	Alt   bool // the executing tool instance belongs to the call-time tool list
}

type toolOpts struct{ marker string }

const toolMarker = "c18-marker"

var futureHangs atomic.Int32

// how often the wait for the tool executions still running after a failed round expired
var stragglerWaits atomic.Int32

// a run that has not returned after 10 s is given 50 s more before it is called a hang (the machine may
// just be slow: many other heavy processes); once a hang was seen, later runs get the 10 s only
var runHangs atomic.Int32

func awaitRun(done chan any) (any, bool) {
	select {
	case p := <-done:
		return p, true
	case <-time.After(10 * time.Second):
	}
	if runHangs.Load() == 0 {
		select {
		case p := <-done:
			return p, true
		case <-time.After(50 * time.Second):
		}
	}
	runHangs.Add(1)
	return nil, false
}

type modelCall struct {
	rendered []Msg
	retained []*schema.Message
}

type recorder struct {
	mu    sync.Mutex
	calls []modelCall
	execs []exec
}

type recKey struct{}

func recOf(ctx context.Context) *recorder {
	r, _ := ctx.Value(recKey{}).(*recorder)
	return r
}

func roleN(r schema.RoleType) int {
	switch r {
	case schema.System:
		return 0
	case schema.User:
		return 1
	case schema.Assistant:
		return 2
	case schema.Tool:
		return 3
	}
	return 9
}

func render(m *schema.Message) Msg {
	if m == nil {
		return Msg{Role: 9, Content: "<nil>"}
	}
	o := Msg{Role: roleN(m.Role), Content: m.Content, TCID: m.ToolCallID}
	for _, tc := range m.ToolCalls {
		o.Calls = append(o.Calls, TCall{tc.ID, tc.Function.Name, tc.Function.Arguments})
	}
	return o
}

func renderAll(ms []*schema.Message) []Msg {
	out := make([]Msg, len(ms))
	for i, m := range ms {
		out[i] = render(m)
	}
	return out
}

// ---------------------------------------------------------------- the scripted model

type modelErr struct{ K int }

func (e *modelErr) Error() string { return fmt.Sprintf("MODELERR#%d#", e.K) }

type toolErr struct{}

func (e *toolErr) Error() string { return "TOOLERR#" }

type failingInfoTool struct{}

func (failingInfoTool) Info(context.Context) (*schema.ToolInfo, error) {
	return nil, errors.New("INFOFAIL#")
}
func (failingInfoTool) InvokableRun(context.Context, string, ...tool.Option) (string, error) {
	return "", errors.New("unreachable")
}

type fakeModel struct {
	c     *Case
	bound []string
	binds *int // how often tools were bound (shared with the instances WithTools derives)
	root  *fakeModel
}

func (m *fakeModel) BindTools(ts []*schema.ToolInfo) error {
	if m.c.SetupFault == "bindfail" {
		return errors.New("BINDFAIL#")
	}
	m.bound = nil
	for _, t := range ts {
		m.bound = append(m.bound, t.Name)
	}
	*m.binds++
	if m.root != nil {
		m.root.bound = m.bound
	}
	return nil
}

func (m *fakeModel) WithTools(ts []*schema.ToolInfo) (model.ToolCallingChatModel, error) {
	n := &fakeModel{c: m.c, binds: m.binds, root: m}
	if err := n.BindTools(ts); err != nil {
		return nil, err
	}
	return n, nil
}

// the deprecated Model field beside a ToolCallingModel: never to be used
type decoyModel struct{ touched atomic.Int32 }

func (d *decoyModel) BindTools([]*schema.ToolInfo) error { d.touched.Add(1); return nil }
func (d *decoyModel) Generate(context.Context, []*schema.Message, ...model.Option) (*schema.Message, error) {
	d.touched.Add(1)
	return nil, errors.New("DECOY#: the deprecated AgentConfig.Model was called although a ToolCallingModel is configured")
}
func (d *decoyModel) Stream(context.Context, []*schema.Message, ...model.Option) (*schema.StreamReader[*schema.Message], error) {
	d.touched.Add(1)
	return nil, errors.New("DECOY#: the deprecated AgentConfig.Model was called although a ToolCallingModel is configured")
}

// the ToolCall.Index of the i-th call of a message (increasing with i: a streamed message has its
// calls ordered by it)
func (c *Case) idx(i int) int {
	st := c.IndexStride
	if st <= 0 {
		st = 1
	}
	return c.IndexBase + st*i
}

// the ResponseMeta the model attaches to a reply (nil = none)
func (c *Case) meta(st *Step) *schema.ResponseMeta {
	fr := ""
	switch c.Finish {
	case "":
		return nil
	case "accurate":
		fr = "stop"
		if len(st.Calls) > 0 {
			fr = "tool_calls"
		}
	default:
		fr = c.Finish
	}
	return &schema.ResponseMeta{FinishReason: fr, Usage: &schema.TokenUsage{PromptTokens: 7, CompletionTokens: 3, TotalTokens: 10}}
}

// next records the call and returns the scripted step (nil = failure)
func (m *fakeModel) next(ctx context.Context, input []*schema.Message) (*Step, int) {
	rc := recOf(ctx)
	if rc == nil {
		panic("harness: the context handed to the model lost the caller's values")
	}
	rc.mu.Lock()
	k := len(rc.calls)
	rc.calls = append(rc.calls, modelCall{renderAll(input), input})
	rc.mu.Unlock()
	if rv, _ := ctx.Value(rvKey{}).(*rendezvous); rv != nil && k == 0 {
		rv.arriveOnce(rc)
	}
	if k >= len(m.c.Script) || m.c.Script[k].Fail {
		return nil, k
	}
	return &m.c.Script[k], k
}

func (m *fakeModel) Generate(ctx context.Context, input []*schema.Message, _ ...model.Option) (*schema.Message, error) {
	st, k := m.next(ctx, input)
	if st == nil {
		return nil, &modelErr{k}
	}
	out := &schema.Message{Role: schema.Assistant, Content: st.Content, ResponseMeta: m.c.meta(st)}
	for i, cl := range st.Calls {
		tc := schema.ToolCall{ID: cl.ID, Type: "function", Function: schema.FunctionCall{Name: cl.Name, Arguments: cl.Args}}
		if m.c.IndexInWhole {
			idx := m.c.idx(i)
			tc.Index = &idx
		}
		out.ToolCalls = append(out.ToolCalls, tc)
	}
	return out, nil
}

func (m *fakeModel) Stream(ctx context.Context, input []*schema.Message, _ ...model.Option) (*schema.StreamReader[*schema.Message], error) {
	st, k := m.next(ctx, input)
	if st == nil {
		return nil, &modelErr{k}
	}
	var chunks []*schema.Message
	seen := map[int]bool{}
	for i, ch := range st.Chunks {
		cm := &schema.Message{Content: ch.Content}
		if i == 0 || m.c.IndexInWhole {
			cm.Role = schema.Assistant
		}
		switch {
		case m.c.FinishAt == "all", m.c.FinishAt == "first" && i == 0,
			(m.c.FinishAt == "last" || m.c.FinishAt == "") && i == len(st.Chunks)-1:
			cm.ResponseMeta = m.c.meta(st)
		}
		for _, f := range ch.Frags {
			idx := f.Index
			tc := schema.ToolCall{Index: &idx, ID: f.ID, Function: schema.FunctionCall{Name: f.Name, Arguments: f.Args}}
			if !seen[idx] {
				tc.Type = "function"
				seen[idx] = true
			}
			cm.ToolCalls = append(cm.ToolCalls, tc)
		}
		chunks = append(chunks, cm)
	}
	if !m.c.PipeStream {
		return schema.StreamReaderFromArray(chunks), nil
	}
	sr, sw := schema.Pipe[*schema.Message](0)
	go func() {
		defer sw.Close()
		for _, cm := range chunks {
			if sw.Send(cm, nil) {
				return
			}
		}
	}()
	return sr, nil
}

// ---------------------------------------------------------------- recording tools

type recTool struct {
	c    *Case
	name string
	alt  bool // an instance of the call-time tool list (compose.WithToolList)
}

func (t *recTool) Info(context.Context) (*schema.ToolInfo, error) {
	return &schema.ToolInfo{Name: t.name, Desc: "recording tool " + t.name}, nil
}

func (t *recTool) record(ctx context.Context, name, args string, opts ...tool.Option) bool {
	rc := recOf(ctx)
	if rc == nil {
		panic("harness: the context handed to a tool lost the caller's values")
	}
	o := tool.GetImplSpecificOptions(&toolOpts{}, opts...)
	rc.mu.Lock()
	rc.execs = append(rc.execs, exec{len(rc.calls) - 1, TCall{compose.GetToolCallID(ctx), name, args}, o.marker == toolMarker, t.alt})
	rc.mu.Unlock()
	for _, f := range t.c.FailArgs {
		if f == args {
			return false
		}
	}
	return true
}

// the chunks a tool streams for an argument string (their concatenation is what it returns when invoked)
func (c *Case) toolChunks(name, args string) []string {
	for _, o := range c.Outs {
		if o.Args == args && len(o.Chunks) > 0 {
			return o.Chunks
		}
	}
	return []string{name, "(", args, ")"}
}

// some call of the round fails when its tool is called (as opposed to: after its stream was opened)
func (c *Case) failsAtCall(defs []ToolDef, calls []TCall) bool {
	for _, cl := range calls {
		for _, f := range c.FailArgs {
			if f == cl.Args && kindIn(defs, cl.Name) != "" {
				return true
			}
		}
		// an invokable-only tool is streamed by invoking it: its failure comes when it is called
		if c.failsLate(cl.Args) && kindIn(defs, cl.Name) == "inv" {
			return true
		}
		if c.panics(cl.Args) && kindIn(defs, cl.Name) != "" {
			return true
		}
	}
	return false
}

// some call of the round fails, at call time or later
func (c *Case) roundFails(defs []ToolDef, calls []TCall) bool {
	if c.failsAtCall(defs, calls) {
		return true
	}
	for _, cl := range calls {
		if c.failsLate(cl.Args) && kindIn(defs, cl.Name) != "" {
			return true
		}
	}
	return false
}

func (c *Case) hasPanickingTool() bool {
	for _, o := range c.Outs {
		if o.Panic {
			return true
		}
	}
	return false
}

// the tool panics as it is called
func (c *Case) panics(args string) bool {
	for _, o := range c.Outs {
		if o.Args == args && len(o.Chunks) > 0 {
			return o.Panic
		}
	}
	return false
}

// the tool fails after having produced its chunks
func (c *Case) failsLate(args string) bool {
	for _, o := range c.Outs {
		if o.Args == args && len(o.Chunks) > 0 {
			return o.Fail
		}
	}
	return false
}

// a tool that honours its context found it cancelled (nobody but the agent can have cancelled it)
type ctxErr struct{ cause error }

func (e *ctxErr) Error() string {
	return "TOOLCTX#: the context the tool was called with is cancelled: " + e.cause.Error()
}

func (t *recTool) invoke(ctx context.Context, args string, opts ...tool.Option) (string, error) {
	if !t.record(ctx, t.name, args, opts...) {
		return "", &toolErr{}
	}
	if t.c.panics(args) {
		panic("TOOLPANIC#")
	}
	if t.c.CtxTools != "" && ctx.Err() != nil {
		return "", &ctxErr{ctx.Err()}
	}
	if t.c.failsLate(args) {
		return "", &toolErr{}
	}
	return strings.Join(t.c.toolChunks(t.name, args), ""), nil
}

func (t *recTool) stream(ctx context.Context, args string, opts ...tool.Option) (*schema.StreamReader[string], error) {
	if !t.record(ctx, t.name, args, opts...) {
		return nil, &toolErr{}
	}
	if t.c.panics(args) {
		panic("TOOLPANIC#")
	}
	chunks := append([]string{}, t.c.toolChunks(t.name, args)...)
	late := t.c.failsLate(args)
	watch := t.c.CtxTools != ""
	if watch && ctx.Err() != nil {
		return nil, &ctxErr{ctx.Err()}
	}
	if !t.c.PipeStream && !late && !watch {
		return schema.StreamReaderFromArray(chunks), nil
	}
	// a tool that really streams: a pipe fed by its own goroutine (unbuffered, or - so that a
	// reader that stops early does not leave the goroutine behind - large enough for everything)
	n := 0
	if !t.c.PipeStream && !watch {
		n = len(chunks) + 1
	}
	sr, sw := schema.Pipe[string](n)
	go func() {
		defer sw.Close()
		for _, ch := range chunks {
			// a well-behaved tool goes on producing only while somebody may still want the result
			if watch && ctx.Err() != nil {
				if t.c.CtxTools == "report" {
					sw.Send("", &ctxErr{ctx.Err()})
				}
				return
			}
			if sw.Send(ch, nil) {
				return
			}
		}
		if late {
			sw.Send("", &toolErr{})
		}
	}()
	return sr, nil
}

type invTool struct{ recTool }

func (t *invTool) InvokableRun(ctx context.Context, a string, o ...tool.Option) (string, error) {
	return t.invoke(ctx, a, o...)
}

type strTool struct{ recTool }

func (t *strTool) StreamableRun(ctx context.Context, a string, o ...tool.Option) (*schema.StreamReader[string], error) {
	return t.stream(ctx, a, o...)
}

type bothTool struct{ recTool }

func (t *bothTool) InvokableRun(ctx context.Context, a string, o ...tool.Option) (string, error) {
	return t.invoke(ctx, a, o...)
}
func (t *bothTool) StreamableRun(ctx context.Context, a string, o ...tool.Option) (*schema.StreamReader[string], error) {
	return t.stream(ctx, a, o...)
}

func exactChecker(_ context.Context, sr *schema.StreamReader[*schema.Message]) (bool, error) {
	defer sr.Close()
	found := false
	for {
		m, err := sr.Recv()
		if err == io.EOF {
			return found, nil
		}
		if err != nil {
			return false, err
		}
		if len(m.ToolCalls) > 0 {
			found = true
		}
	}
}

// message modifiers that work IN PLACE on the slice they are given (NewAgent hands the modifier a
// copy of the history, so this must never reach the history kept in the graph state)
func rewriteModifier(_ context.Context, in []*schema.Message) []*schema.Message {
	if len(in) > 0 {
		m := *in[0]
		m.Content = "R:" + m.Content
		in[0] = &m
	}
	return in
}

const windowN = 3

func windowModifier(_ context.Context, in []*schema.Message) []*schema.Message {
	if len(in) > windowN {
		copy(in, in[len(in)-windowN:])
		in = in[:windowN]
	}
	return in
}

func mkTools(c *Case, defs []ToolDef, alt bool) []tool.BaseTool {
	var tools []tool.BaseTool
	for _, d := range defs {
		base := recTool{c, d.Name, alt}
		switch d.Kind {
		case "inv":
			tools = append(tools, &invTool{base})
		case "str":
			tools = append(tools, &strTool{base})
		default:
			tools = append(tools, &bothTool{base})
		}
	}
	return tools
}

func buildAgent(c *Case) (*react.Agent, error) {
	ag, _, err := buildAgents(c)
	return ag, err
}

// the agent of the case and - Twin - the agent built first from the same AgentConfig value
func buildAgents(c *Case) (*react.Agent, *react.Agent, error) {
	tools := mkTools(c, c.Tools, false)
	if c.SetupFault == "infofail" {
		tools = append(tools, failingInfoTool{})
	}
	cfg := &react.AgentConfig{MaxStep: c.MaxStep}
	cfg.ToolsConfig.Tools = tools
	if c.Handler {
		ht := &recTool{c, "", false}
		cfg.ToolsConfig.UnknownToolsHandler = func(ctx context.Context, name, input string) (string, error) {
			ht.record(ctx, name, input)
			return "unk:" + name + ":" + input, nil
		}
	}
	if len(c.RD) > 0 || c.EmptyRD {
		cfg.ToolReturnDirectly = map[string]struct{}{}
		for _, n := range c.RD {
			cfg.ToolReturnDirectly[n] = struct{}{}
		}
	}
	if c.Checker == "exact" {
		cfg.StreamToolCallChecker = exactChecker
	}
	switch {
	case c.Mod == "rewrite":
		cfg.MessageModifier = rewriteModifier
	case c.Mod == "window":
		cfg.MessageModifier = windowModifier
	case c.Persona != "":
		cfg.MessageModifier = react.NewPersonaModifier(c.Persona)
	}
	fm := &fakeModel{c: c, binds: new(int)}
	var decoy *decoyModel
	switch {
	case c.SetupFault == "nomodel":
	case c.ModelAPI == "toolcalling":
		cfg.ToolCallingModel = fm
	case c.ModelAPI == "both":
		// both fields set: the ToolCallingModel is the agent's model, the deprecated Model is ignored
		// (flow/agent/utils.go ChatModelWithTools) - it must be neither bound nor called
		decoy = &decoyModel{}
		cfg.ToolCallingModel, cfg.Model = fm, decoy
	default:
		cfg.Model = fm
	}
	ag, err := react.NewAgent(context.Background(), cfg)
	if err != nil {
		return nil, nil, err
	}
	builds := 1
	var first *react.Agent
	if c.Twin && c.SetupFault == "" {
		// a second agent from the same configuration value (the caller reuses its AgentConfig)
		first = ag
		if ag, err = react.NewAgent(context.Background(), cfg); err != nil {
			return nil, nil, err
		}
		builds = 2
	}
	// the model is told about exactly the configured tools, once per NewAgent, in configuration order
	var want []string
	for _, d := range c.Tools {
		want = append(want, d.Name)
	}
	if decoy != nil && decoy.touched.Load() > 0 {
		return ag, first, errors.New("BINDTOOLS: the deprecated AgentConfig.Model was bound although a ToolCallingModel is configured")
	}
	if *fm.binds != builds || !reflect.DeepEqual(fm.bound, want) {
		return ag, first, fmt.Errorf("BINDTOOLS: the model was bound %d times by %d NewAgent call(s), to the tools %v; configured %v", *fm.binds, builds, fm.bound, want)
	}
	return ag, first, nil
}

func inputMsgs(c *Case) []*schema.Message {
	out := make([]*schema.Message, len(c.Input))
	for i, m := range c.Input {
		sm := &schema.Message{Content: m.Content, ToolCallID: m.TCID}
		switch m.Role {
		case 0:
			sm.Role = schema.System
		case 1:
			sm.Role = schema.User
		case 2:
			sm.Role = schema.Assistant
		default:
			sm.Role = schema.Tool
		}
		for _, cl := range m.Calls {
			sm.ToolCalls = append(sm.ToolCalls, schema.ToolCall{ID: cl.ID, Type: "function",
				Function: schema.FunctionCall{Name: cl.Name, Arguments: cl.Args}})
		}
		out[i] = sm
	}
	return out
}

// ---------------------------------------------------------------- observations

type Out struct {
	Class  string `json:"class"` // final | err | panic | hang
	Msg    *Msg   `json:"msg,omitempty"`
	Err    int    `json:"err,omitempty"` // 1 step limit, 2 model, 3 other
	ErrMsg string `json:"err_msg,omitempty"`
}

type RunObs struct {
	Mode      string    `json:"mode"`               // generate | stream
	Exported  bool      `json:"exported,omitempty"` // run as a node of a parent graph
	Inputs    [][]Msg   `json:"inputs"`
	Rounds    [][]TCall `json:"rounds"`
	Out       Out       `json:"out"`
	Mutated   bool      `json:"mutated,omitempty"`        // a history slice handed to the model changed afterwards
	InMut     bool      `json:"input_mutated,omitempty"`  // the caller's input slice / messages changed
	OptLost   int       `json:"opt_lost,omitempty"`       // tool executions that did not receive the WithToolOptions marker
	WrongInst int       `json:"wrong_instance,omitempty"` // tool executions on an instance of the wrong tool list (configured vs call-time WithToolList)
	HasEmits  bool      `json:"has_emits,omitempty"`      // the run used WithMessageFuture
	Emits     []Msg     `json:"emits,omitempty"`          // messages handed out by the future (tool messages of a round in call order)
	FutEnd    string    `json:"future_end,omitempty"`     // closed | error | hang
	LateErr   bool      `json:"late_err,omitempty"`       // Stream returned a stream and the error came while it was read
	Foreign   string    `json:"foreign,omitempty"`        // a concurrent run was handed a message of another run of the same agent
}

// what is run: the agent itself, or a parent graph holding the exported agent graph as its only node
type target struct {
	gen      func(ctx context.Context, in []*schema.Message, opts ...agent.AgentOption) (*schema.Message, error)
	str      func(ctx context.Context, in []*schema.Message, opts ...agent.AgentOption) (*schema.StreamReader[*schema.Message], error)
	exported bool
}

func agentTarget(ag *react.Agent) *target { return &target{gen: ag.Generate, str: ag.Stream} }

type parentState struct{ seen int }

// stateful: the parent graph has a local state of its own (another type than the agent's) and a
// state pre-handler on the agent node — the agent's handlers must keep finding the agent's state
func exportedTarget(ag *react.Agent, stateful bool) (*target, error) {
	g, gopts := ag.ExportGraph()
	var parent *compose.Graph[[]*schema.Message, *schema.Message]
	if stateful {
		parent = compose.NewGraph[[]*schema.Message, *schema.Message](compose.WithGenLocalState(func(context.Context) *parentState { return &parentState{} }))
		gopts = append(append([]compose.GraphAddNodeOpt{}, gopts...), compose.WithStatePreHandler(
			func(_ context.Context, in []*schema.Message, st *parentState) ([]*schema.Message, error) {
				st.seen += len(in)
				return in, nil
			}))
	} else {
		parent = compose.NewGraph[[]*schema.Message, *schema.Message]()
	}
	if err := parent.AddGraphNode("agent", g, gopts...); err != nil {
		return nil, err
	}
	if err := parent.AddEdge(compose.START, "agent"); err != nil {
		return nil, err
	}
	if err := parent.AddEdge("agent", compose.END); err != nil {
		return nil, err
	}
	run, err := parent.Compile(context.Background())
	if err != nil {
		return nil, err
	}
	return &target{
		gen: func(ctx context.Context, in []*schema.Message, _ ...agent.AgentOption) (*schema.Message, error) {
			return run.Invoke(ctx, in)
		},
		str: func(ctx context.Context, in []*schema.Message, _ ...agent.AgentOption) (*schema.StreamReader[*schema.Message], error) {
			return run.Stream(ctx, in)
		},
		exported: true,
	}, nil
}

func classify(err error) int {
	var me *modelErr
	switch {
	case errors.Is(err, compose.ErrExceedMaxSteps):
		return 1
	case errors.As(err, &me):
		return 2
	}
	return 3
}

func short(s string) string {
	if len(s) > 200 {
		return s[:200] + "..."
	}
	return s
}

// rendezvous of the concurrent runs of one agent: every run waits inside its first model call until all of
// them are there (or 5 s have passed: never an alarm), so that the runs really overlap - each has appended its
// original messages to its history before any of them appends its first assistant message
type rendezvous struct {
	mu      sync.Mutex
	n, here int
	all     chan struct{}
	seen    map[*recorder]bool // the runs that have arrived (each counts once)
}

func (rv *rendezvous) arriveOnce(rc *recorder) {
	rv.mu.Lock()
	if rv.seen[rc] {
		rv.mu.Unlock()
		return
	}
	rv.seen[rc] = true
	rv.mu.Unlock()
	rv.arrive()
}

type rvKey struct{}

func (rv *rendezvous) arrive() {
	rv.mu.Lock()
	rv.here++
	if rv.here == rv.n {
		close(rv.all)
	}
	rv.mu.Unlock()
	select {
	case <-rv.all:
	case <-time.After(5 * time.Second):
	}
}

// the mark a concurrent run puts on the content of its original messages: what a run is handed must never
// carry the mark of another run
func runTag(i int) string { return fmt.Sprintf(" [concurrent run %d]", i) }

const runTagPrefix = " [concurrent run "

// removes the run's own mark from the recorded model inputs; reports a message that carries another run's
func (o *RunObs) stripTag(tag string) {
	for k := range o.Inputs {
		for j := range o.Inputs[k] {
			m := &o.Inputs[k][j]
			m.Content = strings.ReplaceAll(m.Content, tag, "")
			if strings.Contains(m.Content, runTagPrefix) && o.Foreign == "" {
				o.Foreign = fmt.Sprintf("model call %d was handed %q as message %d", k, m.Content, j)
			}
		}
	}
}

func runAgent(tg *target, c *Case, mode string) (o RunObs) {
	return runAgentTagged(tg, c, mode, "", nil)
}

func runAgentTagged(tg *target, c *Case, mode string, tag string, rv *rendezvous) (o RunObs) {
	o.Mode, o.Exported = mode, tg.exported
	rc := &recorder{}
	ctx := context.WithValue(context.Background(), recKey{}, rc)
	if rv != nil {
		ctx = context.WithValue(ctx, rvKey{}, rv)
		defer func() { // a run that ends without a model call does not keep the others waiting
			rv.mu.Lock()
			first := !rv.seen[rc]
			rv.seen[rc] = true
			if first {
				rv.here++
				if rv.here == rv.n {
					close(rv.all)
				}
			}
			rv.mu.Unlock()
		}()
	}
	in := inputMsgs(c)
	for _, m := range in {
		m.Content += tag
	}
	if tag != "" {
		defer o.stripTag(tag)
	}
	// the caller's slice has spare capacity (it was built with append): whoever keeps it and appends to
	// it writes into the caller's backing array - the elements beyond its length are watched, too
	spare := &schema.Message{Role: schema.User, Content: "<spare capacity of the caller's slice>"}
	inFull := make([]*schema.Message, len(in)+3)
	copy(inFull, in)
	for i := len(in); i < len(inFull); i++ {
		inFull[i] = spare
	}
	in = inFull[:len(in)]
	inBefore := renderAll(in)
	inPtrs := append([]*schema.Message{}, in...)

	// call options (none when the agent runs inside a parent graph: they would address the parent)
	var opts []agent.AgentOption
	var fut react.MessageFuture
	if !tg.exported {
		if c.RuntimeMax > 0 {
			opts = append(opts, agent.WithComposeOptions(compose.WithRuntimeMaxSteps(c.RuntimeMax)))
		}
		if c.ToolOpt {
			opts = append(opts, react.WithToolOptions(tool.WrapImplSpecificOptFn(func(t *toolOpts) { t.marker = toolMarker })))
		}
		if len(c.ToolList) > 0 {
			opts = append(opts, agent.WithComposeOptions(compose.WithToolsNodeOption(compose.WithToolList(mkTools(c, c.ToolList, true)...))))
		}
		if c.Future {
			var fo agent.AgentOption
			fo, fut = react.WithMessageFuture()
			opts = append(opts, fo)
		}
	}
	var emits []Msg
	futEnd := ""
	futDone := make(chan struct{})
	if fut != nil {
		go func() {
			defer close(futDone)
			p := lib.Recover(func() {
				if mode == "generate" {
					it := fut.GetMessages()
					for {
						m, ok, err := it.Next()
						if !ok {
							futEnd = "closed"
							return
						}
						if err != nil {
							futEnd = "error"
							return
						}
						emits = append(emits, render(m))
					}
				}
				it := fut.GetMessageStreams()
				for {
					sr, ok, err := it.Next()
					if !ok {
						futEnd = "closed"
						return
					}
					if err != nil {
						futEnd = "error"
						return
					}
					m, cerr := schema.ConcatMessageStream(sr)
					if cerr != nil {
						continue // chunks that do not concatenate: the run fails on them, too
					}
					emits = append(emits, render(m))
				}
			})
			if p != nil {
				futEnd = "panic: " + short(fmt.Sprint(p))
			}
		}()
	} else {
		close(futDone)
	}

	var final *schema.Message
	var err error
	late := false
	done := make(chan any, 1)
	go func() {
		done <- lib.Recover(func() {
			if mode == "generate" {
				final, err = tg.gen(ctx, in, opts...)
				return
			}
			var sr *schema.StreamReader[*schema.Message]
			sr, err = tg.str(ctx, in, opts...)
			if err != nil {
				return
			}
			final, err = schema.ConcatMessageStream(sr)
			late = err != nil
		})
	}()
	p, returned := awaitRun(done)
	switch {
	case !returned:
		o.Out = Out{Class: "hang"}
		return
	case p != nil:
		o.Out = Out{Class: "panic", ErrMsg: short(fmt.Sprint(p))}
	case err != nil:
		o.Out = Out{Class: "err", Err: classify(err), ErrMsg: short(err.Error())}
		o.LateErr = late
	default:
		m := render(final)
		o.Out = Out{Class: "final", Msg: &m}
	}
	if fut != nil {
		// everything the future hands out was sent before the run returned; once a future was
		// seen to hang (an oracle failure) later ones are given little time, to stay within the
		// harness's time budget
		// (the first time the reader of the future is given long: a slow machine is not a hang)
		wait := 30 * time.Second
		if futureHangs.Load() > 0 {
			wait = 50 * time.Millisecond
		}
		select {
		case <-futDone:
		case <-time.After(wait):
			futureHangs.Add(1)
			o.HasEmits, o.FutEnd = true, "hang"
			return
		}
		o.HasEmits, o.FutEnd = true, futEnd
	}
	// a panic of the first call of a round (the tools node runs it on its own goroutine, without a
	// recover) leaves the node before the goroutines of the other calls have finished - they were
	// started and do run: give them time to be recorded
	// (only a run that failed can have left them behind, and only in the rounds whose model call was made;
	// once the wait has expired in vain - an implementation that does not run what the property expects -
	// later runs wait briefly: the harness stays within its time budget)
	if c.hasPanickingTool() && o.Out.Class != "final" {
		rc.mu.Lock()
		made := len(rc.calls)
		rc.mu.Unlock()
		want := 0
		for k, rnd := range c.specRunWith(-1, !tg.exported, mode == "stream").Rounds {
			if k < made {
				want += len(rnd)
			}
		}
		patience := 20 * time.Second
		if stragglerWaits.Load() > 0 {
			patience = 200 * time.Millisecond
		}
		arrived := false
		for deadline := time.Now().Add(patience); time.Now().Before(deadline); time.Sleep(time.Millisecond) {
			rc.mu.Lock()
			n := len(rc.execs)
			rc.mu.Unlock()
			if n >= want {
				arrived = true
				break
			}
		}
		if !arrived {
			stragglerWaits.Add(1)
		}
	}
	if !reflect.DeepEqual(renderAll(in), inBefore) {
		o.InMut = true
	}
	for i := range in {
		if in[i] != inPtrs[i] {
			o.InMut = true
		}
	}
	for i := len(in); i < len(inFull); i++ {
		if inFull[i] != spare {
			o.InMut = true
		}
	}
	rc.mu.Lock()
	defer rc.mu.Unlock()
	for _, mc := range rc.calls {
		o.Inputs = append(o.Inputs, mc.rendered)
		if !reflect.DeepEqual(renderAll(mc.retained), mc.rendered) {
			o.Mutated = true
		}
	}
	// tool executions grouped by round, in the order of the calls of that round's assistant message
	byRound := map[int][]TCall{}
	var rounds []int
	for _, e := range rc.execs {
		if _, ok := byRound[e.Round]; !ok {
			rounds = append(rounds, e.Round)
		}
		byRound[e.Round] = append(byRound[e.Round], e.Call)
		isTool := kindIn(c.toolsOf(!tg.exported), e.Call.Name) != ""
		if c.ToolOpt && !tg.exported && !e.Opt && isTool {
			o.OptLost++
		}
		if isTool && e.Alt != (!tg.exported && len(c.ToolList) > 0) {
			o.WrongInst++
		}
	}
	sort.Ints(rounds)
	for _, r := range rounds {
		// every execution takes the first not yet taken equal call of the r-th scripted reply (the
		// calls of one message may be equal: same id, tool and arguments)
		xs := byRound[r]
		keys := make([]int, len(xs))
		used := map[int]bool{}
		for xi, x := range xs {
			keys[xi] = 1 << 20
			if r >= 0 && r < len(c.Script) {
				for i, cl := range c.Script[r].Calls {
					if !used[i] && cl == x {
						keys[xi], used[i] = i, true
						break
					}
				}
			}
		}
		idx := make([]int, len(xs))
		for xi := range idx {
			idx[xi] = xi
		}
		sort.SliceStable(idx, func(i, j int) bool { return keys[idx[i]] < keys[idx[j]] })
		ordered := make([]TCall, len(xs))
		for xi, from := range idx {
			ordered[xi] = xs[from]
		}
		o.Rounds = append(o.Rounds, ordered)
	}
	// the messages of the future: the tools of a round finish in any order, so every maximal run
	// of tool messages is put in the order of the calls of the assistant message before it; the
	// tool messages of a round that failed (some tools of it succeeded) are not compared
	if o.HasEmits {
		var outE []Msg
		i := 0
		for i < len(emits) {
			if emits[i].Role != 3 {
				outE = append(outE, emits[i])
				i++
				continue
			}
			j := i
			for j < len(emits) && emits[j].Role == 3 {
				j++
			}
			grp := append([]Msg{}, emits[i:j]...)
			var calls []TCall
			if len(outE) > 0 {
				calls = outE[len(outE)-1].Calls
			}
			// position of the call a tool message answers: by id, and - the ids of one message may
			// repeat or be empty - by the content that call's tool produces
			used := map[int]bool{}
			keys := make([]int, len(grp))
			for gi, m := range grp {
				keys[gi] = 1 << 20
				for pass := 0; pass < 2 && keys[gi] == 1<<20; pass++ {
					for k, cl := range calls {
						if used[k] || cl.ID != m.TCID {
							continue
						}
						want := strings.Join(c.toolChunks(cl.Name, cl.Args), "")
						if kindIn(c.toolsOf(!tg.exported), cl.Name) == "" {
							want = "unk:" + cl.Name + ":" + cl.Args // answered by the UnknownToolsHandler
						}
						if pass == 0 && want != m.Content {
							continue
						}
						keys[gi], used[k] = k, true
						break
					}
				}
			}
			idx := make([]int, len(grp))
			for gi := range idx {
				idx[gi] = gi
			}
			sort.SliceStable(idx, func(a, b int) bool { return keys[idx[a]] < keys[idx[b]] })
			sorted := make([]Msg, len(grp))
			for gi, from := range idx {
				sorted[gi] = grp[from]
			}
			grp = sorted
			// the tool messages of a round in which a tool failed are not compared (which of the
			// others had finished is a matter of timing); such a round is the last one
			failedRound := (o.Out.Err == 3 || o.Out.Err == 1) && c.roundFails(c.toolsOf(!tg.exported), calls)
			if !(j == len(emits) && o.Out.Class == "err" && failedRound) {
				outE = append(outE, grp...)
			}
			i = j
		}
		o.Emits = outE
	}
	return
}

// ---------------------------------------------------------------- the property as a loop (direct oracle)

func defaultChecker(chunks []Chunk) bool {
	for _, ch := range chunks {
		if len(ch.Frags) > 0 {
			return true
		}
		if ch.Content != "" {
			return false
		}
	}
	return false
}

// the chunks of a streamed reply can be concatenated (schema.concatToolCalls: the fragments of one
// index must agree on the id and on the name where they give one)
func concatOK(chunks []Chunk) bool {
	ids, names := map[int]string{}, map[int]string{}
	for _, ch := range chunks {
		for _, f := range ch.Frags {
			if f.ID != "" {
				if old, ok := ids[f.Index]; ok && old != f.ID {
					return false
				}
				ids[f.Index] = f.ID
			}
			if f.Name != "" {
				if old, ok := names[f.Index]; ok && old != f.Name {
					return false
				}
				names[f.Index] = f.Name
			}
		}
	}
	return true
}

func (c *Case) kindOf(name string) string { return kindIn(c.Tools, name) }

func kindIn(defs []ToolDef, name string) string {
	k := ""
	for _, t := range defs {
		if t.Name == name {
			k = t.Kind
		}
	}
	return k
}

// the tools the tools node works with in a run: the call-time list replaces the configured one
func (c *Case) toolsOf(callOpts bool) []ToolDef {
	if callOpts && len(c.ToolList) > 0 {
		return c.ToolList
	}
	return c.Tools
}

func (c *Case) inRD(name string) bool {
	for _, n := range c.RD {
		if n == name {
			return true
		}
	}
	return false
}

// the k-th model call sees original ++ (assistant_j, results_j)_{j<k}; returns the first plain
// message or the result of the first return-directly tool; every node execution (model,
// tools, direct return) costs one step of MaxStep (0 = number of nodes + 10).
// stopAt >= 0: pretend the checker does not see the tool calls of step stopAt (known finding).
func (c *Case) specRun(stopAt int) (o RunObs) {
	return c.specRunWith(stopAt, true, false)
}

// callOpts: the call options of the case apply (false for the run inside a parent graph).
// stream: streams are lazy - a tool whose stream fails after it was opened lets the tools node
// return, the failure is met by whoever reads the node's output: the chat node in the next step
// (its pre-processing concatenates the stream), or direct_return's reader, the caller.  The run
// fails either way; at the step limit it is the step-limit error that ends it.
func (c *Case) specRunWith(stopAt int, callOpts bool, stream bool) (o RunObs) {
	budget := c.MaxStep
	if budget == 0 {
		budget = 12
		if len(c.RD) > 0 {
			budget = 13
		}
	}
	if callOpts && c.RuntimeMax > 0 {
		budget = c.RuntimeMax
	}
	o.HasEmits = callOpts && c.Future
	defs := c.toolsOf(callOpts)
	hist := append([]Msg{}, c.Input...)
	fail := func(cls int) RunObs { o.Out = Out{Class: "err", Err: cls}; return o }
	for k := 0; ; k++ {
		if budget == 0 {
			return fail(1)
		}
		budget--
		seen := append([]Msg{}, hist...)
		switch {
		case c.Mod == "rewrite":
			if len(seen) > 0 {
				seen[0].Content = "R:" + seen[0].Content
			}
		case c.Mod == "window":
			if len(seen) > windowN {
				seen = seen[len(seen)-windowN:]
			}
		case c.Persona != "":
			seen = append([]Msg{{Role: 0, Content: c.Persona}}, seen...)
		}
		o.Inputs = append(o.Inputs, seen)
		if k >= len(c.Script) || c.Script[k].Fail {
			return fail(2)
		}
		st := c.Script[k]
		if stream && !concatOK(st.Chunks) {
			// a malformed stream: the chat node has returned it (streams are lazy) and the branch routes
			// it; the tools node's pre-processing fails on it in the next step, or the run returns it
			// and the caller fails reading it
			routed := false
			for _, ch := range st.Chunks {
				routed = routed || len(ch.Frags) > 0
			}
			if c.Checker != "exact" {
				routed = defaultChecker(st.Chunks)
			}
			if routed && budget == 0 {
				return fail(1)
			}
			return fail(3)
		}
		am := Msg{Role: 2, Content: st.Content, Calls: st.Calls}
		if o.HasEmits {
			o.Emits = append(o.Emits, am)
		}
		if len(st.Calls) == 0 || k == stopAt {
			o.Out = Out{Class: "final", Msg: &am}
			return o
		}
		if budget == 0 {
			return fail(1)
		}
		budget--
		// tools: unknown name without handler => error before anything runs; otherwise all run
		known := true
		for _, cl := range st.Calls {
			if kindIn(defs, cl.Name) == "" && !c.Handler {
				known = false
			}
		}
		if !known {
			return fail(3)
		}
		o.Rounds = append(o.Rounds, st.Calls)
		var results []Msg
		failed := false
		for _, cl := range st.Calls {
			for _, f := range c.FailArgs {
				if f == cl.Args && kindIn(defs, cl.Name) != "" {
					failed = true
				}
			}
			if (c.failsLate(cl.Args) || c.panics(cl.Args)) && kindIn(defs, cl.Name) != "" {
				failed = true
			}
			out := strings.Join(c.toolChunks(cl.Name, cl.Args), "")
			if kindIn(defs, cl.Name) == "" {
				out = "unk:" + cl.Name + ":" + cl.Args
			}
			results = append(results, Msg{Role: 3, Content: out, TCID: cl.ID})
		}
		if failed {
			if stream && !c.failsAtCall(defs, st.Calls) && budget == 0 {
				return fail(1) // the node that would meet the stream's failure cannot run any more
			}
			return fail(3)
		}
		if o.HasEmits {
			// every call of the round has its tool callbacks - since /repo db1b29b also a call answered by the
			// UnknownToolsHandler - so the future hands out every tool message of the round
			o.Emits = append(o.Emits, results...)
		}
		rdPos := -1 // the first call to a return-directly tool: its result is the answer (whatever the ids of the calls are)
		for i, cl := range st.Calls {
			if c.inRD(cl.Name) {
				rdPos = i
				break
			}
		}
		if rdPos >= 0 {
			if budget == 0 {
				return fail(1)
			}
			r := results[rdPos]
			o.Out = Out{Class: "final", Msg: &r}
			return o
		}
		hist = append(hist, am)
		hist = append(hist, results...)
	}
}

func sameRun(a, b *RunObs) string {
	if !reflect.DeepEqual(normInputs(a.Inputs), normInputs(b.Inputs)) {
		return "model inputs"
	}
	if !reflect.DeepEqual(normRounds(a.Rounds), normRounds(b.Rounds)) {
		return "tool executions"
	}
	if a.Out.Class != b.Out.Class || a.Out.Err != b.Out.Err {
		return "outcome"
	}
	if a.Out.Msg != nil && !reflect.DeepEqual(normMsg(*a.Out.Msg), normMsg(*b.Out.Msg)) {
		return "final answer"
	}
	if a.HasEmits && b.HasEmits && !reflect.DeepEqual(normInputs([][]Msg{a.Emits}), normInputs([][]Msg{b.Emits})) {
		return "messages of the future"
	}
	return ""
}

func normMsg(m Msg) Msg {
	if len(m.Calls) == 0 {
		m.Calls = nil
	}
	return m
}
func normInputs(x [][]Msg) [][]Msg {
	out := make([][]Msg, len(x))
	for i, h := range x {
		out[i] = make([]Msg, len(h))
		for j, m := range h {
			out[i][j] = normMsg(m)
		}
	}
	return out
}
func normRounds(x [][]TCall) [][]TCall {
	if len(x) == 0 {
		return nil
	}
	return x
}

const sigKnown = "default-checker/content-before-toolcall/stream-stops-at-that-message"

// first step (reached by the Generate run) whose streamed chunks put non-empty content before the first tool call
func (c *Case) contentBeforeToolCall(reached int) int {
	for k := 0; k < reached && k < len(c.Script); k++ {
		st := c.Script[k]
		if st.Fail || len(st.Calls) == 0 {
			continue
		}
		if contentChunkBeforeToolCallChunk(st.Chunks) {
			return k
		}
	}
	return -1
}

// the structural part of the known finding, stated positively (not as "the default checker
// says no"): some chunk carries a tool-call fragment, and before the first such chunk there is
// a chunk with non-empty content
func contentChunkBeforeToolCallChunk(chunks []Chunk) bool {
	sawContent := false
	for _, ch := range chunks {
		if len(ch.Frags) > 0 {
			return sawContent
		}
		if ch.Content != "" {
			sawContent = true
		}
	}
	return false
}

func js(x any) string { b, _ := json.Marshal(x); return string(b) }

func (c *Case) oracle(gen, str *RunObs, conc []RunObs, exp []RunObs) (string, string) {
	for _, o := range append(append([]RunObs{*gen, *str}, conc...), exp...) {
		switch o.Out.Class {
		case "hang":
			return o.Mode + ": the agent did not return within 10s", "hang"
		case "panic":
			return o.Mode + ": panic reached the caller: " + o.Out.ErrMsg, "panic"
		}
		if o.Mutated {
			return o.Mode + ": a message history handed to the model was modified afterwards", "history-mutated"
		}
		if o.InMut {
			return o.Mode + ": the caller's input messages were modified", "caller-input-mutated"
		}
		if o.WrongInst > 0 {
			return fmt.Sprintf("%s: %d tool executions ran on the wrong tool list (configured tools vs the call-time compose.WithToolList)", o.Mode, o.WrongInst), "tool-list-wrong-instance"
		}
		if o.OptLost > 0 {
			return fmt.Sprintf("%s: %d tool executions did not receive the option given with react.WithToolOptions", o.Mode, o.OptLost), "tool-option-lost"
		}
		if o.HasEmits {
			// the future ends with the graph run: a failure met only while the returned stream is read
			// (a tool stream failing after it was opened, behind direct_return) comes after its end
			want := "closed"
			if o.Out.Class == "err" && !o.LateErr {
				want = "error"
			}
			if o.FutEnd != want {
				return fmt.Sprintf("%s: the message future ended with %q, expected %q (run outcome %s)", o.Mode, o.FutEnd, want, o.Out.Class), "future-end"
			}
		}
	}
	spec := c.specRun(-1)
	if d := sameRun(gen, &spec); d != "" {
		return fmt.Sprintf("Generate differs from the property in %s: got %s, expected %s", d, js(gen), js(spec)), "generate-differs:" + d
	}
	spec = c.specRunWith(-1, true, true)
	if d := sameRun(str, &spec); d != "" {
		// the known finding: default checker, a non-empty content chunk precedes the first tool-call
		// chunk of step k, and Stream behaves exactly like the property's loop stopped at step k
		// with that (tool-calling) message as its answer
		if c.Checker == "default" {
			if k := c.contentBeforeToolCall(len(gen.Inputs)); k >= 0 {
				cut := c.specRunWith(k, true, true)
				if sameRun(str, &cut) == "" {
					return fmt.Sprintf("Stream returns the tool-calling message of model call %d instead of running its tools (default first-chunk checker, content streamed before the tool call); Generate runs them", k), sigKnown
				}
			}
		}
		return fmt.Sprintf("Stream differs from Generate / the property in %s: got %s, expected %s", d, js(str), js(spec)), "stream-differs:" + d
	}
	for i := range conc {
		want := gen
		if conc[i].Mode == "stream" {
			want = str
		}
		if conc[i].Foreign != "" {
			return fmt.Sprintf("a %s run that overlaps other runs of the same agent sees their messages in its history: %s", conc[i].Mode, conc[i].Foreign), "concurrent-differs:history of another run"
		}
		if d := sameRun(&conc[i], want); d != "" {
			return fmt.Sprintf("a concurrent %s run differs from the sequential one in %s", conc[i].Mode, d), "concurrent-differs:" + d
		}
	}
	// the agent as a node of a parent graph (no call options there): the property's loop again
	for i := range exp {
		specX := c.specRunWith(-1, false, exp[i].Mode == "stream")
		if d := sameRun(&exp[i], &specX); d != "" {
			if exp[i].Mode == "stream" && c.Checker == "default" {
				if k := c.contentBeforeToolCall(len(specX.Inputs)); k >= 0 {
					cut := c.specRunWith(k, false, true)
					if sameRun(&exp[i], &cut) == "" {
						return fmt.Sprintf("Stream (agent exported into a parent graph) returns the tool-calling message of model call %d instead of running its tools (default first-chunk checker, content streamed before the tool call)", k), sigKnown
					}
				}
			}
			return fmt.Sprintf("the exported agent graph run by %s inside a parent graph differs from the property in %s: got %s, expected %s", exp[i].Mode, d, js(exp[i]), js(specX)), "exported-differs:" + d
		}
	}
	return "", ""
}

// ---------------------------------------------------------------- Gallina printing

type interner struct {
	names map[string]string
	order []string
}

var cur *interner

func S(s string) string {
	if cur == nil {
		return lib.CoqStr(s)
	}
	if n, ok := cur.names[s]; ok {
		return n
	}
	n := fmt.Sprintf("s%d", len(cur.order))
	cur.names[s] = n
	cur.order = append(cur.order, s)
	return n
}

func (in *interner) wrap(term string) string {
	var b strings.Builder
	b.WriteString("(")
	for i, s := range in.order {
		fmt.Fprintf(&b, "let s%d := %s in ", i, lib.CoqStr(s))
	}
	b.WriteString(term)
	b.WriteString(")")
	return b.String()
}

func coqCalls(cs []TCall) string {
	items := make([]string, len(cs))
	for i, c := range cs {
		items[i] = lib.CoqApp("mkCall", S(c.ID), S(c.Name), S(c.Args))
	}
	return lib.CoqList(items)
}

func coqMsg(m Msg) string {
	return lib.CoqApp("OM", lib.CoqN(uint64(m.Role)), S(m.Content), coqCalls(m.Calls), S(m.TCID))
}

func coqMsgs(ms []Msg) string {
	items := make([]string, len(ms))
	for i, m := range ms {
		items[i] = coqMsg(m)
	}
	return lib.CoqList(items)
}

func (o *RunObs) coq() string {
	md := "MGenerate"
	if o.Mode == "stream" {
		md = "MStream"
	}
	ins := make([]string, len(o.Inputs))
	for i, h := range o.Inputs {
		ins[i] = coqMsgs(h)
	}
	rs := make([]string, len(o.Rounds))
	for i, r := range o.Rounds {
		rs[i] = coqCalls(r)
	}
	var out string
	switch o.Out.Class {
	case "final":
		out = lib.CoqApp("OFinal", coqMsg(*o.Out.Msg))
	case "err":
		out = lib.CoqApp("OErr", lib.CoqN(uint64(o.Out.Err)))
	default:
		return ""
	}
	em := "None"
	if o.HasEmits {
		em = lib.CoqSome(lib.CoqPair(coqMsgs(o.Emits), lib.CoqBool(o.FutEnd == "closed")))
	}
	return lib.CoqApp("ORun", md, lib.CoqBool(!o.Exported), lib.CoqList(ins), lib.CoqList(rs), em, out, lib.CoqBool(o.Mutated))
}

func (c *Case) coq(runs []string) string {
	tdefs := func(defs []ToolDef) string {
		items := make([]string, len(defs))
		for i, t := range defs {
			items[i] = lib.CoqApp("T", S(t.Name), map[string]string{"inv": "KInv", "str": "KStr", "both": "KBoth"}[t.Kind])
		}
		return lib.CoqList(items)
	}
	toolList := "None"
	if len(c.ToolList) > 0 {
		toolList = lib.CoqSome(tdefs(c.ToolList))
	}
	fa := make([]string, len(c.FailArgs))
	for i, f := range c.FailArgs {
		fa[i] = S(f)
	}
	rd := make([]string, len(c.RD))
	for i, f := range c.RD {
		rd[i] = S(f)
	}
	outs := make([]string, 0, len(c.Outs))
	for _, o := range c.Outs {
		if len(o.Chunks) == 0 {
			continue
		}
		cs := make([]string, len(o.Chunks))
		for i, ch := range o.Chunks {
			cs[i] = S(ch)
		}
		flag := "0%N" // 0 answers, 1 fails after its chunks, 2 panics as it is called
		switch {
		case o.Panic:
			flag = "2%N"
		case o.Fail:
			flag = "1%N"
		}
		outs = append(outs, lib.CoqPair(lib.CoqPair(S(o.Args), lib.CoqList(cs)), flag))
	}
	persona := "None"
	if c.Persona != "" {
		persona = lib.CoqSome(S(c.Persona))
	}
	script := make([]string, len(c.Script))
	cbt := make([]string, len(c.Script))
	for i, st := range c.Script {
		cbt[i] = lib.CoqBool(!st.Fail && contentChunkBeforeToolCallChunk(st.Chunks))
		if st.Fail {
			script[i] = "SFail"
			continue
		}
		chs := make([]string, len(st.Chunks))
		for j, ch := range st.Chunks {
			fr := make([]string, len(ch.Frags))
			for l, f := range ch.Frags {
				fr[l] = lib.CoqApp("mkFrag", lib.CoqN(uint64(f.Index)), S(f.ID), S(f.Name), S(f.Args))
			}
			chs[j] = lib.CoqApp("mkChunk", S(ch.Content), lib.CoqList(fr))
		}
		script[i] = lib.CoqApp("SMsg", S(st.Content), coqCalls(st.Calls), lib.CoqList(chs))
	}
	mod := "0"
	switch c.Mod {
	case "rewrite":
		mod = "1"
	case "window":
		mod = "2"
	}
	return lib.CoqApp("mkCase", tdefs(c.Tools), toolList, lib.CoqList(fa), lib.CoqList(outs), lib.CoqBool(c.Handler), lib.CoqList(rd),
		lib.CoqNat(c.MaxStep), lib.CoqNat(c.RuntimeMax), lib.CoqBool(c.Checker != "exact"), persona, "("+mod+"%N)", coqMsgs(c.Input),
		lib.CoqList(script), lib.CoqList(cbt), lib.CoqList(runs))
}

// ---------------------------------------------------------------- generator

var toolPool = []string{"search", "calc", "final", "lookup"}
var wordPool = []string{"a", "bb", "x1", "go", "eino", "42"}
var textPool = []string{"", "", "thinking", "ok ", "Let me check. ", "done", "The answer is 42"}

// argument strings of the scripted tool calls (one of them empty: a call without arguments)
var argPool = []string{`{"q":"a"}`, `{"q":"bb"}`, `{"q":"x1"}`, `{"q":"go"}`, `{"q":"eino"}`, `{"q":"42"}`, "", "{}"}

// the chunks of a tool result: 1-4 chunks, each empty with probability 1/2; one time in four all empty
func genToolChunks(r *lib.Rng) []string {
	n := r.Range(1, 4)
	out := make([]string, n)
	allEmpty := r.Chance(1, 4)
	for i := range out {
		if !allEmpty && r.Chance(1, 2) {
			out[i] = r.Pick([]string{"r", "no result", "42", "{\"v\":1}"})
		}
	}
	return out
}

func splitString(r *lib.Rng, s string, n int) []string {
	if n <= 1 || len(s) < 2 {
		return []string{s}
	}
	var cuts []int
	for i := 0; i < n-1; i++ {
		cuts = append(cuts, r.Range(0, len(s)))
	}
	sort.Ints(cuts)
	var out []string
	prev := 0
	for _, c := range cuts {
		out = append(out, s[prev:c])
		prev = c
	}
	return append(out, s[prev:])
}

// chunking of one scripted message. order: 0 tool calls first, 1 content first, 2 interleaved
func genChunks(r *lib.Rng, c *Case, st *Step, order int) []Chunk {
	var contentChunks, fragChunks []Chunk
	for _, p := range splitString(r, st.Content, r.Range(1, 3)) {
		contentChunks = append(contentChunks, Chunk{Content: p})
	}
	for i, cl := range st.Calls {
		pieces := splitString(r, cl.Args, r.Range(1, 3))
		// one call in six: the call's first fragment carries only its id (or only its name, or neither),
		// the rest arrives with the next fragment - fragments of one index are merged field by field
		late := 0
		if r.Chance(1, 6) {
			late = r.Range(1, 3)
			pieces = append([]string{""}, pieces...)
		}
		for j, p := range pieces {
			f := Frag{Index: c.idx(i), Args: p}
			switch {
			case late == 0 && j == 0:
				f.ID, f.Name = cl.ID, cl.Name
			case late == 1 && j == 0:
				f.ID = cl.ID
			case late == 1 && j == 1:
				f.Name = cl.Name
			case late == 2 && j == 0:
				f.Name = cl.Name
			case late == 2 && j == 1:
				f.ID = cl.ID
			case late == 3 && j == 1:
				f.ID, f.Name = cl.ID, cl.Name
			}
			fragChunks = append(fragChunks, Chunk{Frags: []Frag{f}})
		}
	}
	// round 9: a message with several calls has, one time in three, the fragments of its calls arrive INTERLEAVED
	// (each call's own fragments in their order) and - half of these - a call with a higher index opened before
	// the call with the lowest: the index, not the order of arrival, says where a call belongs (concatToolCalls
	// sorts by it), so Stream must still see the calls as Generate does.  The draws come from a fork of the
	// generator, so the other cases of a seed stay what they were.
	if len(st.Calls) >= 2 {
		if fr := r.Fork(0xC18A); fr.Chance(1, 3) {
			var queues [][]Chunk
			for _, fc := range fragChunks {
				if n := len(queues); n > 0 && queues[n-1][0].Frags[0].Index == fc.Frags[0].Index {
					queues[n-1] = append(queues[n-1], fc)
				} else {
					queues = append(queues, []Chunk{fc})
				}
			}
			fragChunks = fragChunks[:0:0]
			first := fr.Chance(1, 2)
			for len(queues) > 0 {
				q := fr.Intn(len(queues))
				if first {
					q, first = 1+fr.Intn(len(queues)-1), false
				}
				fragChunks = append(fragChunks, queues[q][0])
				if queues[q] = queues[q][1:]; len(queues[q]) == 0 {
					queues = append(queues[:q], queues[q+1:]...)
				}
			}
		}
	}
	// several fragments in one chunk — of different calls only and in index order: a chunk that carries
	// two fragments of the same call is not something a model emits, and a message streamed as
	// that single chunk is handed on unmerged (ConcatMessageStream returns a lone chunk as is)
	for i := 0; i+1 < len(fragChunks); i++ {
		a, b := fragChunks[i].Frags, fragChunks[i+1].Frags
		if a[len(a)-1].Index < b[0].Index && r.Chance(1, 3) {
			fragChunks[i].Frags = append(a, b...)
			fragChunks = append(fragChunks[:i+1], fragChunks[i+2:]...)
		}
	}
	var out []Chunk
	if r.Chance(1, 4) {
		out = append(out, Chunk{}) // an empty chunk at the front
	}
	switch {
	case len(fragChunks) == 0:
		out = append(out, contentChunks...)
	case order == 0:
		out = append(append(out, fragChunks...), contentChunks...)
	case order == 1:
		out = append(append(out, contentChunks...), fragChunks...)
	default:
		// first chunk carries a tool call (and possibly content), the rest interleaved keeping each order
		first := fragChunks[0]
		fragChunks = fragChunks[1:]
		if len(contentChunks) > 0 && r.Chance(1, 2) {
			first.Content = contentChunks[0].Content
			contentChunks = contentChunks[1:]
		}
		out = append(out, first)
		for len(fragChunks)+len(contentChunks) > 0 {
			if len(contentChunks) == 0 || (len(fragChunks) > 0 && r.Chance(1, 2)) {
				out = append(out, fragChunks[0])
				fragChunks = fragChunks[1:]
			} else {
				out = append(out, contentChunks[0])
				contentChunks = contentChunks[1:]
			}
		}
	}
	return out
}

func genCase(r *lib.Rng, tier string) *Case {
	maxRounds := 6
	if tier == "thorough" {
		maxRounds = 12
	}
	c := &Case{Checker: "default", ModelAPI: r.Pick([]string{"chat", "toolcalling", "chat", "toolcalling", "both"}), IndexInWhole: r.Chance(1, 2), PipeStream: r.Chance(1, 2)}
	if r.Chance(1, 2) {
		c.Checker = "exact"
	}
	nt := r.Range(1, 3)
	perm := r.Perm(len(toolPool))
	for i := 0; i < nt; i++ {
		c.Tools = append(c.Tools, ToolDef{toolPool[perm[i]], r.Pick([]string{"inv", "str", "both"})})
	}
	if r.Chance(1, 3) {
		c.RD = append(c.RD, c.Tools[r.Intn(nt)].Name)
		if r.Chance(1, 3) {
			c.RD = append(c.RD, toolPool[perm[3]]) // a name that is not a configured tool
		}
	}
	c.Handler = r.Chance(1, 5)
	switch r.Intn(10) {
	case 0, 1:
		c.Persona = "You are a careful agent."
	case 2:
		c.Mod = "rewrite"
	case 3:
		c.Mod = "window"
	}
	if r.Chance(1, 6) {
		c.FailArgs = append(c.FailArgs, `{"q":"`+r.Pick(wordPool)+`"}`)
	}
	// tool results other than name(args): the empty string, empty chunks at every position,
	// results in one / several chunks (the argument strings are drawn more often below)
	var outArgs []string
	if r.Chance(2, 5) {
		for _, w := range r.Perm(len(argPool))[:r.Range(1, 3)] {
			a := argPool[w]
			o := ToolOut{Args: a, Chunks: genToolChunks(r)}
			switch r.Intn(20) {
			case 0, 1:
				o.Fail = true
			case 2, 3:
				o.Panic = true
			}
			c.Outs = append(c.Outs, o)
			outArgs = append(outArgs, a)
		}
	}
	// original messages
	if r.Chance(1, 3) {
		c.Input = append(c.Input, Msg{Role: 0, Content: "system prompt"})
	}
	if r.Chance(1, 6) { // an earlier exchange is part of the original messages
		c.Input = append(c.Input, Msg{Role: 1, Content: "earlier question"},
			Msg{Role: 2, Content: "", Calls: []TCall{{"old1", c.Tools[0].Name, `{"q":"old"}`}}},
			Msg{Role: 3, Content: "old result", TCID: "old1"},
			Msg{Role: 2, Content: "earlier answer"})
	}
	c.Input = append(c.Input, Msg{Role: 1, Content: "question " + r.Pick(wordPool)})
	// script
	L := r.Range(1, maxRounds)
	if r.Chance(1, 8) {
		L = r.Range(7, 8) // long enough to exceed the default limit
	}
	// the boundary of the DEFAULT step limit (MaxStep 0 = number of nodes + 10: 12, or 13 with the direct_return node):
	// six tool rounds and a seventh, plain reply need 13 node executions - the answer with a return-directly set
	// (whose tools are never called here), the step-limit error without
	boundary := r.Chance(1, 12)
	var plainTools []string // tools that are not return-directly
	for _, t := range c.Tools {
		isRD := false
		for _, n := range c.RD {
			isRD = isRD || n == t.Name
		}
		if !isRD {
			plainTools = append(plainTools, t.Name)
		}
	}
	if len(plainTools) == 0 {
		boundary = false
	}
	if boundary {
		L = 7
	}
	if r.Chance(1, 4) { // the model's own numbering of its tool calls: from 1 or 2, with gaps
		c.IndexBase, c.IndexStride = r.Range(0, 2), r.Range(1, 2)
	}
	unknown := r.Chance(1, 12)
	idMode := 0 // tool-call ids: unique (mostly), all empty, or derived from the tool name
	if r.Chance(1, 6) {
		idMode = r.Range(1, 2)
	}
	order := r.Intn(3)
	if c.Checker == "default" && order == 1 && !r.Chance(1, 12) {
		order = []int{0, 2}[r.Intn(2)] // content before the tool call with the default checker: the known finding, kept rare
	}
	for k := 0; k < L; k++ {
		st := Step{Content: r.Pick(textPool)}
		last := k == L-1
		if r.Chance(1, 40) && !boundary {
			st.Fail = true
		}
		if boundary && !last {
			st.Content = ""
			st.Calls = []TCall{{ID: fmt.Sprintf("k%d_0", k), Name: r.Pick(plainTools), Args: r.Pick(argPool)}}
		} else if boundary {
			// the seventh reply: plain
		} else if (!last && !r.Chance(1, 15)) || (last && r.Chance(1, 8)) {
			nc := r.Range(1, 4)
			for i := 0; i < nc; i++ {
				cl := TCall{ID: fmt.Sprintf("k%d_%d", k, i), Name: c.Tools[r.Intn(nt)].Name, Args: r.Pick(argPool)}
				switch idMode {
				case 1: // a model that gives its tool calls no id
					cl.ID = ""
				case 2: // a provider that derives the id from the function name: repeated within a message
					cl.ID = "call_" + cl.Name
				}
				if len(outArgs) > 0 && r.Chance(1, 2) {
					cl.Args = r.Pick(outArgs)
				}
				if unknown && r.Chance(1, 4) {
					cl.Name = "nosuchtool"
				}
				st.Calls = append(st.Calls, cl)
			}
			if !r.Chance(1, 3) {
				st.Content = ""
			}
		}
		st.Chunks = genChunks(r, c, &st, order)
		c.Script = append(c.Script, st)
	}
	// rarely a malformed stream: a last chunk naming another tool for the call at index 0 (Generate,
	// which gets the whole message, is not concerned; Stream must fail where the stream is read)
	if r.Chance(1, 30) {
		k := r.Intn(len(c.Script))
		if st := &c.Script[k]; !st.Fail && len(st.Calls) > 0 {
			st.Chunks = append(st.Chunks, Chunk{Frags: []Frag{{Index: c.idx(0), Name: "othertool"}}})
		}
	}
	switch r.Intn(4) {
	case 0:
		c.MaxStep = 0
	default:
		c.MaxStep = r.Range(1, 2*L+2)
	}
	if boundary {
		c.MaxStep = 0
	}
	if r.Chance(1, 3) {
		c.Concurrent = r.Range(2, 4)
	}
	if r.Chance(1, 6) && !boundary {
		c.RuntimeMax = r.Range(1, 2*L+2) // the call option overrides MaxStep
	}
	c.ToolOpt = r.Chance(1, 3)
	c.Future = r.Chance(1, 3)
	c.Exported = r.Chance(1, 4)
	if r.Chance(1, 8) { // a call-time tool list: a sub-list, a re-kinded list, or one more tool
		switch r.Intn(3) {
		case 0:
			c.ToolList = append([]ToolDef{}, c.Tools[:r.Range(1, nt)]...)
		case 1:
			for _, t := range c.Tools {
				c.ToolList = append(c.ToolList, ToolDef{t.Name, r.Pick([]string{"inv", "str", "both"})})
			}
		default:
			c.ToolList = append(append([]ToolDef{}, c.Tools...), ToolDef{"nosuchtool", "inv"})
		}
	}
	if r.Chance(1, 40) {
		c.SetupFault = r.Pick([]string{"nomodel", "infofail", "bindfail"})
	}
	if len(c.RD) == 0 {
		c.EmptyRD = r.Chance(1, 3)
	}
	c.Twin = c.SetupFault == "" && r.Chance(1, 5)
	if r.Chance(1, 3) { // the model reports a finish reason and its token usage
		c.Finish = r.Pick([]string{"stop", "stop", "accurate", "length"})
		c.FinishAt = r.Pick([]string{"last", "first", "all"})
	}
	c.ConcFirst = c.Concurrent > 0 && r.Chance(1, 2)
	if r.Chance(1, 25) { // no original message at all
		c.Input = nil
	}
	if r.Chance(1, 3) { // tools that watch the context they are called with
		c.CtxTools = r.Pick([]string{"stop", "report"})
	}
	// round 7: the conversation the caller hands over need not end with a user message (few-shot examples, a
	// prefilled / continued answer, an exchange whose answer is still due): the history is the original
	// messages followed by what the agent records, whatever the original messages look like
	if len(c.Input) > 0 && r.Chance(1, 4) {
		pend := TCall{"pend1", c.Tools[0].Name, `{"q":"pending"}`}
		switch r.Intn(5) {
		case 0: // a prefilled / few-shot plain assistant message
			c.Input = append(c.Input, Msg{Role: 2, Content: "prefilled answer"})
		case 1: // the very message the model is about to give first (same content, same tool calls)
			st := c.Script[0]
			c.Input = append(c.Input, Msg{Role: 2, Content: st.Content, Calls: append([]TCall(nil), st.Calls...)})
		case 2: // an assistant message whose tool call has not been answered
			c.Input = append(c.Input, Msg{Role: 2, Content: "", Calls: []TCall{pend}})
		case 3: // ... answered: the conversation ends with a tool message
			c.Input = append(c.Input, Msg{Role: 2, Content: "", Calls: []TCall{pend}},
				Msg{Role: 3, Content: "pending result", TCID: "pend1"})
		default: // a trailing system message
			c.Input = append(c.Input, Msg{Role: 0, Content: "reminder"})
		}
	}
	return c
}

// ---------------------------------------------------------------- engine

type engine struct{}

func (engine) ID() string { return "C18" }
func (engine) CoqHeader() string {
	return "From Eino Require Import Base.Util Model.Tools Model.React Model.Host Corr.C18.\n"
}
func (engine) CoqCaseType() string { return "acase" }

func (engine) Generate(r *lib.Rng, tier string, i int) any {
	if r.Chance(1, 8) {
		return genHostCase(r)
	}
	return genCase(r, tier)
}

func (engine) Decode(raw json.RawMessage) (any, error) {
	c := &Case{Checker: "default", ModelAPI: "chat"}
	if err := json.Unmarshal(raw, c); err != nil {
		return nil, err
	}
	if c.Host != nil {
		if len(c.Host.Specs) == 0 || len(c.Input) == 0 {
			return nil, errors.New("host case without specialists or input")
		}
		return c, nil
	}
	if len(c.Tools) == 0 {
		return nil, errors.New("case without tools")
	}
	for _, o := range c.Outs {
		if len(o.Chunks) == 0 {
			return nil, errors.New("a tool result without a chunk: outside the domain (Invoke fails with the empty-stream error, property C17 zero_chunk_outside_domain)")
		}
	}
	if c.MaxStep < 0 || c.RuntimeMax < 0 {
		return nil, errors.New("negative step limit: a configuration error outside the property's domain (the run fails with 'max run steps limit must be at least 1')")
	}
	return c, nil
}

// c.Concurrent overlapping runs of one agent (Generate and Stream alternately), each with its mark
func concurrentRuns(tg *target, c *Case) []RunObs {
	conc := make([]RunObs, c.Concurrent)
	rv := &rendezvous{n: c.Concurrent, all: make(chan struct{}), seen: map[*recorder]bool{}}
	var wg sync.WaitGroup
	for i := range conc {
		wg.Add(1)
		go func(i int) {
			defer wg.Done()
			mode := "generate"
			if i%2 == 1 {
				mode = "stream"
			}
			conc[i] = runAgentTagged(tg, c, mode, runTag(i), rv)
		}(i)
	}
	wg.Wait()
	return conc
}

func (engine) Run(ci any) lib.Result {
	c := ci.(*Case)
	defer markRunning(c)()
	if c.Host != nil {
		return runHostCase(c)
	}
	res := lib.Result{}
	if c.SetupFault != "" {
		// a configuration NewAgent must reject with an error (no panic, no agent)
		var err error
		var ag *react.Agent
		p := lib.Recover(func() { ag, err = buildAgent(c) })
		res.Tags = []string{"setup-fault:" + c.SetupFault}
		switch {
		case p != nil:
			res.Obs = map[string]string{"setup_fault": c.SetupFault, "panic": short(fmt.Sprint(p))}
			res.Oracle, res.Sig = "NewAgent panicked on a faulty configuration ("+c.SetupFault+"): "+short(fmt.Sprint(p)), "setup-panic"
		case err == nil || ag != nil:
			res.Obs = map[string]string{"setup_fault": c.SetupFault, "err": ""}
			res.Oracle, res.Sig = "NewAgent accepted a configuration it must reject ("+c.SetupFault+")", "setup-accepted"
		default:
			res.Obs = map[string]string{"setup_fault": c.SetupFault, "err": short(err.Error())}
		}
		return res
	}
	ag, firstBuilt, err := buildAgents(c)
	if err != nil {
		res.Obs = map[string]string{"setup": err.Error()}
		res.Oracle, res.Sig = "NewAgent failed: "+err.Error(), "setup"
		return res
	}
	tg := agentTarget(ag)
	var conc []RunObs
	if c.Concurrent > 0 && c.ConcFirst {
		conc = concurrentRuns(tg, c)
	}
	gen := runAgent(tg, c, "generate")
	str := runAgent(tg, c, "stream")
	var exp []RunObs
	if c.Exported {
		xt, err := exportedTarget(ag, len(c.Script)%2 == 0)
		if err != nil {
			res.Obs = map[string]string{"setup": err.Error()}
			res.Oracle, res.Sig = "the exported agent graph could not be added to / compiled in a parent graph: "+err.Error(), "setup-exported"
			return res
		}
		exp = []RunObs{runAgent(xt, c, "generate"), runAgent(xt, c, "stream")}
	}
	if c.Concurrent > 0 && !c.ConcFirst {
		conc = concurrentRuns(tg, c)
	}
	var twin []RunObs
	if firstBuilt != nil {
		tt := agentTarget(firstBuilt)
		twin = []RunObs{runAgent(tt, c, "generate"), runAgent(tt, c, "stream")}
	}
	res.Obs = map[string]any{"generate": gen, "stream": str, "concurrent": len(conc), "exported": exp, "twin": twin}
	res.Oracle, res.Sig = c.oracle(&gen, &str, conc, exp)
	if res.Oracle == "" {
		// the agent built first from the same AgentConfig value behaves like the one built second
		for i := range twin {
			want := &gen
			if twin[i].Mode == "stream" {
				want = &str
			}
			if d := sameRun(&twin[i], want); d != "" {
				res.Oracle = fmt.Sprintf("two agents were built from one AgentConfig value: the %s run of the first differs from that of the second in %s: got %s, expected %s", twin[i].Mode, d, js(twin[i]), js(*want))
				res.Sig = "twin-differs:" + d
				break
			}
		}
	}

	cur = &interner{names: map[string]string{}}
	defer func() { cur = nil }()
	g, s := gen.coq(), str.coq()
	if g != "" && s != "" {
		runs := []string{g, s}
		for i := range exp {
			if x := exp[i].coq(); x != "" {
				runs = append(runs, x)
			}
		}
		res.CoqTerm = cur.wrap(lib.CoqApp("ReactCase", c.coq(runs)))
	}

	calls := 0
	for _, st := range c.Script {
		calls += len(st.Calls)
	}
	outTag := func(o *RunObs) string {
		switch {
		case o.Out.Class == "err":
			return fmt.Sprintf("err%d", o.Out.Err)
		case o.Out.Class == "final" && o.Out.Msg.Role == 3:
			return "direct-return"
		case o.Out.Class == "final" && len(o.Out.Msg.Calls) > 0:
			return "final-with-toolcalls"
		}
		return o.Out.Class
	}
	ms := "default"
	limit := c.MaxStep
	if c.RuntimeMax > 0 {
		limit = c.RuntimeMax
	}
	if limit > 0 {
		big := *c
		big.MaxStep, big.RuntimeMax = 1000, 0
		free := big.specRun(-1)
		need := len(free.Inputs) + len(free.Rounds)
		if free.Out.Class == "final" && free.Out.Msg.Role == 3 {
			need++ // the direct_return node
		}
		switch {
		case limit < need:
			ms = "below"
		case limit == need:
			ms = "at"
		default:
			ms = "above"
		}
	}
	res.Tags = []string{fmt.Sprintf("script:%d", len(c.Script)), fmt.Sprintf("model-calls:%d", len(gen.Inputs)),
		fmt.Sprintf("tool-rounds:%d", len(gen.Rounds)), "checker:" + c.Checker, "api:" + c.ModelAPI,
		fmt.Sprintf("rd:%v", len(c.RD) > 0), "maxstep:" + ms, "generate:" + outTag(&gen), "stream:" + outTag(&str),
		fmt.Sprintf("concurrent:%d", c.Concurrent), fmt.Sprintf("runtime-max:%v", c.RuntimeMax > 0),
		fmt.Sprintf("tool-opt:%v", c.ToolOpt), fmt.Sprintf("future:%v", c.Future), fmt.Sprintf("exported:%v", c.Exported),
		fmt.Sprintf("call-time-tool-list:%v", len(c.ToolList) > 0)}
	if c.Exported {
		res.Tags = append(res.Tags, fmt.Sprintf("exported-parent-stateful:%v", len(c.Script)%2 == 0))
	}
	if limit == 0 {
		// how close the run comes to the default limit (12 node executions, 13 with a return-directly set)
		big := *c
		big.MaxStep, big.RuntimeMax = 1000, 0
		free := big.specRun(-1)
		need := len(free.Inputs) + len(free.Rounds)
		if free.Out.Class == "final" && free.Out.Msg.Role == 3 {
			need++
		}
		switch {
		case need < 12:
			res.Tags = append(res.Tags, "default-limit:needs<12")
		case need > 13:
			res.Tags = append(res.Tags, "default-limit:needs>13")
		default:
			res.Tags = append(res.Tags, fmt.Sprintf("default-limit:needs=%d,rd:%v", need, len(c.RD) > 0))
		}
	}
	switch {
	case c.Mod != "":
		res.Tags = append(res.Tags, "modifier:"+c.Mod+"(in place)")
	case c.Persona != "":
		res.Tags = append(res.Tags, "modifier:persona")
	default:
		res.Tags = append(res.Tags, "modifier:none")
	}
	if c.Checker == "default" && c.contentBeforeToolCall(len(c.Script)) >= 0 {
		res.Tags = append(res.Tags, "chunking:content-before-toolcall(default checker)")
	}
	// what the executed tools answered (Generate run): some whole result empty / some empty chunk
	// inside a non-empty result / everything name(args)
	emptyRes, emptyChunk, tabled := false, false, false
	for _, rnd := range gen.Rounds {
		for _, cl := range rnd {
			if kindIn(c.toolsOf(true), cl.Name) == "" {
				continue
			}
			cs := c.toolChunks(cl.Name, cl.Args)
			whole := strings.Join(cs, "")
			for _, o := range c.Outs {
				tabled = tabled || o.Args == cl.Args
			}
			for _, ch := range cs {
				if ch == "" && whole != "" {
					emptyChunk = true
				}
			}
			emptyRes = emptyRes || whole == ""
		}
	}
	lateFail := false
	for _, st := range c.Script {
		for _, cl := range st.Calls {
			lateFail = lateFail || (c.failsLate(cl.Args) && kindIn(c.toolsOf(true), cl.Name) != "")
		}
	}
	res.Tags = append(res.Tags, fmt.Sprintf("tool-fails-after-its-chunks:%v", lateFail))
	toolPanic := false
	for _, rnd := range gen.Rounds {
		for _, cl := range rnd {
			toolPanic = toolPanic || (c.panics(cl.Args) && kindIn(c.toolsOf(true), cl.Name) != "")
		}
	}
	res.Tags = append(res.Tags, fmt.Sprintf("tool-panics:%v", toolPanic))
	res.Tags = append(res.Tags, fmt.Sprintf("tool-result-empty:%v", emptyRes), fmt.Sprintf("tool-result-with-empty-chunk:%v", emptyChunk),
		fmt.Sprintf("tool-result-from-table:%v", tabled))
	if gen.Out.Class == "final" && gen.Out.Msg.Content == "" {
		res.Tags = append(res.Tags, "generate:empty-answer")
	}
	idTag := "unique"
	for _, st := range c.Script {
		seen := map[string]bool{}
		for _, cl := range st.Calls {
			switch {
			case cl.ID == "":
				idTag = "empty"
			case seen[cl.ID] && idTag != "empty":
				idTag = "repeated-in-a-message"
			}
			seen[cl.ID] = true
		}
	}
	res.Tags = append(res.Tags, "tool-call-ids:"+idTag)
	res.Tags = append(res.Tags, fmt.Sprintf("tool-call-index=position:%v", c.IndexBase == 0 && c.IndexStride <= 1))
	for k, st := range c.Script {
		if !st.Fail && !concatOK(st.Chunks) && k < len(gen.Inputs) {
			res.Tags = append(res.Tags, "model-stream:malformed(reached)")
			break
		}
	}
	innerEmpty := false
	for _, st := range c.Script {
		for i, ch := range st.Chunks {
			if i > 0 && ch.Content == "" && len(ch.Frags) == 0 {
				innerEmpty = true
			}
		}
	}
	res.Tags = append(res.Tags, fmt.Sprintf("model-stream-empty-chunk-after-front:%v", innerEmpty))
	res.Tags = append(res.Tags, fmt.Sprintf("two-agents-from-one-config:%v", c.Twin))
	switch {
	case len(c.RD) > 0:
		res.Tags = append(res.Tags, "return-directly-map:nonempty")
	case c.EmptyRD:
		res.Tags = append(res.Tags, "return-directly-map:empty-non-nil")
	default:
		res.Tags = append(res.Tags, "return-directly-map:nil")
	}
	lateName := false
	for _, st := range c.Script {
		seen := map[int]bool{}
		for _, ch := range st.Chunks {
			for _, f := range ch.Frags {
				if !seen[f.Index] && f.Name == "" {
					lateName = true
				}
				seen[f.Index] = true
			}
		}
	}
	res.Tags = append(res.Tags, fmt.Sprintf("model-stream-first-fragment-without-name:%v", lateName))
	fin := "none"
	if c.Finish != "" {
		at := c.FinishAt
		if at == "" {
			at = "last"
		}
		fin = c.Finish + "/stream-chunk:" + at
	}
	watched := 0 // rounds of several calls with a streaming tool among them (what a context-watching tool can tell apart)
	for _, rnd := range gen.Rounds {
		streams := false
		for _, cl := range rnd {
			k := kindIn(c.toolsOf(true), cl.Name)
			streams = streams || k == "str" || k == "both"
		}
		if streams && len(rnd) > 1 {
			watched++
		}
	}
	ct := "no"
	if c.CtxTools != "" {
		ct = fmt.Sprintf("%s,parallel-rounds-with-a-streaming-tool:%v", c.CtxTools, watched > 0)
	}
	res.Tags = append(res.Tags, "model-finish-reason:"+fin, "tools-watch-their-context:"+ct)
	if c.Concurrent > 0 {
		res.Tags = append(res.Tags, fmt.Sprintf("concurrent-runs-are-the-agent's-first:%v", c.ConcFirst))
	}
	res.Tags = append(res.Tags, fmt.Sprintf("original-messages:%d", len(c.Input)))
	if n := len(c.Input); n > 0 {
		last := c.Input[n-1]
		ends := []string{"system", "user", "assistant", "tool"}[last.Role&3]
		if last.Role == 2 && len(last.Calls) > 0 {
			ends = "assistant-with-tool-calls"
		}
		res.Tags = append(res.Tags, "original-messages-end-with:"+ends)
	}
	res.Nontrivial = len(gen.Rounds) >= 1
	return res
}

// ---------------------------------------------------------------- shrinking

func cloneCase(c *Case) *Case {
	b, _ := json.Marshal(c)
	n := &Case{}
	_ = json.Unmarshal(b, n)
	return n
}

// the chunking of a reply rebuilt after its calls changed: one whole chunk, or - if the
// original streamed content before the first tool call - the content chunk, then the calls
func rechunk(c *Case, st *Step, contentFirst bool) {
	var frags []Frag
	for i, cl := range st.Calls {
		frags = append(frags, Frag{Index: c.idx(i), ID: cl.ID, Name: cl.Name, Args: cl.Args})
	}
	switch {
	case contentFirst && st.Content != "" && len(frags) > 0:
		st.Chunks = []Chunk{{Content: st.Content}, {Frags: frags}}
	default:
		st.Chunks = []Chunk{{Content: st.Content, Frags: frags}}
	}
}

// Shrink: greedy minimisation of a case whose direct oracle fails (same signature): switch the
// options off, drop scripted replies, calls, chunk structure, original messages.
func (engine) Shrink(ci any, stillFails func(any) bool) any {
	cur := cloneCase(ci.(*Case))
	try := func(mut func(c *Case) bool) bool {
		cand := cloneCase(cur)
		if !mut(cand) {
			return false
		}
		if stillFails(cand) {
			cur = cand
			return true
		}
		return false
	}
	for _, f := range []func(c *Case) bool{
		func(c *Case) bool { ch := c.Concurrent != 0; c.Concurrent, c.ConcFirst = 0, false; return ch },
		func(c *Case) bool { ch := c.Exported; c.Exported = false; return ch },
		func(c *Case) bool { ch := c.Future; c.Future = false; return ch },
		func(c *Case) bool { ch := c.ToolOpt; c.ToolOpt = false; return ch },
		func(c *Case) bool { ch := c.RuntimeMax != 0; c.RuntimeMax = 0; return ch },
		func(c *Case) bool { ch := c.Persona != ""; c.Persona = ""; return ch },
		func(c *Case) bool { ch := c.Mod != ""; c.Mod = ""; return ch },
		func(c *Case) bool { ch := c.Handler; c.Handler = false; return ch },
		func(c *Case) bool { ch := len(c.FailArgs) > 0; c.FailArgs = nil; return ch },
		func(c *Case) bool { ch := len(c.Outs) > 0; c.Outs = nil; return ch },
		func(c *Case) bool {
			if len(c.Outs) < 2 {
				return false
			}
			c.Outs = c.Outs[:1]
			return true
		},
		func(c *Case) bool {
			if len(c.Outs) < 2 {
				return false
			}
			c.Outs = c.Outs[1:]
			return true
		},
		func(c *Case) bool { ch := c.PipeStream; c.PipeStream = false; return ch },
		func(c *Case) bool { ch := c.IndexInWhole; c.IndexInWhole = false; return ch },
		func(c *Case) bool { ch := len(c.RD) > 0; c.RD = nil; return ch },
		func(c *Case) bool { ch := c.MaxStep != 0; c.MaxStep = 0; return ch },
		func(c *Case) bool { ch := c.Twin; c.Twin = false; return ch },
		func(c *Case) bool { ch := c.Finish != ""; c.Finish, c.FinishAt = "", ""; return ch },
		func(c *Case) bool { ch := c.CtxTools != ""; c.CtxTools = ""; return ch },
		func(c *Case) bool { ch := c.ConcFirst; c.ConcFirst = false; return ch },
		func(c *Case) bool { ch := c.EmptyRD; c.EmptyRD = false; return ch },
		func(c *Case) bool {
			if len(c.Input) <= 1 {
				return false
			}
			c.Input = c.Input[len(c.Input)-1:]
			return true
		},
	} {
		try(f)
	}
	for changed := true; changed; {
		changed = false
		for i := len(cur.Script) - 1; i >= 0; i-- { // drop a scripted reply
			i := i
			if try(func(c *Case) bool {
				if len(c.Script) <= 1 {
					return false
				}
				c.Script = append(c.Script[:i], c.Script[i+1:]...)
				return true
			}) {
				changed = true
			}
		}
		for i := range cur.Script { // drop a call, simplify the chunking
			for j := len(cur.Script[i].Calls) - 1; j >= 0; j-- {
				i, j := i, j
				if try(func(c *Case) bool {
					st := &c.Script[i]
					if j >= len(st.Calls) || len(st.Calls) <= 1 {
						return false
					}
					cf := contentChunkBeforeToolCallChunk(st.Chunks)
					st.Calls = append(st.Calls[:j], st.Calls[j+1:]...)
					rechunk(c, st, cf)
					return true
				}) {
					changed = true
				}
			}
			i := i
			try(func(c *Case) bool {
				st := &c.Script[i]
				if st.Fail || len(st.Chunks) <= 2 {
					return false
				}
				rechunk(c, st, contentChunkBeforeToolCallChunk(st.Chunks))
				return true
			})
		}
	}
	return cur
}

// crash marker: if the implementation kills the process (an unrecovered panic on a goroutine
// the harness cannot guard, a fatal runtime error), ./check finds fatal.json in the run
// directory and reports the case as a violation with this replay.
func markRunning(c any) func() {
	dir := os.Getenv("VERIF_RUNDIR")
	if dir == "" {
		return func() {}
	}
	p := filepath.Join(dir, "fatal.json")
	b, _ := json.Marshal(map[string]any{"case": c, "what": "the process died while this case was running on the implementation"})
	_ = os.WriteFile(p, b, 0o644)
	return func() { _ = os.Remove(p) }
}

func main() { lib.Main(engine{}) }
