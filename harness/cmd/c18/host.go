// Host multi-agent cases (flow/agent/multiagent/host) — a stretch of engine C18: the same
// "model reply -> StreamToolCallChecker -> hand off or answer" mechanism as the ReAct agent,
// without a loop.  A Case with a non-nil Host field is a host case: the host model's single
// scripted reply (whole and as chunks), the specialists (chat model with / without system
// prompt, invokable / streamable / both lambdas, possibly failing), the checker, the original
// messages.  Observed through Generate, Stream and (optionally) the exported graph inside a
// parent graph: the host model's input, which specialist ran on which input, the OnHandOff
// events, the answer or error class.  Oracle: the property as Go code; correspondence:
// Model/Host.v host_run.
//
// The host package carries its own copy of firstChunkStreamToolCallChecker with the same
// documented limitation as react's (known finding F-C18 is recorded for react.NewAgent only):
// the generator never streams content before the tool call with the default checker here.
package main

import (
	"context"
	"errors"
	"fmt"
	"reflect"
	"strings"
	"sync"

	"github.com/cloudwego/eino/components/model"
	"github.com/cloudwego/eino/compose"
	"github.com/cloudwego/eino/flow/agent"
	"github.com/cloudwego/eino/flow/agent/multiagent/host"
	"github.com/cloudwego/eino/schema"

	"verif/harness/lib"
)

type HSpec struct {
	Name   string `json:"name"`
	Kind   string `json:"kind"` // model | inv | str | both
	Prompt string `json:"prompt,omitempty"`
	Fail   bool   `json:"fail,omitempty"`
}

type HostCase struct {
	Prompt   string  `json:"prompt,omitempty"` // Host.SystemPrompt ("" = the package's default prompt)
	Specs    []HSpec `json:"specs"`
	Reply    Step    `json:"reply"`
	Pieces   int     `json:"pieces,omitempty"`   // a streaming specialist answers in this many chunks
	Callback bool    `json:"callback,omitempty"` // host.WithAgentCallbacks: OnHandOff events are observed
}

const defaultHostPrompt = "decide which tool is best for the task and call only the best tool."

type HandOff struct {
	Name  string `json:"name"`
	Input []Msg  `json:"input"`
}

type HostRun struct {
	Mode      string      `json:"mode"`
	Exported  bool        `json:"exported,omitempty"`
	HostInput []Msg       `json:"host_input"`
	HandOffs  []HandOff   `json:"handoffs,omitempty"` // specialists that ran (at most one expected)
	Events    [][2]string `json:"events,omitempty"`   // OnHandOff (agent name, argument)
	HasEvents bool        `json:"has_events,omitempty"`
	Out       Out         `json:"out"`
	InMut     bool        `json:"input_mutated,omitempty"`
}

type hostRec struct {
	mu       sync.Mutex
	handoffs []HandOff
	events   [][2]string
}

type hostRecKey struct{}

func specAnswer(name string, in []*schema.Message) string {
	first := ""
	if len(in) > 0 && in[0] != nil {
		first = in[0].Content
	}
	return name + "#" + strings.Repeat("i", len(in)) + "#" + first
}

type specErr struct{}

func (specErr) Error() string { return "SPECERR#" }

func recordHandOff(ctx context.Context, name string, in []*schema.Message) {
	hr, _ := ctx.Value(hostRecKey{}).(*hostRec)
	if hr == nil {
		panic("harness: the context handed to a specialist lost the caller's values")
	}
	hr.mu.Lock()
	hr.handoffs = append(hr.handoffs, HandOff{name, renderAll(in)})
	hr.mu.Unlock()
}

func pieces(s string, n int) []string {
	if n <= 1 || len(s) < n {
		return []string{s}
	}
	var out []string
	step := len(s) / n
	for i := 0; i < n-1; i++ {
		out = append(out, s[i*step:(i+1)*step])
	}
	return append(out, s[(n-1)*step:])
}

func specStream(content string, n int) *schema.StreamReader[*schema.Message] {
	var chunks []*schema.Message
	for i, p := range pieces(content, n) {
		m := &schema.Message{Content: p}
		if i == 0 {
			m.Role = schema.Assistant
		}
		chunks = append(chunks, m)
	}
	return schema.StreamReaderFromArray(chunks)
}

// a chat-model specialist
type specModel struct {
	sp *HSpec
	n  int
}

func (m *specModel) Generate(ctx context.Context, in []*schema.Message, _ ...model.Option) (*schema.Message, error) {
	recordHandOff(ctx, m.sp.Name, in)
	if m.sp.Fail {
		return nil, specErr{}
	}
	return &schema.Message{Role: schema.Assistant, Content: specAnswer(m.sp.Name, in)}, nil
}

func (m *specModel) Stream(ctx context.Context, in []*schema.Message, _ ...model.Option) (*schema.StreamReader[*schema.Message], error) {
	recordHandOff(ctx, m.sp.Name, in)
	if m.sp.Fail {
		return nil, specErr{}
	}
	return specStream(specAnswer(m.sp.Name, in), m.n), nil
}

type handOffCB struct{}

func (handOffCB) OnHandOff(ctx context.Context, info *host.HandOffInfo) context.Context {
	if hr, _ := ctx.Value(hostRecKey{}).(*hostRec); hr != nil {
		hr.mu.Lock()
		hr.events = append(hr.events, [2]string{info.ToAgentName, info.Argument})
		hr.mu.Unlock()
	}
	return ctx
}

func buildHost(c *Case) (*host.MultiAgent, error) {
	h := c.Host
	mc := &Case{Script: []Step{h.Reply}, IndexInWhole: c.IndexInWhole, PipeStream: c.PipeStream}
	fm := &fakeModel{c: mc, binds: new(int)}
	cfg := &host.MultiAgentConfig{Host: host.Host{SystemPrompt: h.Prompt}}
	if c.ModelAPI == "toolcalling" {
		cfg.Host.ToolCallingModel = fm
	} else {
		cfg.Host.ChatModel = fm
	}
	if c.Checker == "exact" {
		cfg.StreamToolCallChecker = exactChecker
	}
	var want []string
	for i := range h.Specs {
		sp := &h.Specs[i]
		want = append(want, sp.Name)
		s := &host.Specialist{AgentMeta: host.AgentMeta{Name: sp.Name, IntendedUse: "use " + sp.Name}}
		inv := func(ctx context.Context, in []*schema.Message, _ ...agent.AgentOption) (*schema.Message, error) {
			recordHandOff(ctx, sp.Name, in)
			if sp.Fail {
				return nil, specErr{}
			}
			return &schema.Message{Role: schema.Assistant, Content: specAnswer(sp.Name, in)}, nil
		}
		str := func(ctx context.Context, in []*schema.Message, _ ...agent.AgentOption) (*schema.StreamReader[*schema.Message], error) {
			recordHandOff(ctx, sp.Name, in)
			if sp.Fail {
				return nil, specErr{}
			}
			return specStream(specAnswer(sp.Name, in), h.Pieces), nil
		}
		switch sp.Kind {
		case "model":
			s.ChatModel = &specModel{sp, h.Pieces}
			s.SystemPrompt = sp.Prompt
		case "inv":
			s.Invokable = inv
		case "str":
			s.Streamable = str
		default:
			s.Invokable, s.Streamable = inv, str
		}
		cfg.Specialists = append(cfg.Specialists, s)
	}
	ma, err := host.NewMultiAgent(context.Background(), cfg)
	if err != nil {
		return nil, err
	}
	if *fm.binds != 1 || !reflect.DeepEqual(fm.bound, want) {
		return nil, fmt.Errorf("BINDTOOLS: the host model was bound %d times, to %v; specialists %v", *fm.binds, fm.bound, want)
	}
	return ma, nil
}

type hostTarget struct {
	gen      func(ctx context.Context, in []*schema.Message, opts ...agent.AgentOption) (*schema.Message, error)
	str      func(ctx context.Context, in []*schema.Message, opts ...agent.AgentOption) (*schema.StreamReader[*schema.Message], error)
	exported bool
}

func hostExported(ma *host.MultiAgent) (*hostTarget, error) {
	g, gopts := ma.ExportGraph()
	parent := compose.NewGraph[[]*schema.Message, *schema.Message]()
	if err := parent.AddGraphNode("multi", g, gopts...); err != nil {
		return nil, err
	}
	if err := parent.AddEdge(compose.START, "multi"); err != nil {
		return nil, err
	}
	if err := parent.AddEdge("multi", compose.END); err != nil {
		return nil, err
	}
	run, err := parent.Compile(context.Background())
	if err != nil {
		return nil, err
	}
	return &hostTarget{
		gen: func(ctx context.Context, in []*schema.Message, _ ...agent.AgentOption) (*schema.Message, error) {
			return run.Invoke(ctx, in)
		},
		str: func(ctx context.Context, in []*schema.Message, _ ...agent.AgentOption) (*schema.StreamReader[*schema.Message], error) {
			return run.Stream(ctx, in)
		},
		exported: true,
	}, nil
}

func runHost(tg *hostTarget, c *Case, mode string) (o HostRun) {
	o.Mode, o.Exported = mode, tg.exported
	rc := &recorder{}
	hr := &hostRec{}
	ctx := context.WithValue(context.WithValue(context.Background(), recKey{}, rc), hostRecKey{}, hr)
	in := inputMsgs(c)
	inBefore := renderAll(in)
	var opts []agent.AgentOption
	if c.Host.Callback && !tg.exported {
		opts = append(opts, host.WithAgentCallbacks(handOffCB{}))
		o.HasEvents = true
	}
	var final *schema.Message
	var err error
	done := make(chan any, 1)
	go func() {
		done <- lib.Recover(func() {
			if mode == "generate" {
				final, err = tg.gen(ctx, in, opts...)
				return
			}
			var sr *schema.StreamReader[*schema.Message]
			sr, err = tg.str(ctx, in, opts...)
			if err != nil {
				return
			}
			final, err = schema.ConcatMessageStream(sr)
		})
	}()
	p, returned := awaitRun(done)
	switch {
	case !returned:
		o.Out = Out{Class: "hang"}
		return
	case p != nil:
		o.Out = Out{Class: "panic", ErrMsg: short(fmt.Sprint(p))}
	case err != nil:
		o.Out = Out{Class: "err", Err: classify(err), ErrMsg: short(err.Error())}
	default:
		m := render(final)
		o.Out = Out{Class: "final", Msg: &m}
	}
	if !reflect.DeepEqual(renderAll(in), inBefore) {
		o.InMut = true
	}
	rc.mu.Lock()
	if len(rc.calls) > 0 {
		o.HostInput = rc.calls[0].rendered
	}
	if len(rc.calls) > 1 {
		o.Out = Out{Class: "err", Err: 9, ErrMsg: fmt.Sprintf("the host model was called %d times", len(rc.calls))}
	}
	rc.mu.Unlock()
	hr.mu.Lock()
	o.HandOffs = hr.handoffs
	o.Events = hr.events
	hr.mu.Unlock()
	return
}

func (c *Case) hostSpec(callOpts bool) (o HostRun) {
	h := c.Host
	prompt := h.Prompt
	if prompt == "" {
		prompt = defaultHostPrompt
	}
	o.HostInput = append([]Msg{{Role: 0, Content: prompt}}, c.Input...)
	o.HasEvents = callOpts && h.Callback
	fail := func(cls int) HostRun { o.Out = Out{Class: "err", Err: cls}; return o }
	if h.Reply.Fail {
		return fail(2)
	}
	am := Msg{Role: 2, Content: h.Reply.Content, Calls: h.Reply.Calls}
	if len(h.Reply.Calls) == 0 {
		o.Out = Out{Class: "final", Msg: &am}
		return o
	}
	if o.HasEvents {
		o.Events = [][2]string{{h.Reply.Calls[0].Name, h.Reply.Calls[0].Args}}
	}
	if len(h.Reply.Calls) != 1 {
		return fail(3)
	}
	var sp *HSpec
	for i := range h.Specs {
		if h.Specs[i].Name == h.Reply.Calls[0].Name {
			sp = &h.Specs[i]
			break
		}
	}
	if sp == nil {
		return fail(3)
	}
	sin := append([]Msg{}, c.Input...)
	if sp.Kind == "model" && sp.Prompt != "" {
		sin = append([]Msg{{Role: 0, Content: sp.Prompt}}, sin...)
	}
	o.HandOffs = []HandOff{{sp.Name, sin}}
	if sp.Fail {
		return fail(3)
	}
	first := ""
	if len(sin) > 0 {
		first = sin[0].Content
	}
	ans := Msg{Role: 2, Content: sp.Name + "#" + strings.Repeat("i", len(sin)) + "#" + first}
	o.Out = Out{Class: "final", Msg: &ans}
	return o
}

func sameHostRun(a, b *HostRun) string {
	if !reflect.DeepEqual(normInputs([][]Msg{a.HostInput}), normInputs([][]Msg{b.HostInput})) {
		return "host model input"
	}
	if len(a.HandOffs) != len(b.HandOffs) {
		return "hand-offs"
	}
	for i := range a.HandOffs {
		if a.HandOffs[i].Name != b.HandOffs[i].Name ||
			!reflect.DeepEqual(normInputs([][]Msg{a.HandOffs[i].Input}), normInputs([][]Msg{b.HandOffs[i].Input})) {
			return "hand-off"
		}
	}
	if a.HasEvents && b.HasEvents && !(len(a.Events) == 0 && len(b.Events) == 0) && !reflect.DeepEqual(a.Events, b.Events) {
		return "OnHandOff events"
	}
	if a.Out.Class != b.Out.Class || a.Out.Err != b.Out.Err {
		return "outcome"
	}
	if a.Out.Msg != nil && !reflect.DeepEqual(normMsg(*a.Out.Msg), normMsg(*b.Out.Msg)) {
		return "final answer"
	}
	return ""
}

func (o *HostRun) coq() string {
	md := "MGenerate"
	if o.Mode == "stream" {
		md = "MStream"
	}
	hos := make([]string, len(o.HandOffs))
	for i, h := range o.HandOffs {
		hos[i] = lib.CoqPair(S(h.Name), coqMsgs(h.Input))
	}
	ev := "None"
	if o.HasEvents {
		items := make([]string, len(o.Events))
		for i, e := range o.Events {
			items[i] = lib.CoqPair(S(e[0]), S(e[1]))
		}
		ev = lib.CoqSome(lib.CoqList(items))
	}
	var out string
	switch o.Out.Class {
	case "final":
		out = lib.CoqApp("OFinal", coqMsg(*o.Out.Msg))
	case "err":
		out = lib.CoqApp("OErr", lib.CoqN(uint64(o.Out.Err)))
	default:
		return ""
	}
	return lib.CoqApp("HRun", md, coqMsgs(o.HostInput), lib.CoqList(hos), ev, out)
}

func (c *Case) coqHost(runs []string) string {
	h := c.Host
	specs := make([]string, len(h.Specs))
	var fails []string
	for i, sp := range h.Specs {
		p := "None"
		if sp.Kind == "model" {
			p = lib.CoqSome(S(sp.Prompt))
		}
		specs[i] = lib.CoqApp("mkHSpec", S(sp.Name), p)
		if sp.Fail {
			fails = append(fails, S(sp.Name))
		}
	}
	var reply string
	if h.Reply.Fail {
		reply = "SFail"
	} else {
		chs := make([]string, len(h.Reply.Chunks))
		for j, ch := range h.Reply.Chunks {
			fr := make([]string, len(ch.Frags))
			for l, f := range ch.Frags {
				fr[l] = lib.CoqApp("mkFrag", lib.CoqN(uint64(f.Index)), S(f.ID), S(f.Name), S(f.Args))
			}
			chs[j] = lib.CoqApp("mkChunk", S(ch.Content), lib.CoqList(fr))
		}
		reply = lib.CoqApp("SMsg", S(h.Reply.Content), coqCalls(h.Reply.Calls), lib.CoqList(chs))
	}
	return lib.CoqApp("HostCase", lib.CoqApp("mkHCase", S(h.Prompt), lib.CoqList(specs), lib.CoqList(fails),
		lib.CoqBool(c.Checker != "exact"), coqMsgs(c.Input), reply, lib.CoqList(runs)))
}

var specPool = []string{"coder", "writer", "planner", "critic"}

func genHostCase(r *lib.Rng) *Case {
	c := &Case{Checker: "default", ModelAPI: r.Pick([]string{"chat", "toolcalling"}), IndexInWhole: r.Chance(1, 2),
		PipeStream: r.Chance(1, 2), Exported: r.Chance(1, 3)}
	if r.Chance(1, 2) {
		c.Checker = "exact"
	}
	h := &HostCase{Pieces: r.Range(1, 3), Callback: r.Chance(1, 2)}
	c.Host = h
	if r.Chance(1, 2) {
		h.Prompt = "You route requests."
	}
	ns := r.Range(2, 3)
	if r.Chance(1, 30) {
		ns = 1 // see runHostCase: cannot be built
	}
	perm := r.Perm(len(specPool))
	for i := 0; i < ns; i++ {
		sp := HSpec{Name: specPool[perm[i]], Kind: r.Pick([]string{"model", "model", "inv", "str", "both"})}
		if sp.Kind == "model" && r.Chance(1, 2) {
			sp.Prompt = "You are the " + sp.Name + "."
		}
		sp.Fail = r.Chance(1, 10)
		h.Specs = append(h.Specs, sp)
	}
	if r.Chance(1, 3) {
		c.Input = append(c.Input, Msg{Role: 0, Content: "system prompt"})
	}
	c.Input = append(c.Input, Msg{Role: 1, Content: "question " + r.Pick(wordPool)})
	st := Step{Content: r.Pick(textPool)}
	switch {
	case r.Chance(1, 25):
		st.Fail = true
	case r.Chance(3, 4):
		nc := 1
		if r.Chance(1, 8) {
			nc = r.Range(2, 3) // several tool calls: an error
		}
		for i := 0; i < nc; i++ {
			name := h.Specs[r.Intn(ns)].Name
			if r.Chance(1, 10) {
				name = specPool[perm[3]] // not a specialist
			}
			st.Calls = append(st.Calls, TCall{ID: fmt.Sprintf("h%d", i), Name: name, Args: `{"reason":"` + r.Pick(wordPool) + `"}`})
		}
		if !r.Chance(1, 3) {
			st.Content = ""
		}
	}
	order := r.Intn(3)
	if c.Checker == "default" && order == 1 {
		order = []int{0, 2}[r.Intn(2)] // see the file comment: no content before the tool call with the default checker
	}
	st.Chunks = genChunks(r, c, &st, order)
	h.Reply = st
	return c
}

func runHostCase(c *Case) lib.Result {
	res := lib.Result{}
	ma, err := buildHost(c)
	if err != nil && len(c.Host.Specs) == 1 {
		// observed, outside C18: a host with exactly ONE specialist passes config.validate but cannot
		// be built - the specialists branch would have a single end node and compose.AddBranch
		// rejects it ("number of branches is 1").  Recorded, not judged.
		res.Obs = map[string]string{"setup": err.Error(), "note": "single specialist: NewMultiAgent fails (branch with one end node)"}
		res.Tags = []string{"host-case", "host-single-specialist-rejected"}
		return res
	}
	if err != nil {
		res.Obs = map[string]string{"setup": err.Error()}
		res.Oracle, res.Sig = "host.NewMultiAgent failed: "+err.Error(), "host-setup"
		return res
	}
	tg := &hostTarget{gen: ma.Generate, str: ma.Stream}
	runs := []HostRun{runHost(tg, c, "generate"), runHost(tg, c, "stream")}
	if c.Exported {
		xt, err := hostExported(ma)
		if err != nil {
			res.Obs = map[string]string{"setup": err.Error()}
			res.Oracle, res.Sig = "the exported host graph could not be compiled in a parent graph: "+err.Error(), "host-setup-exported"
			return res
		}
		runs = append(runs, runHost(xt, c, "generate"), runHost(xt, c, "stream"))
	}
	res.Obs = map[string]any{"host_runs": runs}
	for i := range runs {
		o := &runs[i]
		what := o.Mode
		if o.Exported {
			what += " (exported)"
		}
		switch {
		case o.Out.Class == "hang":
			res.Oracle, res.Sig = what+": the multi-agent did not return within 10s", "host-hang"
		case o.Out.Class == "panic":
			res.Oracle, res.Sig = what+": panic reached the caller: "+o.Out.ErrMsg, "host-panic"
		case o.InMut:
			res.Oracle, res.Sig = what+": the caller's input messages were modified", "host-caller-input-mutated"
		default:
			spec := c.hostSpec(!o.Exported)
			if d := sameHostRun(o, &spec); d != "" {
				res.Oracle = fmt.Sprintf("host multi-agent %s differs from its specification in %s: got %s, expected %s", what, d, js(o), js(spec))
				res.Sig = "host-differs:" + d
			}
		}
		if res.Oracle != "" {
			break
		}
	}
	cur = &interner{names: map[string]string{}}
	defer func() { cur = nil }()
	var terms []string
	for i := range runs {
		if t := runs[i].coq(); t != "" {
			terms = append(terms, t)
		}
	}
	if len(terms) == len(runs) {
		res.CoqTerm = cur.wrap(c.coqHost(terms))
	}
	out := runs[0].Out.Class
	if out == "err" {
		out = fmt.Sprintf("err%d", runs[0].Out.Err)
	}
	res.Tags = []string{"host-case", fmt.Sprintf("host-specialists:%d", len(c.Host.Specs)),
		fmt.Sprintf("host-calls:%d", len(c.Host.Reply.Calls)), "host-out:" + out, "host-checker:" + c.Checker,
		fmt.Sprintf("host-handoff:%v", len(runs[0].HandOffs) > 0), fmt.Sprintf("host-callback:%v", c.Host.Callback),
		fmt.Sprintf("host-exported:%v", c.Exported)}
	res.Nontrivial = len(runs[0].HandOffs) > 0
	return res
}

var _ = errors.New
