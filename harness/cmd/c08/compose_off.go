//go:build !verif_c08wb

package main

import (
	"fmt"

	"github.com/cloudwego/eino/schema"
)

// Black-box stand-ins for compose.go (white-box group "verif_c08wb": the re-exports of
// /repo/compose/verif_c08.go).  Used when the harness is built without that tag, i.e. when the hook no
// longer compiles against compose/stream_reader.go (a rename there): the same operations through the
// public API of package schema only.  The model side is the same (a copy, a merge, an item-wise
// identity conversion); what is lost is the coverage of compose's wrappers, and the cases say so
// (tag whitebox:unavailable).
const whiteboxAvailable = false

func composeCopy[T any](sr *schema.StreamReader[T], n int) []*schema.StreamReader[T] {
	return sr.Copy(n) // (n >= 1 on this path)
}
func composeMerge[T any](srs []*schema.StreamReader[T]) *schema.StreamReader[T] {
	return schema.MergeStreamReaders(srs)
}

func composeViaAny[T any](sr *schema.StreamReader[T]) *schema.StreamReader[T] {
	asr := schema.StreamReaderWithConvert(sr, func(v T) (any, error) { return v, nil })
	return schema.StreamReaderWithConvert(asr, func(a any) (T, error) {
		v, ok := assertChunk[T](a)
		if !ok {
			return v, fmt.Errorf("verif c08: chunk of type %T came back from the any path", a)
		}
		return v, nil
	})
}

func composeViaKey[T any](sr *schema.StreamReader[T]) *schema.StreamReader[T] {
	m := schema.StreamReaderWithConvert(sr, func(v T) (map[string]any, error) { return map[string]any{"k": v}, nil })
	return schema.StreamReaderWithConvert(m, func(kv map[string]any) (T, error) {
		c, has := kv["k"]
		v, ok := assertChunk[T](c)
		if !has || !ok || len(kv) != 1 {
			return v, fmt.Errorf("verif c08: keyed chunk %v", kv)
		}
		return v, nil
	})
}
