//go:build !verif_c08wb

package main

import (
	"fmt"

	"github.com/cloudwego/eino/schema"
)

// Black-box stand-ins for compose.go (white-box group "verif_c08wb": the re-exports of
// /repo/compose/verif_c08.go).  Used when the harness is built without that tag, i.e. when the hook no
// longer compiles against compose/stream_reader.go (a rename there): the same operations through the
// public API of package schema only.  The model side is the same (a copy, a merge, an item-wise
// identity conversion); what is lost is the coverage of compose's wrappers, and the cases say so
// (tag whitebox:unavailable).
const whiteboxAvailable = false

func composeCopy(sr SR, n int) []SR { return sr.Copy(n) } // (n >= 1 on this path)
func composeMerge(srs []SR) SR      { return schema.MergeStreamReaders(srs) }

func composeViaAny(sr SR) SR {
	asr := schema.StreamReaderWithConvert(sr, func(v uint64) (any, error) { return v, nil })
	return schema.StreamReaderWithConvert(asr, func(a any) (uint64, error) {
		v, ok := a.(uint64)
		if !ok {
			return 0, fmt.Errorf("verif c08: chunk of type %T came back from the any path", a)
		}
		return v, nil
	})
}

func composeViaKey(sr SR) SR {
	m := schema.StreamReaderWithConvert(sr, func(v uint64) (map[string]any, error) { return map[string]any{"k": v}, nil })
	return schema.StreamReaderWithConvert(m, func(kv map[string]any) (uint64, error) {
		v, ok := kv["k"].(uint64)
		if !ok || len(kv) != 1 {
			return 0, fmt.Errorf("verif c08: keyed chunk %v", kv)
		}
		return v, nil
	})
}

func composeViaNilAny(sr SR) SR {
	asr := schema.StreamReaderWithConvert(sr, func(v uint64) (any, error) {
		if v == 0 {
			return nil, nil
		}
		return v, nil
	})
	return schema.StreamReaderWithConvert(asr, func(a any) (uint64, error) {
		if a == nil {
			return 0, nil
		}
		v, ok := a.(uint64)
		if !ok {
			return 0, fmt.Errorf("verif c08: chunk of type %T in the stream of any", a)
		}
		return v, nil
	})
}
