//go:build verif_c08wb

package main

import (
	"github.com/cloudwego/eino/compose"
	"github.com/cloudwego/eino/schema"
)

// White-box group "verif_c08wb" (props/C08.json extra_tags; the hook /repo/compose/verif_c08.go carries the
// same tag): without the tag compose_off.go does the same through the public API of package schema.
const whiteboxAvailable = true

// the same calls through compose/stream_reader.go's streamReaderPacker (hook compose/verif_c08.go)
func composeCopy[T any](sr *schema.StreamReader[T], n int) []*schema.StreamReader[T] {
	return compose.VerifC08Copy(sr, n)
}
func composeMerge[T any](srs []*schema.StreamReader[T]) *schema.StreamReader[T] {
	return compose.VerifC08Merge(srs)
}

// item-wise identity roundtrips through the other wrappers of compose/stream_reader.go: the
// interface path of unpackStreamReader (toAnyStreamReader + per-chunk type assertion) and withKey
func composeViaAny[T any](sr *schema.StreamReader[T]) *schema.StreamReader[T] {
	return compose.VerifC08ViaAny(sr)
}
func composeViaKey[T any](sr *schema.StreamReader[T]) *schema.StreamReader[T] {
	return compose.VerifC08ViaKey(sr, "k")
}
