package main

// Bookkeeping beside the implementation: which reader is derived from what. Used by the
// generators (to emit only calls that cannot block in a single-goroutine script, and to
// know which readers a pipe feeds) and by the direct oracle (the property evaluated on
// the implementation's outputs: per-reader sequence = what was sent, in order).

type expr struct {
	kind string // pipe arr conv merge drop
	hp   int
	xs   []uint64
	f    CFn
	sub  []*expr
	drop int
}

// strands: the sequences the reader's output must be an order-preserving interleaving of.
func (e *expr) strands(acc map[int][]Item) [][]Item {
	switch e.kind {
	case "pipe":
		return [][]Item{acc[e.hp]}
	case "arr":
		s := make([]Item, len(e.xs))
		for i, v := range e.xs {
			s[i] = Item{V: v}
		}
		return [][]Item{s}
	case "conv":
		in := e.sub[0].strands(acc)
		out := make([][]Item, len(in))
		for i, s := range in {
			o := []Item{}
			for _, x := range s {
				if x.Err {
					o = append(o, x)
					continue
				}
				switch k, v := e.f.apply(x.V); k {
				case 0:
					o = append(o, Item{V: v})
				case 1:
					o = append(o, Item{V: v, Err: true})
				}
			}
			out[i] = o
		}
		return out
	case "merge":
		var out [][]Item
		for _, s := range e.sub {
			out = append(out, s.strands(acc)...)
		}
		return out
	case "drop":
		in := e.sub[0].strands(acc)
		if len(in) == 1 {
			k := e.drop
			if k > len(in[0]) {
				k = len(in[0])
			}
			return [][]Item{in[0][k:]}
		}
		return in
	}
	panic("bad expr")
}

// occ: how many strands the reader has, and (added to m) at how many places of them each source
// value occurs, copies counted: one key per pipe (whatever it will be sent), one per array item value;
// conversions are taken as the identity (an over-estimate: used to keep the cases within what the
// model's interleaving check can decide quickly, see genConc).
func (e *expr) occ(m map[string]int) int {
	switch e.kind {
	case "pipe":
		m["p"+itoa(e.hp)]++
		return 1
	case "arr":
		for _, v := range e.xs {
			m["a"+itoa(int(v))]++
		}
		return 1
	default:
		n := 0
		for _, s := range e.sub {
			n += s.occ(m)
		}
		return n
	}
}

func itoa(n int) string {
	if n == 0 {
		return "0"
	}
	var b []byte
	for ; n > 0; n /= 10 {
		b = append([]byte{byte('0' + n%10)}, b...)
	}
	return string(b)
}

// bound: an upper bound on the number of items a reader with this derivation can receive.
func (e *expr) bound(wlen map[int]int) int {
	switch e.kind {
	case "pipe":
		return wlen[e.hp]
	case "arr":
		return len(e.xs)
	case "merge":
		n := 0
		for _, s := range e.sub {
			n += s.bound(wlen)
		}
		return n
	default:
		n := 0
		for _, s := range e.sub {
			n += s.bound(wlen)
		}
		return n
	}
}

// interleaves: obs is an interleaving of prefixes of the strands (of the whole strands if full).
// Search over position vectors with dead states memoised; strands with identical content (the
// copies of one source that a merge collects) are interchangeable: their positions are kept
// sorted in the key and only the first of several strands of one group at the same position is
// tried, so that the search stays polynomial on the shapes the generator builds.
func interleaves(full bool, obs []Item, strs [][]Item) bool {
	k := len(strs)
	group := make([]int, k) // index of the first strand with the same content
	for i := range strs {
		group[i] = i
		for j := 0; j < i; j++ {
			if len(strs[j]) == len(strs[i]) && isPrefix(strs[j], strs[i]) {
				group[i] = group[j]
				break
			}
		}
	}
	pos := make([]int, k)
	dead := map[string]bool{}
	key := func() string {
		// positions of one group in descending order
		b := make([]byte, 0, 3*k)
		used := make([]bool, k)
		for i := 0; i < k; i++ {
			if used[i] {
				continue
			}
			var ps []int
			for j := i; j < k; j++ {
				if group[j] == group[i] {
					used[j] = true
					ps = append(ps, pos[j])
				}
			}
			sortInts(ps)
			for _, p := range ps {
				b = append(b, byte(p), byte(p>>8), ',')
			}
			b = append(b, ';')
		}
		return string(b)
	}
	var rec func(t int) bool
	rec = func(t int) bool {
		if t == len(obs) {
			if !full {
				return true
			}
			for i := range strs {
				if pos[i] != len(strs[i]) {
					return false
				}
			}
			return true
		}
		ky := key()
		if dead[ky] {
			return false
		}
		for i := range strs {
			if pos[i] < len(strs[i]) && strs[i][pos[i]] == obs[t] {
				dup := false // an earlier strand of the same group at the same position was tried
				for j := 0; j < i; j++ {
					if group[j] == group[i] && pos[j] == pos[i] {
						dup = true
						break
					}
				}
				if dup {
					continue
				}
				pos[i]++
				ok := rec(t + 1)
				pos[i]--
				if ok {
					return true
				}
			}
		}
		dead[ky] = true
		return false
	}
	return rec(0)
}

func isPrefix(a, b []Item) bool {
	if len(a) > len(b) {
		return false
	}
	for i := range a {
		if a[i] != b[i] {
			return false
		}
	}
	return true
}

type shadowH struct {
	kind      string // arr str mul conv child
	live      bool
	closed    bool
	e         *expr
	srcs      map[int]int // pipe hp -> number of forwarder goroutines on the way
	delivered int         // items this handle returned so far
	idem      bool        // Close may be called twice
	parent    int         // copy parent id for children, else -1
	nstreams  int         // mul: number of underlying base streams
}

type shadowPipe struct {
	cap      int
	attempts int
	sclosed  bool
}

type shadow struct {
	hs       []*shadowH
	pipes    map[int]*shadowPipe
	nparents int
	nfwd     int
}

func newShadow() *shadow { return &shadow{pipes: map[int]*shadowPipe{}} }

func (s *shadow) valid(h int) bool { return h >= 0 && h < len(s.hs) && s.hs[h].live }

func (s *shadow) cur(h int) *expr {
	sh := s.hs[h]
	if sh.delivered == 0 {
		return sh.e
	}
	return &expr{kind: "drop", sub: []*expr{sh.e}, drop: sh.delivered}
}

func copySrcs(m map[int]int) map[int]int {
	o := map[int]int{}
	for k, v := range m {
		o[k] = v
	}
	return o
}

// apply mirrors the handle numbering of the API; returns the handle ids the call returns
// (nil, false) if the call is API misuse (dead handle).
func (s *shadow) apply(o Op) ([]int, bool) {
	switch o.K {
	case "pipe":
		h := len(s.hs)
		s.hs = append(s.hs, &shadowH{kind: "str", live: true, e: &expr{kind: "pipe", hp: h}, srcs: map[int]int{h: 0}, parent: -1})
		s.pipes[h] = &shadowPipe{cap: o.Cap}
		return []int{h}, true
	case "array":
		h := len(s.hs)
		s.hs = append(s.hs, &shadowH{kind: "arr", live: true, e: &expr{kind: "arr", xs: o.Xs}, srcs: map[int]int{}, idem: true, parent: -1})
		return []int{h}, true
	case "copy":
		if !s.valid(o.H) {
			return nil, false
		}
		if o.N < 2 {
			return []int{o.H}, true
		}
		src := s.hs[o.H]
		e := s.cur(o.H)
		src.live = false
		var out []int
		pid := -1
		kind := "arr"
		if src.kind != "arr" {
			kind = "child"
			pid = s.nparents
			s.nparents++
		}
		for i := 0; i < o.N; i++ {
			out = append(out, len(s.hs))
			s.hs = append(s.hs, &shadowH{kind: kind, live: true, e: e, srcs: copySrcs(src.srcs), idem: true, parent: pid})
		}
		return out, true
	case "conv":
		if !s.valid(o.H) {
			return nil, false
		}
		src := s.hs[o.H]
		e := &expr{kind: "conv", f: *o.F, sub: []*expr{s.cur(o.H)}}
		src.live = false
		h := len(s.hs)
		s.hs = append(s.hs, &shadowH{kind: "conv", live: true, e: e, srcs: copySrcs(src.srcs), idem: src.idem, parent: -1})
		return []int{h}, true
	case "merge":
		if len(o.Hs) == 0 {
			return []int{}, true
		}
		seen := map[int]bool{}
		for _, h := range o.Hs {
			if !s.valid(h) || seen[h] {
				return nil, false
			}
			seen[h] = true
		}
		if len(o.Hs) == 1 {
			return []int{o.Hs[0]}, true
		}
		e := &expr{kind: "merge"}
		srcs := map[int]int{}
		nss := 0
		var xs []uint64
		for _, h := range o.Hs {
			src := s.hs[h]
			e.sub = append(e.sub, s.cur(h))
			d := 0
			switch src.kind {
			case "conv", "child":
				d = 1
				s.nfwd++
				nss++
			case "str":
				nss++
			case "mul":
				nss += src.nstreams
			case "arr":
				for _, it := range s.cur(h).strands(nil)[0] {
					xs = append(xs, it.V)
				}
			}
			for k, v := range src.srcs {
				if old, ok := srcs[k]; !ok || v+d > old {
					srcs[k] = v + d
				}
			}
			src.live = false
		}
		h := len(s.hs)
		nh := &shadowH{kind: "mul", live: true, e: e, srcs: srcs, parent: -1, nstreams: nss}
		if nss == 0 && len(xs) > 0 {
			// only array sources: concatenation of the remainders in argument order
			nh.kind, nh.e, nh.idem = "arr", &expr{kind: "arr", xs: xs}, true
		} else if len(xs) > 0 {
			nh.nstreams++
		}
		if nss == 0 {
			nh.idem = true
		}
		s.hs = append(s.hs, nh)
		return []int{h}, true
	}
	return nil, true
}

// fed: live handles derived from pipe hp.
func (s *shadow) fed(hp int) []int {
	var out []int
	for i, h := range s.hs {
		if h.live {
			if _, ok := h.srcs[hp]; ok {
				out = append(out, i)
			}
		}
	}
	return out
}

// ready: Recv on h cannot block in a single-goroutine script.
func (s *shadow) ready(h int) bool {
	for hp := range s.hs[h].srcs {
		if !s.pipes[hp].sclosed {
			return false
		}
	}
	return true
}

// recvArr: the generator's view of a Recv on an array-backed reader (its remainder decides
// whether a later merge yields an array reader or an empty multi reader).
func (s *shadow) recvArr(h int) {
	sh := s.hs[h]
	if sh.kind == "arr" && sh.delivered < len(sh.e.strands(nil)[0]) {
		sh.delivered++
	}
}
