// Engine C08 — streams (schema/stream.go, schema/select.go, compose/stream_reader.go).
//
// Two kinds of case (see coq/Corr/C08.v):
//
//	seq   a single-goroutine script of API calls (Pipe, StreamReaderFromArray, Copy,
//	      MergeStreamReaders, StreamReaderWithConvert, Send, Close, Recv, Close) that can
//	      never block; every return value is compared with the executable model.
//	conc  a tree built over Pipe sources that is then driven by one goroutine per end
//	      (writers, leaf readers) with seeded yields and early closes; the per-goroutine
//	      histories are checked against the model's trace predicates inside Coq and by the
//	      direct oracle here.
package main

import (
	"encoding/json"
	"fmt"
	"sync/atomic"

	"verif/harness/lib"
)

// Item mirrors Model/Stream.v's item: IVal v | IErr e.
type Item struct {
	V   uint64 `json:"v"`
	Err bool   `json:"err,omitempty"`
}

func (x Item) coq() string {
	if x.Err {
		return lib.CoqApp("IErr", lib.CoqN(x.V))
	}
	return lib.CoqApp("IVal", lib.CoqN(x.V))
}

func coqItems(xs []Item) string {
	s := make([]string, len(xs))
	for i, x := range xs {
		s[i] = x.coq()
	}
	return lib.CoqList(s)
}

// CFn mirrors Corr/C08.v's cfspec: v -> skip if v%Skip==0, error(v) if v%Err==0, else v+Add.
type CFn struct {
	Add  uint64 `json:"add"`
	Skip uint64 `json:"skip"`
	Err  uint64 `json:"errm"`
	Wrap bool   `json:"wrap,omitempty"` // return ErrNoValue wrapped with %w
}

func (f CFn) apply(v uint64) (kind int, out uint64) { // 0 val, 1 err, 2 skip
	if f.Skip != 0 && v%f.Skip == 0 {
		return 2, 0
	}
	if f.Err != 0 && v%f.Err == 0 {
		return 1, v
	}
	return 0, v + f.Add
}

func (f CFn) coq() string {
	return lib.CoqApp("CF", lib.CoqN(f.Add), lib.CoqN(f.Skip), lib.CoqN(f.Err))
}

// Op is one script operation (Corr/C08.v's cop).
type Op struct {
	K   string   `json:"k"` // pipe array copy merge conv send closesend recv close
	Cap int      `json:"cap,omitempty"`
	Xs  []uint64 `json:"xs,omitempty"`
	H   int      `json:"h,omitempty"`
	N   int      `json:"n,omitempty"`
	Hs  []int    `json:"hs,omitempty"`
	F   *CFn     `json:"f,omitempty"`
	X   *Item    `json:"x,omitempty"`
	// "" = package schema; copy / merge: "compose" = through compose's streamReaderPacker; conv (F = identity):
	// "any" = through toAnyStreamReader and the interface path of unpackStreamReader, "key" = withKey and back, "nil" = a stream of any in which the zero value is a nil chunk
	Via string `json:"via,omitempty"`
	// array: 0 = the slice handed to StreamReaderFromArray is allocated with exactly its length;
	// 1 = it is a window of one arena shared by the array sources of the case (spare capacity
	// behind it, in which the items of the array sources created later lie)
	Spare int `json:"spare,omitempty"`
}

func natList(xs []int) string {
	s := make([]string, len(xs))
	for i, x := range xs {
		s[i] = lib.CoqNat(x)
	}
	return lib.CoqList(s)
}

func (o Op) coq() string {
	switch o.K {
	case "pipe":
		return lib.CoqApp("KPipe", lib.CoqNat(o.Cap))
	case "array":
		return lib.CoqApp("KArray", lib.CoqNList(o.Xs))
	case "copy":
		return lib.CoqApp("KCopy", lib.CoqNat(o.H), lib.CoqNat(o.N))
	case "merge":
		return lib.CoqApp("KMerge", natList(o.Hs))
	case "conv":
		return lib.CoqApp("KConv", lib.CoqNat(o.H), o.F.coq())
	case "send":
		return lib.CoqApp("KSend", lib.CoqNat(o.H), o.X.coq())
	case "closesend":
		return lib.CoqApp("KCloseSend", lib.CoqNat(o.H))
	case "recv":
		return lib.CoqApp("KRecv", lib.CoqNat(o.H))
	case "close":
		return lib.CoqApp("KClose", lib.CoqNat(o.H))
	}
	panic("bad op " + o.K)
}

// Writer: plan of the goroutine holding the StreamWriter of pipe HP (conc mode).
type Writer struct {
	HP    int    `json:"hp"`
	Items []Item `json:"items"`
	Late  bool   `json:"late,omitempty"` // do not send before every derived reader was closed
}

// Leaf: plan of the goroutine holding reader H: read Max items (Max<0: up to EOF), then Close.
type Leaf struct {
	H   int `json:"h"`
	Max int `json:"max"`
}

type Case struct {
	Mode    string   `json:"mode"` // seq | conc
	Ops     []Op     `json:"ops"`
	Writers []Writer `json:"writers,omitempty"`
	Leaves  []Leaf   `json:"leaves,omitempty"`
	// chunk type the streams of the case are instantiated with: "" = uint64, "str" = string (0 = the empty
	// string), "ptr" = pointer to a struct (0 = the nil pointer), "iface" = a defined interface type with a
	// method (0 = its nil value; two dynamic types)
	Ty      string `json:"ty,omitempty"`
	Seed    uint64 `json:"seed,omitempty"`    // yields of the conc goroutines
	Lazy    int    `json:"lazy,omitempty"`    // conc: the last Lazy constructor calls are made while the ends are driven
	Barrier bool   `json:"barrier,omitempty"` // conc: the leaves call Close at the same instant (bounded spin barrier)
	Reps    int    `json:"reps,omitempty"`    // conc: drive the same tree this many times (storm case)
}

// O is one observation (Model/Stream.v's obs).
type O struct {
	K  string `json:"k"`            // new send recv close illegal
	Hs []int  `json:"hs,omitempty"` // new
	R  string `json:"r,omitempty"`  // send: ok closed panic ; recv: item eof panic ; close: ok panic
	X  *Item  `json:"x,omitempty"`
}

func (o O) coq() string {
	switch o.K {
	case "new":
		return lib.CoqApp("BNew", natList(o.Hs))
	case "send":
		switch o.R {
		case "ok":
			return "(BSend SOk)"
		case "closed":
			return "(BSend SClosed)"
		default:
			return "(BSend SPanic)"
		}
	case "recv":
		switch o.R {
		case "item":
			return lib.CoqApp("BRecv", lib.CoqApp("PItem", o.X.coq()))
		case "eof":
			return "(BRecv PEOF)"
		default:
			return "(BRecv PBad)" // a panic in Recv: never equal to a model result
		}
	case "close":
		if o.R == "ok" {
			return "(BClose ClOk)"
		}
		return "(BClose ClPanic)"
	}
	return "BIllegal"
}

func coqObs(os []O) string {
	s := make([]string, len(os))
	for i, o := range os {
		s[i] = o.coq()
	}
	return lib.CoqList(s)
}

func coqOps(ops []Op) string {
	s := make([]string, len(ops))
	for i, o := range ops {
		s[i] = o.coq()
	}
	return lib.CoqList(s)
}

type engine struct{}

func (engine) ID() string { return "C08" }
func (engine) CoqHeader() string {
	return "From Eino Require Import Base.Util Model.Stream Corr.C08.\n"
}
func (engine) CoqCaseType() string { return "ccase" }

func (engine) Generate(r *lib.Rng, tier string, i int) any {
	// DESIGN §5: 500 trees + 300 histories (quick): 5 of 8 cases are scripts
	var c *Case
	if i%8 < 5 {
		c = genSeq(r, tier)
	} else {
		c = genConc(r, tier)
	}
	// half of the cases run on uint64 chunks, the others on strings, pointers or interface values
	if r.Chance(1, 2) {
		c.Ty = chunkTypes[1+r.Intn(len(chunkTypes)-1)]
	}
	return c
}

func (engine) Decode(raw json.RawMessage) (any, error) {
	var c Case
	if err := json.Unmarshal(raw, &c); err != nil {
		return nil, err
	}
	if c.Mode != "seq" && c.Mode != "conc" {
		return nil, fmt.Errorf("bad mode %q", c.Mode)
	}
	if c.Lazy < 0 || c.Lazy > len(c.Ops) || (c.Lazy > 0 && (c.Mode != "conc" || c.Barrier)) {
		return nil, fmt.Errorf("bad lazy %d", c.Lazy)
	}
	okTy := false
	for _, t := range chunkTypes {
		okTy = okTy || c.Ty == t
	}
	if !okTy {
		return nil, fmt.Errorf("bad chunk type %q", c.Ty)
	}
	return &c, nil
}

// hangs counts the cases of this process that ended in the watchdog. A call of the
// implementation that never returns keeps its goroutine (a mutant that spins inside Recv keeps
// a processor busy for good); after hangBudget such cases the remaining ones are not run any
// more (tag "skipped-after-hang", not sent to the model): the hangs already are the verdict,
// and the process must end within the harness time limit.
var hangs atomic.Int32

const hangBudget = 3

func (engine) Run(ci any) lib.Result {
	c := ci.(*Case)
	if hangs.Load() >= hangBudget {
		return lib.Result{Obs: map[string]string{"skipped": "earlier cases of this run hung"},
			Tags: []string{"mode:" + c.Mode, "skipped-after-hang"}}
	}
	var res lib.Result
	if c.Mode == "seq" {
		res = runSeq(c)
	} else {
		res = runConc(c)
	}
	if res.Sig == "hang" {
		hangs.Add(1)
	}
	ty := c.Ty
	if ty == "" {
		ty = "uint64"
	}
	res.Tags = append(res.Tags, "type:"+ty)
	return res
}

func main() { lib.Main(engine{}) }
