package main

import (
	"errors"
	"fmt"
	"io"
	"reflect"
	"runtime"
	"strconv"
	"sync"
	"sync/atomic"
	"time"

	"github.com/cloudwego/eino/schema"

	"verif/harness/lib"
)

type tErr struct{ code uint64 }

func (e *tErr) Error() string { return fmt.Sprintf("terr%d", e.code) }

// ------------------------------------------------------------------ chunk types
//
// The model's values are numbers; the implementation is generic in its chunk type. A case names
// the chunk type its streams are instantiated with (Case.Ty) and the harness translates item-wise
// (codec): 0 is the zero value of the type (the empty string, the nil pointer, the nil value of
// the interface type), every other number a distinct non-zero value. The model side of the tie
// does not know the type: a behaviour of the library that depends on it is a mismatch.

// box: the struct behind the pointer chunks (and one of the dynamic types of the interface chunks)
type box struct {
	V   uint64
	pad [2]string
}

// chunkI: a defined interface type with a method; its dynamic types are boxV (a defined
// non-pointer type) and *box
type chunkI interface{ C08() uint64 }

type boxV uint64

func (b boxV) C08() uint64 { return uint64(b) }
func (b *box) C08() uint64 { return b.V }

const badChunk = 999997 // a chunk the codec cannot read: never equal to anything that was sent

type codec[T any] struct {
	enc func(uint64) T
	dec func(T) uint64
}

var (
	codecU64 = codec[uint64]{enc: func(v uint64) uint64 { return v }, dec: func(v uint64) uint64 { return v }}
	codecStr = codec[string]{
		enc: func(v uint64) string {
			if v == 0 {
				return ""
			}
			return strconv.FormatUint(v, 10)
		},
		dec: func(s string) uint64 {
			if s == "" {
				return 0
			}
			v, err := strconv.ParseUint(s, 10, 64)
			if err != nil || v == 0 {
				return badChunk
			}
			return v
		},
	}
	codecPtr = codec[*box]{
		enc: func(v uint64) *box {
			if v == 0 {
				return nil
			}
			return &box{V: v}
		},
		dec: func(b *box) uint64 {
			if b == nil {
				return 0
			}
			if b.V == 0 {
				return badChunk
			}
			return b.V
		},
	}
	codecIface = codec[chunkI]{
		enc: func(v uint64) chunkI {
			switch {
			case v == 0:
				return nil
			case v%2 == 1:
				return boxV(v)
			default:
				return &box{V: v}
			}
		},
		dec: func(c chunkI) uint64 {
			switch x := c.(type) {
			case nil:
				return 0
			case boxV:
				if x == 0 {
					return badChunk
				}
				return uint64(x)
			case *box:
				if x == nil || x.V == 0 {
					return badChunk
				}
				return x.V
			}
			return badChunk
		},
	}
)

// chunkTypes: the values of Case.Ty ("" = uint64)
var chunkTypes = []string{"", "str", "ptr", "iface"}

func (x Item) goPair() (uint64, error) {
	if x.Err {
		return 0, &tErr{x.V}
	}
	return x.V, nil
}

// classify a Recv result: item (value or error class) or eof.
func classify(v uint64, err error) O {
	if err == nil {
		return O{K: "recv", R: "item", X: &Item{V: v}}
	}
	if err == io.EOF {
		return O{K: "recv", R: "eof"}
	}
	if errors.Is(err, schema.ErrRecvAfterClosed) {
		return O{K: "recv", R: "item", X: &Item{V: 0, Err: true}}
	}
	var te *tErr
	if errors.As(err, &te) {
		return O{K: "recv", R: "item", X: &Item{V: te.code, Err: true}}
	}
	return O{K: "recv", R: "item", X: &Item{V: 999999, Err: true}}
}

func mkConv[T any](cd codec[T], f CFn) func(T) (T, error) {
	return func(t T) (T, error) {
		var zero T
		switch k, out := f.apply(cd.dec(t)); k {
		case 2:
			if f.Wrap {
				return zero, fmt.Errorf("nothing here: %w", schema.ErrNoValue)
			}
			return zero, schema.ErrNoValue
		case 1:
			return zero, &tErr{out}
		default:
			return cd.enc(out), nil
		}
	}
}

// assertChunk: a.(T), where a nil chunk is the nil value of T if T is an interface type
func assertChunk[T any](a any) (T, bool) {
	v, ok := a.(T)
	if !ok && a == nil {
		if reflect.TypeOf((*T)(nil)).Elem().Kind() == reflect.Interface {
			return v, true
		}
	}
	return v, ok
}

// viaNilAny: item-wise identity through a stream of any in which the zero value of T travels as a
// nil chunk (nil is a valid value of every interface type), and back: schema's
// StreamReaderWithConvert applied to a stream of an interface type that holds nil chunks.
func viaNilAny[T any](cd codec[T], sr *schema.StreamReader[T]) *schema.StreamReader[T] {
	asr := schema.StreamReaderWithConvert(sr, func(v T) (any, error) {
		if cd.dec(v) == 0 {
			return nil, nil
		}
		return v, nil
	})
	return schema.StreamReaderWithConvert(asr, func(a any) (T, error) {
		var zero T
		if a == nil {
			return zero, nil
		}
		v, ok := a.(T)
		if !ok {
			return zero, fmt.Errorf("verif c08: chunk of type %T in the stream of any", a)
		}
		return v, nil
	})
}

// iworld: the implementation objects of one case, behind the chunk type they are instantiated with.
type iworld interface {
	construct(o Op) O
	send(hp int, x Item) O
	closeSend(hp int) O
	recv(h int) O
	close(h int) O
	// the same calls without a recover (goroutines of the concurrent cases have their own)
	rawRecv(h int) O
	rawClose(h int)
	rawSend(hp int, x Item) bool
	rawCloseSend(hp int)
	forwarders() int
	// concurrent cases with constructor calls made while the ends are driven (Case.Lazy): a goroutine
	// takes hold of its reader once (handle) and the world is not looked at again from that goroutine,
	// so that the harness adds no synchronisation of its own between the goroutines of a case;
	// setQuiet: constructor calls no longer count the goroutines they start (meaningless while
	// other goroutines come and go)
	handle(h int) ihandle
	count() int
	setQuiet()
}

// ihandle: one reader, as the goroutine driving it holds it
type ihandle interface {
	rawRecv() O
	rawClose()
}

type handle[T any] struct {
	cd codec[T]
	sr *schema.StreamReader[T]
}

func (h handle[T]) rawRecv() O {
	v, err := h.sr.Recv()
	if err != nil {
		return classify(0, err)
	}
	return classify(h.cd.dec(v), nil)
}

func (h handle[T]) rawClose() { h.sr.Close() }

func newWorld(ty string) iworld {
	switch ty {
	case "str":
		return &world[string]{cd: codecStr, writers: map[int]*schema.StreamWriter[string]{}}
	case "ptr":
		return &world[*box]{cd: codecPtr, writers: map[int]*schema.StreamWriter[*box]{}}
	case "iface":
		return &world[chunkI]{cd: codecIface, writers: map[int]*schema.StreamWriter[chunkI]{}}
	}
	return &world[uint64]{cd: codecU64, writers: map[int]*schema.StreamWriter[uint64]{}}
}

type world[T any] struct {
	cd      codec[T]
	hs      []*schema.StreamReader[T]
	writers map[int]*schema.StreamWriter[T]
	nfwd    int
	quiet   bool
	arena   []T // backing array shared by the array sources with Spare == 1
}

func (w *world[T]) forwarders() int      { return w.nfwd }
func (w *world[T]) count() int           { return len(w.hs) }
func (w *world[T]) setQuiet()            { w.quiet = true }
func (w *world[T]) handle(h int) ihandle { return handle[T]{cd: w.cd, sr: w.hs[h]} }

func (w *world[T]) idsOf(rets []*schema.StreamReader[T]) []int {
	ids := []int{}
	for _, r := range rets {
		if r == nil {
			continue
		}
		found := -1
		for i, h := range w.hs {
			if h == r {
				found = i
				break
			}
		}
		if found < 0 {
			found = len(w.hs)
			w.hs = append(w.hs, r)
		}
		ids = append(ids, found)
	}
	return ids
}

// construct performs one constructor call; goroutines it starts are counted.
func (w *world[T]) construct(o Op) O {
	before := 0
	if !w.quiet {
		before = runtime.NumGoroutine()
	}
	var rets []*schema.StreamReader[T]
	switch o.K {
	case "pipe":
		sr, sw := schema.Pipe[T](o.Cap)
		w.writers[len(w.hs)] = sw
		rets = []*schema.StreamReader[T]{sr}
	case "array":
		var xs []T
		if o.Spare == 1 {
			// a window of the case's arena: legal use of the API (the caller slices one buffer into
			// consecutive pieces and hands each to StreamReaderFromArray); the library must not
			// write through the spare capacity of a piece into the next ones
			if w.arena == nil {
				w.arena = make([]T, 0, 512)
			}
			start := len(w.arena)
			for _, v := range o.Xs {
				w.arena = append(w.arena, w.cd.enc(v))
			}
			xs = w.arena[start:len(w.arena)]
		} else {
			xs = make([]T, len(o.Xs))
			for i, v := range o.Xs {
				xs[i] = w.cd.enc(v)
			}
		}
		rets = []*schema.StreamReader[T]{schema.StreamReaderFromArray(xs)}
	case "copy":
		if o.Via == "compose" {
			rets = composeCopy(w.hs[o.H], o.N)
		} else {
			rets = w.hs[o.H].Copy(o.N)
		}
	case "conv":
		switch o.Via {
		case "any": // (F is the identity: three nested conversions of the library = one identity conversion of the model)
			rets = []*schema.StreamReader[T]{composeViaAny(w.hs[o.H])}
		case "key":
			rets = []*schema.StreamReader[T]{composeViaKey(w.hs[o.H])}
		case "nil":
			rets = []*schema.StreamReader[T]{viaNilAny(w.cd, w.hs[o.H])}
		default:
			rets = []*schema.StreamReader[T]{schema.StreamReaderWithConvert(w.hs[o.H], mkConv(w.cd, *o.F))}
		}
	case "merge":
		srs := make([]*schema.StreamReader[T], len(o.Hs))
		for i, h := range o.Hs {
			srs[i] = w.hs[h]
		}
		if o.Via == "compose" && len(srs) > 0 {
			rets = []*schema.StreamReader[T]{composeMerge(srs)}
		} else {
			rets = []*schema.StreamReader[T]{schema.MergeStreamReaders(srs)}
		}
	}
	if !w.quiet {
		if d := runtime.NumGoroutine() - before; d > 0 {
			w.nfwd += d
		}
	}
	return O{K: "new", Hs: w.idsOf(rets)}
}

func (w *world[T]) rawSend(hp int, x Item) bool {
	v, e := x.goPair()
	return w.writers[hp].Send(w.cd.enc(v), e)
}

func (w *world[T]) rawCloseSend(hp int) { w.writers[hp].Close() }

func (w *world[T]) rawRecv(h int) O { return w.handle(h).rawRecv() }

func (w *world[T]) rawClose(h int) { w.handle(h).rawClose() }

func (w *world[T]) send(hp int, x Item) (o O) {
	var closed bool
	if p := lib.Recover(func() { closed = w.rawSend(hp, x) }); p != nil {
		return O{K: "send", R: "panic"}
	}
	if closed {
		return O{K: "send", R: "closed"}
	}
	return O{K: "send", R: "ok"}
}

func (w *world[T]) closeSend(hp int) O {
	if p := lib.Recover(func() { w.rawCloseSend(hp) }); p != nil {
		return O{K: "send", R: "panic"}
	}
	return O{K: "send", R: "ok"}
}

func (w *world[T]) recv(h int) (o O) {
	if p := lib.Recover(func() { o = w.rawRecv(h) }); p != nil {
		return O{K: "recv", R: "panic"}
	}
	return o
}

func (w *world[T]) close(h int) O {
	if p := lib.Recover(func() { w.rawClose(h) }); p != nil {
		return O{K: "close", R: "panic"}
	}
	return O{K: "close", R: "ok"}
}

const watchdog = 4 * time.Second

// closeWaitFailures: cases of this process in which a base stream was still not receive-closed
// after the grace period; after a few of them the grace period is no longer paid.
var closeWaitFailures atomic.Int32

// closeRecvCounts: from the accounting log of package schema (hook schema/verif_c19_on.go,
// build tag verif): for every base stream in creation order, how often its receive side was
// closed (close(closed)).
func closeRecvCounts(ev []schema.VerifC19Event) []int {
	idx := map[int]int{}
	var counts []int
	for _, e := range ev {
		switch e.Kind {
		case "stream_new":
			idx[e.ID] = len(counts)
			counts = append(counts, 0)
		case "stream_close_recv":
			if k, ok := idx[e.ID]; ok {
				counts[k]++
			}
		}
	}
	if counts == nil {
		counts = []int{}
	}
	return counts
}

// opTags: distribution classes of the construction ops of a case
func opTags(ops []Op, add func(string)) {
	arrOnly := true
	for _, o := range ops {
		switch o.K {
		case "copy", "merge", "conv":
			if o.Via != "" {
				add("via:" + o.Via)
				if !whiteboxAvailable {
					add("whitebox:unavailable") // built without the group verif_c08wb: compose's wrappers are not reached
				}
			}
		case "array":
			if o.Spare == 1 {
				add("array:arena-window")
			}
			for _, v := range o.Xs {
				if v == 0 {
					add("zero-chunk")
				}
			}
		case "send":
			if o.X != nil && !o.X.Err && o.X.V == 0 {
				add("zero-chunk")
			}
		}
		if o.K == "pipe" || o.K == "conv" {
			arrOnly = false
		}
	}
	if arrOnly {
		add("arrays-only")
	}
}

// ------------------------------------------------------------------ seq

type seqObs struct {
	Obs  []O    `json:"obs"`
	NFwd int    `json:"nfwd"`
	RCl  []int  `json:"rclosed"` // per base stream in creation order: number of closeRecv calls
	Hang bool   `json:"hang,omitempty"`
	Msg  string `json:"msg,omitempty"`
}

func runSeq(c *Case) lib.Result {
	res := lib.Result{}
	var out seqObs
	var oracle, sig string
	fail := func(s, msg string) {
		if oracle == "" {
			oracle, sig = msg, s
		}
	}
	done := make(chan struct{})
	tags := map[string]bool{"mode:seq": true}
	go func() {
		defer close(done)
		defer func() {
			if p := recover(); p != nil {
				out.Msg = fmt.Sprint("escaped panic: ", p)
				fail("panic", out.Msg)
			}
		}()
		w := newWorld(c.Ty)
		sh := newShadow()
		schema.VerifC19Start()
		type hist struct {
			got    []Item
			eof    bool
			closed bool
		}
		hists := map[int]*hist{}
		H := func(h int) *hist {
			if hists[h] == nil {
				hists[h] = &hist{}
			}
			return hists[h]
		}
		accepted := map[int][]Item{}
		for i, o := range c.Ops {
			tags["op:"+o.K] = true
			switch o.K {
			case "pipe", "array", "copy", "conv", "merge":
				want, legal := sh.apply(o)
				if !legal {
					out.Obs = append(out.Obs, O{K: "illegal"})
					continue
				}
				var ob O
				if p := lib.Recover(func() { ob = w.construct(o) }); p != nil {
					fail("panic", fmt.Sprintf("op %d (%s) panicked: %v", i, o.K, p))
					ob = O{K: "illegal"}
				} else if fmt.Sprint(ob.Hs) != fmt.Sprint(want) {
					fail("handles", fmt.Sprintf("op %d (%s) returned readers %v, expected %v", i, o.K, ob.Hs, want))
				}
				out.Obs = append(out.Obs, ob)
			case "send":
				p := sh.pipes[o.H]
				p.attempts++
				fed := sh.fed(o.H)
				allClosed := len(fed) > 0
				for _, h := range fed {
					if !sh.hs[h].closed {
						allClosed = false
					}
				}
				ob := w.send(o.H, *o.X)
				out.Obs = append(out.Obs, ob)
				switch {
				case ob.R == "panic":
					fail("panic", fmt.Sprintf("op %d: Send panicked", i))
				case ob.R == "ok":
					accepted[o.H] = append(accepted[o.H], *o.X)
					if allClosed {
						fail("send-not-told", fmt.Sprintf("op %d: every reader derived from pipe %d is closed but Send returned closed=false", i, o.H))
					}
				case ob.R == "closed" && !allClosed:
					fail("send-told-early", fmt.Sprintf("op %d: Send on pipe %d returned closed although a derived reader is still open", i, o.H))
				}
			case "closesend":
				sh.pipes[o.H].sclosed = true
				ob := w.closeSend(o.H)
				out.Obs = append(out.Obs, ob)
				if ob.R == "panic" {
					fail("panic", fmt.Sprintf("op %d: writer Close panicked", i))
				}
			case "recv":
				ob := w.recv(o.H)
				out.Obs = append(out.Obs, ob)
				h := H(o.H)
				s := sh.hs[o.H]
				switch {
				case ob.R == "panic":
					fail("panic", fmt.Sprintf("op %d: Recv panicked", i))
				case s.closed && s.kind == "child":
					if !(ob.R == "item" && ob.X.Err && ob.X.V == 0) {
						fail("recv-after-close", fmt.Sprintf("op %d: Recv on a closed copy returned %+v", i, ob))
					}
				case s.closed:
					// unspecified by the property; the model still has to agree
				case ob.R == "eof":
					h.eof = true
				default:
					if h.eof {
						fail("item-after-eof", fmt.Sprintf("op %d: reader %d delivered an item after EOF", i, o.H))
					}
					h.got = append(h.got, *ob.X)
					s.delivered++
				}
			case "close":
				ob := w.close(o.H)
				out.Obs = append(out.Obs, ob)
				sh.hs[o.H].closed = true
				if ob.R == "panic" {
					fail("panic", fmt.Sprintf("op %d: Close panicked", i))
				}
			}
		}
		out.NFwd = w.forwarders()
		if out.NFwd != 0 {
			fail("goroutine", fmt.Sprintf("array/copy/convert operations started %d goroutine(s)", out.NFwd))
		}
		// the underlying source is closed exactly once, and only when every reader derived from
		// it has been closed (the base streams of a script are its pipes, in creation order)
		out.RCl = closeRecvCounts(schema.VerifC19Stop())
		var hps []int
		for hp := range sh.pipes {
			hps = append(hps, hp)
		}
		sortInts(hps)
		if len(out.RCl) != len(hps) {
			fail("streams", fmt.Sprintf("the script created %d base streams, expected its %d pipes", len(out.RCl), len(hps)))
		} else {
			for k, hp := range hps {
				fed := sh.fed(hp)
				want := 1
				for _, h := range fed {
					if !sh.hs[h].closed {
						want = 0
					}
				}
				if len(fed) > 0 && out.RCl[k] != want {
					fail("source-close-count", fmt.Sprintf("the receive side of pipe %d was closed %d time(s), expected %d (readers derived from it: %v)", hp, out.RCl[k], want, fed))
				}
			}
		}
		// per-reader sequence = what its sources hold, in order; all of it at EOF
		for h, hi := range hists {
			strs := sh.hs[h].e.strands(accepted)
			if len(strs) != 1 {
				continue
			}
			if !isPrefix(hi.got, strs[0]) {
				fail("sequence", fmt.Sprintf("reader %d received %v, its source sequence is %v", h, hi.got, strs[0]))
			} else if hi.eof && len(hi.got) != len(strs[0]) {
				fail("lost-items", fmt.Sprintf("reader %d saw EOF after %d of %d items", h, len(hi.got), len(strs[0])))
			}
		}
	}()
	select {
	case <-done:
	case <-time.After(watchdog):
		out.Hang = true
		fail("hang", "a call of the single-goroutine script blocked")
	}
	if out.Hang {
		// the goroutine is still writing to out: report nothing from it
		schema.VerifC19Stop()
		res.Obs = seqObs{Hang: true}
		res.Oracle, res.Sig = oracle, sig
		res.Tags = []string{"mode:seq", "class:hang"}
		res.CoqTerm = lib.CoqApp("CaseSeq", coqOps(c.Ops), "[BIllegal]", "0%nat", "[]")
		return res
	}
	res.Obs = out
	res.Oracle, res.Sig = oracle, sig
	nrecv := 0
	for _, o := range c.Ops {
		if o.K == "recv" {
			nrecv++
		}
	}
	res.Nontrivial = tags["op:copy"] || tags["op:merge"] || tags["op:conv"] || (tags["op:pipe"] && nrecv > 0)
	for t := range tags {
		res.Tags = append(res.Tags, t)
	}
	opTags(c.Ops, func(t string) {
		if !tags[t] {
			tags[t] = true
			res.Tags = append(res.Tags, t)
		}
	})
	res.Tags = append(res.Tags, fmt.Sprintf("seqops:%d", (len(c.Ops)/5)*5))
	res.CoqTerm = lib.CoqApp("CaseSeq", coqOps(c.Ops), coqObs(out.Obs), lib.CoqNat(out.NFwd), natList(out.RCl))
	return res
}

// ------------------------------------------------------------------ conc

type wHist struct {
	HP      int    `json:"hp"`
	Results []bool `json:"results"`
	LateAcc int    `json:"late_acc"`
}
type lHist struct {
	H   int    `json:"h"`
	Got []Item `json:"got"`
	EOF bool   `json:"eof"`
}
type concObs struct {
	Build   []O     `json:"build"`
	RCl     []int   `json:"rclosed,omitempty"` // per base stream in creation order: number of closeRecv calls
	Writers []wHist `json:"writers"`
	Leaves  []lHist `json:"leaves"`
	Hang    bool    `json:"hang,omitempty"`
	Leak    int     `json:"leak,omitempty"`
	Msg     string  `json:"msg,omitempty"`
}

func yield(r *lib.Rng) {
	switch r.Intn(6) {
	case 0, 1:
	case 2, 3:
		runtime.Gosched()
	case 4:
		for i := 0; i < 3; i++ {
			runtime.Gosched()
		}
	default:
		time.Sleep(time.Duration(r.Intn(60)) * time.Microsecond)
	}
}

// runConc: a storm case (Reps > 1) is the same small tree driven Reps times with different
// yield seeds; the first repetition whose direct oracle fails is the result, else the last one.
func runConc(c *Case) lib.Result {
	if c.Reps <= 1 {
		return runConcOnce(c, c.Seed)
	}
	var res lib.Result
	for k := 0; k < c.Reps; k++ {
		res = runConcOnce(c, c.Seed+uint64(k)*7919)
		if res.Oracle != "" {
			res.Tags = append(res.Tags, "storm")
			return res
		}
	}
	res.Tags = append(res.Tags, "storm", fmt.Sprintf("storm-reps:%d", c.Reps))
	return res
}

func runConcOnce(c *Case, seed uint64) lib.Result {
	res := lib.Result{}
	var out concObs
	var oracle, sig string
	fail := func(s, msg string) {
		if oracle == "" {
			oracle, sig = msg, s
		}
	}
	base := runtime.NumGoroutine()
	w := newWorld(c.Ty)
	sh := newShadow()
	schema.VerifC19Start()
	buildOK := true
	built := make(chan struct{})
	// Case.Lazy: the last Lazy constructor calls are made by a goroutine of their own while the
	// writers and the readers that exist already are at work (a Copy / Convert / Merge racing with the
	// sends into the pipe behind it and with the reads and closes of sibling copies); the readers
	// they return are driven from the moment they exist. The tree, and with it what every reader
	// must deliver, is the same as if everything had been built first.
	type lazyOp struct {
		i    int
		o    Op
		want []int
	}
	var lazy []lazyOp
	nEager := len(c.Ops) - c.Lazy
	go func() { // a constructor that never returns (Merge fills a stream) is a hang, not a stuck harness
		defer close(built)
		for i, o := range c.Ops {
			want, legal := sh.apply(o)
			if !legal {
				out.Build = append(out.Build, O{K: "illegal"})
				continue
			}
			if i >= nEager && o.K != "pipe" {
				lazy = append(lazy, lazyOp{i, o, want})
				out.Build = append(out.Build, O{K: "new", Hs: want}) // (replaced by what the call returned)
				continue
			}
			var ob O
			if p := lib.Recover(func() { ob = w.construct(o) }); p != nil {
				fail("panic", fmt.Sprintf("op %d (%s) panicked: %v", i, o.K, p))
				ob = O{K: "illegal"}
				buildOK = false
			} else if fmt.Sprint(ob.Hs) != fmt.Sprint(want) {
				fail("handles", fmt.Sprintf("op %d (%s) returned readers %v, expected %v", i, o.K, ob.Hs, want))
				buildOK = false
			}
			out.Build = append(out.Build, ob)
		}
	}()
	select {
	case <-built:
	case <-time.After(watchdog):
		// the goroutine still owns out / sh / w: report nothing from them
		schema.VerifC19Stop()
		res.Obs = concObs{Hang: true, Msg: "a constructor call did not return"}
		res.Oracle, res.Sig = "a Copy / Merge / Convert call is still blocked after the watchdog period", "hang"
		res.Tags = []string{"mode:conc", "class:hang"}
		res.CoqTerm = lib.CoqApp("CaseConc", coqOps(c.Ops), "[BIllegal]", "[]", "[]", "true", "0%nat")
		return res
	}
	if w.forwarders() > sh.nfwd {
		// (a forwarder over an exhausted source may already be gone when it is counted)
		fail("goroutine", fmt.Sprintf("construction started %d goroutines, expected at most %d forwarders", w.forwarders(), sh.nfwd))
	}
	tags := []string{"mode:conc", fmt.Sprintf("fwd:%d", sh.nfwd), fmt.Sprintf("leaves:%d", len(c.Leaves)), fmt.Sprintf("pipes:%d", len(c.Writers))}
	if !buildOK {
		schema.VerifC19Stop()
		res.Obs, res.Oracle, res.Sig, res.Tags = out, oracle, sig, tags
		return res
	}

	leafDone := make([]chan struct{}, len(c.Leaves))
	leafIdx := map[int]int{}
	for i, l := range c.Leaves {
		leafDone[i] = make(chan struct{})
		leafIdx[l.H] = i
	}
	lh := make([]lHist, len(c.Leaves))
	wh := make([]wHist, len(c.Writers))
	var panics atomic.Int32
	var wg sync.WaitGroup
	root := lib.NewRng(seed)
	// every leaf goroutine holds its reader itself; a reader made by a lazy constructor call is handed
	// over (ready) when it exists
	hd := make([]ihandle, len(c.Leaves))
	ready := make([]chan struct{}, len(c.Leaves))
	for i, l := range c.Leaves {
		if l.H < w.count() {
			hd[i] = w.handle(l.H)
		} else {
			ready[i] = make(chan struct{})
		}
	}
	lazyObs := make([]O, len(lazy))
	var lazyBad atomic.Int32
	if len(lazy) > 0 {
		w.setQuiet()
		wg.Add(1)
		r := root.Fork(3000)
		go func() {
			defer wg.Done()
			handed := make([]bool, len(c.Leaves))
			defer func() {
				if p := recover(); p != nil {
					panics.Add(1)
				}
				for i := range ready { // a leaf whose reader never came into being gives up
					if ready[i] != nil && !handed[i] {
						close(ready[i])
					}
				}
			}()
			for k, lz := range lazy {
				for j, n := 0, 1+r.Intn(4); j < n; j++ {
					yield(r)
				}
				ob := w.construct(lz.o)
				lazyObs[k] = ob
				if fmt.Sprint(ob.Hs) != fmt.Sprint(lz.want) {
					lazyBad.Add(1)
					continue
				}
				for i, l := range c.Leaves {
					if ready[i] == nil || handed[i] {
						continue
					}
					for _, h := range lz.want {
						if h == l.H {
							hd[i] = w.handle(l.H)
							handed[i] = true
							close(ready[i])
						}
					}
				}
			}
		}()
	}
	// barrier (storm cases): every leaf waits, for a bounded time, until all leaves are about to
	// call Close, so that the closes of the copies of one stream hit the shared parent at the
	// same instant; never blocks for good (a leaf that cannot arrive is not waited for)
	var arrived, started atomic.Int32
	spinUntilAll := func(cnt *atomic.Int32) {
		if !c.Barrier {
			return
		}
		cnt.Add(1)
		t0 := time.Now()
		for int(cnt.Load()) < len(c.Leaves) && time.Since(t0) < 400*time.Microsecond {
		}
	}
	atBarrier := func() { spinUntilAll(&arrived) }
	// no reader can ever receive more items than the sources it is derived from hold, counted
	// along its derivation (a merge of the children of one copy receives the source's items
	// once per merged child): a reader that goes beyond its own bound is cut off and reported
	wlen := map[int]int{}
	for _, wr := range c.Writers {
		wlen[wr.HP] = len(wr.Items)
	}
	limits := make([]int, len(c.Leaves))
	limit := 0
	for i, l := range c.Leaves {
		limits[i] = 64 + sh.cur(l.H).bound(wlen)
		if limits[i] > limit {
			limit = limits[i]
		}
	}
	var runaway, afterEOF atomic.Int32
	// logical clock: a writer takes a stamp before it calls Close, a reader after Recv returned
	// io.EOF; a reader stamp below the stamp of a writer it derives from means the stream ended
	// before that source had ended (independent of scheduling and machine load)
	var clock atomic.Int64
	eofAt := make([]int64, len(c.Leaves))
	closeAt := make([]int64, len(c.Writers))
	for i, l := range c.Leaves {
		wg.Add(1)
		r := root.Fork(uint64(1000 + i))
		go func(i int, l Leaf) {
			defer wg.Done()
			defer close(leafDone[i])
			defer func() {
				if p := recover(); p != nil {
					panics.Add(1)
				}
			}()
			h := &lh[i]
			h.H = l.H
			h.Got = []Item{}
			if ready[i] != nil {
				<-ready[i]
			}
			rd := hd[i]
			if rd == nil {
				return // (the constructor call that was to return this reader failed: reported below)
			}
			spinUntilAll(&started) // storm cases: the first Recv of every copy at the same instant
			for l.Max < 0 || len(h.Got) < l.Max {
				yield(r)
				o := rd.rawRecv()
				if o.R == "eof" {
					eofAt[i] = clock.Add(1)
					h.EOF = true
					// end-of-stream is final: a further Recv on the same reader (a second call on an
					// ended object; it cannot block, whatever the reader is made of) says io.EOF again
					for k, n := 0, []int{0, 0, 1, 2}[r.Intn(4)]; k < n; k++ {
						if o2 := rd.rawRecv(); o2.R != "eof" {
							afterEOF.Add(1)
						}
					}
					break
				}
				h.Got = append(h.Got, *o.X)
				if len(h.Got) > limits[i] {
					runaway.Add(1)
					break
				}
			}
			if c.Barrier {
				atBarrier()
			} else {
				yield(r)
			}
			rd.rawClose()
		}(i, l)
	}
	for i, wr := range c.Writers {
		wg.Add(1)
		r := root.Fork(uint64(2000 + i))
		var fed []chan struct{}
		for _, h := range sh.fed(wr.HP) {
			if li, ok := leafIdx[h]; ok {
				fed = append(fed, leafDone[li])
			}
		}
		go func(i int, wr Writer) {
			defer wg.Done()
			defer func() {
				if p := recover(); p != nil {
					panics.Add(1)
				}
			}()
			h := &wh[i]
			h.HP = wr.HP
			h.Results = []bool{}
			allFedDone := func() bool {
				for _, d := range fed {
					select {
					case <-d:
					default:
						return false
					}
				}
				return true
			}
			if wr.Late {
				for _, d := range fed {
					<-d
				}
			}
			for _, x := range wr.Items {
				yield(r)
				late := allFedDone()
				closed := w.rawSend(wr.HP, x)
				h.Results = append(h.Results, closed)
				if closed {
					break
				}
				if late {
					h.LateAcc++
				}
			}
			yield(r)
			closeAt[i] = clock.Add(1)
			w.rawCloseSend(wr.HP)
		}(i, wr)
	}
	fin := make(chan struct{})
	go func() { wg.Wait(); close(fin) }()
	select {
	case <-fin:
	case <-time.After(watchdog):
		out.Hang = true
	}
	if out.Hang {
		schema.VerifC19Stop()
		fail("hang", "a reader or writer goroutine is still blocked after the watchdog period")
		res.Obs, res.Oracle, res.Sig = concObs{Build: out.Build, Hang: true}, oracle, sig
		res.Tags = append(tags, "class:hang")
		res.CoqTerm = lib.CoqApp("CaseConc", coqOps(c.Ops), coqObs(out.Build), "[]", "[]", "true", "0%nat")
		return res
	}
	out.Writers, out.Leaves = wh, lh
	for k, lz := range lazy {
		out.Build[lz.i] = lazyObs[k]
	}
	if lazyBad.Load() > 0 {
		for k, lz := range lazy {
			if fmt.Sprint(lazyObs[k].Hs) != fmt.Sprint(lz.want) {
				fail("handles", fmt.Sprintf("op %d (%s, called while the ends were driven) returned readers %v, expected %v", lz.i, lz.o.K, lazyObs[k].Hs, lz.want))
				break
			}
		}
	}
	if n := panics.Load(); n > 0 {
		fail("panic", fmt.Sprintf("%d goroutine(s) panicked inside a stream call", n))
	}
	if n := afterEOF.Load(); n > 0 {
		fail("item-after-eof", fmt.Sprintf("%d Recv call(s) on a reader that had already returned io.EOF did not return io.EOF", n))
	}
	if n := runaway.Load(); n > 0 {
		fail("runaway", fmt.Sprintf("%d reader(s) received more items than the sources it is derived from hold (largest bound %d)", n, limit))
	}
	// goroutines started by the implementation must be gone once every end is closed
	deadline := time.Now().Add(500 * time.Millisecond)
	for runtime.NumGoroutine() > base && time.Now().Before(deadline) {
		time.Sleep(200 * time.Microsecond)
	}
	if d := runtime.NumGoroutine() - base; d > 0 {
		out.Leak = d
		fail("leak", fmt.Sprintf("%d goroutine(s) still alive after every writer and reader was closed", d))
	}
	// every reader has been closed and every forwarder goroutine is gone: the receive side of
	// every base stream (pipes, the streams of the forwarders, the stream a merge builds from
	// its array arguments) has been closed exactly once
	// (the forwarder goroutines close their sources on their way out: the goroutine count above
	// is only a hint — a helper goroutine of the previous case may still have been counted in
	// base — so the log itself is awaited, generously, before a missing close is reported)
	allOnce := func(cs []int) bool {
		for _, n := range cs {
			if n != 1 {
				return false
			}
		}
		return true
	}
	if out.Leak == 0 && panics.Load() == 0 && closeWaitFailures.Load() < 5 {
		deadline := time.Now().Add(2 * time.Second)
		for !allOnce(closeRecvCounts(schema.VerifC19Snapshot())) && time.Now().Before(deadline) {
			time.Sleep(200 * time.Microsecond)
		}
	}
	out.RCl = closeRecvCounts(schema.VerifC19Stop())
	if out.Leak == 0 && panics.Load() == 0 {
		for k, n := range out.RCl {
			if n != 1 {
				closeWaitFailures.Add(1)
				fail("source-close-count", fmt.Sprintf("every reader is closed, but the receive side of base stream %d (in creation order) was closed %d time(s)", k, n))
				break
			}
		}
	}

	// direct oracle on the histories
	accepted := map[int][]Item{}
	told := map[int]bool{}
	for i, wr := range c.Writers {
		n := 0
		for _, closed := range wh[i].Results {
			if closed {
				told[wr.HP] = true
			} else {
				n++
			}
		}
		accepted[wr.HP] = wr.Items[:n]
	}
	anyEarly, anyErr := false, false
	for i, l := range c.Leaves {
		strs := sh.hs[l.H].e.strands(accepted)
		if !interleaves(lh[i].EOF, lh[i].Got, strs) {
			what := "an interleaving of prefixes of"
			if lh[i].EOF {
				what = "a complete interleaving of"
			}
			fail("sequence", fmt.Sprintf("reader %d received %v which is not %s %v", l.H, lh[i].Got, what, strs))
		}
		if !lh[i].EOF {
			anyEarly = true
		}
		for _, x := range lh[i].Got {
			if x.Err {
				anyErr = true
			}
		}
		for hp := range sh.hs[l.H].srcs {
			if told[hp] && lh[i].EOF {
				fail("told-but-eof", fmt.Sprintf("writer %d was told closed although reader %d read up to EOF", hp, l.H))
			}
		}
		if lh[i].EOF {
			for j, wr := range c.Writers {
				if _, fed := sh.hs[l.H].srcs[wr.HP]; fed && eofAt[i] < closeAt[j] {
					fail("eof-before-close", fmt.Sprintf("reader %d was handed io.EOF before the writer of pipe %d, which it derives from, had called Close", l.H, wr.HP))
				}
			}
		}
		for j, l2 := range c.Leaves {
			if j > i && sh.hs[l.H].parent >= 0 && sh.hs[l.H].parent == sh.hs[l2.H].parent {
				if !isPrefix(lh[i].Got, lh[j].Got) && !isPrefix(lh[j].Got, lh[i].Got) {
					fail("siblings", fmt.Sprintf("copies %d and %d of one stream disagree: %v vs %v", l.H, l2.H, lh[i].Got, lh[j].Got))
				}
			}
		}
	}
	async := false
	for i, wr := range c.Writers {
		depth := 0
		for _, h := range sh.fed(wr.HP) {
			if d := sh.hs[h].srcs[wr.HP]; d > depth {
				depth = d
			}
		}
		if wh[i].LateAcc > 0 {
			cp := sh.pipes[wr.HP].cap
			if cp < 1 {
				cp = 1
			}
			switch {
			case depth == 0:
				fail("send-not-told", fmt.Sprintf("writer %d: %d send(s) that started after every derived reader had been closed returned closed=false", wr.HP, wh[i].LateAcc))
			case wh[i].LateAcc > cp+6*depth:
				fail("send-not-told-unbounded", fmt.Sprintf("writer %d: %d sends accepted after every derived reader had been closed", wr.HP, wh[i].LateAcc))
			default:
				async = true
			}
		}
	}
	if async {
		// Not a violation: a forwarder goroutine (toStream) owns the converted / copied reader
		// it was started for and closes it when its own next send is refused, so that reader
		// "has been closed" only then; until then the pipe's writer can still be accepted, at
		// most cap + 6 per forwarder level (buffer of 5 + the item in hand) times.
		tags = append(tags, "async-close-through-forwarder")
	}
	res.Obs, res.Oracle, res.Sig = out, oracle, sig
	res.Nontrivial = len(c.Ops) > len(c.Writers) && len(c.Leaves) > 0
	if anyEarly {
		tags = append(tags, "early-close")
	}
	if anyErr {
		tags = append(tags, "error-items")
	}
	for _, o := range c.Ops {
		if o.K == "merge" && len(o.Hs) > 5 {
			tags = append(tags, "merge:reflect-select")
		}
	}
	// number of base streams a merged reader selects on (receiveN has one select statement per arity
	// up to maxSelectNum; nested merges are flattened)
	seenAr := map[int]bool{}
	for _, h := range sh.hs {
		if h.kind == "mul" && !seenAr[h.nstreams] {
			seenAr[h.nstreams] = true
			tags = append(tags, fmt.Sprintf("merge-arity:%d", h.nstreams))
		}
	}
	for _, wr := range c.Writers {
		if wr.Late {
			tags = append(tags, "late-writer")
			break
		}
	}
	if len(lazy) > 0 {
		tags = append(tags, fmt.Sprintf("lazy-build:%d", len(lazy)))
	}
	seenTag := map[string]bool{}
	opTags(c.Ops, func(t string) {
		if !seenTag[t] && t != "arrays-only" {
			seenTag[t] = true
			tags = append(tags, t)
		}
	})
	for _, wr := range c.Writers {
		for _, x := range wr.Items {
			if !x.Err && x.V == 0 && !seenTag["zero-chunk"] {
				seenTag["zero-chunk"] = true
				tags = append(tags, "zero-chunk")
			}
		}
	}
	res.Tags = tags

	ws := make([]string, len(c.Writers))
	for i, wr := range c.Writers {
		rs := make([]string, len(wh[i].Results))
		for j, b := range wh[i].Results {
			rs[j] = lib.CoqBool(b)
		}
		ws[i] = lib.CoqApp("W", lib.CoqNat(wr.HP), coqItems(wr.Items), lib.CoqList(rs), lib.CoqNat(wh[i].LateAcc))
	}
	ls := make([]string, len(c.Leaves))
	for i, l := range c.Leaves {
		ls[i] = lib.CoqApp("L", lib.CoqNat(l.H), coqItems(lh[i].Got), lib.CoqBool(lh[i].EOF))
	}
	res.CoqTerm = lib.CoqApp("CaseConc", coqOps(c.Ops), coqObs(out.Build), lib.CoqList(ws), lib.CoqList(ls), "false", lib.CoqNat(len(out.RCl)))
	return res
}
