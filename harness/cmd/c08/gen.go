package main

import "verif/harness/lib"

// genConvOp: a conversion with a random function, or (1 in 6) the item-wise identity through
// compose's wrappers (Via "any": toAnyStreamReader + the interface path of unpackStreamReader;
// "key": withKey and back) or through a stream of any with nil chunks ("nil")
func genConvOp(r *lib.Rng, h int) Op {
	if r.Chance(1, 6) {
		v := []string{"any", "key", "nil"}[r.Intn(3)]
		return Op{K: "conv", H: h, F: &CFn{}, Via: v}
	}
	return Op{K: "conv", H: h, F: genCFn(r)}
}

func genCFn(r *lib.Rng) *CFn {
	f := &CFn{Add: uint64(1000 * (1 + r.Intn(5)))}
	if r.Chance(1, 2) {
		f.Skip = uint64(2 + r.Intn(3)) // >= 2: never skips everything
		f.Wrap = r.Chance(1, 3)
	}
	if r.Chance(1, 3) {
		f.Err = uint64(3 + r.Intn(4))
	}
	return f
}

func liveHandles(sh *shadow, pred func(int, *shadowH) bool) []int {
	var out []int
	for i, h := range sh.hs {
		if h.live && (pred == nil || pred(i, h)) {
			out = append(out, i)
		}
	}
	return out
}

func pickN(r *lib.Rng, xs []int, n int) []int {
	p := r.Perm(len(xs))
	out := make([]int, 0, n)
	for _, i := range p[:n] {
		out = append(out, xs[i])
	}
	return out
}

// spare: how the slice behind an array source is allocated (see world.construct): 0 = exactly its
// length, 1 = a window of the case's arena (the items of the array sources created later lie in
// its spare capacity).
func spare(r *lib.Rng) int {
	if r.Chance(1, 2) {
		return 1
	}
	return 0
}

func via(r *lib.Rng) string {
	if r.Chance(1, 4) {
		return "compose"
	}
	return ""
}

// genSeq: a script that a single goroutine can run without ever blocking. Pipes are sent
// to only while attempts < cap; a reader is received from only when every pipe it derives
// from has been send-closed; merges take array-backed readers only (anything else starts
// forwarder goroutines and is covered by genConc).
func genSeq(r *lib.Rng, tier string) *Case {
	if r.Chance(1, 5) {
		return genArr(r, tier)
	}
	c := &Case{Mode: "seq"}
	sh := newShadow()
	maxOps, maxH := 22, 12
	if tier == "thorough" {
		maxOps, maxH = 45, 20
	}
	emit := func(o Op) {
		c.Ops = append(c.Ops, o)
		switch o.K {
		case "pipe", "array", "copy", "conv", "merge":
			sh.apply(o)
		}
	}
	val := uint64(0)
	nextVal := func() uint64 { val++; return val }
	// the zero value is a chunk like any other (1 value in 10)
	zeroOr := func(v uint64, isErr bool) uint64 {
		if !isErr && r.Chance(1, 10) {
			return 0
		}
		return v
	}
	newSource := func() {
		if r.Chance(1, 2) {
			n := r.Intn(6)
			xs := make([]uint64, n)
			for i := range xs {
				xs[i] = zeroOr(nextVal(), false)
			}
			emit(Op{K: "array", Xs: xs, Spare: spare(r)})
			return
		}
		cp := r.Intn(7)
		emit(Op{K: "pipe", Cap: cp})
		hp := len(sh.hs) - 1
		n := r.Intn(cp + 1)
		for i := 0; i < n; i++ {
			x := Item{V: nextVal(), Err: r.Chance(1, 7)}
			x.V = zeroOr(x.V, x.Err)
			emit(Op{K: "send", H: hp, X: &x})
			sh.pipes[hp].attempts++
		}
		if r.Chance(1, 2) {
			emit(Op{K: "closesend", H: hp})
			sh.pipes[hp].sclosed = true
		}
	}
	for i, n := 0, 1+r.Intn(3); i < n; i++ {
		newSource()
	}
	nops := 4 + r.Intn(maxOps)
	for len(c.Ops) < nops {
		live := liveHandles(sh, nil)
		open := liveHandles(sh, func(_ int, h *shadowH) bool { return !h.closed })
		switch k := r.Intn(20); {
		case k < 3 && len(open) > 0 && len(sh.hs) < maxH: // copy
			h := open[r.Intn(len(open))]
			n := []int{0, 1, 2, 2, 2, 3, 3, 4}[r.Intn(8)]
			o := Op{K: "copy", H: h, N: n}
			if n >= 1 {
				o.Via = via(r)
			}
			emit(o)
		case k < 5 && len(open) > 0 && len(sh.hs) < maxH: // convert
			emit(genConvOp(r, open[r.Intn(len(open))]))
		case k < 7: // merge of array-backed readers
			arrs := liveHandles(sh, func(_ int, h *shadowH) bool { return h.kind == "arr" && !h.closed })
			switch {
			case r.Chance(1, 12):
				emit(Op{K: "merge", Hs: []int{}})
			case len(arrs) >= 1 && r.Chance(1, 6):
				emit(Op{K: "merge", Hs: []int{arrs[r.Intn(len(arrs))]}})
			case len(arrs) >= 2:
				n := 2 + r.Intn(len(arrs)-1)
				if n > 4 {
					n = 4
				}
				emit(Op{K: "merge", Hs: pickN(r, arrs, n), Via: via(r)})
			case len(sh.hs) < maxH:
				newSource()
			}
		case k < 15 && len(live) > 0: // recv
			h := live[r.Intn(len(live))]
			if sh.ready(h) {
				emit(Op{K: "recv", H: h})
				sh.recvArr(h)
			}
		case k < 17 && len(live) > 0: // close
			h := live[r.Intn(len(live))]
			if !sh.hs[h].closed || (sh.hs[h].idem && r.Chance(1, 2)) {
				emit(Op{K: "close", H: h})
				sh.hs[h].closed = true
				// probe: is the writer told closed exactly when every derived reader is closed?
				var hps []int
				for hp, p := range sh.pipes {
					if _, fed := sh.hs[h].srcs[hp]; fed && !p.sclosed && p.attempts < p.cap {
						hps = append(hps, hp)
					}
				}
				sortInts(hps)
				for _, hp := range hps {
					if r.Chance(2, 3) {
						x := Item{V: nextVal()}
						emit(Op{K: "send", H: hp, X: &x})
						sh.pipes[hp].attempts++
					}
				}
			}
		case k < 19: // send / closesend on a pipe
			var ps []int
			for hp, p := range sh.pipes {
				if !p.sclosed {
					ps = append(ps, hp)
				}
			}
			if len(ps) == 0 {
				continue
			}
			// map iteration order must not leak into the case
			cand := append([]int{}, ps...)
			sortInts(cand)
			hp := cand[r.Intn(len(cand))]
			p := sh.pipes[hp]
			if p.attempts < p.cap && r.Chance(2, 3) {
				x := Item{V: nextVal(), Err: r.Chance(1, 7)}
				x.V = zeroOr(x.V, x.Err)
				emit(Op{K: "send", H: hp, X: &x})
				p.attempts++
			} else {
				emit(Op{K: "closesend", H: hp})
				p.sclosed = true
			}
		default:
			if len(sh.hs) < maxH && r.Chance(1, 3) {
				newSource()
			}
		}
	}
	// drain phase: close every pipe, then read some readers to the end and close all
	var ps []int
	for hp, p := range sh.pipes {
		if !p.sclosed {
			ps = append(ps, hp)
		}
	}
	sortInts(ps)
	for _, hp := range ps {
		// a last send first: told "closed" iff every derived reader is closed
		if p := sh.pipes[hp]; p.attempts < p.cap && r.Chance(1, 2) {
			x := Item{V: nextVal()}
			emit(Op{K: "send", H: hp, X: &x})
			p.attempts++
		}
		emit(Op{K: "closesend", H: hp})
		sh.pipes[hp].sclosed = true
	}
	for _, h := range liveHandles(sh, nil) {
		if r.Chance(1, 2) {
			for i, n := 0, r.Intn(9); i < n; i++ {
				emit(Op{K: "recv", H: h})
				sh.recvArr(h)
			}
		}
		if !sh.hs[h].closed && r.Chance(3, 4) {
			emit(Op{K: "close", H: h})
			sh.hs[h].closed = true
		}
	}
	return c
}

// genArr: a script over array-backed readers only (what a graph does with the outputs of
// non-streaming nodes): 2-4 array sources, then copies and merges of whatever array-backed readers
// exist (a copy of an array reader and the merge of array readers are array readers again, built
// without goroutines: they share / concatenate the slices behind them), a few early reads and
// closes, and a drain phase that reads every remaining reader to the end.
func genArr(r *lib.Rng, tier string) *Case {
	c := &Case{Mode: "seq"}
	sh := newShadow()
	maxOps, maxH := 9, 14
	if tier == "thorough" {
		maxOps, maxH = 16, 24
	}
	emit := func(o Op) {
		c.Ops = append(c.Ops, o)
		switch o.K {
		case "array", "copy", "merge":
			sh.apply(o)
		}
	}
	val := uint64(0)
	newArr := func() {
		xs := make([]uint64, r.Intn(5))
		for i := range xs {
			val++
			xs[i] = val
			if r.Chance(1, 10) {
				xs[i] = 0 // the zero value is a chunk like any other
			}
		}
		emit(Op{K: "array", Xs: xs, Spare: spare(r)})
	}
	for i, n := 0, 2+r.Intn(3); i < n; i++ {
		newArr()
	}
	for i, n := 0, 3+r.Intn(maxOps); i < n; i++ {
		open := liveHandles(sh, func(_ int, h *shadowH) bool { return !h.closed })
		// (the merge of empty array readers is an empty multi reader, and its copies are children
		// whose merge would start goroutines: like genSeq, merge array-backed readers only)
		arrs := liveHandles(sh, func(_ int, h *shadowH) bool { return h.kind == "arr" && !h.closed })
		switch k := r.Intn(20); {
		case k < 8 && len(arrs) >= 2 && len(sh.hs) < maxH:
			m := 2
			if len(arrs) >= 3 && r.Chance(1, 3) {
				m = 3
			}
			emit(Op{K: "merge", Hs: pickN(r, arrs, m), Via: via(r)})
		case k < 14 && len(open) >= 1 && len(sh.hs) < maxH:
			emit(Op{K: "copy", H: open[r.Intn(len(open))], N: 2 + r.Intn(2), Via: via(r)})
		case k < 16 && len(sh.hs) < maxH:
			newArr()
		case k < 19 && len(open) >= 1:
			h := open[r.Intn(len(open))]
			emit(Op{K: "recv", H: h})
			sh.recvArr(h)
		case len(open) >= 1:
			h := open[r.Intn(len(open))]
			emit(Op{K: "close", H: h})
			sh.hs[h].closed = true
		}
	}
	for _, h := range liveHandles(sh, func(_ int, h *shadowH) bool { return !h.closed }) {
		left := len(sh.hs[h].e.strands(nil)[0]) - sh.hs[h].delivered
		for i := 0; i <= left; i++ { // the items that are left, then EOF
			emit(Op{K: "recv", H: h})
			sh.recvArr(h)
		}
		if r.Chance(3, 4) {
			emit(Op{K: "close", H: h})
			sh.hs[h].closed = true
		}
	}
	return c
}

func sortInts(xs []int) {
	for i := 1; i < len(xs); i++ {
		for j := i; j > 0 && xs[j] < xs[j-1]; j-- {
			xs[j], xs[j-1] = xs[j-1], xs[j]
		}
	}
}

// genConc: a tree over Pipe (and array) sources; every reader that is live at the end is
// a leaf with its own goroutine, every pipe has a writer goroutine.
// genStorm: one pipe, optionally converted, copied 2-6 times (one copy possibly copied again);
// every copy reads 0-2 items and then all of them are closed at the same instant (barrier);
// the whole case is driven Reps times. Exercises the interleavings of the closes (and first
// reads) of the copies of one stream: closedNum, the shared list element, sync.Once.
func genStorm(r *lib.Rng, tier string) *Case {
	c := &Case{Mode: "conc", Seed: r.U64(), Barrier: true, Reps: 100}
	if tier == "thorough" {
		c.Reps = 60 // many more storm cases, fewer repetitions each (time budget of the harness)
	}
	sh := newShadow()
	emit := func(o Op) { c.Ops = append(c.Ops, o); sh.apply(o) }
	emit(Op{K: "pipe", Cap: r.Intn(4)})
	h := 0
	if r.Chance(1, 3) {
		emit(Op{K: "conv", H: h, F: genCFn(r)})
		h = len(sh.hs) - 1
	}
	emit(Op{K: "copy", H: h, N: 2 + r.Intn(5), Via: via(r)})
	if r.Chance(1, 3) {
		live := liveHandles(sh, nil)
		emit(Op{K: "copy", H: live[r.Intn(len(live))], N: 2 + r.Intn(3)})
	}
	for _, l := range liveHandles(sh, nil) {
		c.Leaves = append(c.Leaves, Leaf{H: l, Max: []int{0, 0, 0, 1, 2}[r.Intn(5)]})
	}
	n := r.Intn(4)
	w := Writer{HP: 0, Items: []Item{}}
	for i := 0; i < n; i++ {
		w.Items = append(w.Items, Item{V: uint64(i + 1), Err: r.Chance(1, 8)})
	}
	late := n > 0
	for _, l := range c.Leaves {
		if l.Max != 0 {
			late = false
		}
	}
	w.Late = late && r.Chance(1, 2)
	c.Writers = []Writer{w}
	return c
}

func genConc(r *lib.Rng, tier string) *Case {
	if (tier != "thorough" && r.Chance(1, 6)) || (tier == "thorough" && r.Chance(1, 12)) {
		return genStorm(r, tier)
	}
	c := &Case{Mode: "conc", Seed: r.U64()}
	sh := newShadow()
	maxBuild, maxH := 6, 14
	if tier == "thorough" {
		maxBuild, maxH = 10, 24
	}
	emit := func(o Op) { c.Ops = append(c.Ops, o); sh.apply(o) }
	val := uint64(0)
	np := 1 + r.Intn(3)
	for i := 0; i < np; i++ {
		emit(Op{K: "pipe", Cap: r.Intn(4)})
	}
	for i, n := 0, r.Intn(3); i < n; i++ {
		xs := make([]uint64, r.Intn(5))
		for j := range xs {
			val++
			xs[j] = 500 + val
		}
		emit(Op{K: "array", Xs: xs, Spare: spare(r)})
	}
	// A merged reader delivers an interleaving of the strands of its sources, and the strands multiply
	// along chains copy -> merge -> copy -> merge. Whether a history is an interleaving of given strands
	// is decided by the model with a sweep over sets of position vectors (Model/StreamIlv.v): linear
	// for strands without common values, but exponential in the number of places one value occurs at
	// (25 copies of a strand that holds 501 three times - three copies of one array merged into one
	// stream, merged, copied, merged again ...: more than 15 minutes; 7 copies: 0.2 s). A merge whose
	// result would have more than maxStrands strands, or in whose strands some value would occur more
	// than maxOcc times (copies counted; one stand-in value per pipe), takes fewer readers or is not made.
	const maxStrands, maxOcc = 32, 8
	within := func(hs []int) bool {
		tot := 0
		occ := map[string]int{}
		for _, h := range hs {
			tot += sh.cur(h).occ(occ)
		}
		for _, n := range occ {
			if n > maxOcc {
				return false
			}
		}
		return tot <= maxStrands
	}
	fit := func(hs []int) []int { // the longest prefix of hs (at least 2 readers) within the bounds
		for len(hs) >= 2 && !within(hs) {
			hs = hs[:len(hs)-1]
		}
		if len(hs) < 2 {
			return nil
		}
		return hs
	}
	wide := r.Chance(1, 8) // a merge of more than maxSelectNum streams (reflect.Select path)
	// ... and one of 4-5 streams (the largest select statements of receiveN, next to the threshold)
	mid := !wide && r.Chance(1, 8)
	nb := 1 + r.Intn(maxBuild)
	for i := 0; i < nb && len(sh.hs) < maxH; i++ {
		live := liveHandles(sh, nil)
		switch k := r.Intn(10); {
		case k < 4:
			emit(Op{K: "copy", H: live[r.Intn(len(live))], N: 2 + r.Intn(2), Via: via(r)})
		case k < 7:
			emit(genConvOp(r, live[r.Intn(len(live))]))
		default:
			if len(live) >= 2 {
				n := []int{2, 2, 2, 3, 3, 3, 4, 5}[r.Intn(8)]
				if n > len(live) {
					n = len(live)
				}
				if hs := fit(pickN(r, live, n)); hs != nil {
					emit(Op{K: "merge", Hs: hs, Via: via(r)})
				}
			}
		}
	}
	if wide || mid {
		lo := 6
		if mid {
			lo = 4
		}
		live := liveHandles(sh, nil)
		h := live[r.Intn(len(live))]
		emit(Op{K: "copy", H: h, N: lo + r.Intn(2)})
		live = liveHandles(sh, nil)
		n := lo + r.Intn(2)
		if n > len(live) {
			n = len(live)
		}
		if hs := fit(pickN(r, live, n)); hs != nil {
			emit(Op{K: "merge", Hs: hs})
		}
	}
	// one case in 3: the last 1-3 constructor calls (never a source) are made while the ends are driven
	nsrc := 0
	for nsrc < len(c.Ops) && (c.Ops[nsrc].K == "pipe" || c.Ops[nsrc].K == "array") {
		nsrc++
	}
	if k := len(c.Ops) - nsrc; k > 0 && r.Chance(1, 3) {
		if k > 3 {
			k = 3
		}
		c.Lazy = 1 + r.Intn(k)
	}
	for _, h := range liveHandles(sh, nil) {
		mx := -1
		if r.Chance(1, 2) {
			mx = []int{0, 0, 1, 2, 3, 5}[r.Intn(6)]
		}
		c.Leaves = append(c.Leaves, Leaf{H: h, Max: mx})
	}
	// pipeOcc: the largest number of strands of one leaf that derive from pipe hp
	pipeOcc := func(hp int) int {
		m := 0
		for _, l := range c.Leaves {
			occ := map[string]int{}
			sh.cur(l.H).occ(occ)
			if n := occ["p"+itoa(hp)]; n > m {
				m = n
			}
		}
		return m
	}
	var hps []int
	for hp := range sh.pipes {
		hps = append(hps, hp)
	}
	sortInts(hps)
	for _, hp := range hps {
		n := r.Intn(7)
		if r.Chance(1, 6) {
			n = 15 + r.Intn(20)
		}
		w := Writer{HP: hp, Items: []Item{}}
		for i := 0; i < n; i++ {
			x := Item{V: uint64(hp*100 + i + 1), Err: r.Chance(1, 8)}
			if !x.Err && r.Chance(1, 12) && pipeOcc(hp) <= 3 {
				x.V = 0 // the zero value is a chunk like any other (a repeated value: see maxOcc)
			}
			w.Items = append(w.Items, x)
		}
		// a late writer sends only after every derived reader has been closed: possible
		// only if none of those readers waits for it
		late := n > 0
		for _, h := range sh.fed(hp) {
			for _, l := range c.Leaves {
				if l.H == h && l.Max != 0 {
					late = false
				}
			}
		}
		w.Late = late && r.Chance(2, 3)
		c.Writers = append(c.Writers, w)
	}
	return c
}
