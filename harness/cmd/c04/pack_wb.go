//go:build verif_c04wb

// White-box group of engine C04 (build tag verif_c04wb; hook compose/verif_c04.go, same sub-tag): the four
// views newRunnablePacker derives for one lambda, called directly.
package main

import "github.com/cloudwego/eino/compose"

const whiteBox = true

func c04Pack[I, O any](fi compose.Invoke[I, O, any], fs compose.Stream[I, O, any], fc compose.Collect[I, O, any],
	ft compose.Transform[I, O, any]) (compose.Invoke[I, O, any], compose.Stream[I, O, any], compose.Collect[I, O, any], compose.Transform[I, O, any]) {
	return compose.VerifPack(fi, fs, fc, ft)
}
