// Engine C04 — Invoke / Stream / Collect / Transform of a compiled graph agree.
//
// Case kinds:
//
//	prog: a generated series-parallel graph (sequence, fan-out/fan-in with output keys,
//	      branch with re-join, nested graph, input/output keys, state pre/post handlers),
//	      every node an AnyLambda with a random native subset, splitting policy and
//	      failure mode; the same compiled object is called through all four paradigms on
//	      one random chunking of one input.
//	pack: one lambda packed by newRunnablePacker (hook VerifPack), its four views called
//	      directly; exact chunk lists and the native used per view are compared.
//
// Direct oracle: concat(Stream x) = Invoke x = Collect(chunks x) = concat(Transform(chunks x)),
// a failure in one paradigm is a failure in all four, no panic, no hang.
package main

import (
	"encoding/json"
	"fmt"
	"reflect"
	"sort"
	"strings"
	"sync"

	"verif/harness/lib"
)

// V is a chunk value in case / observation JSON: a string, or a map whose values are
// strings or maps again (T: the Go type of this map is map[string]string, not map[string]any).
// JSON: "abc" | {"m": {"aa": "x", "ab": {"m": {...}, "t": true}}}; the older form {"s": "abc"}
// is still read.
type V struct {
	S *string
	M map[string]*V
	T bool
	N bool // the Go type of this map is the named type NMap
}

func (v *V) MarshalJSON() ([]byte, error) {
	if v.S != nil {
		return json.Marshal(*v.S)
	}
	m := v.M
	if m == nil {
		m = map[string]*V{}
	}
	if v.T {
		return json.Marshal(struct {
			M map[string]*V `json:"m"`
			T bool          `json:"t"`
		}{m, true})
	}
	if v.N {
		return json.Marshal(struct {
			M map[string]*V `json:"m"`
			N bool          `json:"n"`
		}{m, true})
	}
	return json.Marshal(struct {
		M map[string]*V `json:"m"`
	}{m})
}

func (v *V) UnmarshalJSON(raw []byte) error {
	var s string
	if err := json.Unmarshal(raw, &s); err == nil {
		v.S = &s
		return nil
	}
	var o struct {
		S *string       `json:"s"`
		M map[string]*V `json:"m"`
		T bool          `json:"t"`
		N bool          `json:"n"`
	}
	if err := json.Unmarshal(raw, &o); err != nil {
		return err
	}
	v.S, v.M, v.T, v.N = o.S, o.M, o.T, o.N
	if v.S == nil && v.M == nil {
		v.M = map[string]*V{}
	}
	return nil
}

func vStr(s string) *V { return &V{S: &s} }

func (v *V) toGo() any {
	if v.S != nil {
		return *v.S
	}
	if v.T {
		m := map[string]string{}
		for k, x := range v.M {
			m[k] = *x.S
		}
		return m
	}
	m := map[string]any{}
	for k, x := range v.M {
		m[k] = x.toGo()
	}
	if v.N {
		return NMap(m)
	}
	return m
}

func fromGo(x any) *V {
	switch t := x.(type) {
	case string:
		return vStr(t)
	case map[string]string:
		m := map[string]*V{}
		for k, e := range t {
			m[k] = vStr(e)
		}
		return &V{M: m, T: true}
	case map[string]any:
		m := map[string]*V{}
		for k, e := range t {
			m[k] = fromGo(e)
		}
		return &V{M: m}
	case NMap:
		m := map[string]*V{}
		for k, e := range t {
			m[k] = fromGo(e)
		}
		return &V{M: m, N: true}
	}
	return vStr(fmt.Sprintf("<unrenderable %T>", x))
}

// nested: some value of the map is a map itself
func (v *V) nested() bool {
	for _, x := range v.M {
		if x.S == nil {
			return true
		}
	}
	return false
}

func coqKeyRest(path []int, mark bool) string {
	if len(path) == 0 {
		if mark {
			return "KMap"
		}
		return "KStr"
	}
	return lib.CoqApp("KSub", lib.CoqN(uint64(path[0])), coqKeyRest(path[1:], mark))
}

func (v *V) coq() string {
	if v.S != nil {
		return lib.CoqApp("VS", lib.CoqStr(*v.S))
	}
	// a map is printed as the list of its flattened entries in the model's key order
	es := flatten(v.toGo2())
	items := make([]string, len(es))
	for i, e := range es {
		k := lib.CoqPair(lib.CoqN(uint64(e.path[0])), coqKeyRest(e.path[1:], e.mark))
		items[i] = lib.CoqPair(k, lib.CoqStr(e.val))
	}
	return lib.CoqApp("VM", lib.CoqList(items))
}

// toGo2: the map as a map[string]any whatever its Go type
func (v *V) toGo2() map[string]any {
	m := map[string]any{}
	for k, x := range v.M {
		if x.S != nil {
			m[k] = *x.S
		} else {
			m[k] = x.toGo2()
		}
	}
	return m
}

func vEqual(a, b *V) bool {
	if (a.S != nil) != (b.S != nil) {
		return false
	}
	if a.S != nil {
		return *a.S == *b.S
	}
	if len(a.M) != len(b.M) || a.T != b.T || a.N != b.N {
		return false
	}
	for k, x := range a.M {
		y, ok := b.M[k]
		if !ok || !vEqual(x, y) {
			return false
		}
	}
	return true
}

type Case struct {
	Kind   string   `json:"kind"` // prog | pack
	Prog   *Prog    `json:"prog,omitempty"`
	DAG    bool     `json:"dag,omitempty"`
	Spec   *NSpec   `json:"spec,omitempty"`
	Chunks []*V     `json:"chunks"`
	Nil    *NilSpec `json:"nil,omitempty"` // kind nilout: a nil result of an interface-typed node (direct oracle only)
	// kind scalar: int chunks, which concatenate to the last one (direct oracle only)
	Scalar *ScalarSpec `json:"scalar,omitempty"`
	// kind ctrl: a Workflow node without a data input (direct oracle only)
	Ctrl *CtrlSpec `json:"ctrl,omitempty"`
	// a second input (same keys, other strings, another chunking) for the same compiled object
	Chunks2 []*V   `json:"chunks2,omitempty"`
	Inject  string `json:"inject,omitempty"` // "", dupkey, nokey, fmkey: deliberate out-of-domain construction
	Front   string `json:"front,omitempty"`  // "" = Graph API, wf = Workflow (field mappings), chain = Chain
	CB      bool   `json:"cb,omitempty"`     // every call carries a callback handler that drains the stream copies it receives
	// the program is compiled once more and the four paradigms are called AT THE SAME TIME, as the first calls
	// on that fresh object; each must answer what the paradigms answered one after the other (direct oracle)
	Conc bool `json:"conc,omitempty"`
}

type Obs struct {
	Input  *V                   `json:"input,omitempty"`
	Err    string               `json:"err,omitempty"` // harness-level problem (compile error ...)
	P      [4]POut              `json:"p"`             // Invoke, Stream, Collect, Transform
	Calls  [4]map[string]string `json:"calls"`
	Second *Obs                 `json:"second,omitempty"` // the calls on the second input
}

// ---------------------------------------------------------------- Gallina printing

func coqBool(b bool) string { return lib.CoqBool(b) }

func (sp *NSpec) coq() string {
	return lib.CoqApp("Build_nspec", lib.CoqN(uint64(sp.Kind)), lib.CoqStr(sp.tag()),
		lib.CoqN(uint64(sp.K1)), lib.CoqN(uint64(sp.K2)),
		coqBool(sp.Nat[0]), coqBool(sp.Nat[1]), coqBool(sp.Nat[2]), coqBool(sp.Nat[3]),
		lib.CoqN(uint64(sp.Pol)), lib.CoqN(uint64(sp.Fail)), coqBool(sp.Live))
}

func coqHandler(h *NSpec) string {
	if h == nil {
		return "None"
	}
	return lib.CoqSome(lib.CoqPair(lib.CoqN(uint64(h.ID)), h.coq()))
}

func coqKey(k *int) string {
	if k == nil {
		return "None"
	}
	return lib.CoqSome(lib.CoqN(uint64(*k)))
}

func (w *Wrap) coq() string {
	if w == nil {
		return "(Build_swrap None None None None)"
	}
	return lib.CoqApp("Build_swrap", coqHandler(w.Pre), coqKey(w.In), coqKey(w.Out), coqHandler(w.Post))
}

func (f *FMap) coq() string {
	if f.Take != nil {
		return lib.CoqApp("FTake", lib.CoqN(uint64(*f.Take)), coqBool(f.TakeMap))
	}
	es := make([]string, len(f.To))
	for i, e := range f.To {
		from := "None"
		if e.From != nil {
			from = lib.CoqSome(lib.CoqN(uint64(*e.From)))
		}
		es[i] = lib.CoqPair(from, lib.CoqN(uint64(e.To)))
	}
	return lib.CoqApp("FTo", lib.CoqList(es))
}

func (fp *FPath) stages() []string {
	smap := func(f string) string { return lib.CoqApp("SMap", f) }
	take := func(k int, asMap bool) string {
		return smap(lib.CoqApp("FTake", lib.CoqN(uint64(k)), coqBool(asMap)))
	}
	to := func(from string, k int) string {
		return smap(lib.CoqApp("FTo", lib.CoqList([]string{lib.CoqPair(from, lib.CoqN(uint64(k)))})))
	}
	var out []string
	n := len(fp.From)
	for i := 0; i+1 < n; i++ {
		out = append(out, take(fp.From[i], true))
	}
	if len(fp.To) == 0 {
		return append(out, take(fp.From[n-1], fp.TakeMap))
	}
	last := len(fp.To) - 1
	if n == 0 {
		out = append(out, to("None", fp.To[last]))
	} else {
		out = append(out, to(lib.CoqSome(lib.CoqN(uint64(fp.From[n-1]))), fp.To[last]))
	}
	for j := last - 1; j >= 0; j-- {
		out = append(out, to("None", fp.To[j]))
	}
	return out
}

// the data edges leaving a node carry its field mapping: node ; mapping
func (p *Prog) coq() string {
	base := p.coqBase()
	if p.Op == "node" && p.N.AnyOut && (p.W == nil || p.W.Out == nil) {
		// every edge leaving an any-typed node checks the consumer's input type
		base = lib.CoqApp("SSeq", base, lib.CoqApp("SCheck", coqBool(p.N.AnyMap)))
	}
	if p.OutMap != nil && p.OutMap.Path != nil {
		// a mapping with nested paths is the sequence of the one-step mappings it is made of:
		// step into the source map field by field, put the value under the innermost target
		// field, then that map under the next field outwards, ...
		stages := p.OutMap.Path.stages()
		s := stages[len(stages)-1]
		for i := len(stages) - 2; i >= 0; i-- {
			s = lib.CoqApp("SSeq", stages[i], s)
		}
		return lib.CoqApp("SSeq", base, s)
	}
	if p.OutMap != nil {
		return lib.CoqApp("SSeq", base, lib.CoqApp("SMap", p.OutMap.coq()))
	}
	return base
}

func (p *Prog) coqBase() string {
	kids := func() string {
		ks := make([]string, len(p.Kids))
		for i, k := range p.Kids {
			ks[i] = k.coq()
		}
		return lib.CoqList(ks)
	}
	switch p.Op {
	case "pass":
		if p.W != nil {
			// a passthrough node with state handlers: pre-handler, nothing, post-handler —
			// in the model a wrapper around the identity
			return lib.CoqApp("SSub", p.W.coq(), "SId")
		}
		return "SId"
	case "skip", "direct":
		return "SId"
	case "node":
		return lib.CoqApp("SNode", p.W.coq(), lib.CoqN(uint64(p.N.ID)), p.N.coq())
	case "sub":
		return lib.CoqApp("SSub", p.W.coq(), p.Kids[0].coq())
	case "seq":
		// right-nested binary sequence
		s := p.Kids[len(p.Kids)-1].coq()
		for i := len(p.Kids) - 2; i >= 0; i-- {
			s = lib.CoqApp("SSeq", p.Kids[i].coq(), s)
		}
		return s
	case "par":
		return lib.CoqApp("SPar", kids())
	case "loop":
		c := lib.CoqApp("Build_lspec", coqBool(p.C.Collect), lib.CoqNat(p.C.Bound), coqBool(p.C.Fail))
		// every node makes the value at least one character longer: Bound+2 rounds are never reached
		return lib.CoqApp("SLoop", lib.CoqN(uint64(p.C.ID)), c, p.Kids[0].coq(), lib.CoqNat(p.C.Bound+2))
	case "multi":
		c := lib.CoqApp("Build_cspec", coqBool(p.C.Collect), lib.CoqNat(len(p.Kids)), coqBool(p.C.Fail))
		return lib.CoqApp("SMulti", lib.CoqN(uint64(p.C.ID)), c, kids())
	case "branch":
		c := lib.CoqApp("Build_cspec", coqBool(p.C.Collect), lib.CoqNat(len(p.Kids)), coqBool(p.C.Fail))
		return lib.CoqApp("SBranch", lib.CoqN(uint64(p.C.ID)), c, kids())
	}
	panic("bad op")
}

func coqRobs(o POut) string {
	if o.ok() {
		return lib.CoqApp("RVal", o.Val.coq())
	}
	return "RFail"
}

func coqSobs(o POut) string {
	cs := make([]string, len(o.Chunks))
	for i, c := range o.Chunks {
		cs[i] = c.coq()
	}
	return lib.CoqApp("SObs", lib.CoqList(cs), coqBool(!o.ok()))
}

var letterN = map[string]uint64{"I": 0, "S": 1, "C": 2, "T": 3}

func coqCalls(calls map[int][]string) string {
	ids := make([]int, 0, len(calls))
	for id := range calls {
		ids = append(ids, id)
	}
	sort.Ints(ids)
	var items []string
	for _, id := range ids {
		for _, l := range calls[id] {
			items = append(items, lib.CoqPair(lib.CoqN(uint64(id)), lib.CoqN(letterN[l])))
		}
	}
	return lib.CoqList(items)
}

func mapCoq(vs []*V) []string {
	out := make([]string, len(vs))
	for i, v := range vs {
		out[i] = v.coq()
	}
	return out
}

// ---------------------------------------------------------------- engine

type engine struct{}

func (engine) ID() string { return "C04" }
func (engine) CoqHeader() string {
	return "From Eino Require Import Base.Util Model.Paradigm Model.StreamOps Model.ParadigmProg Model.ParadigmSpec Corr.C04.\n"
}
func (engine) CoqCaseType() string { return "ccase" }

func (engine) Decode(raw json.RawMessage) (any, error) {
	var c Case
	if err := json.Unmarshal(raw, &c); err != nil {
		return nil, err
	}
	if c.Kind == "nilout" && c.Nil != nil {
		return &c, nil
	}
	if c.Kind == "scalar" && c.Scalar != nil && len(c.Scalar.Out) > 0 && (c.Scalar.Shape != 4 || len(c.Scalar.In) > 0) {
		return &c, nil
	}
	if c.Kind == "ctrl" && c.Ctrl != nil && len(c.Ctrl.In) > 0 {
		return &c, nil
	}
	if c.Kind == "prog" && c.Prog == nil || c.Kind == "pack" && c.Spec == nil || len(c.Chunks) == 0 {
		return nil, fmt.Errorf("incomplete case")
	}
	return &c, nil
}

func callsJSON(calls map[int][]string) map[string]string {
	out := map[string]string{}
	for id, ls := range calls {
		out[fmt.Sprint(id)] = strings.Join(ls, "")
	}
	return out
}

var parName = [4]string{"Invoke", "Stream", "Collect", "Transform"}

// what the four calls on one input gave
type inRun struct {
	obs         Obs
	oracle, sig string
	allOK       bool
	anyOK       bool
	chunks      []any
	x           any
	harness     bool // the input itself was unusable
}

func runInput(c *Case, r runner, vs []*V) inRun {
	run := inRun{}
	run.chunks = make([]any, len(vs))
	for i, v := range vs {
		run.chunks[i] = v.toGo()
	}
	x, err := concatAny(run.chunks)
	if err != nil {
		run.obs.Err = "input does not concatenate: " + err.Error()
		run.oracle, run.sig, run.harness = run.obs.Err, "harness", true
		return run
	}
	run.x = x
	run.obs.Input = fromGo(x)
	obs := &run.obs
	// the order in which a fan-in lists its sources follows Go's map iteration: a graph with a
	// fan-in is run several times in every stream paradigm; the first run that does not agree
	// with Invoke is the one that is kept
	reps := 1
	if c.Kind == "prog" && stats(c.Prog).pars > 0 {
		reps = fanInReps
	}
	for par := 0; par < 4; par++ {
		obs.P[par] = r.call(par, x, run.chunks)
		for k := 1; k < reps && par > 0 && sameOutcome(obs.P[0], obs.P[par]); k++ {
			obs.P[par] = r.call(par, x, run.chunks)
		}
		obs.Calls[par] = callsJSON(obs.P[par].calls)
	}

	// ---- direct oracle
	run.allOK, run.anyOK = true, false
	for par := 0; par < 4; par++ {
		o := obs.P[par]
		if o.Class == "panic" || o.Class == "hang" {
			run.oracle = fmt.Sprintf("%s: %s %s", parName[par], o.Class, o.Msg)
			run.sig = o.Class
		}
		run.allOK = run.allOK && o.ok()
		run.anyOK = run.anyOK || o.ok()
	}
	if run.oracle == "" && run.anyOK && !run.allOK {
		var parts []string
		for par := 0; par < 4; par++ {
			parts = append(parts, parName[par]+"="+obs.P[par].Class)
		}
		run.oracle = "a failure is reported in some paradigms only: " + strings.Join(parts, " ") + " | " + firstMsg(*obs)
		run.sig = failSig(c, *obs)
	}
	if run.oracle == "" && run.allOK {
		for par := 1; par < 4; par++ {
			if !vEqual(obs.P[0].Val, obs.P[par].Val) {
				run.oracle = fmt.Sprintf("%s delivers %s, Invoke returns %s", parName[par], js(obs.P[par].Val), js(obs.P[0].Val))
				run.sig = "value-differs"
				break
			}
		}
	}
	return run
}

// what a call handed to the caller (and what the caller handed to the calls) must still read the
// same after later calls on the same compiled object
func stillSame(run inRun, vs []*V) string {
	for i, c := range run.chunks {
		if !vEqual(fromGo(c), vs[i]) {
			return fmt.Sprintf("the caller's input chunk %d was modified by the calls: now %s, was %s", i, js(fromGo(c)), js(vs[i]))
		}
	}
	for par := 0; par < 4; par++ {
		o := run.obs.P[par]
		if !o.ok() {
			continue
		}
		if par == 0 || par == 2 {
			if len(o.raw) == 1 && !vEqual(fromGo(o.raw[0]), o.Val) {
				return fmt.Sprintf("the value %s returned changed after later calls on the same compiled object: now %s, was %s", parName[par], js(fromGo(o.raw[0])), js(o.Val))
			}
			continue
		}
		for i, c := range o.raw {
			if i < len(o.Chunks) && !vEqual(fromGo(c), o.Chunks[i]) {
				return fmt.Sprintf("chunk %d delivered by %s changed after later calls on the same compiled object: now %s, was %s", i, parName[par], js(fromGo(c)), js(o.Chunks[i]))
			}
		}
	}
	return ""
}

func progTerm(c *Case, run inRun, vs []*V, tags *[]string) string {
	obs := run.obs
	calls := "None"
	if run.allOK {
		calls = lib.CoqSome(lib.CoqPair(coqCalls(obs.P[0].calls), coqCalls(obs.P[1].calls)))
		// the three stream-mode paradigms run the same natives
		if !reflect.DeepEqual(obs.P[1].calls, obs.P[2].calls) || !reflect.DeepEqual(obs.P[1].calls, obs.P[3].calls) {
			calls = lib.CoqSome(lib.CoqPair("[(999%N, 0%N)]", "[]")) // flagged as a mismatch
		}
	}
	st := stats(c.Prog)
	schunks := "None"
	if run.allOK && st.pars == 0 && st.paths == 0 && c.Inject == "" {
		// no merge anywhere: the chunk boundaries of the output are determined (a mapping with nested
		// paths is modelled as a sequence of one-step mappings: a chunk that lacks the source path
		// maps to {} in the implementation and to {x: {}} in the model - the same up to concatenation)
		schunks = lib.CoqSome(lib.CoqPair(lib.CoqList(mapCoq(obs.P[1].Chunks)), lib.CoqList(mapCoq(obs.P[3].Chunks))))
		if tags != nil {
			*tags = append(*tags, "exactchunks:true")
		}
	}
	return lib.CoqApp("CaseProg", c.Prog.coq(), lib.CoqList(mapCoq(vs)),
		coqRobs(obs.P[0]), coqRobs(obs.P[1]), coqRobs(obs.P[2]), coqRobs(obs.P[3]), calls, schunks)
}

func (engine) Run(ci any) lib.Result {
	c := ci.(*Case)
	if c.Kind == "nilout" {
		return runNil(c)
	}
	if c.Kind == "scalar" {
		return runScalar(c)
	}
	if c.Kind == "ctrl" {
		return runCtrl(c)
	}
	res := lib.Result{}
	rec := &recorder{}

	var r runner
	if c.Kind == "pack" {
		r = pack(c.Spec, rec)
	} else {
		var err error
		r, err = compileGuarded(c.Prog, c.Front, c.DAG, c.CB, rec)
		if err != nil {
			obs := Obs{Err: "compile: " + err.Error()}
			res.Obs, res.Oracle, res.Sig = obs, obs.Err, "harness-compile"
			return res
		}
	}
	run := runInput(c, r, c.Chunks)
	if run.harness {
		res.Obs, res.Oracle, res.Sig = run.obs, run.oracle, run.sig
		return res
	}
	obs := run.obs
	res.Oracle, res.Sig = run.oracle, run.sig
	allOK, anyOK := run.allOK, run.anyOK
	var run2 *inRun
	if c.Kind == "prog" && len(c.Chunks2) > 0 {
		b := runInput(c, r, c.Chunks2)
		if b.harness {
			res.Obs, res.Oracle, res.Sig = b.obs, b.oracle, b.sig
			return res
		}
		run2 = &b
		obs.Second = &b.obs
		if res.Oracle == "" && b.oracle != "" {
			res.Oracle, res.Sig = "second input on the same compiled object: "+b.oracle, b.sig
		}
		if res.Oracle == "" {
			if why := stillSame(run, c.Chunks); why != "" {
				res.Oracle, res.Sig = why, "changed-after-later-call"
			} else if why := stillSame(b, c.Chunks2); why != "" {
				res.Oracle, res.Sig = why, "changed-after-later-call"
			}
		}
	} else if res.Oracle == "" {
		if why := stillSame(run, c.Chunks); why != "" {
			res.Oracle, res.Sig = why, "changed-after-later-call"
		}
	}
	if c.Kind == "prog" && c.Conc && res.Oracle == "" && c.Inject == "" {
		if why := concFirstCalls(c, run); why != "" {
			res.Oracle, res.Sig = why, "concurrent-first-calls"
		}
	}
	res.Obs = obs

	// ---- model term
	tags := []string{"kind:" + c.Kind, fmt.Sprintf("chunks:%d", len(c.Chunks))}
	if run2 != nil {
		tags = append(tags, "inputs:2")
	}
	if c.Conc {
		tags = append(tags, "conc:first-calls")
	}
	nested, typed := caseNesting(c)
	tags = append(tags, fmt.Sprintf("nested:%v", nested), fmt.Sprintf("typedmap:%v", typed))
	cls := "fail"
	if allOK {
		cls = "ok"
	} else if anyOK {
		cls = "mixed"
	}
	tags = append(tags, "class:"+cls)
	if c.Inject != "" {
		tags = append(tags, "inject:"+c.Inject)
	}
	for par := 0; par < 4; par++ {
		if !obs.P[par].ok() {
			tags = append(tags, fmt.Sprintf("%s:%s", parName[par], obs.P[par].Class))
		}
	}
	if c.Kind == "pack" {
		sp := c.Spec
		used := make([]string, 4)
		for par := 0; par < 4; par++ {
			ls := obs.P[par].calls[sp.ID]
			if len(ls) != 1 {
				used[par] = lib.CoqN(99)
			} else {
				used[par] = lib.CoqN(letterN[ls[0]])
			}
		}
		if whiteBox {
			res.CoqTerm = lib.CoqApp("CasePack", sp.coq(), lib.CoqList(mapCoq(c.Chunks)),
				coqRobs(obs.P[0]), coqSobs(obs.P[1]), coqRobs(obs.P[2]), coqSobs(obs.P[3]), lib.CoqList(used))
		} else {
			// without the white-box group the lambda runs as the only node of a graph: direct oracle only
			tags = append(tags, "whitebox:off")
		}
		tags = append(tags, "nat:"+natStr(sp.Nat), fmt.Sprintf("pol:%d", sp.Pol), fmt.Sprintf("fail:%d", sp.Fail), fmt.Sprintf("nkind:%d", sp.Kind), fmt.Sprintf("anyout:%v", sp.AnyOut))
		res.Nontrivial = natCount(sp.Nat) < 4
	} else {
		st := stats(c.Prog)
		res.CoqTerm = progTerm(c, run, c.Chunks, &tags)
		if run2 != nil {
			res.CoqTerm = lib.CoqApp("CaseTwo", res.CoqTerm, progTerm(c, *run2, c.Chunks2, nil))
		}
		front := c.Front
		if front == "" {
			front = "graph"
		}
		tags = append(tags, fmt.Sprintf("nodes:%d", st.nodes), fmt.Sprintf("dag:%v", c.DAG), "front:"+front, fmt.Sprintf("callbacks:%v", c.CB))
		for _, f := range st.features {
			tags = append(tags, "has:"+f)
		}
		// non-trivial: some node lacks the native the mode would call first, or streams are
		// copied / merged / filtered on the way
		res.Nontrivial = st.derived > 0 || st.pars > 0 || st.branches > 0 || st.keys > 0
	}
	res.Tags = tags
	return res
}

// compileGuarded: a panic while the graph is built or compiled is reported like a compile error (nothing is
// compiled, there is no paradigm to compare), it does not take the harness process down
func compileGuarded(p *Prog, front string, dag bool, cb bool, rec *recorder) (r runner, err error) {
	if pv := lib.Recover(func() { r, err = compile(p, front, dag, cb, rec) }); pv != nil {
		return nil, fmt.Errorf("panic while building / compiling: %v", pv)
	}
	return r, err
}

// concFirstCalls compiles the program once more and issues the four paradigms at the same time, as the very
// first calls on the fresh object (whatever a compiled object sets up lazily on its first use is then set up
// by four callers at once). Every call must answer what the paradigms answered one after the other: the
// same value when they succeeded, a failure (no panic, no hang) when they failed. Only used on cases whose
// sequential calls agreed, outside the deliberate out-of-domain constructions.
const concRounds = 6

func concFirstCalls(c *Case, run inRun) string {
	r, err := compileGuarded(c.Prog, c.Front, c.DAG, c.CB, &recorder{})
	if err != nil {
		// a construction that compiles once and not the next time is a matter of the builder properties,
		// not of the four paradigms of a compiled object: nothing to compare
		return ""
	}
	// round 0: one call per paradigm, the first calls on the fresh object; rounds 1..concRounds-1: two calls per
	// paradigm at the same time on the same object (plain re-entrancy)
	for round := 0; round < concRounds; round++ {
		n := 4
		if round > 0 {
			n = 8
		}
		outs := make([]POut, n)
		start := make(chan struct{})
		var wg sync.WaitGroup
		for k := 0; k < n; k++ {
			wg.Add(1)
			go func(k int) {
				defer wg.Done()
				<-start
				outs[k] = r.call(k%4, run.x, run.chunks)
			}(k)
		}
		close(start)
		wg.Wait()
		what := "four paradigms called at the same time on a fresh compiled object"
		if round > 0 {
			what = "eight calls (two per paradigm) at the same time on one compiled object"
		}
		for k := 0; k < n; k++ {
			o, par := outs[k], k%4
			switch {
			case o.Class == "panic" || o.Class == "hang":
				return fmt.Sprintf("%s: %s: %s %s", what, parName[par], o.Class, o.Msg)
			case run.allOK && !o.ok():
				return fmt.Sprintf("%s: %s fails (%s %s), called one after the other all four succeed", what, parName[par], o.Class, o.Msg)
			case run.allOK && !vEqual(o.Val, run.obs.P[0].Val):
				return fmt.Sprintf("%s: %s delivers %s, called one after the other all four deliver %s", what, parName[par], js(o.Val), js(run.obs.P[0].Val))
			case !run.allOK && o.ok():
				return fmt.Sprintf("%s: %s succeeds (%s), called one after the other all four fail", what, parName[par], js(o.Val))
			}
		}
	}
	return ""
}

// caseNesting: does the case put a map under a key of a map (an output key around a map
// producer, a nested value in the input); does it use the map type map[string]string
func caseNesting(c *Case) (nested, typed bool) {
	for _, v := range c.Chunks {
		if v.nested() {
			nested = true
		}
		for _, x := range v.M {
			if x.T {
				typed = true
			}
		}
	}
	if c.Kind == "pack" {
		return nested || c.Spec.Kind == 4, typed || c.Spec.TIn || c.Spec.TOut
	}
	c.Prog.walk(func(q *Prog) {
		if q.W != nil && q.W.Out != nil {
			if q.Op == "node" && q.N.outMap() || q.Op == "sub" && q.Kids[0].outMap() {
				nested = true
			}
		}
		if q.N != nil && q.N.Kind == 4 {
			nested = true
		}
		if q.N != nil && (q.N.TIn || q.N.TOut) {
			typed = true
		}
	})
	return
}

const fanInReps = 4

// both fail, or both succeed with the same value
func sameOutcome(a, b POut) bool {
	if a.ok() != b.ok() {
		return false
	}
	return !a.ok() || vEqual(a.Val, b.Val)
}

func natStr(n [4]bool) string {
	s := ""
	for i, l := range []string{"I", "S", "C", "T"} {
		if n[i] {
			s += l
		}
	}
	return s
}
func natCount(n [4]bool) int {
	k := 0
	for _, b := range n {
		if b {
			k++
		}
	}
	return k
}

type pstats struct {
	nodes, derived, pars, branches, keys int
	paths                                int // mappings with nested paths
	features                             []string
}

func stats(p *Prog) pstats {
	st := pstats{}
	feat := map[string]bool{}
	p.walk(func(q *Prog) {
		switch q.Op {
		case "node":
			st.nodes++
			if natCount(q.N.Nat) < 4 {
				st.derived++
			}
			if q.N.Fail != 0 {
				feat[fmt.Sprintf("fail%d", q.N.Fail)] = true
			}
			if q.N.isLive() && q.N.Nat[3] {
				feat["liveT"] = true
			}
			if q.N.Kind == 4 {
				feat["wrapnode"] = true
			}
			if q.N.AnyOut {
				feat["anyedge"] = true
				st.keys++
			}
		case "par":
			st.pars++
			feat["par"] = true
			typedAll := len(q.Kids) > 0
			for _, k := range q.Kids {
				typedAll = typedAll && k.Op == "node" && (k.N.TOut || k.N.NOut) && (k.W == nil || k.W.Out == nil)
			}
			if typedAll {
				feat["typedfanin"] = true
				if q.Kids[0].N.NOut {
					feat["namedmapfanin"] = true
				}
			}
		case "branch":
			st.branches++
			feat["branch"] = true
			if q.C.Collect {
				feat["streambranch"] = true
			}
		case "multi":
			st.branches++
			st.pars++
			feat["multibranch"] = true
		case "pass":
			st.nodes++
			if q.W != nil && (q.W.Pre != nil || q.W.Post != nil) {
				feat["passhandler"] = true
			}
			if q.W != nil && q.W.In != nil {
				feat["passinkey"] = true
			}
			if q.W != nil && q.W.Out != nil {
				feat["passoutkey"] = true
			}
			feat["passthrough"] = true
		case "skip":
			feat["emptyalt"] = true
		case "direct":
			feat["directedge"] = true
		case "loop":
			st.branches++
			feat["loop"] = true
			if q.C.Collect {
				feat["streamloopcond"] = true
			}
		case "sub":
			feat["sub"] = true
			if q.Front != "" {
				feat["sub-"+q.Front] = true
			}
		}
		if q.OutMap != nil && q.OutMap.Path != nil {
			st.keys++
			st.paths++
			feat["fieldpath"] = true
			if len(q.OutMap.Path.From) > 1 {
				feat["fieldpath-from"] = true
			}
			if len(q.OutMap.Path.To) > 1 {
				feat["fieldpath-to"] = true
			}
		} else if q.OutMap != nil {
			st.keys++
			if q.OutMap.Take != nil {
				feat["fromfield"] = true
				if q.OutMap.TakeMap {
					feat["fromfield-map"] = true
				}
			} else if q.OutMap.To[0].From == nil {
				feat["tofield"] = true
				if q.rawOutMap() {
					feat["tofield-map"] = true
				}
			} else {
				feat["mapfields"] = true
			}
			if q.OutMap.mapValued {
				feat["mapfields-map"] = true
			}
		}
		if q.W != nil {
			if q.W.In != nil {
				st.keys++
				feat["inkey"] = true
			}
			if q.W.Out != nil {
				st.keys++
				feat["outkey"] = true
			}
			if q.W.Pre != nil || q.W.Post != nil {
				feat["statehandler"] = true
				if q.W.Pre != nil && q.W.Pre.Nat[3] || q.W.Post != nil && q.W.Post.Nat[3] {
					feat["streamhandler"] = true
				}
			}
		}
	})
	for f := range feat {
		st.features = append(st.features, f)
	}
	sort.Strings(st.features)
	return st
}

func firstMsg(o Obs) string {
	for _, p := range o.P {
		if p.Msg != "" {
			m := p.Msg
			if len(m) > 200 {
				m = m[:200]
			}
			return strings.ReplaceAll(m, "\n", " ")
		}
	}
	return ""
}

// outKeys: the keys a map-typed output of p can carry, statically
func outKeys(p *Prog) map[int]bool {
	ks := map[int]bool{}
	add := func(m map[int]bool) {
		for k := range m {
			ks[k] = true
		}
	}
	wrapOut := func(inner func() map[int]bool) {
		w := p.W
		if w != nil && w.Post != nil && w.Post.outMap() {
			ks[w.Post.K1] = true
			return
		}
		if w != nil && w.Out != nil {
			ks[*w.Out] = true
			return
		}
		add(inner())
	}
	switch p.Op {
	case "node":
		wrapOut(func() map[int]bool {
			switch p.N.Kind {
			case 2:
				return map[int]bool{p.N.K1: true, p.N.K2: true}
			case 3, 4:
				return map[int]bool{p.N.K1: true}
			}
			return nil
		})
	case "sub":
		wrapOut(func() map[int]bool { return outKeys(p.Kids[0]) })
	case "pass":
		wrapOut(func() map[int]bool { return nil })
	case "seq":
		add(outKeys(p.Kids[len(p.Kids)-1]))
	default:
		for _, k := range p.Kids {
			add(outKeys(k))
		}
	}
	return ks
}

// failSig classifies "a failure in some paradigms only" structurally, so that exactly the
// two known findings are matched and any other divergence keeps its own signature.
func failSig(c *Case, o Obs) string {
	invokeFailsOnly := !o.P[0].ok() && o.P[1].ok() && o.P[2].ok() && o.P[3].ok()
	if c.Kind == "prog" && invokeFailsOnly {
		if strings.Contains(o.P[0].Msg, "duplicated key") {
			shared := false
			c.Prog.walk(func(q *Prog) {
				if q.Op != "par" && q.Op != "multi" {
					return
				}
				seen := map[int]bool{}
				for _, k := range q.Kids {
					for key := range outKeys(k) {
						if seen[key] {
							shared = true
						}
					}
					for key := range outKeys(k) {
						seen[key] = true
					}
				}
			})
			if shared {
				return "fanin-dupkey:invoke=dupkey-error,stream=ok"
			}
		}
		if strings.Contains(o.P[0].Msg, "field mapping from a map key, but key not found in input") {
			has := false
			c.Prog.walk(func(q *Prog) {
				if q.OutMap != nil && (q.OutMap.Path != nil && len(q.OutMap.Path.From) > 0 || q.OutMap.Take != nil || len(q.OutMap.To) > 0 && q.OutMap.To[0].From != nil) {
					has = true
				}
			})
			if has {
				return "fieldmap-key-missing:invoke=nokey-error,stream=ok"
			}
		}
		if strings.Contains(o.P[0].Msg, "cannot find input key") {
			has := false
			c.Prog.walk(func(q *Prog) {
				if q.W != nil && q.W.In != nil {
					has = true
				}
			})
			if has {
				return "inkey-missing:invoke=nokey-error,stream=ok"
			}
		}
	}
	var parts []string
	for par := 0; par < 4; par++ {
		parts = append(parts, o.P[par].Class)
	}
	return "fail-some:" + strings.Join(parts, ",")
}

func js(x any) string { b, _ := json.Marshal(x); return string(b) }

func main() { lib.Main(engine{}) }
