// Engine C04 — node bodies: the harness lambdas (any subset of the four native paradigms,
// output-splitting policies, failure modes), mirrored by Model/ParadigmProg.v.
package main

import (
	"context"
	"errors"
	"fmt"
	"io"
	"sort"
	"strings"
	"sync"

	"github.com/cloudwego/eino/compose"
	"github.com/cloudwego/eino/schema"
)

// ---------------------------------------------------------------- values

// chunk values are string or map[string]any whose values are strings.

func keyStr(k int) string {
	return string([]byte{byte('a' + (k/26)%26), byte('a' + k%26)})
}

func keyNum(s string) int {
	if len(s) != 2 {
		return 9999
	}
	return int(s[0]-'a')*26 + int(s[1]-'a')
}

func sortedKeys(m map[string]any) []string {
	ks := make([]string, 0, len(m))
	for k := range m {
		ks = append(ks, k)
	}
	sort.Slice(ks, func(i, j int) bool { return keyNum(ks[i]) < keyNum(ks[j]) })
	return ks
}

// NMap is a defined (named) map type with the underlying type map[string]any: an unusual but
// legal chunk / value type of a lambda (flags NOut / NIn of a spec).
type NMap map[string]any

// norm brings a typed map (map[string]string, NMap) to the generic form map[string]any; nested
// values are normalised as well. Strings and generic maps are returned as they are.
func norm(x any) any {
	switch t := x.(type) {
	case NMap:
		return norm(map[string]any(t))
	case map[string]string:
		m := make(map[string]any, len(t))
		for k, v := range t {
			m[k] = v
		}
		return m
	case map[string]any:
		typed := false
		for _, v := range t {
			if _, ok := v.(map[string]string); ok {
				typed = true
			}
			if _, ok := v.(map[string]any); ok {
				typed = true
			}
			if _, ok := v.(NMap); ok {
				typed = true
			}
		}
		if !typed {
			return t
		}
		m := make(map[string]any, len(t))
		for k, v := range t {
			m[k] = norm(v)
		}
		return m
	}
	return x
}

// ent is one entry of a flattened (possibly nested) map: the path of keys that leads to it,
// and either a string leaf or the marker "a map sits here" (emitted for every nested map,
// empty or not). The model (Model/StreamOps.v) represents a map by this entry list.
type ent struct {
	path []int
	mark bool
	val  string
}

// order of the model's keys: at the first difference of the two paths the smaller key
// number wins; a path that ends sorts before one that goes on; at equal paths the map
// marker sorts before the string leaf.
func entLess(a, b ent) bool {
	for i := 0; ; i++ {
		ae, be := i >= len(a.path), i >= len(b.path)
		switch {
		case ae && be:
			return a.mark && !b.mark
		case ae:
			return true
		case be:
			return false
		case a.path[i] != b.path[i]:
			return a.path[i] < b.path[i]
		}
	}
}

func flattenInto(prefix []int, m map[string]any, out *[]ent) {
	for k, v := range m {
		p := append(append([]int(nil), prefix...), keyNum(k))
		switch t := norm(v).(type) {
		case string:
			*out = append(*out, ent{path: p, val: t})
		case map[string]any:
			*out = append(*out, ent{path: p, mark: true})
			flattenInto(p, t, out)
		default:
			*out = append(*out, ent{path: p, val: fmt.Sprintf("<unrenderable %T>", v)})
		}
	}
}

func flatten(m map[string]any) []ent {
	var out []ent
	flattenInto(nil, m, &out)
	sort.Slice(out, func(i, j int) bool { return entLess(out[i], out[j]) })
	return out
}

func pathStr(p []int) string {
	parts := make([]string, len(p))
	for i, k := range p {
		parts[i] = keyStr(k)
	}
	return strings.Join(parts, ".")
}

// render: every entry of the flattened map in the model's order; "k=v;" for a string leaf
// (path components joined by "."), "k/;" for the marker of a nested map.
func render(m map[string]any) string {
	var b strings.Builder
	for _, e := range flatten(m) {
		b.WriteString(pathStr(e.path))
		if e.mark {
			b.WriteString("/;")
		} else {
			b.WriteString("=")
			b.WriteString(e.val)
			b.WriteString(";")
		}
	}
	return b.String()
}

// the harness's own concatenation (what a hand-written Collect / Transform lambda does
// with its input chunks); independent of eino's. Maps are merged key by key, recursively.
func concatAny(chunks []any) (any, error) {
	if len(chunks) == 0 {
		return nil, errors.New("node: empty input stream")
	}
	if len(chunks) == 1 {
		return chunks[0], nil
	}
	switch chunks[0].(type) {
	case string:
		var b strings.Builder
		for _, c := range chunks {
			s, ok := c.(string)
			if !ok {
				return nil, fmt.Errorf("node: chunk types differ: string, %T", c)
			}
			b.WriteString(s)
		}
		return b.String(), nil
	case map[string]string:
		out := map[string]string{}
		for _, c := range chunks {
			m, ok := c.(map[string]string)
			if !ok {
				return nil, fmt.Errorf("node: chunk types differ: map[string]string, %T", c)
			}
			for k, v := range m {
				out[k] += v
			}
		}
		return out, nil
	case NMap:
		plain := make([]any, len(chunks))
		for i, c := range chunks {
			m, ok := c.(NMap)
			if !ok {
				return nil, fmt.Errorf("node: chunk types differ: NMap, %T", c)
			}
			plain[i] = map[string]any(m)
		}
		out, err := concatAny(plain)
		if err != nil {
			return nil, err
		}
		return NMap(out.(map[string]any)), nil
	case map[string]any:
		groups := map[string][]any{}
		for _, c := range chunks {
			m, ok := c.(map[string]any)
			if !ok {
				return nil, fmt.Errorf("node: chunk types differ: map[string]any, %T", c)
			}
			for k, v := range m {
				groups[k] = append(groups[k], v)
			}
		}
		out := map[string]any{}
		for k, vs := range groups {
			v, err := concatAny(vs)
			if err != nil {
				return nil, err
			}
			out[k] = v
		}
		return out, nil
	}
	return nil, fmt.Errorf("node: unsupported chunk type %T", chunks[0])
}

// size: for a string its length; for a map the number of entries of its flattened form
// plus the lengths of the string leaves
func sizeVal(x any) int {
	switch t := norm(x).(type) {
	case string:
		return len(t)
	case map[string]any:
		es := flatten(t)
		n := len(es)
		for _, e := range es {
			n += len(e.val)
		}
		return n
	}
	return 0
}

// ---------------------------------------------------------------- splitting policies

func splitStr(pol int, s string) []string {
	n := len(s)
	switch pol {
	case 1:
		return []string{s[:n/2], s[n/2:]}
	case 2:
		return []string{"", s, ""}
	case 3:
		a, r := "", s
		if n >= 1 {
			a, r = s[:1], s[1:]
		}
		k := len(r) - 1
		if k < 0 {
			k = 0
		}
		return []string{a, "", r[:k], r[k:]}
	}
	return []string{s}
}

// perKey: one chunk per key of a nested map value (of the same Go type); an empty map is
// one empty chunk
func perKey(v any) []any {
	switch t := v.(type) {
	case NMap:
		var out []any
		for _, c := range perKey(map[string]any(t)) {
			out = append(out, NMap(c.(map[string]any)))
		}
		return out
	case map[string]string:
		if len(t) == 0 {
			return []any{map[string]string{}}
		}
		var out []any
		for _, k := range sortedKeys(norm(t).(map[string]any)) {
			out = append(out, map[string]string{k: t[k]})
		}
		return out
	case map[string]any:
		if len(t) == 0 {
			return []any{map[string]any{}}
		}
		var out []any
		for _, k := range sortedKeys(t) {
			out = append(out, map[string]any{k: t[k]})
		}
		return out
	}
	panic("harness: perKey on a non-map")
}

func splitMap(pol int, m map[string]any) []map[string]any {
	ks := sortedKeys(m)
	switch pol {
	case 1:
		if len(ks) == 0 {
			return []map[string]any{{}}
		}
		out := make([]map[string]any, 0, len(ks))
		for _, k := range ks {
			out = append(out, map[string]any{k: m[k]})
		}
		return out
	case 2:
		// a string value in two halves, a nested map key by key
		if len(ks) == 0 {
			return []map[string]any{{}}
		}
		var out []map[string]any
		for _, k := range ks {
			if v, ok := m[k].(string); ok {
				h := len(v) / 2
				out = append(out, map[string]any{k: v[:h]}, map[string]any{k: v[h:]})
				continue
			}
			for _, c := range perKey(m[k]) {
				out = append(out, map[string]any{k: c})
			}
		}
		return out
	case 3:
		return []map[string]any{{}, m, {}}
	}
	return []map[string]any{m}
}

func splitVal(pol int, y any) []any {
	switch t := y.(type) {
	case string:
		ss := splitStr(pol, t)
		out := make([]any, len(ss))
		for i, s := range ss {
			out[i] = s
		}
		return out
	case map[string]any:
		ms := splitMap(pol, t)
		out := make([]any, len(ms))
		for i, m := range ms {
			out[i] = m
		}
		return out
	}
	panic("harness: bad value")
}

// conv hands a value of the harness (string, map[string]any) over at the static type O of
// a lambda: as it is, or as a map[string]string when the lambda is declared with that type
func conv[O any](y any) O {
	if v, ok := y.(O); ok {
		return v
	}
	if m, ok := y.(map[string]any); ok {
		if _, named := any(*new(O)).(NMap); named {
			return any(NMap(m)).(O)
		}
		ms := make(map[string]string, len(m))
		for k, v := range m {
			ms[k] = v.(string)
		}
		return any(ms).(O)
	}
	panic(fmt.Sprintf("harness: cannot hand %T over as %T", y, *new(O)))
}

// ---------------------------------------------------------------- specs

type NSpec struct {
	ID   int     `json:"id"`
	Kind int     `json:"kind"` // 0 s->s, 1 m->s, 2 s->m, 3 m->m (a rendering under one key), 4 m->m (the input map itself under one key)
	K1   int     `json:"k1"`
	K2   int     `json:"k2"`
	Nat  [4]bool `json:"nat"` // I S C T
	Pol  int     `json:"pol"`
	Fail int     `json:"fail"` // 0 none, 1 call time, 2 error item mid-stream
	Live bool    `json:"live"` // T native forwards chunk by chunk
	Pipe int     `json:"pipe"` // 0 array-backed output, n>0 Pipe of capacity n-1 fed by a goroutine
	// AnyOut: the lambda's static output type is any (interface); the values stay strings / maps.
	// Its outgoing edges then carry a run-time type check of the type the consumers were
	// declared with: AnyMap (map[string]any) or string. AnyMap != outMap() is a deliberate
	// dynamic type error.
	AnyOut bool `json:"anyout,omitempty"`
	AnyMap bool `json:"anymap,omitempty"`
	// TOut / TIn: the lambda's static map type is map[string]string instead of map[string]any
	// (output of the kinds 2 and 3 under an output key; input of the kinds 1 and 3 behind an
	// input key whose value is such a map). What the node computes does not depend on it.
	TOut bool `json:"tout,omitempty"`
	TIn  bool `json:"tin,omitempty"`
	// NOut / NIn: the lambda's static map type is the named type NMap (underlying map[string]any)
	NOut bool `json:"nout,omitempty"`
	NIn  bool `json:"nin,omitempty"`
	// Spare: an array-backed output stream is built over a slice with that much spare capacity
	// (a slice grown with append); copies of an array-backed stream share the slice
	Spare int `json:"spare,omitempty"`
}

// the type the consumers of the node see
func (sp *NSpec) seenOutMap() bool {
	if sp.AnyOut {
		return sp.AnyMap
	}
	return sp.outMap()
}

func (sp *NSpec) tag() string  { return fmt.Sprintf("n%d", sp.ID) }
func (sp *NSpec) inMap() bool  { return sp.Kind == 1 || sp.Kind == 3 || sp.Kind == 4 }
func (sp *NSpec) outMap() bool { return sp.Kind == 2 || sp.Kind == 3 || sp.Kind == 4 }
func (sp *NSpec) isLive() bool { return sp.Live && (sp.Kind == 0 || sp.Kind == 2 || sp.Kind == 4) }

var errNode = errors.New("node chosen to fail")

func fSpec(sp *NSpec, x any) (any, error) {
	if sp.Kind == 4 {
		// the input map as it is (whatever its Go type) under the key
		return map[string]any{keyStr(sp.K1): x}, nil
	}
	x = norm(x)
	switch sp.Kind {
	case 0:
		return sp.tag() + "(" + x.(string) + ")", nil
	case 1:
		return sp.tag() + "{" + render(x.(map[string]any)) + "}", nil
	case 2:
		s := x.(string)
		m := map[string]any{}
		m[keyStr(sp.K1)] = sp.tag() + "<" + s
		if old, ok := m[keyStr(sp.K2)]; ok { // k1 == k2 never generated; mirror ins anyway
			m[keyStr(sp.K2)] = old.(string) + s + ">"
		} else {
			m[keyStr(sp.K2)] = s + ">"
		}
		return m, nil
	case 3:
		return map[string]any{keyStr(sp.K1): sp.tag() + "{" + render(x.(map[string]any)) + "}"}, nil
	}
	return nil, errors.New("bad kind")
}

type sitem struct {
	v   any
	err error
}

func emit(sp *NSpec, y any) []sitem {
	cs := []any{y} // kind 4: one chunk
	if sp.Kind != 4 {
		cs = splitVal(sp.Pol, y)
	}
	var out []sitem
	if sp.Fail == 2 {
		for _, c := range cs[:(len(cs)+1)/2] {
			out = append(out, sitem{v: c})
		}
		return append(out, sitem{err: errNode})
	}
	for _, c := range cs {
		out = append(out, sitem{v: c})
	}
	return out
}

// ---------------------------------------------------------------- call recorder

type recorder struct {
	mu    sync.Mutex
	calls map[int][]string
}

func (r *recorder) reset() {
	r.mu.Lock()
	r.calls = map[int][]string{}
	r.mu.Unlock()
}
// every call of a paradigm records into a sink of its own, carried by the call's context: when a run
// fails, eino returns at the first failed task and the tasks still in flight finish on their own
// goroutines - what they call belongs to THAT call, not to whichever call the harness makes next
// (thorough tier, seed 1: a node of a failed Transform call was recorded in the Invoke call on the second input)
type recSinkKey struct{}

func (r *recorder) newCall(ctx context.Context) (context.Context, *recorder) {
	sink := &recorder{calls: map[int][]string{}}
	return context.WithValue(ctx, recSinkKey{}, sink), sink
}

func (r *recorder) add(ctx context.Context, id int, l string) {
	if sink, ok := ctx.Value(recSinkKey{}).(*recorder); ok {
		r = sink
	}
	r.mu.Lock()
	if r.calls == nil {
		r.calls = map[int][]string{}
	}
	r.calls[id] = append(r.calls[id], l)
	r.mu.Unlock()
}
func (r *recorder) snapshot() map[int][]string {
	r.mu.Lock()
	defer r.mu.Unlock()
	out := map[int][]string{}
	for k, v := range r.calls {
		out[k] = append([]string(nil), v...)
	}
	return out
}

// ---------------------------------------------------------------- typed streams

func mkStream[O any](items []sitem, pipe int, spare int) *schema.StreamReader[O] {
	hasErr := false
	for _, it := range items {
		if it.err != nil {
			hasErr = true
		}
	}
	if pipe == 0 && !hasErr {
		arr := make([]O, 0, len(items)+spare)
		for _, it := range items {
			arr = append(arr, conv[O](it.v))
		}
		return schema.StreamReaderFromArray(arr)
	}
	c := pipe - 1
	if c < 0 {
		c = 0
	}
	sr, sw := schema.Pipe[O](c)
	go func() {
		defer sw.Close()
		for _, it := range items {
			var v O
			if it.err == nil {
				v = conv[O](it.v)
			}
			if sw.Send(v, it.err) {
				return
			}
		}
	}()
	return sr
}

func readAll[I any](in *schema.StreamReader[I]) ([]any, error) {
	defer in.Close()
	var out []any
	for {
		c, err := in.Recv()
		if err == io.EOF {
			return out, nil
		}
		if err != nil {
			return out, err
		}
		out = append(out, any(c))
	}
}

// the four native implementations of a harness node (nil where not implemented)
func natives[I, O any](sp *NSpec, rec *recorder) (compose.Invoke[I, O, any], compose.Stream[I, O, any],
	compose.Collect[I, O, any], compose.Transform[I, O, any]) {

	var zero O
	var fi compose.Invoke[I, O, any]
	var fs compose.Stream[I, O, any]
	var fc compose.Collect[I, O, any]
	var ft compose.Transform[I, O, any]

	if sp.Nat[0] {
		fi = func(ctx context.Context, in I, _ ...any) (O, error) {
			rec.add(ctx, sp.ID, "I")
			if sp.Fail != 0 {
				return zero, errNode
			}
			y, err := fSpec(sp, any(in))
			if err != nil {
				return zero, err
			}
			return conv[O](y), nil
		}
	}
	if sp.Nat[1] {
		fs = func(ctx context.Context, in I, _ ...any) (*schema.StreamReader[O], error) {
			rec.add(ctx, sp.ID, "S")
			if sp.Fail == 1 {
				return nil, errNode
			}
			y, err := fSpec(sp, any(in))
			if err != nil {
				return nil, err
			}
			return mkStream[O](emit(sp, y), sp.Pipe, sp.Spare), nil
		}
	}
	if sp.Nat[2] {
		fc = func(ctx context.Context, in *schema.StreamReader[I], _ ...any) (O, error) {
			rec.add(ctx, sp.ID, "C")
			cs, err := readAll(in)
			if sp.Fail != 0 {
				return zero, errNode
			}
			if err != nil {
				return zero, err
			}
			x, err := concatAny(cs)
			if err != nil {
				return zero, err
			}
			y, err := fSpec(sp, x)
			if err != nil {
				return zero, err
			}
			return conv[O](y), nil
		}
	}
	if sp.Nat[3] {
		ft = func(ctx context.Context, in *schema.StreamReader[I], _ ...any) (*schema.StreamReader[O], error) {
			rec.add(ctx, sp.ID, "T")
			if sp.Fail == 1 {
				in.Close()
				return nil, errNode
			}
			c := sp.Pipe - 1
			if c < 0 {
				c = 0
			}
			sr, sw := schema.Pipe[O](c)
			if sp.isLive() {
				go liveT[I, O](sp, in, sw)
				return sr, nil
			}
			go func() {
				defer sw.Close()
				cs, err := readAll(in)
				if err != nil {
					sw.Send(zero, err)
					return
				}
				x, err := concatAny(cs)
				if err != nil {
					sw.Send(zero, err)
					return
				}
				y, err := fSpec(sp, x)
				if err != nil {
					sw.Send(zero, err)
					return
				}
				for _, it := range emit(sp, y) {
					var v O
					if it.err == nil {
						v = conv[O](it.v)
					}
					if sw.Send(v, it.err) {
						return
					}
				}
			}()
			return sr, nil
		}
	}
	return fi, fs, fc, ft
}

// chunk-by-chunk transformer for the string-input kinds: prefix, every input chunk
// forwarded as it arrives, suffix.
func liveT[I, O any](sp *NSpec, in *schema.StreamReader[I], sw *schema.StreamWriter[O]) {
	defer sw.Close()
	defer in.Close()
	var zero O
	if sp.Kind == 4 {
		// every map chunk goes out under the key, up to the first error item
		if sp.Fail == 2 {
			sw.Send(zero, errNode)
			return
		}
		for {
			c, err := in.Recv()
			if err == io.EOF {
				return
			}
			if err != nil {
				sw.Send(zero, err)
				return
			}
			if sw.Send(conv[O](map[string]any{keyStr(sp.K1): any(c)}), nil) {
				return
			}
		}
	}
	var pre, suf any
	if sp.Kind == 0 {
		pre, suf = sp.tag()+"(", ")"
	} else {
		pre, suf = map[string]any{keyStr(sp.K1): sp.tag() + "<"}, map[string]any{keyStr(sp.K2): ">"}
	}
	if sw.Send(conv[O](pre), nil) {
		return
	}
	if sp.Fail == 2 {
		sw.Send(zero, errNode)
		return
	}
	for {
		c, err := in.Recv()
		if err == io.EOF {
			break
		}
		if err != nil {
			sw.Send(zero, err)
			return
		}
		s := any(c).(string)
		var out any = s
		if sp.Kind != 0 {
			m := map[string]any{keyStr(sp.K1): s}
			if old, ok := m[keyStr(sp.K2)]; ok {
				m[keyStr(sp.K2)] = old.(string) + s
			} else {
				m[keyStr(sp.K2)] = s
			}
			out = m
		}
		if sw.Send(conv[O](out), nil) {
			return
		}
	}
	sw.Send(conv[O](suf), nil)
}

func mkLambdaT[I, O any](sp *NSpec, rec *recorder) *compose.Lambda {
	fi, fs, fc, ft := natives[I, O](sp, rec)
	// a lambda with one native goes through its dedicated public constructor half of the time
	if natCount(sp.Nat) == 1 && sp.ID%2 == 0 {
		switch {
		case fi != nil:
			return compose.InvokableLambda(func(ctx context.Context, in I) (O, error) { return fi(ctx, in) })
		case fs != nil:
			return compose.StreamableLambda(func(ctx context.Context, in I) (*schema.StreamReader[O], error) { return fs(ctx, in) })
		case fc != nil:
			return compose.CollectableLambda(func(ctx context.Context, in *schema.StreamReader[I]) (O, error) { return fc(ctx, in) })
		default:
			return compose.TransformableLambda(func(ctx context.Context, in *schema.StreamReader[I]) (*schema.StreamReader[O], error) {
				return ft(ctx, in)
			})
		}
	}
	l, err := compose.AnyLambda(fi, fs, fc, ft)
	if err != nil {
		panic(err)
	}
	return l
}

func mkLambdaI[I any](sp *NSpec, rec *recorder) *compose.Lambda {
	switch {
	case sp.AnyOut:
		return mkLambdaT[I, any](sp, rec)
	case !sp.outMap():
		return mkLambdaT[I, string](sp, rec)
	case sp.TOut:
		return mkLambdaT[I, map[string]string](sp, rec)
	case sp.NOut:
		return mkLambdaT[I, NMap](sp, rec)
	}
	return mkLambdaT[I, map[string]any](sp, rec)
}

func mkLambda(sp *NSpec, rec *recorder) *compose.Lambda {
	switch {
	case !sp.inMap():
		return mkLambdaI[string](sp, rec)
	case sp.TIn:
		return mkLambdaI[map[string]string](sp, rec)
	case sp.NIn:
		return mkLambdaI[NMap](sp, rec)
	}
	return mkLambdaI[map[string]any](sp, rec)
}
