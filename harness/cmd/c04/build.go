// Engine C04 — from a generated program to a compiled eino graph (through the Graph API, a
// Workflow with field mappings, or a Chain), and the type-erased
// runner that calls its four paradigms.
package main

import (
	"context"
	"errors"
	"fmt"
	"io"
	"sync/atomic"
	"time"

	"github.com/cloudwego/eino/callbacks"
	"github.com/cloudwego/eino/compose"
	"github.com/cloudwego/eino/schema"

	"verif/harness/lib"
)

type CSpec struct {
	ID      int  `json:"id"`
	Collect bool `json:"collect"` // NewStreamGraphBranch (Collect native) instead of NewGraphBranch (Invoke native)
	Fail    bool `json:"fail"`
	Bound   int  `json:"bound,omitempty"` // loop condition: run the body again while the value is shorter than this
}

type Wrap struct {
	Pre  *NSpec `json:"pre,omitempty"` // state pre-handler: Nat = {I} (StatePreHandler) or {T} (StreamStatePreHandler)
	In   *int   `json:"in,omitempty"`
	Out  *int   `json:"out,omitempty"`
	Post *NSpec `json:"post,omitempty"`
}

// FEntry is one field mapping into a map-typed input: the predecessor's whole output
// (From nil: ToField) or its field From (MapFields) goes to field To.
type FEntry struct {
	From *int `json:"from,omitempty"`
	To   int  `json:"to"`
}

// FMap is the field mapping carried by the data edges that leave a node (Workflow only):
// To (the successor's input is a map) or Take (FromField: the successor's input is that field).
type FMap struct {
	To      []FEntry `json:"to,omitempty"`
	Take    *int     `json:"take,omitempty"`
	TakeMap bool     `json:"takemap,omitempty"` // Take: the field holds a (nested) map, the successor's input is a map
	// Path: ONE mapping with nested paths (FromFieldPath / ToFieldPath / MapFieldPaths); To and Take are unused
	Path *FPath `json:"path,omitempty"`

	mapValued bool // generator's note for the distribution: some MapFields source holds a map
}

// FPath is a mapping from the path From of the predecessor's output (empty: the whole output) to the
// path To of the successor's input (empty: the whole input); at least one of them has two or more steps.
type FPath struct {
	From    []int `json:"from,omitempty"`
	To      []int `json:"to,omitempty"`
	TakeMap bool  `json:"takemap,omitempty"` // To empty: the value taken is a (nested) map
}

func fieldPath(ks []int) compose.FieldPath {
	var fp compose.FieldPath
	for _, k := range ks {
		fp = append(fp, keyStr(k))
	}
	return fp
}

type Prog struct {
	Op      string  `json:"op"` // node | seq | par | branch | sub | loop (Graph API, any-predecessor mode: C = condition, Kids[0] = body) | skip (empty branch alternative, Graph API)
	W       *Wrap   `json:"w,omitempty"`
	N       *NSpec  `json:"n,omitempty"`
	C       *CSpec  `json:"c,omitempty"`
	ID      int     `json:"id,omitempty"` // sub: node key
	Kids    []*Prog `json:"kids,omitempty"`
	DAG     bool    `json:"dag,omitempty"`     // sub: trigger mode of the nested graph
	Front   string  `json:"front,omitempty"`   // sub: how the nested graph is built ("" = Graph API, wf, chain)
	OutMap  *FMap   `json:"outmap,omitempty"`  // node | sub, Workflow only: mapping on the outgoing data edges
	PassMap bool    `json:"passmap,omitempty"` // pass (AddPassthroughNode, key ID): the type passing through is a map

	passKeys []int // generator's note: the keys a map picked by a keyed passthrough node (W.In) is known to carry
}

func (f *FMap) mappings() []*compose.FieldMapping {
	if f == nil {
		return nil
	}
	if f.Path != nil {
		switch {
		case len(f.Path.To) == 0:
			return []*compose.FieldMapping{compose.FromFieldPath(fieldPath(f.Path.From))}
		case len(f.Path.From) == 0:
			return []*compose.FieldMapping{compose.ToFieldPath(fieldPath(f.Path.To))}
		}
		return []*compose.FieldMapping{compose.MapFieldPaths(fieldPath(f.Path.From), fieldPath(f.Path.To))}
	}
	if f.Take != nil {
		return []*compose.FieldMapping{compose.FromField(keyStr(*f.Take))}
	}
	var out []*compose.FieldMapping
	for _, e := range f.To {
		if e.From == nil {
			out = append(out, compose.ToField(keyStr(e.To)))
		} else {
			out = append(out, compose.MapFields(keyStr(*e.From), keyStr(e.To)))
		}
	}
	return out
}

// static types: false = string, true = map[string]any
func (p *Prog) inMap() bool {
	switch p.Op {
	case "direct":
		return true
	case "pass":
		if p.W != nil && p.W.In != nil {
			return true
		}
		return p.PassMap
	case "node":
		if p.W != nil && p.W.In != nil {
			return true
		}
		return p.N.inMap()
	case "sub":
		if p.W != nil && p.W.In != nil {
			return true
		}
		return p.Kids[0].inMap()
	default:
		return p.Kids[0].inMap()
	}
}

// type of the value the successors of p receive
func (p *Prog) outMap() bool {
	if p.OutMap != nil {
		if p.OutMap.Path != nil {
			return len(p.OutMap.Path.To) > 0 || p.OutMap.Path.TakeMap
		}
		if p.OutMap.Take != nil {
			return p.OutMap.TakeMap
		}
		return true
	}
	return p.rawOutMap()
}

// type of the value p itself produces (before any field mapping on its outgoing edges)
func (p *Prog) rawOutMap() bool {
	switch p.Op {
	case "direct":
		return true
	case "pass":
		if p.W != nil && p.W.Out != nil {
			return true
		}
		return p.PassMap
	case "node":
		if p.W != nil && p.W.Out != nil {
			return true
		}
		return p.N.seenOutMap()
	case "sub":
		if p.W != nil && p.W.Out != nil {
			return true
		}
		return p.Kids[0].outMap()
	case "seq":
		return p.Kids[len(p.Kids)-1].outMap()
	case "par", "multi":
		return true
	default:
		return p.Kids[0].outMap()
	}
}

// (min, max) number of nodes on a path through p
func (p *Prog) plen() (int, int) {
	switch p.Op {
	case "node", "sub", "pass":
		return 1, 1
	case "skip", "direct":
		return 0, 0
	case "loop":
		return p.Kids[0].plen()
	case "seq":
		a, b := 0, 0
		for _, k := range p.Kids {
			x, y := k.plen()
			a, b = a+x, b+y
		}
		return a, b
	default:
		a, b := 1<<30, 0
		for _, k := range p.Kids {
			x, y := k.plen()
			if x < a {
				a = x
			}
			if y > b {
				b = y
			}
		}
		return a, b
	}
}

// in any-predecessor (Pregel) mode a fan-in fires once per superstep in which something
// arrives, so the generator only uses that mode when all paths into every fan-in have the
// same length.
func (p *Prog) balanced() bool {
	switch p.Op {
	case "node", "skip", "pass", "direct":
		return true
	case "loop":
		return p.Kids[0].balanced()
	case "sub":
		return true // own graph, own mode
	case "par", "multi":
		l := -1
		for _, k := range p.Kids {
			a, b := k.plen()
			if a != b || (l >= 0 && a != l) || !k.balanced() {
				return false
			}
			l = a
		}
		return true
	default:
		for _, k := range p.Kids {
			if !k.balanced() {
				return false
			}
		}
		return true
	}
}

func (p *Prog) walk(f func(*Prog)) {
	f(p)
	for _, k := range p.Kids {
		k.walk(f)
	}
}

// ---------------------------------------------------------------- graph construction

type gAPI interface {
	AddPassthroughNode(key string, opts ...compose.GraphAddNodeOpt) error
	AddLambdaNode(key string, node *compose.Lambda, opts ...compose.GraphAddNodeOpt) error
	AddGraphNode(key string, node compose.AnyGraph, opts ...compose.GraphAddNodeOpt) error
	AddEdge(startNode, endNode string) error
	AddBranch(startNode string, branch *compose.GraphBranch) error
}

type gstate struct{ N int }

func genState(ctx context.Context) *gstate { return &gstate{} }

func handlerOpt(h *NSpec, isMap bool, pre bool, rec *recorder) compose.GraphAddNodeOpt {
	if isMap {
		return handlerOptT[map[string]any](h, pre, rec)
	}
	return handlerOptT[string](h, pre, rec)
}

func handlerOptT[T any](h *NSpec, pre bool, rec *recorder) compose.GraphAddNodeOpt {
	fi, _, _, ft := natives[T, T](h, rec)
	if h.Nat[3] {
		f := func(ctx context.Context, in *schema.StreamReader[T], st *gstate) (*schema.StreamReader[T], error) {
			st.N++
			return ft(ctx, in)
		}
		if pre {
			return compose.WithStreamStatePreHandler(f)
		}
		return compose.WithStreamStatePostHandler(f)
	}
	f := func(ctx context.Context, in T, st *gstate) (T, error) {
		st.N++
		return fi(ctx, in)
	}
	if pre {
		return compose.WithStatePreHandler(f)
	}
	return compose.WithStatePostHandler(f)
}

// state handlers of a passthrough node: eino declares them for `any` (the node has no type of its own);
// the value passing through is a string or a map[string]any
func passHandlerOpt(h *NSpec, isMap bool, pre bool, rec *recorder) compose.GraphAddNodeOpt {
	if isMap {
		return passHandlerOptT[map[string]any](h, pre, rec)
	}
	return passHandlerOptT[string](h, pre, rec)
}

func passHandlerOptT[T any](h *NSpec, pre bool, rec *recorder) compose.GraphAddNodeOpt {
	fi, _, _, ft := natives[T, T](h, rec)
	typed := func(x any) (T, error) {
		v, ok := x.(T)
		if !ok {
			return v, fmt.Errorf("harness: handler of a passthrough node received %T", x)
		}
		return v, nil
	}
	if h.Nat[3] {
		f := func(ctx context.Context, in *schema.StreamReader[any], st *gstate) (*schema.StreamReader[any], error) {
			st.N++
			out, err := ft(ctx, schema.StreamReaderWithConvert(in, typed))
			if err != nil {
				return nil, err
			}
			return schema.StreamReaderWithConvert(out, func(x T) (any, error) { return x, nil }), nil
		}
		if pre {
			return compose.WithStreamStatePreHandler(f)
		}
		return compose.WithStreamStatePostHandler(f)
	}
	f := func(ctx context.Context, in any, st *gstate) (any, error) {
		st.N++
		v, err := typed(in)
		if err != nil {
			return nil, err
		}
		return fi(ctx, v)
	}
	if pre {
		return compose.WithStatePreHandler(f)
	}
	return compose.WithStatePostHandler(f)
}

// passOpts: the state handlers (W.Pre / W.Post) or the key (W.In: the passthrough node picks its value out of a
// map, its type is the one of its successor; W.Out: it puts what it receives under a key) of a passthrough node
func (p *Prog) passOpts(rec *recorder) []compose.GraphAddNodeOpt {
	var opts []compose.GraphAddNodeOpt
	if p.W == nil {
		return nil
	}
	if p.W.In != nil {
		opts = append(opts, compose.WithInputKey(keyStr(*p.W.In)))
	}
	if p.W.Out != nil {
		opts = append(opts, compose.WithOutputKey(keyStr(*p.W.Out)))
	}
	if p.W.Pre != nil {
		opts = append(opts, passHandlerOpt(p.W.Pre, p.PassMap, true, rec))
	}
	if p.W.Post != nil {
		opts = append(opts, passHandlerOpt(p.W.Post, p.PassMap, false, rec))
	}
	return opts
}

func (p *Prog) wrapOpts(rec *recorder) []compose.GraphAddNodeOpt { return p.wrapOptsNoOut(rec, false) }

// dropOut: the output key is given to the front end itself (Parallel.AddLambda(outputKey, ...))
func (p *Prog) wrapOptsNoOut(rec *recorder, dropOut bool) []compose.GraphAddNodeOpt {
	var opts []compose.GraphAddNodeOpt
	w := p.W
	if w == nil {
		return nil
	}
	if w.In != nil {
		opts = append(opts, compose.WithInputKey(keyStr(*w.In)))
	}
	if w.Out != nil && !dropOut {
		opts = append(opts, compose.WithOutputKey(keyStr(*w.Out)))
	}
	if w.Pre != nil {
		opts = append(opts, handlerOpt(w.Pre, p.inMap(), true, rec))
	}
	if w.Post != nil {
		opts = append(opts, handlerOpt(w.Post, p.rawOutMap(), false, rec))
	}
	return opts
}

func nodeKey(id int) string { return fmt.Sprintf("n%d", id) }

// compile options of a nested graph (Graph API front end only: trigger mode, step budget for loops)
func (p *Prog) subCompileOpts() []compose.GraphAddNodeOpt {
	if p.Front != "" {
		return nil
	}
	var copts []compose.GraphCompileOption
	if p.DAG {
		copts = append(copts, compose.WithNodeTriggerMode(compose.AllPredecessor))
	} else if p.Kids[0].hasLoop() {
		copts = append(copts, compose.WithMaxRunSteps(maxLoopSteps))
	}
	if len(copts) == 0 {
		return nil
	}
	return []compose.GraphAddNodeOpt{compose.WithGraphCompileOptions(copts...)}
}

// generous: a loop ends after at most Bound rounds (every node makes the value longer)
const maxLoopSteps = 5000

func mkBranch(c *CSpec, isMap bool, targets []string, rec *recorder) *compose.GraphBranch {
	if isMap {
		return mkBranchT[map[string]any](c, targets, rec)
	}
	return mkBranchT[string](c, targets, rec)
}

func mkBranchT[T any](c *CSpec, targets []string, rec *recorder) *compose.GraphBranch {
	ends := map[string]bool{}
	for _, t := range targets {
		ends[t] = true
	}
	pick := func(x any) (string, error) {
		if c.Fail {
			return "", errNode
		}
		return targets[sizeVal(x)%len(targets)], nil
	}
	if c.Collect {
		return compose.NewStreamGraphBranch(func(ctx context.Context, in *schema.StreamReader[T]) (string, error) {
			rec.add(ctx, c.ID, "C")
			cs, err := readAll(in)
			if err != nil {
				return "", err
			}
			x, err := concatAny(cs)
			if err != nil {
				return "", err
			}
			return pick(x)
		}, ends)
	}
	return compose.NewGraphBranch(func(ctx context.Context, in T) (string, error) {
		rec.add(ctx, c.ID, "I")
		return pick(any(in))
	}, ends)
}

func mkMultiBranch(c *CSpec, isMap bool, targets []string, rec *recorder) *compose.GraphBranch {
	if isMap {
		return mkMultiBranchT[map[string]any](c, targets, rec)
	}
	return mkMultiBranchT[string](c, targets, rec)
}

// the condition selects a non-empty set of alternatives: bit i of 1 + size mod (2^n - 1)
func mkMultiBranchT[T any](c *CSpec, targets []string, rec *recorder) *compose.GraphBranch {
	ends := map[string]bool{}
	for _, t := range targets {
		ends[t] = true
	}
	pick := func(x any) (map[string]bool, error) {
		if c.Fail {
			return nil, errNode
		}
		mask := 1 + sizeVal(x)%((1<<uint(len(targets)))-1)
		sel := map[string]bool{}
		for i, t := range targets {
			if mask&(1<<uint(i)) != 0 {
				sel[t] = true
			}
		}
		return sel, nil
	}
	if c.Collect {
		return compose.NewStreamGraphMultiBranch(func(ctx context.Context, in *schema.StreamReader[T]) (map[string]bool, error) {
			rec.add(ctx, c.ID, "C")
			cs, err := readAll(in)
			if err != nil {
				return nil, err
			}
			x, err := concatAny(cs)
			if err != nil {
				return nil, err
			}
			return pick(x)
		}, ends)
	}
	return compose.NewGraphMultiBranch(func(ctx context.Context, in T) (map[string]bool, error) {
		rec.add(ctx, c.ID, "I")
		return pick(any(in))
	}, ends)
}

// build adds p to g. from = predecessors to connect (nil: the caller connects the returned
// entries itself). Returns entry and exit node keys.
// loops of the graph under construction: the exit node of a loop body reaches its
// successor (and the body's entry) through the loop's branch, not through an edge
type loopInfo struct {
	c       *CSpec
	entry   string
	exit    string
	targets []string
}

// a branch one of whose alternatives is empty: that alternative's target is whatever the
// branch re-joins at (the next node, or END), known only when that is connected
type skipBranch struct {
	from    string
	c       *CSpec
	isMap   bool
	targets []string // "" at the empty alternative
	hole    []string
}

type loopBuild struct {
	byExit map[string]*loopInfo
	all    []*loopInfo
	skipOf map[string]*skipBranch // pseudo exit key of the empty alternative
	skips  []*skipBranch
}

func (lb *loopBuild) edge(g gAPI, from, to string) error {
	if li := lb.byExit[from]; li != nil {
		li.targets = append(li.targets, to)
		return nil
	}
	if sb := lb.skipOf[from]; sb != nil {
		sb.hole = append(sb.hole, to)
		return nil
	}
	return g.AddEdge(from, to)
}

func (lb *loopBuild) finish(g gAPI, rec *recorder) error {
	for _, sb := range lb.skips {
		if len(sb.hole) != 1 {
			return errors.New("harness: a branch with an empty alternative needs exactly one join node")
		}
		targets := append([]string(nil), sb.targets...)
		for i, t := range targets {
			if t == "" {
				targets[i] = sb.hole[0]
			}
		}
		if err := g.AddBranch(sb.from, mkBranch(sb.c, sb.isMap, targets, rec)); err != nil {
			return err
		}
	}
	for _, li := range lb.all {
		if len(li.targets) != 1 {
			return errors.New("harness: a loop needs exactly one successor")
		}
		if err := g.AddBranch(li.exit, mkLoopBranch(li.c, li.entry, li.targets[0], rec)); err != nil {
			return err
		}
	}
	return nil
}

func mkLoopBranch(c *CSpec, entry, next string, rec *recorder) *compose.GraphBranch {
	ends := map[string]bool{entry: true, next: true}
	pick := func(x any) (string, error) {
		if c.Fail {
			return "", errNode
		}
		if sizeVal(x) < c.Bound {
			return entry, nil
		}
		return next, nil
	}
	if c.Collect {
		return compose.NewStreamGraphBranch(func(ctx context.Context, in *schema.StreamReader[string]) (string, error) {
			rec.add(ctx, c.ID, "C")
			cs, err := readAll(in)
			if err != nil {
				return "", err
			}
			x, err := concatAny(cs)
			if err != nil {
				return "", err
			}
			return pick(x)
		}, ends)
	}
	return compose.NewGraphBranch(func(ctx context.Context, in string) (string, error) {
		rec.add(ctx, c.ID, "I")
		return pick(any(in))
	}, ends)
}

func (p *Prog) hasLoop() bool {
	found := false
	p.walkOwn(func(q *Prog) {
		if q.Op == "loop" {
			found = true
		}
	})
	return found
}

// walkOwn: like walk, without descending into nested graphs
func (p *Prog) walkOwn(f func(*Prog)) {
	f(p)
	if p.Op == "sub" {
		return
	}
	for _, k := range p.Kids {
		k.walkOwn(f)
	}
}

func build(g gAPI, p *Prog, from []string, rec *recorder, lb *loopBuild) (entries, exits []string, err error) {
	connect := func(key string) error {
		for _, f := range from {
			if e := lb.edge(g, f, key); e != nil {
				return e
			}
		}
		return nil
	}
	switch p.Op {
	case "direct":
		// a kid of a fan-out that is no node at all: the predecessors are connected to the
		// fan-in node themselves (next to the paths through the other kids)
		return nil, from, nil
	case "pass":
		key := nodeKey(p.ID)
		if err = g.AddPassthroughNode(key, p.passOpts(rec)...); err != nil {
			return
		}
		return []string{key}, []string{key}, connect(key)
	case "node":
		key := nodeKey(p.N.ID)
		if err = g.AddLambdaNode(key, mkLambda(p.N, rec), p.wrapOpts(rec)...); err != nil {
			return
		}
		return []string{key}, []string{key}, connect(key)
	case "sub":
		key := nodeKey(p.ID)
		var sub compose.AnyGraph
		sub, err = newGraph(p.Kids[0], p.Front, rec)
		if err != nil {
			return
		}
		opts := p.wrapOpts(rec)
		opts = append(opts, p.subCompileOpts()...)
		if err = g.AddGraphNode(key, sub, opts...); err != nil {
			return
		}
		return []string{key}, []string{key}, connect(key)
	case "seq":
		cur := from
		for i, k := range p.Kids {
			var en, ex []string
			en, ex, err = build(g, k, cur, rec, lb)
			if err != nil {
				return
			}
			if i == 0 {
				entries = en
			}
			cur = ex
		}
		return entries, cur, nil
	case "par":
		for _, k := range p.Kids {
			var en, ex []string
			en, ex, err = build(g, k, from, rec, lb)
			if err != nil {
				return
			}
			entries = append(entries, en...)
			exits = append(exits, ex...)
		}
		return
	case "loop":
		var en, ex []string
		en, ex, err = build(g, p.Kids[0], from, rec, lb)
		if err != nil {
			return
		}
		if len(en) != 1 || len(ex) != 1 {
			return nil, nil, errors.New("harness: a loop body needs one entry and one exit node")
		}
		li := &loopInfo{c: p.C, entry: en[0], exit: ex[0]}
		lb.byExit[ex[0]] = li
		lb.all = append(lb.all, li)
		return en, ex, nil
	case "multi":
		if len(from) != 1 || lb.byExit[from[0]] != nil {
			return nil, nil, errors.New("harness: a branch needs exactly one predecessor (not a loop exit)")
		}
		var targets []string
		for _, k := range p.Kids {
			var en, ex []string
			en, ex, err = build(g, k, nil, rec, lb)
			if err != nil {
				return
			}
			if len(en) != 1 {
				return nil, nil, errors.New("harness: a branch alternative needs exactly one entry")
			}
			targets = append(targets, en[0])
			exits = append(exits, ex...)
		}
		err = g.AddBranch(from[0], mkMultiBranch(p.C, p.inMap(), targets, rec))
		return nil, exits, err
	case "branch":
		if len(from) != 1 || lb.byExit[from[0]] != nil {
			return nil, nil, errors.New("harness: a branch needs exactly one predecessor (not a loop exit)")
		}
		var targets []string
		var sb *skipBranch
		for _, k := range p.Kids {
			if k.Op == "skip" {
				if sb != nil {
					return nil, nil, errors.New("harness: one empty alternative per branch")
				}
				sb = &skipBranch{from: from[0], c: p.C, isMap: p.inMap()}
				marker := fmt.Sprintf("skip#%d", p.C.ID)
				if lb.skipOf == nil {
					lb.skipOf = map[string]*skipBranch{}
				}
				lb.skipOf[marker] = sb
				lb.skips = append(lb.skips, sb)
				targets = append(targets, "")
				exits = append(exits, marker)
				continue
			}
			var en, ex []string
			en, ex, err = build(g, k, nil, rec, lb)
			if err != nil {
				return
			}
			if len(en) != 1 {
				return nil, nil, errors.New("harness: a branch alternative needs exactly one entry")
			}
			targets = append(targets, en[0])
			exits = append(exits, ex...)
		}
		if sb != nil {
			sb.targets = targets
			return nil, exits, nil
		}
		err = g.AddBranch(from[0], mkBranch(p.C, p.inMap(), targets, rec))
		return nil, exits, err
	}
	return nil, nil, errors.New("harness: bad op " + p.Op)
}

func newGraph(p *Prog, front string, rec *recorder) (compose.AnyGraph, error) {
	switch {
	case !p.inMap() && !p.outMap():
		g, _, err := newAnyT[string, string](p, front, rec)
		return g, err
	case p.inMap() && !p.outMap():
		g, _, err := newAnyT[map[string]any, string](p, front, rec)
		return g, err
	case !p.inMap() && p.outMap():
		g, _, err := newAnyT[string, map[string]any](p, front, rec)
		return g, err
	default:
		g, _, err := newAnyT[map[string]any, map[string]any](p, front, rec)
		return g, err
	}
}

type compilable[I, O any] interface {
	Compile(ctx context.Context, opts ...compose.GraphCompileOption) (compose.Runnable[I, O], error)
}

// newAnyT builds p through the chosen front end: the Graph API, a Workflow or a Chain.
func newAnyT[I, O any](p *Prog, front string, rec *recorder) (compose.AnyGraph, compilable[I, O], error) {
	switch front {
	case "wf":
		wf := compose.NewWorkflow[I, O](compose.WithGenLocalState(genState))
		_, exits, err := buildWF(wf, p, []exitRef{{key: compose.START}}, rec)
		if err != nil {
			return nil, nil, err
		}
		end := wf.End()
		for _, e := range exits {
			end.AddInput(e.key, e.maps...)
		}
		return wf, wf, nil
	case "chain":
		ch := compose.NewChain[I, O](compose.WithGenLocalState(genState))
		if err := buildChain(ch, p, rec); err != nil {
			return nil, nil, err
		}
		return ch, ch, nil
	}
	g, gg, err := newGraphT[I, O](p, rec)
	return g, gg, err
}

// ---------------------------------------------------------------- Workflow front end

type wfAPI interface {
	AddPassthroughNode(key string, opts ...compose.GraphAddNodeOpt) *compose.WorkflowNode
	AddLambdaNode(key string, lambda *compose.Lambda, opts ...compose.GraphAddNodeOpt) *compose.WorkflowNode
	AddGraphNode(key string, graph compose.AnyGraph, opts ...compose.GraphAddNodeOpt) *compose.WorkflowNode
	AddBranch(fromNodeKey string, branch *compose.GraphBranch) *compose.WorkflowBranch
}

// a predecessor to take the input from, with the field mappings of that data edge
type exitRef struct {
	key  string
	maps []*compose.FieldMapping
}

// buildWF adds p to the workflow; every entry node takes its input from all of `from`.
// viaBranch: the entries are the end nodes of a branch on from[0] (data without a direct
// execution dependency: the branch is the dependency).
func buildWF(wf wfAPI, p *Prog, from []exitRef, rec *recorder) (entries []string, exits []exitRef, err error) {
	return buildWF2(wf, p, from, false, rec)
}

func buildWF2(wf wfAPI, p *Prog, from []exitRef, viaBranch bool, rec *recorder) (entries []string, exits []exitRef, err error) {
	connect := func(n *compose.WorkflowNode) {
		for _, f := range from {
			if viaBranch {
				n.AddInputWithOptions(f.key, f.maps, compose.WithNoDirectDependency())
			} else {
				n.AddInput(f.key, f.maps...)
			}
		}
	}
	switch p.Op {
	case "pass":
		key := nodeKey(p.ID)
		connect(wf.AddPassthroughNode(key, p.passOpts(rec)...))
		return []string{key}, []exitRef{{key, nil}}, nil
	case "node":
		key := nodeKey(p.N.ID)
		connect(wf.AddLambdaNode(key, mkLambda(p.N, rec), p.wrapOpts(rec)...))
		return []string{key}, []exitRef{{key, p.OutMap.mappings()}}, nil
	case "sub":
		key := nodeKey(p.ID)
		var sub compose.AnyGraph
		sub, err = newGraph(p.Kids[0], p.Front, rec)
		if err != nil {
			return
		}
		opts := p.wrapOpts(rec)
		opts = append(opts, p.subCompileOpts()...)
		connect(wf.AddGraphNode(key, sub, opts...))
		return []string{key}, []exitRef{{key, p.OutMap.mappings()}}, nil
	case "seq":
		cur := from
		for i, k := range p.Kids {
			var en []string
			var ex []exitRef
			en, ex, err = buildWF2(wf, k, cur, viaBranch && i == 0, rec)
			if err != nil {
				return
			}
			if i == 0 {
				entries = en
			}
			cur = ex
		}
		return entries, cur, nil
	case "par":
		for _, k := range p.Kids {
			var en []string
			var ex []exitRef
			en, ex, err = buildWF2(wf, k, from, viaBranch, rec)
			if err != nil {
				return
			}
			entries = append(entries, en...)
			exits = append(exits, ex...)
		}
		return
	case "branch":
		if len(from) != 1 || from[0].maps != nil {
			return nil, nil, errors.New("harness: a workflow branch needs exactly one unmapped predecessor")
		}
		var targets []string
		for _, k := range p.Kids {
			var en []string
			var ex []exitRef
			en, ex, err = buildWF2(wf, k, from, true, rec)
			if err != nil {
				return
			}
			if len(en) != 1 {
				return nil, nil, errors.New("harness: a branch alternative needs exactly one entry")
			}
			targets = append(targets, en[0])
			exits = append(exits, ex...)
		}
		wf.AddBranch(from[0].key, mkBranch(p.C, p.inMap(), targets, rec))
		return nil, exits, nil
	}
	return nil, nil, errors.New("harness: bad op " + p.Op)
}

// ---------------------------------------------------------------- Chain front end

// buildChain appends the stages of p (a chain-shaped program: nodes, nested graphs,
// parallels of keyed single nodes, branches of single nodes) to ch.
func buildChain[I, O any](ch *compose.Chain[I, O], p *Prog, rec *recorder) error {
	stages := []*Prog{p}
	if p.Op == "seq" {
		stages = p.Kids
	}
	nodeOpts := func(q *Prog, dropOut bool) ([]compose.GraphAddNodeOpt, error) {
		opts := q.wrapOptsNoOut(rec, dropOut)
		opts = append(opts, compose.WithNodeKey(nodeKeyOf(q)))
		if q.Op == "sub" {
			opts = append(opts, q.subCompileOpts()...)
		}
		return opts, nil
	}
	single := func(q *Prog) (l *compose.Lambda, g compose.AnyGraph, err error) {
		switch q.Op {
		case "node":
			return mkLambda(q.N, rec), nil, nil
		case "sub":
			g, err = newGraph(q.Kids[0], q.Front, rec)
			return nil, g, err
		}
		return nil, nil, errors.New("harness: not a single chain node: " + q.Op)
	}
	for _, st := range stages {
		switch st.Op {
		case "pass":
			ch.AppendPassthrough(append([]compose.GraphAddNodeOpt{compose.WithNodeKey(nodeKey(st.ID))}, st.passOpts(rec)...)...)
		case "node", "sub":
			l, g, err := single(st)
			if err != nil {
				return err
			}
			opts, _ := nodeOpts(st, false)
			if l != nil {
				ch.AppendLambda(l, opts...)
			} else {
				ch.AppendGraph(g, opts...)
			}
		case "par":
			par := compose.NewParallel()
			for _, k := range st.Kids {
				if k.W == nil || k.W.Out == nil {
					return errors.New("harness: a chain parallel node needs an output key")
				}
				l, g, err := single(k)
				if err != nil {
					return err
				}
				opts, _ := nodeOpts(k, true)
				if l != nil {
					par.AddLambda(keyStr(*k.W.Out), l, opts...)
				} else {
					par.AddGraph(keyStr(*k.W.Out), g, opts...)
				}
			}
			ch.AppendParallel(par)
		case "branch":
			var names []string
			for i := range st.Kids {
				names = append(names, fmt.Sprintf("alt%d", i))
			}
			cb := mkChainBranch(st.C, st.inMap(), names, rec)
			for i, k := range st.Kids {
				l, g, err := single(k)
				if err != nil {
					return err
				}
				opts, _ := nodeOpts(k, false)
				if l != nil {
					cb.AddLambda(names[i], l, opts...)
				} else {
					cb.AddGraph(names[i], g, opts...)
				}
			}
			ch.AppendBranch(cb)
		default:
			return errors.New("harness: bad chain stage " + st.Op)
		}
	}
	return nil
}

func nodeKeyOf(q *Prog) string {
	if q.Op == "sub" {
		return nodeKey(q.ID)
	}
	return nodeKey(q.N.ID)
}

func mkChainBranch(c *CSpec, isMap bool, names []string, rec *recorder) *compose.ChainBranch {
	if isMap {
		return mkChainBranchT[map[string]any](c, names, rec)
	}
	return mkChainBranchT[string](c, names, rec)
}

func mkChainBranchT[T any](c *CSpec, names []string, rec *recorder) *compose.ChainBranch {
	pick := func(x any) (string, error) {
		if c.Fail {
			return "", errNode
		}
		return names[sizeVal(x)%len(names)], nil
	}
	if c.Collect {
		return compose.NewStreamChainBranch(func(ctx context.Context, in *schema.StreamReader[T]) (string, error) {
			rec.add(ctx, c.ID, "C")
			cs, err := readAll(in)
			if err != nil {
				return "", err
			}
			x, err := concatAny(cs)
			if err != nil {
				return "", err
			}
			return pick(x)
		})
	}
	return compose.NewChainBranch(func(ctx context.Context, in T) (string, error) {
		rec.add(ctx, c.ID, "I")
		return pick(any(in))
	})
}

func newGraphT[I, O any](p *Prog, rec *recorder) (compose.AnyGraph, *compose.Graph[I, O], error) {
	g := compose.NewGraph[I, O](compose.WithGenLocalState(genState))
	lb := &loopBuild{byExit: map[string]*loopInfo{}}
	_, exits, err := build(g, p, []string{compose.START}, rec, lb)
	if err != nil {
		return nil, nil, err
	}
	for _, e := range exits {
		if err := lb.edge(g, e, compose.END); err != nil {
			return nil, nil, err
		}
	}
	if err := lb.finish(g, rec); err != nil {
		return nil, nil, err
	}
	return g, g, nil
}

// ---------------------------------------------------------------- calling the four paradigms

// outcome of one paradigm call
type POut struct {
	Class  string `json:"class"`            // ok | err-call | err-item | panic | hang
	Val    *V     `json:"val,omitempty"`    // ok: the value (streams concatenated with eino's concatStreamReader)
	Chunks []*V   `json:"chunks,omitempty"` // Stream / Transform: the chunks received before EOF / the error item
	Msg    string `json:"msg,omitempty"`
	calls  map[int][]string
	raw    []any // what the caller was handed: the value (Invoke, Collect) or the chunks (Stream, Transform)
}

func (o POut) ok() bool { return o.Class == "ok" }

type runner interface {
	call(par int, x any, chunks []any) POut
}

type runnerT[I, O any] struct {
	r   compose.Runnable[I, O]
	rec *recorder
	cb  bool // every call carries a callback handler that drains the stream copies it is given
}

// drainHandler observes every timing; stream inputs / outputs are read to the end (or to the
// first error item) on a goroutine of their own and closed.
func drainHandler() callbacks.Handler {
	return callbacks.NewHandlerBuilder().
		OnStartFn(func(ctx context.Context, info *callbacks.RunInfo, in callbacks.CallbackInput) context.Context {
			return ctx
		}).
		OnEndFn(func(ctx context.Context, info *callbacks.RunInfo, out callbacks.CallbackOutput) context.Context {
			return ctx
		}).
		OnErrorFn(func(ctx context.Context, info *callbacks.RunInfo, err error) context.Context { return ctx }).
		OnStartWithStreamInputFn(func(ctx context.Context, info *callbacks.RunInfo, in *schema.StreamReader[callbacks.CallbackInput]) context.Context {
			go func() {
				defer in.Close()
				for {
					if _, err := in.Recv(); err != nil {
						return
					}
				}
			}()
			return ctx
		}).
		OnEndWithStreamOutputFn(func(ctx context.Context, info *callbacks.RunInfo, out *schema.StreamReader[callbacks.CallbackOutput]) context.Context {
			go func() {
				defer out.Close()
				for {
					if _, err := out.Recv(); err != nil {
						return
					}
				}
			}()
			return ctx
		}).Build()
}

const watchdog = 10 * time.Second

// a call that has not returned after the watchdog period is given a second, longer period before
// it is called a hang (the machine may be heavily loaded: slowness is no observation); once a
// hang has been confirmed in this process the short period applies to the remaining cases, so
// that an implementation that hangs often does not stall the run.
const watchdogGrace = 50 * time.Second

var hangConfirmed atomic.Bool

// guarded runs f with panic recovery and a watchdog.
func guarded(f func() POut) POut {
	done := make(chan POut, 1)
	go func() {
		var out POut
		if p := lib.Recover(func() { out = f() }); p != nil {
			out = POut{Class: "panic", Msg: fmt.Sprint(p)}
		}
		done <- out
	}()
	select {
	case o := <-done:
		return o
	case <-time.After(watchdog):
	}
	if !hangConfirmed.Load() {
		select {
		case o := <-done:
			return o
		case <-time.After(watchdogGrace):
		}
		hangConfirmed.Store(true)
	}
	return POut{Class: "hang"}
}

func drain[O any](sr *schema.StreamReader[O]) ([]O, error) {
	defer sr.Close()
	var out []O
	for {
		c, err := sr.Recv()
		if err == io.EOF {
			return out, nil
		}
		if err != nil {
			return out, err
		}
		out = append(out, c)
	}
}

func streamOut[O any](sr *schema.StreamReader[O], err error) POut {
	if err != nil {
		return POut{Class: "err-call", Msg: err.Error()}
	}
	cs, err := drain(sr)
	o := POut{}
	for _, c := range cs {
		o.Chunks = append(o.Chunks, fromGo(any(c)))
		o.raw = append(o.raw, any(c))
	}
	if err != nil {
		o.Class, o.Msg = "err-item", err.Error()
		return o
	}
	// the delivered chunks are concatenated by the harness's own rule (concatAny: strings appended,
	// maps key by key, recursively) - eino's concatStreamReader is part of what is being checked;
	// its answer on the same chunks must be the same
	v, err := concatAny(o.raw)
	if err != nil {
		// a stream without any chunk does not concatenate: not a value
		o.Class, o.Msg = "err-item", "concat of the output stream: "+err.Error()
		return o
	}
	o.Class, o.Val = "ok", fromGo(v)
	if ev, eerr := compose.VerifConcatStreamReader(schema.StreamReaderFromArray(cs)); eerr != nil {
		o.Class, o.Msg = "err-item", "eino's concatenation of the delivered chunks fails: "+eerr.Error()
	} else if !vEqual(fromGo(any(ev)), o.Val) {
		o.Class, o.Msg = "err-item", fmt.Sprintf("eino's concatenation of the delivered chunks gives %s, chunk by chunk they give %s", js(fromGo(any(ev))), js(o.Val))
	}
	return o
}

func valueOut(v any, err error) POut {
	if err != nil {
		return POut{Class: "err-call", Msg: err.Error()}
	}
	return POut{Class: "ok", Val: fromGo(v), raw: []any{v}}
}

// the caller's chunks, in a slice with spare capacity (the stream over it is array-backed)
func typedChunks[I any](chunks []any) []I {
	out := make([]I, 0, len(chunks)+2)
	for _, c := range chunks {
		out = append(out, conv[I](c))
	}
	return out
}

func (r runnerT[I, O]) call(par int, x any, chunks []any) POut {
	ctx, sink := r.rec.newCall(context.Background())
	var opts []compose.Option
	if r.cb {
		opts = append(opts, compose.WithCallbacks(drainHandler()))
	}
	o := guarded(func() POut {
		switch par {
		case 0:
			v, err := r.r.Invoke(ctx, x.(I), opts...)
			return valueOut(any(v), err)
		case 1:
			return streamOut(r.r.Stream(ctx, x.(I), opts...))
		case 2:
			v, err := r.r.Collect(ctx, schema.StreamReaderFromArray(typedChunks[I](chunks)), opts...)
			return valueOut(any(v), err)
		default:
			return streamOut(r.r.Transform(ctx, schema.StreamReaderFromArray(typedChunks[I](chunks)), opts...))
		}
	})
	o.calls = sink.snapshot()
	return o
}

func compileT[I, O any](p *Prog, front string, dag bool, cb bool, rec *recorder) (runner, error) {
	_, g, err := newAnyT[I, O](p, front, rec)
	if err != nil {
		return nil, err
	}
	var opts []compose.GraphCompileOption
	if dag && front == "" {
		opts = append(opts, compose.WithNodeTriggerMode(compose.AllPredecessor))
	} else if front == "" && p.hasLoop() {
		opts = append(opts, compose.WithMaxRunSteps(maxLoopSteps))
	}
	r, err := g.Compile(context.Background(), opts...)
	if err != nil {
		return nil, err
	}
	return runnerT[I, O]{r: r, rec: rec, cb: cb}, nil
}

func compile(p *Prog, front string, dag bool, cb bool, rec *recorder) (runner, error) {
	switch {
	case !p.inMap() && !p.outMap():
		return compileT[string, string](p, front, dag, cb, rec)
	case p.inMap() && !p.outMap():
		return compileT[map[string]any, string](p, front, dag, cb, rec)
	case !p.inMap() && p.outMap():
		return compileT[string, map[string]any](p, front, dag, cb, rec)
	default:
		return compileT[map[string]any, map[string]any](p, front, dag, cb, rec)
	}
}

// the four views of one packed lambda (hook compose.VerifPack)
type packRunner[I, O any] struct {
	i   compose.Invoke[I, O, any]
	s   compose.Stream[I, O, any]
	c   compose.Collect[I, O, any]
	t   compose.Transform[I, O, any]
	rec *recorder
}

func (r packRunner[I, O]) call(par int, x any, chunks []any) POut {
	ctx, sink := r.rec.newCall(context.Background())
	o := guarded(func() POut {
		switch par {
		case 0:
			v, err := r.i(ctx, conv[I](x))
			return valueOut(any(v), err)
		case 1:
			return streamOut(r.s(ctx, conv[I](x)))
		case 2:
			v, err := r.c(ctx, schema.StreamReaderFromArray(typedChunks[I](chunks)))
			return valueOut(any(v), err)
		default:
			return streamOut(r.t(ctx, schema.StreamReaderFromArray(typedChunks[I](chunks))))
		}
	})
	o.calls = sink.snapshot()
	return o
}

func packT[I, O any](sp *NSpec, rec *recorder) runner {
	fi, fs, fc, ft := natives[I, O](sp, rec)
	i, s, c, t := c04Pack(fi, fs, fc, ft)
	return packRunner[I, O]{i, s, c, t, rec}
}

func packI[I any](sp *NSpec, rec *recorder) runner {
	switch {
	case sp.AnyOut:
		return packT[I, any](sp, rec)
	case !sp.outMap():
		return packT[I, string](sp, rec)
	case sp.TOut:
		return packT[I, map[string]string](sp, rec)
	case sp.NOut:
		return packT[I, NMap](sp, rec)
	}
	return packT[I, map[string]any](sp, rec)
}

func pack(sp *NSpec, rec *recorder) runner {
	switch {
	case !sp.inMap():
		return packI[string](sp, rec)
	case sp.TIn:
		return packI[map[string]string](sp, rec)
	case sp.NIn:
		return packI[NMap](sp, rec)
	}
	return packI[map[string]any](sp, rec)
}
