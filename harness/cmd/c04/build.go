// Engine C04 — from a generated program to a compiled eino graph, and the type-erased
// runner that calls its four paradigms.
package main

import (
	"context"
	"errors"
	"fmt"
	"io"
	"time"

	"github.com/cloudwego/eino/compose"
	"github.com/cloudwego/eino/schema"

	"verif/harness/lib"
)

type CSpec struct {
	ID      int  `json:"id"`
	Collect bool `json:"collect"` // NewStreamGraphBranch (Collect native) instead of NewGraphBranch (Invoke native)
	Fail    bool `json:"fail"`
}

type Wrap struct {
	Pre  *NSpec `json:"pre,omitempty"` // state pre-handler: Nat = {I} (StatePreHandler) or {T} (StreamStatePreHandler)
	In   *int   `json:"in,omitempty"`
	Out  *int   `json:"out,omitempty"`
	Post *NSpec `json:"post,omitempty"`
}

type Prog struct {
	Op   string  `json:"op"` // node | seq | par | branch | sub
	W    *Wrap   `json:"w,omitempty"`
	N    *NSpec  `json:"n,omitempty"`
	C    *CSpec  `json:"c,omitempty"`
	ID   int     `json:"id,omitempty"` // sub: node key
	Kids []*Prog `json:"kids,omitempty"`
	DAG  bool    `json:"dag,omitempty"` // sub: trigger mode of the nested graph
}

// static types: false = string, true = map[string]any
func (p *Prog) inMap() bool {
	switch p.Op {
	case "node":
		if p.W != nil && p.W.In != nil {
			return true
		}
		return p.N.inMap()
	case "sub":
		if p.W != nil && p.W.In != nil {
			return true
		}
		return p.Kids[0].inMap()
	default:
		return p.Kids[0].inMap()
	}
}

func (p *Prog) outMap() bool {
	switch p.Op {
	case "node":
		if p.W != nil && p.W.Out != nil {
			return true
		}
		return p.N.outMap()
	case "sub":
		if p.W != nil && p.W.Out != nil {
			return true
		}
		return p.Kids[0].outMap()
	case "seq":
		return p.Kids[len(p.Kids)-1].outMap()
	case "par":
		return true
	default:
		return p.Kids[0].outMap()
	}
}

// (min, max) number of nodes on a path through p
func (p *Prog) plen() (int, int) {
	switch p.Op {
	case "node", "sub":
		return 1, 1
	case "seq":
		a, b := 0, 0
		for _, k := range p.Kids {
			x, y := k.plen()
			a, b = a+x, b+y
		}
		return a, b
	default:
		a, b := 1<<30, 0
		for _, k := range p.Kids {
			x, y := k.plen()
			if x < a {
				a = x
			}
			if y > b {
				b = y
			}
		}
		return a, b
	}
}

// in any-predecessor (Pregel) mode a fan-in fires once per superstep in which something
// arrives, so the generator only uses that mode when all paths into every fan-in have the
// same length.
func (p *Prog) balanced() bool {
	switch p.Op {
	case "node":
		return true
	case "sub":
		return true // own graph, own mode
	case "par":
		l := -1
		for _, k := range p.Kids {
			a, b := k.plen()
			if a != b || (l >= 0 && a != l) || !k.balanced() {
				return false
			}
			l = a
		}
		return true
	default:
		for _, k := range p.Kids {
			if !k.balanced() {
				return false
			}
		}
		return true
	}
}

func (p *Prog) walk(f func(*Prog)) {
	f(p)
	for _, k := range p.Kids {
		k.walk(f)
	}
}

// ---------------------------------------------------------------- graph construction

type gAPI interface {
	AddLambdaNode(key string, node *compose.Lambda, opts ...compose.GraphAddNodeOpt) error
	AddGraphNode(key string, node compose.AnyGraph, opts ...compose.GraphAddNodeOpt) error
	AddEdge(startNode, endNode string) error
	AddBranch(startNode string, branch *compose.GraphBranch) error
}

type gstate struct{ N int }

func genState(ctx context.Context) *gstate { return &gstate{} }

func handlerOpt(h *NSpec, isMap bool, pre bool, rec *recorder) compose.GraphAddNodeOpt {
	if isMap {
		return handlerOptT[map[string]any](h, pre, rec)
	}
	return handlerOptT[string](h, pre, rec)
}

func handlerOptT[T any](h *NSpec, pre bool, rec *recorder) compose.GraphAddNodeOpt {
	fi, _, _, ft := natives[T, T](h, rec)
	if h.Nat[3] {
		f := func(ctx context.Context, in *schema.StreamReader[T], st *gstate) (*schema.StreamReader[T], error) {
			st.N++
			return ft(ctx, in)
		}
		if pre {
			return compose.WithStreamStatePreHandler(f)
		}
		return compose.WithStreamStatePostHandler(f)
	}
	f := func(ctx context.Context, in T, st *gstate) (T, error) {
		st.N++
		return fi(ctx, in)
	}
	if pre {
		return compose.WithStatePreHandler(f)
	}
	return compose.WithStatePostHandler(f)
}

func (p *Prog) wrapOpts(rec *recorder) []compose.GraphAddNodeOpt {
	var opts []compose.GraphAddNodeOpt
	w := p.W
	if w == nil {
		return nil
	}
	if w.In != nil {
		opts = append(opts, compose.WithInputKey(keyStr(*w.In)))
	}
	if w.Out != nil {
		opts = append(opts, compose.WithOutputKey(keyStr(*w.Out)))
	}
	if w.Pre != nil {
		opts = append(opts, handlerOpt(w.Pre, p.inMap(), true, rec))
	}
	if w.Post != nil {
		opts = append(opts, handlerOpt(w.Post, p.outMap(), false, rec))
	}
	return opts
}

func nodeKey(id int) string { return fmt.Sprintf("n%d", id) }

func mkBranch(c *CSpec, isMap bool, targets []string, rec *recorder) *compose.GraphBranch {
	if isMap {
		return mkBranchT[map[string]any](c, targets, rec)
	}
	return mkBranchT[string](c, targets, rec)
}

func mkBranchT[T any](c *CSpec, targets []string, rec *recorder) *compose.GraphBranch {
	ends := map[string]bool{}
	for _, t := range targets {
		ends[t] = true
	}
	pick := func(x any) (string, error) {
		if c.Fail {
			return "", errNode
		}
		return targets[sizeVal(x)%len(targets)], nil
	}
	if c.Collect {
		return compose.NewStreamGraphBranch(func(ctx context.Context, in *schema.StreamReader[T]) (string, error) {
			rec.add(c.ID, "C")
			cs, err := readAll(in)
			if err != nil {
				return "", err
			}
			x, err := concatAny(cs)
			if err != nil {
				return "", err
			}
			return pick(x)
		}, ends)
	}
	return compose.NewGraphBranch(func(ctx context.Context, in T) (string, error) {
		rec.add(c.ID, "I")
		return pick(any(in))
	}, ends)
}

// build adds p to g. from = predecessors to connect (nil: the caller connects the returned
// entries itself). Returns entry and exit node keys.
func build(g gAPI, p *Prog, from []string, rec *recorder) (entries, exits []string, err error) {
	connect := func(key string) error {
		for _, f := range from {
			if e := g.AddEdge(f, key); e != nil {
				return e
			}
		}
		return nil
	}
	switch p.Op {
	case "node":
		key := nodeKey(p.N.ID)
		if err = g.AddLambdaNode(key, mkLambda(p.N, rec), p.wrapOpts(rec)...); err != nil {
			return
		}
		return []string{key}, []string{key}, connect(key)
	case "sub":
		key := nodeKey(p.ID)
		var sub compose.AnyGraph
		sub, err = newGraph(p.Kids[0], rec)
		if err != nil {
			return
		}
		opts := p.wrapOpts(rec)
		if p.DAG {
			opts = append(opts, compose.WithGraphCompileOptions(compose.WithNodeTriggerMode(compose.AllPredecessor)))
		}
		if err = g.AddGraphNode(key, sub, opts...); err != nil {
			return
		}
		return []string{key}, []string{key}, connect(key)
	case "seq":
		cur := from
		for i, k := range p.Kids {
			var en, ex []string
			en, ex, err = build(g, k, cur, rec)
			if err != nil {
				return
			}
			if i == 0 {
				entries = en
			}
			cur = ex
		}
		return entries, cur, nil
	case "par":
		for _, k := range p.Kids {
			var en, ex []string
			en, ex, err = build(g, k, from, rec)
			if err != nil {
				return
			}
			entries = append(entries, en...)
			exits = append(exits, ex...)
		}
		return
	case "branch":
		if len(from) != 1 {
			return nil, nil, errors.New("harness: a branch needs exactly one predecessor")
		}
		var targets []string
		for _, k := range p.Kids {
			var en, ex []string
			en, ex, err = build(g, k, nil, rec)
			if err != nil {
				return
			}
			if len(en) != 1 {
				return nil, nil, errors.New("harness: a branch alternative needs exactly one entry")
			}
			targets = append(targets, en[0])
			exits = append(exits, ex...)
		}
		err = g.AddBranch(from[0], mkBranch(p.C, p.inMap(), targets, rec))
		return nil, exits, err
	}
	return nil, nil, errors.New("harness: bad op " + p.Op)
}

func newGraph(p *Prog, rec *recorder) (compose.AnyGraph, error) {
	switch {
	case !p.inMap() && !p.outMap():
		g, _, err := newGraphT[string, string](p, rec)
		return g, err
	case p.inMap() && !p.outMap():
		g, _, err := newGraphT[map[string]any, string](p, rec)
		return g, err
	case !p.inMap() && p.outMap():
		g, _, err := newGraphT[string, map[string]any](p, rec)
		return g, err
	default:
		g, _, err := newGraphT[map[string]any, map[string]any](p, rec)
		return g, err
	}
}

func newGraphT[I, O any](p *Prog, rec *recorder) (compose.AnyGraph, *compose.Graph[I, O], error) {
	g := compose.NewGraph[I, O](compose.WithGenLocalState(genState))
	_, exits, err := build(g, p, []string{compose.START}, rec)
	if err != nil {
		return nil, nil, err
	}
	for _, e := range exits {
		if err := g.AddEdge(e, compose.END); err != nil {
			return nil, nil, err
		}
	}
	return g, g, nil
}

// ---------------------------------------------------------------- calling the four paradigms

// outcome of one paradigm call
type POut struct {
	Class  string `json:"class"`            // ok | err-call | err-item | panic | hang
	Val    *V     `json:"val,omitempty"`    // ok: the value (streams concatenated with eino's concatStreamReader)
	Chunks []*V   `json:"chunks,omitempty"` // Stream / Transform: the chunks received before EOF / the error item
	Msg    string `json:"msg,omitempty"`
	calls  map[int][]string
}

func (o POut) ok() bool { return o.Class == "ok" }

type runner interface {
	call(par int, x any, chunks []any) POut
}

type runnerT[I, O any] struct {
	r   compose.Runnable[I, O]
	rec *recorder
}

const watchdog = 10 * time.Second

// guarded runs f with panic recovery and a watchdog.
func guarded(f func() POut) POut {
	done := make(chan POut, 1)
	go func() {
		var out POut
		if p := lib.Recover(func() { out = f() }); p != nil {
			out = POut{Class: "panic", Msg: fmt.Sprint(p)}
		}
		done <- out
	}()
	select {
	case o := <-done:
		return o
	case <-time.After(watchdog):
		return POut{Class: "hang"}
	}
}

func drain[O any](sr *schema.StreamReader[O]) ([]O, error) {
	defer sr.Close()
	var out []O
	for {
		c, err := sr.Recv()
		if err == io.EOF {
			return out, nil
		}
		if err != nil {
			return out, err
		}
		out = append(out, c)
	}
}

func streamOut[O any](sr *schema.StreamReader[O], err error) POut {
	if err != nil {
		return POut{Class: "err-call", Msg: err.Error()}
	}
	cs, err := drain(sr)
	o := POut{}
	for _, c := range cs {
		o.Chunks = append(o.Chunks, fromGo(any(c)))
	}
	if err != nil {
		o.Class, o.Msg = "err-item", err.Error()
		return o
	}
	v, err := compose.VerifConcatStreamReader(schema.StreamReaderFromArray(cs))
	if err != nil {
		// a stream without any chunk does not concatenate: not a value
		o.Class, o.Msg = "err-item", "concat of the output stream: "+err.Error()
		return o
	}
	o.Class, o.Val = "ok", fromGo(any(v))
	return o
}

func valueOut(v any, err error) POut {
	if err != nil {
		return POut{Class: "err-call", Msg: err.Error()}
	}
	return POut{Class: "ok", Val: fromGo(v)}
}

func typedChunks[I any](chunks []any) []I {
	out := make([]I, len(chunks))
	for i, c := range chunks {
		out[i] = c.(I)
	}
	return out
}

func (r runnerT[I, O]) call(par int, x any, chunks []any) POut {
	ctx := context.Background()
	r.rec.reset()
	o := guarded(func() POut {
		switch par {
		case 0:
			v, err := r.r.Invoke(ctx, x.(I))
			return valueOut(any(v), err)
		case 1:
			return streamOut(r.r.Stream(ctx, x.(I)))
		case 2:
			v, err := r.r.Collect(ctx, schema.StreamReaderFromArray(typedChunks[I](chunks)))
			return valueOut(any(v), err)
		default:
			return streamOut(r.r.Transform(ctx, schema.StreamReaderFromArray(typedChunks[I](chunks))))
		}
	})
	o.calls = r.rec.snapshot()
	return o
}

func compileT[I, O any](p *Prog, dag bool, rec *recorder) (runner, error) {
	_, g, err := newGraphT[I, O](p, rec)
	if err != nil {
		return nil, err
	}
	var opts []compose.GraphCompileOption
	if dag {
		opts = append(opts, compose.WithNodeTriggerMode(compose.AllPredecessor))
	}
	r, err := g.Compile(context.Background(), opts...)
	if err != nil {
		return nil, err
	}
	return runnerT[I, O]{r: r, rec: rec}, nil
}

func compile(p *Prog, dag bool, rec *recorder) (runner, error) {
	switch {
	case !p.inMap() && !p.outMap():
		return compileT[string, string](p, dag, rec)
	case p.inMap() && !p.outMap():
		return compileT[map[string]any, string](p, dag, rec)
	case !p.inMap() && p.outMap():
		return compileT[string, map[string]any](p, dag, rec)
	default:
		return compileT[map[string]any, map[string]any](p, dag, rec)
	}
}

// the four views of one packed lambda (hook compose.VerifPack)
type packRunner[I, O any] struct {
	i   compose.Invoke[I, O, any]
	s   compose.Stream[I, O, any]
	c   compose.Collect[I, O, any]
	t   compose.Transform[I, O, any]
	rec *recorder
}

func (r packRunner[I, O]) call(par int, x any, chunks []any) POut {
	ctx := context.Background()
	r.rec.reset()
	o := guarded(func() POut {
		switch par {
		case 0:
			v, err := r.i(ctx, x.(I))
			return valueOut(any(v), err)
		case 1:
			return streamOut(r.s(ctx, x.(I)))
		case 2:
			v, err := r.c(ctx, schema.StreamReaderFromArray(typedChunks[I](chunks)))
			return valueOut(any(v), err)
		default:
			return streamOut(r.t(ctx, schema.StreamReaderFromArray(typedChunks[I](chunks))))
		}
	})
	o.calls = r.rec.snapshot()
	return o
}

func packT[I, O any](sp *NSpec, rec *recorder) runner {
	fi, fs, fc, ft := natives[I, O](sp, rec)
	i, s, c, t := compose.VerifPack(fi, fs, fc, ft)
	return packRunner[I, O]{i, s, c, t, rec}
}

func pack(sp *NSpec, rec *recorder) runner {
	switch sp.Kind {
	case 0:
		return packT[string, string](sp, rec)
	case 1:
		return packT[map[string]any, string](sp, rec)
	case 2:
		return packT[string, map[string]any](sp, rec)
	default:
		return packT[map[string]any, map[string]any](sp, rec)
	}
}
