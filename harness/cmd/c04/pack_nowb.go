//go:build !verif_c04wb

// Engine C04 without its white-box group (the hook compose.VerifPack does not compile against this tree, or the
// sub-tag verif_c04wb was not asked for): the lambda of a pack case becomes the only node of a graph and the
// four PUBLIC entry points of the compiled graph are called.  Inside a graph only the Invoke and the Transform
// view of a node are reachable, so these cases are then compared by the direct oracle only (values of the four
// paradigms), not sent to the model (whose pack cases predict the native used per view and the exact chunks of
// the Stream / Collect views).
package main

import (
	"context"

	"github.com/cloudwego/eino/compose"
	"github.com/cloudwego/eino/schema"
)

const whiteBox = false

func c04Pack[I, O any](fi compose.Invoke[I, O, any], fs compose.Stream[I, O, any], fc compose.Collect[I, O, any],
	ft compose.Transform[I, O, any]) (compose.Invoke[I, O, any], compose.Stream[I, O, any], compose.Collect[I, O, any], compose.Transform[I, O, any]) {
	var r compose.Runnable[I, O]
	l, err := compose.AnyLambda(fi, fs, fc, ft)
	if err == nil {
		g := compose.NewGraph[I, O]()
		if err = g.AddLambdaNode("n", l); err == nil {
			if err = g.AddEdge(compose.START, "n"); err == nil {
				if err = g.AddEdge("n", compose.END); err == nil {
					r, err = g.Compile(context.Background())
				}
			}
		}
	}
	var zero O
	i := func(ctx context.Context, in I, _ ...any) (O, error) {
		if err != nil {
			return zero, err
		}
		return r.Invoke(ctx, in)
	}
	s := func(ctx context.Context, in I, _ ...any) (*schema.StreamReader[O], error) {
		if err != nil {
			return nil, err
		}
		return r.Stream(ctx, in)
	}
	c := func(ctx context.Context, in *schema.StreamReader[I], _ ...any) (O, error) {
		if err != nil {
			return zero, err
		}
		return r.Collect(ctx, in)
	}
	t := func(ctx context.Context, in *schema.StreamReader[I], _ ...any) (*schema.StreamReader[O], error) {
		if err != nil {
			return nil, err
		}
		return r.Transform(ctx, in)
	}
	return i, s, c, t
}
