// Engine C04 — nil results of interface-typed nodes (finding F-C04e, fixed by ff3e750).
//
// nil is a legal value of an interface type: a lambda declared with output type `any` may return
// it, and a graph whose output type is `any` may deliver it.  The chunk universe of the model
// (strings and maps) has no nil, so these cases are compared by the direct oracle only: the four
// paradigms of one compiled object must agree (all deliver nil / the same value, or all fail).
package main

import (
	"context"
	"fmt"

	"github.com/cloudwego/eino/compose"
	"github.com/cloudwego/eino/schema"

	"verif/harness/lib"
)

// NilSpec: where the nil-returning node sits and how it is implemented.
type NilSpec struct {
	// 0 START -> n -> END            1 START -> END (nil input)       2 START -> n -> m -> END (nil in the middle)
	// 3 a nested graph that returns nil, then a consumer                4 the same as 0 in a Workflow
	// 5 n under an output key -> END (the map {k: nil})                 6 the same as 0 in a Chain
	// 7 START -> n -> END and START -> a -> END through output keys (fan-in of a nil and a string)
	// 8 START -> n (output key k) -> m (input key k, input type any) -> END: the nil travels under a key
	// 9 START -> m (input key k, input type any) -> END called with the map {k: nil}
	Shape  int     `json:"shape"`
	Nat    [4]bool `json:"nat"`    // natives of the nil-returning lambda
	NChunk int     `json:"nchunk"` // its S / T natives deliver this many nil chunks (1 or 2)
	DAG    bool    `json:"dag,omitempty"`
	Pipe   bool    `json:"pipe,omitempty"`  // pipe-backed instead of array-backed output stream
	NilIn  bool    `json:"nilin,omitempty"` // the graph is called with a nil input (shapes with input type any)
}

func nilStream(n int, pipe bool) *schema.StreamReader[any] {
	if !pipe {
		return schema.StreamReaderFromArray(make([]any, n))
	}
	sr, sw := schema.Pipe[any](0)
	go func() {
		defer sw.Close()
		for i := 0; i < n; i++ {
			if sw.Send(nil, nil) {
				return
			}
		}
	}()
	return sr
}

func nilLambda(sp *NilSpec, rec *recorder) *compose.Lambda {
	var fi compose.Invoke[any, any, any]
	var fs compose.Stream[any, any, any]
	var fc compose.Collect[any, any, any]
	var ft compose.Transform[any, any, any]
	if sp.Nat[0] {
		fi = func(ctx context.Context, in any, _ ...any) (any, error) { rec.add(ctx, 1, "I"); return nil, nil }
	}
	if sp.Nat[1] {
		fs = func(ctx context.Context, in any, _ ...any) (*schema.StreamReader[any], error) {
			rec.add(ctx, 1, "S")
			return nilStream(sp.NChunk, sp.Pipe), nil
		}
	}
	if sp.Nat[2] {
		fc = func(ctx context.Context, in *schema.StreamReader[any], _ ...any) (any, error) {
			rec.add(ctx, 1, "C")
			if _, err := readAll(in); err != nil {
				return nil, err
			}
			return nil, nil
		}
	}
	if sp.Nat[3] {
		ft = func(ctx context.Context, in *schema.StreamReader[any], _ ...any) (*schema.StreamReader[any], error) {
			rec.add(ctx, 1, "T")
			if _, err := readAll(in); err != nil {
				return nil, err
			}
			return nilStream(sp.NChunk, sp.Pipe), nil
		}
	}
	l, err := compose.AnyLambda(fi, fs, fc, ft)
	if err != nil {
		panic(err)
	}
	return l
}

func showLambda(tag string) *compose.Lambda {
	return compose.InvokableLambda(func(ctx context.Context, x any) (any, error) {
		return fmt.Sprintf("%s(%v)", tag, x), nil
	})
}

func compileNil(sp *NilSpec, rec *recorder) (compose.Runnable[any, any], error) {
	ctx := context.Background()
	var copts []compose.GraphCompileOption
	if sp.DAG {
		copts = append(copts, compose.WithNodeTriggerMode(compose.AllPredecessor))
	}
	plain := func(build func(g *compose.Graph[any, any]) error) (compose.Runnable[any, any], error) {
		g := compose.NewGraph[any, any]()
		if err := build(g); err != nil {
			return nil, err
		}
		return g.Compile(ctx, copts...)
	}
	first := func(errs ...error) error {
		for _, e := range errs {
			if e != nil {
				return e
			}
		}
		return nil
	}
	switch sp.Shape {
	case 0:
		return plain(func(g *compose.Graph[any, any]) error {
			return first(g.AddLambdaNode("n", nilLambda(sp, rec)), g.AddEdge(compose.START, "n"), g.AddEdge("n", compose.END))
		})
	case 1:
		return plain(func(g *compose.Graph[any, any]) error { return g.AddEdge(compose.START, compose.END) })
	case 2:
		return plain(func(g *compose.Graph[any, any]) error {
			return first(g.AddLambdaNode("n", nilLambda(sp, rec)), g.AddLambdaNode("m", showLambda("m")),
				g.AddEdge(compose.START, "n"), g.AddEdge("n", "m"), g.AddEdge("m", compose.END))
		})
	case 3:
		return plain(func(g *compose.Graph[any, any]) error {
			inner := compose.NewGraph[any, any]()
			if err := first(inner.AddLambdaNode("n", nilLambda(sp, rec)), inner.AddEdge(compose.START, "n"), inner.AddEdge("n", compose.END)); err != nil {
				return err
			}
			return first(g.AddGraphNode("sub", inner), g.AddLambdaNode("m", showLambda("m")),
				g.AddEdge(compose.START, "sub"), g.AddEdge("sub", "m"), g.AddEdge("m", compose.END))
		})
	case 4:
		wf := compose.NewWorkflow[any, any]()
		wf.AddLambdaNode("n", nilLambda(sp, rec)).AddInput(compose.START)
		wf.End().AddInput("n")
		return wf.Compile(ctx)
	case 5:
		g := compose.NewGraph[any, map[string]any]()
		if err := first(g.AddLambdaNode("n", nilLambda(sp, rec), compose.WithOutputKey("k")), g.AddEdge(compose.START, "n"), g.AddEdge("n", compose.END)); err != nil {
			return nil, err
		}
		r, err := g.Compile(ctx, copts...)
		if err != nil {
			return nil, err
		}
		return eraseOut[map[string]any]{r}, nil
	case 8:
		return plain(func(g *compose.Graph[any, any]) error {
			return first(g.AddLambdaNode("n", nilLambda(sp, rec), compose.WithOutputKey("k")),
				g.AddLambdaNode("m", showLambda("m"), compose.WithInputKey("k")),
				g.AddEdge(compose.START, "n"), g.AddEdge("n", "m"), g.AddEdge("m", compose.END))
		})
	case 9:
		return plain(func(g *compose.Graph[any, any]) error {
			return first(g.AddLambdaNode("m", showLambda("m"), compose.WithInputKey("k")),
				g.AddEdge(compose.START, "m"), g.AddEdge("m", compose.END))
		})
	case 6:
		ch := compose.NewChain[any, any]()
		ch.AppendLambda(nilLambda(sp, rec))
		return ch.Compile(ctx)
	default:
		g := compose.NewGraph[any, map[string]any]()
		if err := first(g.AddLambdaNode("n", nilLambda(sp, rec), compose.WithOutputKey("k")),
			g.AddLambdaNode("a", showLambda("a"), compose.WithOutputKey("j")),
			g.AddEdge(compose.START, "n"), g.AddEdge(compose.START, "a"),
			g.AddEdge("n", compose.END), g.AddEdge("a", compose.END)); err != nil {
			return nil, err
		}
		r, err := g.Compile(ctx, copts...)
		if err != nil {
			return nil, err
		}
		return eraseOut[map[string]any]{r}, nil
	}
}

// eraseOut presents a Runnable[any, O] as a Runnable[any, any]
type eraseOut[O any] struct{ r compose.Runnable[any, O] }

func (e eraseOut[O]) Invoke(ctx context.Context, in any, opts ...compose.Option) (any, error) {
	return e.r.Invoke(ctx, in, opts...)
}
func (e eraseOut[O]) Collect(ctx context.Context, in *schema.StreamReader[any], opts ...compose.Option) (any, error) {
	return e.r.Collect(ctx, in, opts...)
}
func (e eraseOut[O]) Stream(ctx context.Context, in any, opts ...compose.Option) (*schema.StreamReader[any], error) {
	sr, err := e.r.Stream(ctx, in, opts...)
	if err != nil {
		return nil, err
	}
	return schema.StreamReaderWithConvert(sr, func(o O) (any, error) { return o, nil }), nil
}
func (e eraseOut[O]) Transform(ctx context.Context, in *schema.StreamReader[any], opts ...compose.Option) (*schema.StreamReader[any], error) {
	sr, err := e.r.Transform(ctx, in, opts...)
	if err != nil {
		return nil, err
	}
	return schema.StreamReaderWithConvert(sr, func(o O) (any, error) { return o, nil }), nil
}

// renderAny: a value of these cases for comparison (nil, strings, maps with nil / string values)
func renderAny(x any) string {
	switch t := x.(type) {
	case nil:
		return "<nil>"
	case map[string]any:
		s := "{"
		for _, k := range sortedKeysPlain(t) {
			s += k + ":" + renderAny(t[k]) + ";"
		}
		return s + "}"
	}
	return fmt.Sprintf("%T:%v", x, x)
}

func sortedKeysPlain(m map[string]any) []string {
	ks := make([]string, 0, len(m))
	for k := range m {
		ks = append(ks, k)
	}
	sortStrings(ks)
	return ks
}

func runNil(c *Case) lib.Result {
	sp := c.Nil
	rec := &recorder{}
	rec.reset()
	res := lib.Result{Nontrivial: true}
	type out struct {
		Class string `json:"class"`
		Val   string `json:"val,omitempty"`
		Msg   string `json:"msg,omitempty"`
	}
	obs := struct {
		Err string `json:"err,omitempty"`
		P   [4]out `json:"p"`
	}{}
	r, err := compileNil(sp, rec)
	if err != nil {
		obs.Err = "compile: " + err.Error()
		res.Obs, res.Oracle, res.Sig = obs, obs.Err, "harness-compile"
		return res
	}
	var input any = "x"
	if sp.Shape == 1 || sp.NilIn {
		input = nil
	}
	if sp.Shape == 9 {
		input = map[string]any{"k": nil}
	}
	ctx := context.Background()
	value := func(v any, err error) POut {
		if err != nil {
			return POut{Class: "err-call", Msg: err.Error()}
		}
		return POut{Class: "ok", Msg: renderAny(v)}
	}
	stream := func(sr *schema.StreamReader[any], err error) POut {
		if err != nil {
			return POut{Class: "err-call", Msg: err.Error()}
		}
		cs, err := drain(sr)
		if err != nil {
			return POut{Class: "err-item", Msg: err.Error()}
		}
		v, err := compose.VerifConcatStreamReader(schema.StreamReaderFromArray(cs))
		if err != nil {
			return POut{Class: "err-item", Msg: "concat of the output stream: " + err.Error()}
		}
		return POut{Class: "ok", Msg: renderAny(v)}
	}
	for par := 0; par < 4; par++ {
		p := par
		o := guarded(func() POut {
			switch p {
			case 0:
				return value(r.Invoke(ctx, input))
			case 1:
				return stream(r.Stream(ctx, input))
			case 2:
				return value(r.Collect(ctx, schema.StreamReaderFromArray([]any{input})))
			default:
				return stream(r.Transform(ctx, schema.StreamReaderFromArray([]any{input})))
			}
		})
		obs.P[par] = out{Class: o.Class}
		if o.ok() {
			obs.P[par].Val = o.Msg
		} else {
			obs.P[par].Msg = o.Msg
		}
	}
	res.Obs = obs
	allOK, anyOK := true, false
	for par := 0; par < 4; par++ {
		o := obs.P[par]
		if o.Class == "panic" || o.Class == "hang" {
			res.Oracle = fmt.Sprintf("%s: %s %s", parName[par], o.Class, o.Msg)
			res.Sig = o.Class
		}
		allOK = allOK && o.Class == "ok"
		anyOK = anyOK || o.Class == "ok"
	}
	if res.Oracle == "" && anyOK && !allOK {
		var parts []string
		msg := ""
		for par := 0; par < 4; par++ {
			parts = append(parts, parName[par]+"="+obs.P[par].Class)
			if msg == "" && obs.P[par].Msg != "" {
				msg = obs.P[par].Msg
			}
		}
		res.Oracle = "a failure is reported in some paradigms only (a nil result of an interface-typed node): " + fmt.Sprint(parts) + " | " + msg
		res.Sig = "nil-output:fail-some"
	}
	if res.Oracle == "" && allOK {
		for par := 1; par < 4; par++ {
			if obs.P[par].Val != obs.P[0].Val {
				res.Oracle = fmt.Sprintf("%s delivers %s, Invoke returns %s", parName[par], obs.P[par].Val, obs.P[0].Val)
				res.Sig = "value-differs"
				break
			}
		}
	}
	cls := "fail"
	if allOK {
		cls = "ok"
	} else if anyOK {
		cls = "mixed"
	}
	res.Tags = []string{"kind:nilout", fmt.Sprintf("nilshape:%d", sp.Shape), "nat:" + natStr(sp.Nat), "class:" + cls, fmt.Sprintf("dag:%v", sp.DAG)}
	return res
}
