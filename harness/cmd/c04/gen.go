// Engine C04 — case generator.
package main

import (
	"verif/harness/lib"
)

type gctx struct {
	r        *lib.Rng
	nextID   int
	nextKey  int
	budget   int // nodes still allowed
	maxDepth int
	inject   string
	injected bool
}

func (g *gctx) id() int  { g.nextID++; return g.nextID }
func (g *gctx) key() int { g.nextKey++; return g.nextKey - 1 }

func (g *gctx) natSubset() [4]bool {
	// every non-empty subset, singletons a little more often (they force the most derivation)
	if g.r.Chance(2, 5) {
		var n [4]bool
		n[g.r.Intn(4)] = true
		return n
	}
	m := g.r.Range(1, 15)
	return [4]bool{m&1 != 0, m&2 != 0, m&4 != 0, m&8 != 0}
}

func (g *gctx) nspec(kind int) *NSpec {
	sp := &NSpec{ID: g.id(), Kind: kind, Nat: g.natSubset(), Pol: g.r.Intn(4), Live: g.r.Chance(1, 2), Pipe: g.r.Intn(4)}
	if kind == 2 {
		sp.K1, sp.K2 = g.key(), g.key()
	}
	if kind == 3 {
		sp.K1 = g.key()
	}
	return sp
}

// state handler on a value of the given type: exactly the Invoke native (StatePreHandler /
// StatePostHandler) or exactly the Transform native (StreamState...Handler)
func (g *gctx) handler(isMap bool) *NSpec {
	kind := 0
	if isMap {
		kind = 3
	}
	sp := g.nspec(kind)
	sp.Nat = [4]bool{}
	if g.r.Chance(1, 2) {
		sp.Nat[0] = true
	} else {
		sp.Nat[3] = true
	}
	return sp
}

func kindOf(inMap, outMap bool) int {
	switch {
	case !inMap && !outMap:
		return 0
	case inMap && !outMap:
		return 1
	case !inMap && outMap:
		return 2
	}
	return 3
}

// wrap chooses input/output keys and handlers for a node or nested graph that sits between
// a value of type curT (guaranteed keys curKeys) and a value of type wantT.
// Returns the wrap, the inner input/output types and the guaranteed output keys of the
// wrapper itself (nil = those of the inner object).
func (g *gctx) wrap(curT bool, curKeys []int, wantT bool) (w *Wrap, innerIn, innerOut bool, forcedKeys []int) {
	w = &Wrap{}
	innerIn, innerOut = curT, wantT
	if curT && (len(curKeys) > 0 || g.inject == "nokey") && g.r.Chance(1, 2) {
		var k int
		if g.inject == "nokey" && !g.injected {
			k = g.key() // a key nobody produces
			g.injected = true
		} else if len(curKeys) > 0 {
			k = curKeys[g.r.Intn(len(curKeys))]
		} else {
			k = -1
		}
		if k >= 0 {
			w.In = &k
			innerIn = false
		}
	}
	if wantT && g.r.Chance(1, 2) {
		k := g.key()
		w.Out = &k
		innerOut = false
		forcedKeys = []int{k}
	}
	if g.r.Chance(1, 7) {
		w.Pre = g.handler(curT)
		if curT && w.In != nil {
			// a map->map pre-handler replaces the keys: the input key would be gone
			w.Pre = nil
		}
	}
	if g.r.Chance(1, 7) {
		w.Post = g.handler(wantT)
		if wantT {
			forcedKeys = []int{w.Post.K1}
		}
	}
	if w.Pre == nil && w.In == nil && w.Out == nil && w.Post == nil {
		w = nil
	}
	return
}

type stageOut struct {
	p      *Prog
	keys   []int // keys guaranteed in a map-typed output
	single bool  // exactly one exit node
}

func (g *gctx) genNode(curT bool, curKeys []int, wantT bool) stageOut {
	g.budget--
	w, iin, iout, forced := g.wrap(curT, curKeys, wantT)
	sp := g.nspec(kindOf(iin, iout))
	keys := forced
	if keys == nil {
		switch sp.Kind {
		case 2:
			keys = []int{sp.K1, sp.K2}
		case 3:
			keys = []int{sp.K1}
		}
	}
	return stageOut{&Prog{Op: "node", W: w, N: sp}, keys, true}
}

func (g *gctx) genSub(curT bool, curKeys []int, wantT bool, depth int) stageOut {
	w, iin, iout, forced := g.wrap(curT, curKeys, wantT)
	var innerKeys []int
	if iin && w.InOrNil() == nil {
		innerKeys = curKeys
		if w != nil && w.Pre != nil {
			innerKeys = []int{w.Pre.K1}
		}
	}
	id := g.id()
	inner := g.genSeq(iin, innerKeys, iout, depth+1, g.r.Range(1, 3), false, true)
	keys := forced
	if keys == nil {
		keys = inner.keys
	}
	dag := !inner.p.balanced() || g.r.Chance(1, 2)
	return stageOut{&Prog{Op: "sub", W: w, ID: id, Kids: []*Prog{inner.p}, DAG: dag}, keys, true}
}

func (w *Wrap) InOrNil() *int {
	if w == nil {
		return nil
	}
	return w.In
}

func (g *gctx) genPar(curT bool, curKeys []int, depth int, single bool) stageOut {
	if g.inject == "dupkey" && !g.injected {
		// two sources that emit the same key: out of the property's domain (finding F-C04)
		g.injected = true
		k := g.key()
		var kids []*Prog
		for i := 0; i < 2; i++ {
			g.budget--
			kk := k
			sp := g.nspec(kindOf(curT, false))
			kids = append(kids, &Prog{Op: "node", W: &Wrap{Out: &kk}, N: sp})
		}
		return stageOut{&Prog{Op: "par", Kids: kids}, []int{k}, false}
	}
	n := g.r.Range(2, 3)
	var kids []*Prog
	var keys []int
	for i := 0; i < n; i++ {
		k := g.genSeq(curT, curKeys, true, depth+1, g.r.Range(1, 2), false, single)
		kids = append(kids, k.p)
		keys = append(keys, k.keys...)
	}
	return stageOut{&Prog{Op: "par", Kids: kids}, keys, false}
}

func (g *gctx) genBranch(curT bool, curKeys []int, wantT bool, depth int) stageOut {
	n := g.r.Range(2, 3)
	c := &CSpec{ID: g.id(), Collect: g.r.Chance(1, 2)}
	var kids []*Prog
	var keys map[int]int
	for i := 0; i < n; i++ {
		k := g.genSeq(curT, curKeys, wantT, depth+1, g.r.Range(1, 2), true, true)
		kids = append(kids, k.p)
		if keys == nil {
			keys = map[int]int{}
		}
		for _, key := range k.keys {
			keys[key]++
		}
	}
	var common []int
	for key, cnt := range keys {
		if cnt == n {
			common = append(common, key)
		}
	}
	sortInts(common)
	return stageOut{&Prog{Op: "branch", C: c, Kids: kids}, common, false}
}

func sortInts(a []int) {
	for i := 1; i < len(a); i++ {
		for j := i; j > 0 && a[j] < a[j-1]; j-- {
			a[j], a[j-1] = a[j-1], a[j]
		}
	}
}

// genSeq: nStages stages from a value of type tin (guaranteed keys) to one of type tout.
// altStart: the first stage must have a single entry node and must not be a branch.
// singleIn: the value entering the sequence comes from exactly one node (a branch can only
// be attached to one start node).
func (g *gctx) genSeq(tin bool, keys []int, tout bool, depth int, nStages int, altStart bool, singleIn bool) stageOut {
	var stages []*Prog
	curT, curKeys, single := tin, keys, singleIn
	for i := 0; i < nStages; i++ {
		last := i == nStages-1
		wantT := tout
		if !last {
			wantT = g.r.Chance(1, 2)
		}
		first := i == 0
		var st stageOut
		roll := g.r.Intn(12)
		deep := depth < g.maxDepth && g.budget > 2
		switch {
		case roll < 2 && deep && wantT && !(first && altStart):
			st = g.genPar(curT, curKeys, depth, single)
		case roll < 4 && deep && single && !(first && altStart):
			st = g.genBranch(curT, curKeys, wantT, depth)
		case roll < 5 && deep:
			st = g.genSub(curT, curKeys, wantT, depth)
		default:
			st = g.genNode(curT, curKeys, wantT)
		}
		stages = append(stages, st.p)
		curT, curKeys, single = wantT, st.keys, st.single
		if g.budget <= 0 && !last {
			// out of budget: close the sequence with a plain node of the right type
			if curT != tout || true {
				st = g.genNode(curT, curKeys, tout)
				stages = append(stages, st.p)
				curT, curKeys, single = tout, st.keys, st.single
			}
			break
		}
	}
	if len(stages) == 1 {
		return stageOut{stages[0], curKeys, single}
	}
	return stageOut{&Prog{Op: "seq", Kids: stages}, curKeys, single}
}

var words = []string{"", "a", "hello", "xy z", "0123456789", "q", "Stream", "-", "ab"}

func (g *gctx) genString() string {
	s := ""
	for i, n := 0, g.r.Range(0, 3); i < n; i++ {
		s += words[g.r.Intn(len(words))]
	}
	return s
}

func (g *gctx) genInput(isMap bool) (chunks []*V, keys []int) {
	var x any
	if isMap {
		m := map[string]any{}
		for i, n := 0, g.r.Range(1, 3); i < n; i++ {
			k := g.key()
			keys = append(keys, k)
			m[keyStr(k)] = g.genString()
		}
		x = m
	} else {
		x = g.genString()
	}
	for _, c := range splitVal(g.r.Intn(4), x) {
		chunks = append(chunks, fromGo(c))
	}
	return
}

func (engine) Generate(r *lib.Rng, tier string, i int) any {
	g := &gctx{r: r, budget: 7, maxDepth: 2}
	if tier == "thorough" {
		g.budget, g.maxDepth = 11, 3
	}
	if r.Chance(1, 4) {
		// one packed lambda, all four views
		sp := g.nspec(r.Intn(4))
		if r.Chance(1, 4) {
			sp.Fail = r.Range(1, 2)
		}
		chunks, _ := g.genInput(sp.inMap())
		return &Case{Kind: "pack", Spec: sp, Chunks: chunks}
	}
	switch r.Intn(30) {
	case 0:
		g.inject = "dupkey"
	case 1:
		g.inject = "nokey"
	}
	tin, tout := r.Chance(2, 5), r.Chance(2, 5)
	if g.inject == "dupkey" {
		tout = true
	}
	chunks, keys := g.genInput(tin)
	var st stageOut
	if g.inject == "dupkey" {
		// make sure the shared-key fan-in is there: [stages] ; par{k,k} ; [node]
		head := g.genSeq(tin, keys, r.Chance(1, 2), 1, 1, false, true)
		par := g.genPar(head.p.outMap(), head.keys, 1, head.single)
		stages := []*Prog{head.p, par.p}
		if r.Chance(1, 2) {
			tail := g.genNode(true, par.keys, tout)
			stages = append(stages, tail.p)
		}
		st = stageOut{p: &Prog{Op: "seq", Kids: stages}}
	} else {
		st = g.genSeq(tin, keys, tout, 0, r.Range(1, 4), false, true)
	}
	c := &Case{Kind: "prog", Prog: st.p, Chunks: chunks}
	if g.injected {
		c.Inject = g.inject
	}
	c.DAG = !st.p.balanced() || r.Chance(1, 2)

	// failure: one executable object chosen to fail, at call time or mid-stream
	if r.Chance(1, 5) {
		var specs []*NSpec
		var conds []*CSpec
		st.p.walk(func(q *Prog) {
			if q.N != nil {
				specs = append(specs, q.N)
			}
			if q.W != nil && q.W.Pre != nil {
				specs = append(specs, q.W.Pre)
			}
			if q.W != nil && q.W.Post != nil {
				specs = append(specs, q.W.Post)
			}
			if q.C != nil {
				conds = append(conds, q.C)
			}
		})
		k := r.Intn(len(specs) + len(conds))
		if k < len(specs) {
			specs[k].Fail = r.Range(1, 2)
		} else {
			conds[k-len(specs)].Fail = true
		}
	}
	return c
}
