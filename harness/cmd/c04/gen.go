// Engine C04 — case generator.
package main

import (
	"verif/harness/lib"
)

// kshape: what is known statically about a key whose value is a map itself
type kshape struct {
	typed bool  // the Go type of the nested map is map[string]string
	keys  []int // keys guaranteed in the nested map (their values are strings)
}

type gctx struct {
	kmap     map[int]*kshape // keys (they are never reused) whose value is a nested map
	loops    bool            // cycles allowed (Graph API, any-predecessor mode, top level of the sequence)
	r        *lib.Rng
	nextID   int
	nextKey  int
	budget   int // nodes still allowed
	maxDepth int
	inject   string
	injected bool
}

func (g *gctx) id() int { g.nextID++; return g.nextID }

// nested maps (an output key around a map producer, nested values in the input) are
// generated in every case that does not deliberately leave the property's domain
func (g *gctx) nestOK() bool { return g.inject == "" }

func (g *gctx) setShape(k int, typed bool, keys []int) {
	if g.kmap == nil {
		g.kmap = map[int]*kshape{}
	}
	g.kmap[k] = &kshape{typed: typed, keys: keys}
}

// the keys among ks whose value is a string
func (g *gctx) strKeys(ks []int) []int {
	var out []int
	for _, k := range ks {
		if g.kmap[k] == nil {
			out = append(out, k)
		}
	}
	return out
}
func (g *gctx) key() int { g.nextKey++; return g.nextKey - 1 }

func (g *gctx) natSubset() [4]bool {
	// every non-empty subset, singletons a little more often (they force the most derivation)
	if g.r.Chance(2, 5) {
		var n [4]bool
		n[g.r.Intn(4)] = true
		return n
	}
	m := g.r.Range(1, 15)
	return [4]bool{m&1 != 0, m&2 != 0, m&4 != 0, m&8 != 0}
}

func (g *gctx) nspec(kind int) *NSpec {
	sp := &NSpec{ID: g.id(), Kind: kind, Nat: g.natSubset(), Pol: g.r.Intn(4), Live: g.r.Chance(1, 2), Pipe: g.r.Intn(4), Spare: g.r.Intn(4)}
	if kind == 2 {
		sp.K1, sp.K2 = g.key(), g.key()
	}
	if kind == 3 || kind == 4 {
		sp.K1 = g.key()
	}
	return sp
}

// state handler on a value of the given type: exactly the Invoke native (StatePreHandler /
// StatePostHandler) or exactly the Transform native (StreamState...Handler)
func (g *gctx) handler(isMap bool) *NSpec {
	kind := 0
	if isMap {
		kind = 3
	}
	sp := g.nspec(kind)
	sp.Nat = [4]bool{}
	if g.r.Chance(1, 2) {
		sp.Nat[0] = true
	} else {
		sp.Nat[3] = true
	}
	return sp
}

func kindOf(inMap, outMap bool) int {
	switch {
	case !inMap && !outMap:
		return 0
	case inMap && !outMap:
		return 1
	case !inMap && outMap:
		return 2
	}
	return 3
}

// wrap chooses input/output keys and handlers for a node or nested graph that sits between
// a value of type curT (guaranteed keys curKeys) and a value of type wantT.
// Returns the wrap, the inner input/output types and the guaranteed output keys of the
// wrapper itself (nil = those of the inner object).
type wrapRes struct {
	w       *Wrap
	in, out bool  // inner input / output is a map
	forced  []int // guaranteed output keys of the wrapper itself (nil = those of the inner object)
	inKeys  []int // the input key selects a nested map: its guaranteed keys
	inTyped bool  // ... and that map is a map[string]string
}

// typedIn: the inner object can be declared with a map[string]string input (a lambda, not a graph)
func (g *gctx) wrap(curT bool, curKeys []int, wantT bool, typedIn bool) wrapRes {
	w := &Wrap{}
	res := wrapRes{in: curT, out: wantT}
	cands := curKeys
	if !typedIn {
		cands = nil
		for _, k := range curKeys {
			if sh := g.kmap[k]; sh == nil || !sh.typed {
				cands = append(cands, k)
			}
		}
	}
	if curT && (len(cands) > 0 || g.inject == "nokey") && g.r.Chance(1, 2) {
		var k int
		if g.inject == "nokey" && !g.injected {
			k = g.key() // a key nobody produces
			g.injected = true
		} else if len(cands) > 0 {
			k = cands[g.r.Intn(len(cands))]
		} else {
			k = -1
		}
		if k >= 0 {
			w.In = &k
			res.in = false
			if sh := g.kmap[k]; sh != nil {
				res.in, res.inKeys, res.inTyped = true, sh.keys, sh.typed
			}
		}
	}
	if wantT && g.r.Chance(1, 2) {
		k := g.key()
		w.Out = &k
		// the value under the output key: a string, or (nested) a map again
		res.out = g.nestOK() && g.r.Chance(1, 3)
		res.forced = []int{k}
	}
	if g.r.Chance(1, 7) {
		w.Pre = g.handler(curT)
		if curT && w.In != nil {
			// a map->map pre-handler replaces the keys: the node then reads the handler's key
			if g.inject == "" {
				k := w.Pre.K1
				w.In = &k
				res.in, res.inKeys, res.inTyped = false, nil, false
			} else {
				w.Pre = nil
			}
		}
	}
	if g.r.Chance(1, 7) {
		w.Post = g.handler(wantT)
		if wantT {
			res.forced = []int{w.Post.K1}
		}
	}
	if w.Pre == nil && w.In == nil && w.Out == nil && w.Post == nil {
		w = nil
	}
	res.w = w
	return res
}

type stageOut struct {
	p        *Prog
	keys     []int // keys guaranteed in a map-typed output
	single   bool  // exactly one exit node
	deferred bool  // some exit reaches its successor through a branch (loop exit, empty alternative): the successor must be one node or END
}

func (g *gctx) genNode(curT bool, curKeys []int, wantT bool) stageOut {
	g.budget--
	wr := g.wrap(curT, curKeys, wantT, true)
	w, iin, iout, forced := wr.w, wr.in, wr.out, wr.forced
	kind := kindOf(iin, iout)
	if kind == 3 && g.nestOK() && g.r.Chance(1, 3) {
		kind = 4 // the input map itself under a key: a nested map
	}
	sp := g.nspec(kind)
	sp.TIn = wr.inTyped
	if w == nil || w.Out == nil && w.Post == nil {
		if g.inject == "wrongtype" && !g.injected {
			// the consumers are declared with the other type: a dynamic type error in every paradigm
			g.injected = true
			sp = g.nspec(kindOf(iin, !iout))
			sp.TIn = wr.inTyped
			sp.AnyOut, sp.AnyMap = true, iout
		} else if g.r.Chance(1, 6) {
			sp.AnyOut, sp.AnyMap = true, iout
		}
	}
	var own []int
	switch sp.Kind {
	case 2:
		own = []int{sp.K1, sp.K2}
	case 3:
		own = []int{sp.K1}
	case 4:
		own = []int{sp.K1}
		// what sits under the key: the node's input map
		inner := wr.inKeys
		if w == nil || w.In == nil && w.Pre == nil {
			inner = g.strKeys(curKeys)
		} else if w.Pre != nil {
			inner = []int{w.Pre.K1}
		}
		g.setShape(sp.K1, sp.TIn, inner)
	}
	if w != nil && w.Out != nil && iout {
		// a map under an output key: half of the time the lambda is declared with map[string]string
		// (kind 4 emits a map of maps: map[string]any)
		sp.TOut = sp.Kind != 4 && g.r.Chance(1, 2)
		g.setShape(*w.Out, sp.TOut, own)
	}
	keys := forced
	if keys == nil {
		keys = own
	}
	return stageOut{&Prog{Op: "node", W: w, N: sp}, keys, true, false}
}

func (g *gctx) genSub(curT bool, curKeys []int, wantT bool, depth int) stageOut {
	wr := g.wrap(curT, curKeys, wantT, false)
	w, iin, iout, forced := wr.w, wr.in, wr.out, wr.forced
	var innerKeys []int
	if iin && w.InOrNil() == nil {
		innerKeys = curKeys
		if w != nil && w.Pre != nil {
			innerKeys = []int{w.Pre.K1}
		}
	} else if iin {
		innerKeys = wr.inKeys // the input key selects a nested map
	}
	id := g.id()
	front := ""
	if g.inject == "" {
		switch g.r.Intn(6) {
		case 0, 1:
			front = "wf"
		case 2:
			front = "chain"
		}
	}
	var inner stageOut
	switch front {
	case "wf":
		inner, _ = g.wfSeqTo(iin, innerKeys, depth+1, g.r.Range(1, 3), &iout)
	case "chain":
		inner = g.chainSeqTo(iin, innerKeys, g.r.Range(1, 3), &iout)
	default:
		inner = g.genSeq(iin, innerKeys, iout, depth+1, g.r.Range(1, 3), false, true)
	}
	if w != nil && w.Out != nil && iout {
		g.setShape(*w.Out, false, g.strKeys(inner.keys))
	}
	keys := forced
	if keys == nil {
		keys = inner.keys
	}
	dag := !inner.p.balanced() || g.r.Chance(1, 2)
	return stageOut{&Prog{Op: "sub", W: w, ID: id, Kids: []*Prog{inner.p}, DAG: dag, Front: front}, keys, true, false}
}

// possKeys: the keys a map-typed output of p can carry when its input can carry `in`
// (passthrough nodes and empty branch alternatives hand their input on)
func possKeys(p *Prog, in map[int]bool) map[int]bool {
	out := map[int]bool{}
	add := func(m map[int]bool) {
		for k := range m {
			out[k] = true
		}
	}
	wrapped := func(inner func(in map[int]bool) map[int]bool) {
		w := p.W
		if w != nil && w.Post != nil && w.Post.outMap() {
			out[w.Post.K1] = true
			return
		}
		if w != nil && w.Out != nil {
			out[*w.Out] = true
			return
		}
		if w != nil && (w.In != nil || w.Pre != nil) {
			in = nil
		}
		add(inner(in))
	}
	switch p.Op {
	case "pass":
		if p.W != nil && p.W.In != nil {
			// a keyed passthrough node hands on the map it picks
			for _, k := range p.passKeys {
				out[k] = true
			}
			// and whatever else that map carries: the strings only are known; like a node that hands its input on
			out[-1] = true
			return out
		}
		wrapped(func(in map[int]bool) map[int]bool { return in })
	case "skip", "direct":
		add(in)
	case "node":
		wrapped(func(map[int]bool) map[int]bool {
			switch p.N.Kind {
			case 2:
				return map[int]bool{p.N.K1: true, p.N.K2: true}
			case 3, 4:
				return map[int]bool{p.N.K1: true}
			}
			return nil
		})
	case "sub":
		wrapped(func(in map[int]bool) map[int]bool { return possKeys(p.Kids[0], in) })
	case "seq":
		cur := in
		for _, k := range p.Kids {
			cur = possKeys(k, cur)
		}
		add(cur)
	case "loop":
	default:
		for _, k := range p.Kids {
			add(possKeys(k, in))
		}
	}
	return out
}

// disjointKids replaces every kid of a fan-in whose possible output keys meet those of an
// earlier kid (two passthrough nodes handing the same map on, ...) by a plain node under a
// fresh output key: a shared key is outside the property's domain (finding F-C04) and is
// only produced deliberately (inject dupkey).
func (g *gctx) disjointKids(kids []stageOut, curT bool, curKeys []int) {
	// -1 stands for "whatever else comes in": two kids that hand their input on always clash
	in := map[int]bool{-1: true}
	for _, k := range curKeys {
		in[k] = true
	}
	seen := map[int]bool{}
	for i, kid := range kids {
		ks := possKeys(kid.p, in)
		clash := false
		for k := range ks {
			if seen[k] {
				clash = true
			}
		}
		if clash {
			ok := g.key()
			kids[i] = stageOut{&Prog{Op: "node", W: &Wrap{Out: &ok}, N: g.nspec(kindOf(curT, false))}, []int{ok}, true, false}
			ks = map[int]bool{ok: true}
		}
		for k := range ks {
			seen[k] = true
		}
	}
}

func (w *Wrap) InOrNil() *int {
	if w == nil {
		return nil
	}
	return w.In
}

func (g *gctx) genPar(curT bool, curKeys []int, depth int, single bool) stageOut {
	if g.inject == "dupkey" && !g.injected {
		// two sources that emit the same key: out of the property's domain (finding F-C04)
		g.injected = true
		k := g.key()
		// two or three sources; a random pair of them emits the same key
		n := g.r.Range(2, 3)
		a := g.r.Intn(n - 1)
		b := a + 1 + g.r.Intn(n-1-a)
		var kids []*Prog
		keys := []int{k}
		for i := 0; i < n; i++ {
			g.budget--
			kk := k
			if i != a && i != b {
				kk = g.key()
				keys = append(keys, kk)
			}
			sp := g.nspec(kindOf(curT, false))
			kids = append(kids, &Prog{Op: "node", W: &Wrap{Out: &kk}, N: sp})
		}
		return stageOut{&Prog{Op: "par", Kids: kids}, keys, false, false}
	}
	n := g.r.Range(2, 3)
	var outs []stageOut
	if curT && g.inject == "" && g.r.Chance(1, 3) {
		// one kid is no node at all: a direct edge from the predecessor(s) to the fan-in node, next
		// to the paths through the other kids (the predecessor's stream is copied, one copy is merged
		// as it is)
		outs = append(outs, stageOut{&Prog{Op: "direct"}, curKeys, single, false})
		n--
	}
	for i := 0; i < n; i++ {
		outs = append(outs, g.genSeq(curT, curKeys, true, depth+1, g.r.Range(1, 2), false, single))
	}
	g.disjointKids(outs, curT, curKeys)
	var kids []*Prog
	var keys []int
	deferred := false
	for _, k := range outs {
		kids = append(kids, k.p)
		keys = append(keys, k.keys...)
		deferred = deferred || k.deferred
	}
	return stageOut{&Prog{Op: "par", Kids: kids}, keys, false, deferred}
}

// genWrongPar: a fan-out whose kids fan in again; one kid is declared with an any-typed output and
// returns a string where the fan-in node takes a map (a run-time type error on its edge, in every
// paradigm); it does not stream (its stream in stream mode is array-backed).
func (g *gctx) genWrongPar(curT bool, curKeys []int) stageOut {
	g.injected = true
	var outs []stageOut
	for i, n := 0, g.r.Range(1, 2); i < n; i++ {
		outs = append(outs, g.genNode(curT, curKeys, true))
	}
	g.disjointKids(outs, curT, curKeys)
	g.budget--
	wrong := g.nspec(kindOf(curT, false))
	wrong.AnyOut, wrong.AnyMap = true, true
	wrong.Nat = [4]bool{g.r.Chance(1, 2), true, g.r.Chance(1, 3), false}
	if g.r.Chance(1, 2) {
		wrong.Nat = [4]bool{true, false, g.r.Chance(1, 3), false}
	}
	wrong.Pipe, wrong.Spare = 0, g.r.Intn(3)
	kids := []*Prog{{Op: "node", N: wrong}}
	var keys []int
	for _, k := range outs {
		kids = append(kids, k.p)
		keys = append(keys, k.keys...)
	}
	if j := g.r.Intn(len(kids)); j > 0 {
		kids[0], kids[j] = kids[j], kids[0]
	}
	return stageOut{&Prog{Op: "par", Kids: kids}, keys, false, false}
}

// arrayProfile makes the node's output stream in stream mode array-backed (no Transform
// native, so the Stream native - or a boxed value - is what the run gets; no pipe) over a
// slice with spare capacity, three times out of four
func (g *gctx) arrayProfile(sp *NSpec) {
	if !g.r.Chance(3, 4) {
		return
	}
	sp.Nat = [4]bool{g.r.Chance(1, 3), true, g.r.Chance(1, 3), false}
	if g.r.Chance(1, 4) {
		sp.Nat[1] = false // a value in a one-element array
		if !sp.Nat[0] && !sp.Nat[2] {
			sp.Nat[0] = true
		}
	}
	sp.Pipe, sp.Spare = 0, g.r.Range(1, 3)
}

// genShared: one map producer whose output goes, by direct edges, to several fan-in nodes,
// each of which also receives the output of a node of its own (fed by the same producer):
//
//	a -> b_i -> m_i,  a -> m_i   (i = 1..n),   the m_i fan in again
//
// In stream mode a's stream is copied 2n times and one copy is merged at every m_i.
func (g *gctx) genShared(curT bool, curKeys []int) stageOut {
	g.budget--
	a := g.nspec(kindOf(curT, true))
	g.arrayProfile(a)
	aKeys := []int{a.K1}
	if a.Kind == 2 {
		aKeys = []int{a.K1, a.K2}
	}
	n := g.r.Range(2, 3)
	var kids []*Prog
	var keys []int
	for i := 0; i < n; i++ {
		g.budget -= 2
		b := g.nspec(3) // a map of its own, next to a's
		g.arrayProfile(b)
		m := g.nspec(1)
		ok := g.key()
		keys = append(keys, ok)
		fan := &Prog{Op: "par", Kids: []*Prog{{Op: "direct"}, {Op: "node", N: b}}}
		if g.r.Chance(1, 2) {
			fan.Kids[0], fan.Kids[1] = fan.Kids[1], fan.Kids[0]
		}
		kids = append(kids, &Prog{Op: "seq", Kids: []*Prog{fan, {Op: "node", W: &Wrap{Out: &ok}, N: m}}})
	}
	_ = aKeys
	p := &Prog{Op: "seq", Kids: []*Prog{{Op: "node", N: a}, {Op: "par", Kids: kids}}}
	return stageOut{p, keys, false, false}
}

// genTypedFan: a fan-out to two or three producers declared with map[string]string (no output
// keys: their maps, with keys of their own, are merged as they are) and the consumer of the
// merged map, declared with map[string]string as well: the fan-in of a map type other than
// map[string]any, for values (mergeMap) and for streams (merge).
func (g *gctx) genTypedFan(curT bool, curKeys []int, wantT bool) stageOut {
	n := g.r.Range(2, 3)
	named := g.r.Chance(1, 2) // the named type NMap (underlying map[string]any) instead of map[string]string
	var kids []*Prog
	for i := 0; i < n; i++ {
		g.budget--
		sp := g.nspec(kindOf(curT, true))
		sp.TOut, sp.NOut = !named, named
		if g.r.Chance(1, 2) {
			g.arrayProfile(sp)
		}
		kids = append(kids, &Prog{Op: "node", N: sp})
	}
	g.budget--
	m := g.nspec(kindOf(true, wantT))
	m.TIn, m.NIn = !named, named
	var keys []int
	if wantT {
		keys = []int{m.K1}
	}
	p := &Prog{Op: "seq", Kids: []*Prog{{Op: "par", Kids: kids}, {Op: "node", N: m}}}
	return stageOut{p, keys, true, false}
}

// genMulti: a multi-branch; every alternative produces a map with its own keys, the selected
// ones fan in like the kids of a fan-out.
func (g *gctx) genMulti(curT bool, curKeys []int, depth int) stageOut {
	n := g.r.Range(2, 3)
	c := &CSpec{ID: g.id(), Collect: g.r.Chance(1, 2)}
	var outs []stageOut
	for i := 0; i < n; i++ {
		outs = append(outs, g.genSeq(curT, curKeys, true, depth+1, g.r.Range(1, 2), true, true))
	}
	g.disjointKids(outs, curT, curKeys)
	var kids []*Prog
	deferred := false
	for _, k := range outs {
		kids = append(kids, k.p)
		deferred = deferred || k.deferred
	}
	// which alternatives run depends on the input: no key is guaranteed
	return stageOut{&Prog{Op: "multi", C: c, Kids: kids}, nil, false, deferred}
}

func (g *gctx) genBranch(curT bool, curKeys []int, wantT bool, depth int) stageOut {
	n := g.r.Range(2, 3)
	c := &CSpec{ID: g.id(), Collect: g.r.Chance(1, 2)}
	var kids []*Prog
	var keys map[int]int
	deferred := false
	// one alternative may be empty: the branch then leads straight to the join node / END
	skip := curT == wantT && g.inject == "" && g.r.Chance(1, 4)
	for i := 0; i < n; i++ {
		if skip && i == n-1 {
			kids = append(kids, &Prog{Op: "skip"})
			for _, key := range curKeys {
				keys[key]++
			}
			deferred = true
			continue
		}
		k := g.genSeq(curT, curKeys, wantT, depth+1, g.r.Range(1, 2), true, true)
		kids = append(kids, k.p)
		deferred = deferred || k.deferred
		if keys == nil {
			keys = map[int]int{}
		}
		for _, key := range k.keys {
			keys[key]++
		}
	}
	var common []int
	for key, cnt := range keys {
		if cnt == n {
			common = append(common, key)
		}
	}
	sortInts(common)
	return stageOut{&Prog{Op: "branch", C: c, Kids: kids}, common, false, deferred}
}

func sortInts(a []int) {
	for i := 1; i < len(a); i++ {
		for j := i; j > 0 && a[j] < a[j-1]; j-- {
			a[j], a[j-1] = a[j-1], a[j]
		}
	}
}

// genSeq: nStages stages from a value of type tin (guaranteed keys) to one of type tout.
// altStart: the first stage must have a single entry node and must not be a branch.
// singleIn: the value entering the sequence comes from exactly one node (a branch can only
// be attached to one start node).
func (g *gctx) genSeq(tin bool, keys []int, tout bool, depth int, nStages int, altStart bool, singleIn bool) stageOut {
	var stages []*Prog
	curT, curKeys, single := tin, keys, singleIn
	afterLoop := false
	// untyped: the value comes out of passthrough nodes whose type nothing to their left determines (a
	// keyed one that picks its value out of a map, plain ones after it): the next node must bring the type
	untyped := depth > 0 // (a plain passthrough node that starts a branch alternative is typed by what follows it)
	for i := 0; i < nStages; i++ {
		last := i == nStages-1
		wantT := tout
		if !last {
			wantT = g.r.Chance(1, 2)
		}
		first := i == 0
		var st stageOut
		roll := g.r.Intn(12)
		deep := depth < g.maxDepth && g.budget > 2
		isLoop := false
		nowUntyped := false
		var pickable []int // keys of the current map a keyed passthrough node can pick (not a map[string]string)
		if curT {
			for _, k := range curKeys {
				if sh := g.kmap[k]; sh == nil || !sh.typed {
					pickable = append(pickable, k)
				}
			}
		}
		switch {
		case roll >= 9 && roll <= 10 && single && !afterLoop && g.inject == "" && (!first || depth == 0) && (len(pickable) > 0 || !untyped && g.r.Chance(1, 3)):
			// AddPassthroughNode with a key (round 6). WithInputKey: the node picks its value out of the map it
			// receives and hands it on; its type is inferred from its successor (a node, a branch condition, the kids
			// of a fan-out, END, plain passthrough nodes before those). WithOutputKey: it puts what it receives
			// under a key; its type is inferred from its predecessor. Model: SSub w SId.
			var k int
			// Since /repo 0136457 a keyed passthrough node may also stand behind an any-typed node (the run-time
			// check of that edge asks the passthrough node for its converter before its type is known) and behind a
			// passthrough node whose own type is still unknown (it takes its type over): both used to panic in AddEdge.
			// An output-keyed one takes its type from its predecessor, so it cannot follow an untyped one.
			pick := len(pickable) > 0 && (untyped || g.r.Chance(3, 4))
			if pick {
				k = pickable[g.r.Intn(len(pickable))]
				if last && (g.kmap[k] != nil) != tout {
					// the picked value has the wrong type for what follows the sequence: look for another key
					pick = false
					for _, k2 := range pickable {
						if (g.kmap[k2] != nil) == tout {
							k, pick = k2, true
						}
					}
				}
			}
			switch {
			case pick:
				g.budget--
				pp := &Prog{Op: "pass", ID: g.id(), W: &Wrap{In: &k}}
				var pkeys []int
				if sh := g.kmap[k]; sh != nil {
					pp.PassMap, pp.passKeys, pkeys = true, sh.keys, sh.keys
				}
				wantT = pp.PassMap
				nowUntyped = true
				st = stageOut{pp, pkeys, true, false}
			case !untyped && (!last || tout):
				g.budget--
				k = g.key()
				pp := &Prog{Op: "pass", ID: g.id(), PassMap: curT, W: &Wrap{Out: &k}}
				if curT {
					g.setShape(k, false, g.strKeys(curKeys))
				}
				wantT = true
				st = stageOut{pp, []int{k}, true, false}
			default:
				st = g.genNode(curT, curKeys, wantT)
			}
		case g.loops && depth == 0 && !curT && g.budget > 1 && !afterLoop && g.r.Chance(1, 3):
			// a cycle over a string: body (single entry, single exit), condition, back or on
			wantT = false
			st = g.genLoop(depth)
			isLoop = true
		case depth == 0 && g.budget >= 5 && g.inject == "" && wantT && !afterLoop && !(first && altStart) && g.r.Chance(1, 8):
			st = g.genShared(curT, curKeys)
		case roll < 2 && deep && !(first && altStart) && !afterLoop && g.inject == "" && g.budget >= 4 && g.r.Chance(1, 4):
			st = g.genTypedFan(curT, curKeys, wantT)
		case roll < 2 && deep && wantT && !(first && altStart) && !afterLoop && single && g.inject == "" && g.r.Chance(1, 3):
			st = g.genMulti(curT, curKeys, depth)
		case roll < 2 && deep && wantT && !(first && altStart) && !afterLoop:
			st = g.genPar(curT, curKeys, depth, single)
		case roll < 4 && deep && single && !(first && altStart) && !afterLoop:
			st = g.genBranch(curT, curKeys, wantT, depth)
		case roll < 5 && deep:
			st = g.genSub(curT, curKeys, wantT, depth)
		case roll == 11 && g.r.Chance(1, 2) && single && (!last || curT == tout):
			// AddPassthroughNode: the value (or stream) goes through untouched
			g.budget--
			wantT = curT
			nowUntyped = untyped
			pp := &Prog{Op: "pass", ID: g.id(), PassMap: curT}
			pkeys := curKeys
			if g.inject == "" && g.r.Chance(1, 2) {
				// state handlers on the passthrough node (declared for `any`): value or stream form
				w := &Wrap{}
				if g.r.Chance(1, 2) {
					w.Pre = g.handler(curT)
				}
				if w.Pre == nil || g.r.Chance(1, 2) {
					w.Post = g.handler(curT)
				}
				pp.W = w
				if curT {
					// a map handler renders its input under its own key
					if w.Post != nil {
						pkeys = []int{w.Post.K1}
					} else {
						pkeys = []int{w.Pre.K1}
					}
				}
			}
			st = stageOut{pp, pkeys, true, false}
		default:
			st = g.genNode(curT, curKeys, wantT)
		}
		stages = append(stages, st.p)
		curT, curKeys, single = wantT, st.keys, st.single
		afterLoop = isLoop || st.deferred
		untyped = nowUntyped
		if g.budget <= 0 && !last {
			// out of budget: close the sequence with a plain node of the right type
			if curT != tout || true {
				st = g.genNode(curT, curKeys, tout)
				stages = append(stages, st.p)
				curT, curKeys, single = tout, st.keys, st.single
			}
			break
		}
	}
	if curT != tout {
		// a loop came last and left a string where a map is wanted
		st := g.genNode(curT, curKeys, tout)
		stages = append(stages, st.p)
		curKeys, single = st.keys, st.single
		afterLoop = false
	}
	if len(stages) == 1 {
		return stageOut{stages[0], curKeys, single, afterLoop}
	}
	return stageOut{&Prog{Op: "seq", Kids: stages}, curKeys, single, afterLoop}
}

// genLoop: body from a string to a string with one entry node and one exit node, and the
// condition that sends the value round again while it is shorter than Bound.
func (g *gctx) genLoop(depth int) stageOut {
	saved := g.loops
	g.loops = false
	body := g.genSeq(false, nil, false, depth+1, g.r.Range(1, 2), true, true)
	g.loops = saved
	if !body.single {
		tail := g.genNode(body.p.outMap(), body.keys, false)
		body = stageOut{&Prog{Op: "seq", Kids: []*Prog{body.p, tail.p}}, nil, true, false}
	}
	c := &CSpec{ID: g.id(), Collect: g.r.Chance(1, 2), Bound: g.r.Range(0, 40)}
	return stageOut{&Prog{Op: "loop", C: c, Kids: []*Prog{body.p}}, nil, true, true}
}

// unloop replaces every cycle by one pass through its body (used when the program turns
// out to need the all-predecessor mode, which has no cycles).
func unloop(p *Prog) *Prog {
	for i, k := range p.Kids {
		p.Kids[i] = unloop(k)
	}
	if p.Op == "loop" {
		return p.Kids[0]
	}
	return p
}

var words = []string{"", "a", "hello", "xy z", "0123456789", "q", "Stream", "-", "ab"}

func (g *gctx) genString() string {
	s := ""
	for i, n := 0, g.r.Range(0, 3); i < n; i++ {
		s += words[g.r.Intn(len(words))]
	}
	return s
}

func (g *gctx) genInput(isMap bool) (chunks []*V, keys []int) {
	var x any
	if isMap {
		m := map[string]any{}
		for i, n := 0, g.r.Range(1, 3); i < n; i++ {
			k := g.key()
			keys = append(keys, k)
			if g.nestOK() && g.r.Chance(1, 4) {
				// a nested map: map[string]string or map[string]any with string values
				typed := g.r.Chance(1, 2)
				var inner []int
				ms, ma := map[string]string{}, map[string]any{}
				for j, nn := 0, g.r.Range(1, 2); j < nn; j++ {
					ik := g.key()
					inner = append(inner, ik)
					v := g.genString()
					ms[keyStr(ik)], ma[keyStr(ik)] = v, v
				}
				g.setShape(k, typed, inner)
				if typed {
					m[keyStr(k)] = ms
				} else {
					m[keyStr(k)] = ma
				}
				continue
			}
			m[keyStr(k)] = g.genString()
		}
		x = m
	} else {
		x = g.genString()
	}
	for _, c := range splitVal(g.r.Intn(4), x) {
		chunks = append(chunks, fromGo(c))
	}
	return
}

// variant: a second input for the same compiled object — the same keys and nesting (the graph
// was generated for them), other strings, another chunking
func (g *gctx) variant(chunks []*V) []*V {
	cs := make([]any, len(chunks))
	for i, v := range chunks {
		cs[i] = v.toGo()
	}
	x, err := concatAny(cs)
	if err != nil {
		return nil
	}
	var re func(x any) any
	re = func(x any) any {
		switch t := x.(type) {
		case string:
			return g.genString() + "~"
		case map[string]string:
			m := map[string]string{}
			for _, k := range sortedKeysS(t) {
				m[k] = g.genString() + "~"
			}
			return m
		case map[string]any:
			m := map[string]any{}
			for _, k := range sortedKeys(t) {
				m[k] = re(t[k])
			}
			return m
		}
		return x
	}
	var out []*V
	for _, c := range splitVal(g.r.Intn(4), re(x)) {
		out = append(out, fromGo(c))
	}
	return out
}

func sortedKeysS(m map[string]string) []string {
	ks := make([]string, 0, len(m))
	for k := range m {
		ks = append(ks, k)
	}
	sortStrings(ks)
	return ks
}

func sortStrings(a []string) {
	for i := 1; i < len(a); i++ {
		for j := i; j > 0 && a[j] < a[j-1]; j-- {
			a[j], a[j-1] = a[j-1], a[j]
		}
	}
}

// second: in 1/3 of the graph cases the compiled object is called on a second input as well
func (g *gctx) second(c *Case) *Case {
	if g.r.Chance(1, 3) {
		c.Chunks2 = g.variant(c.Chunks)
	}
	// 1/5: the four paradigms also as simultaneous first calls on a freshly compiled object
	c.Conc = g.r.Chance(1, 5)
	return c
}

func (engine) Generate(r *lib.Rng, tier string, i int) any {
	g := &gctx{r: r, budget: 7, maxDepth: 2}
	if tier == "thorough" {
		g.budget, g.maxDepth = 11, 3
	}
	if r.Chance(1, 25) {
		// a nil result of an interface-typed node / graph (direct oracle only: the model has no nil)
		sp := &NilSpec{Shape: r.Intn(10), Nat: g.natSubset(), NChunk: r.Range(1, 2), DAG: r.Chance(1, 2), Pipe: r.Chance(1, 2), NilIn: r.Chance(1, 3)}
		return &Case{Kind: "nilout", Nil: sp}
	}
	if r.Chance(1, 25) {
		// int chunks: they concatenate to the last one, at top level and as values of map chunks
		ints := func() []int {
			pool := []int{0, 1, 5, 7, 0}
			var out []int
			for i, n := 0, r.Range(1, 4); i < n; i++ {
				out = append(out, pool[r.Intn(len(pool))])
			}
			if len(out) > 1 && r.Chance(1, 2) {
				out[len(out)-1] = 0 // a zero chunk last, after (usually) a non-zero one
				out[0] = 5
			}
			return out
		}
		sp := &ScalarSpec{Shape: r.Intn(5), Nat: g.natSubset(), Out: ints(), In: ints(), DAG: r.Chance(1, 2), Pipe: r.Chance(1, 2)}
		if r.Chance(1, 2) {
			// any-typed chunks that hold maps of one Go type (map[string]string, map[string]int, NMap, map[string]any,
			// map[string]map[string]string): the engine concatenates them by their dynamic type, key by key
			sp.Shape, sp.MT = 5+r.Intn(3), r.Intn(5)
			if len(sp.Out) < 2 {
				sp.Out = append(sp.Out, 7)
			}
		}
		return &Case{Kind: "scalar", Scalar: sp}
	}
	if r.Chance(1, 40) {
		// a Workflow node without a data input (execution dependency / static values only)
		sp := &CtrlSpec{Shape: r.Intn(9), Nat: g.natSubset(), NChunk: r.Range(1, 3), Pipe: r.Chance(1, 2)}
		for i, n := 0, r.Range(1, 3); i < n; i++ {
			sp.In = append(sp.In, g.genString())
		}
		return &Case{Kind: "ctrl", Ctrl: sp}
	}
	if r.Chance(1, 4) {
		// one packed lambda, all four views
		sp := g.nspec(r.Intn(4))
		if r.Chance(1, 4) {
			sp.Fail = r.Range(1, 2)
		}
		if r.Chance(1, 4) {
			sp.AnyOut, sp.AnyMap = true, sp.outMap()
		} else if sp.outMap() && r.Chance(1, 3) {
			sp.TOut = true // declared with map[string]string
		} else if sp.outMap() && r.Chance(1, 4) {
			sp.NOut = true // declared with the named type NMap
		}
		if sp.Kind == 3 && r.Chance(1, 3) {
			sp.Kind, sp.TOut = 4, false
		}
		if sp.inMap() && r.Chance(1, 3) {
			sp.TIn = true
			g.inject = "flat" // a map[string]string input has string values only
		} else if sp.inMap() && r.Chance(1, 4) {
			sp.NIn = true
		}
		chunks, _ := g.genInput(sp.inMap())
		return &Case{Kind: "pack", Spec: sp, Chunks: chunks}
	}
	front := ""
	switch r.Intn(10) {
	case 0, 1, 2:
		front = "wf"
	case 3:
		front = "chain"
	}
	if front == "wf" {
		if r.Chance(1, 15) {
			g.inject = "fmkey"
		}
		tin := r.Chance(2, 5)
		chunks, keys := g.genInput(tin)
		// a branch directly on START would leave the workflow without a start node: singleIn = false
		st, _ := g.wfSeq(tin, keys, 0, r.Range(1, 4), false, false, false, false)
		c := &Case{Kind: "prog", Front: "wf", Prog: st.p, Chunks: chunks, DAG: true}
		if g.injected {
			c.Inject = g.inject
		}
		g.chooseFailure(r, st.p)
		c.CB = r.Chance(1, 4)
		return g.second(c)
	}
	if front == "chain" {
		tin := r.Chance(2, 5)
		chunks, keys := g.genInput(tin)
		st := g.chainSeq(tin, keys, r.Range(1, 4))
		c := &Case{Kind: "prog", Front: "chain", Prog: st.p, Chunks: chunks}
		g.chooseFailure(r, st.p)
		c.CB = r.Chance(1, 4)
		return g.second(c)
	}
	switch r.Intn(30) {
	case 0:
		g.inject = "dupkey"
	case 1:
		g.inject = "nokey"
	case 2, 3:
		g.inject = "wrongtype"
	}
	tin, tout := r.Chance(2, 5), r.Chance(2, 5)
	if g.inject == "dupkey" {
		tout = true
	}
	chunks, keys := g.genInput(tin)
	var st stageOut
	if g.inject == "dupkey" {
		// make sure the shared-key fan-in is there: [stages] ; par{k,k} ; [node]
		head := g.genSeq(tin, keys, r.Chance(1, 2), 1, 1, false, true)
		par := g.genPar(head.p.outMap(), head.keys, 1, head.single)
		stages := []*Prog{head.p, par.p}
		if r.Chance(1, 2) {
			tail := g.genNode(true, par.keys, tout)
			stages = append(stages, tail.p)
		}
		st = stageOut{p: &Prog{Op: "seq", Kids: stages}}
	} else if g.inject == "wrongtype" && r.Chance(1, 2) {
		// the dynamic type error sits on an edge INTO A FAN-IN: [stage] ; par{wrong, kids} ; node.
		// In stream mode the failing conversion is one source of a merge (over an array-backed
		// reader: the producer does not stream).
		head := g.genSeq(tin, keys, r.Chance(1, 2), 1, 1, false, true)
		par := g.genWrongPar(head.p.outMap(), head.keys)
		tail := g.genNode(true, par.keys, tout)
		st = stageOut{p: &Prog{Op: "seq", Kids: []*Prog{head.p, par.p, tail.p}}}
	} else {
		g.loops = g.inject == "" && r.Chance(1, 2)
		st = g.genSeq(tin, keys, tout, 0, r.Range(1, 4), false, true)
		g.loops = false
	}
	c := &Case{Kind: "prog", Prog: st.p, Chunks: chunks}
	if g.injected {
		c.Inject = g.inject
	}
	if st.p.hasLoop() {
		if st.p.balanced() {
			c.DAG = false
		} else {
			c.Prog = unloop(st.p)
			c.DAG = true
		}
	} else {
		c.DAG = !st.p.balanced() || r.Chance(1, 2)
	}

	g.chooseFailure(r, c.Prog)
	c.CB = r.Chance(1, 4)
	return g.second(c)
}

// failure: in 1/5 of the cases one executable object is chosen to fail, at call time or mid-stream
func (g *gctx) chooseFailure(r *lib.Rng, p *Prog) {
	if r.Chance(1, 5) {
		var specs []*NSpec
		var conds []*CSpec
		p.walk(func(q *Prog) {
			if q.N != nil {
				specs = append(specs, q.N)
			}
			if q.W != nil && q.W.Pre != nil {
				specs = append(specs, q.W.Pre)
			}
			if q.W != nil && q.W.Post != nil {
				specs = append(specs, q.W.Post)
			}
			if q.C != nil {
				conds = append(conds, q.C)
			}
		})
		if len(specs)+len(conds) == 0 {
			return // nothing but passthrough nodes
		}
		k := r.Intn(len(specs) + len(conds))
		if k < len(specs) {
			specs[k].Fail = r.Range(1, 2)
		} else {
			conds[k-len(specs)].Fail = true
		}
	}
}

// ---------------------------------------------------------------- Workflow-shaped programs

// outMapFor chooses the field mapping that turns a raw output (type rawT, guaranteed keys
// rawKeys) into what the next stage sees (type nextT); forceTo: the mapping must be a To
// mapping (fan-in / re-join: every incoming edge writes its own fields).
// Returns the mapping (nil = whole output), the resulting type and guaranteed keys.
func (g *gctx) outMapFor(rawT bool, allKeys []int, nextT bool, forceTo bool) (*FMap, bool, []int) {
	strs := g.strKeys(allKeys) // the fields that hold strings
	var umaps []int            // the fields that hold a map[string]any
	for _, k := range allKeys {
		if sh := g.kmap[k]; sh != nil && !sh.typed {
			umaps = append(umaps, k)
		}
	}
	// the first field read may be one nobody produces (deliberately outside the domain: F-C04c)
	pick := func(from []int) int {
		if g.inject == "fmkey" && !g.injected {
			g.injected = true
			return g.key()
		}
		return from[g.r.Intn(len(from))]
	}
	// mappings with nested paths (FromFieldPath / ToFieldPath / MapFieldPaths), one per edge
	if g.inject == "" && g.nestOK() && g.r.Chance(1, 4) {
		var deep []int // fields that hold a map (of either Go type) with a known string field
		for _, k := range allKeys {
			if sh := g.kmap[k]; sh != nil && len(sh.keys) > 0 {
				deep = append(deep, k)
			}
		}
		toPath := func() []int {
			if g.r.Chance(1, 2) {
				return []int{g.key()}
			}
			return []int{g.key(), g.key()}
		}
		shapeTo := func(to []int, leafIsMap bool, leafKeys []int) []int {
			// {to[0]: {to[1]: leaf}}: what is guaranteed about to[0]
			if len(to) == 1 {
				if leafIsMap {
					g.setShape(to[0], false, leafKeys)
				}
			} else if leafIsMap {
				g.setShape(to[0], false, nil)
			} else {
				g.setShape(to[0], false, []int{to[1]})
			}
			return []int{to[0]}
		}
		switch {
		case rawT && len(deep) > 0 && !nextT:
			k := deep[g.r.Intn(len(deep))]
			in := g.kmap[k].keys
			return &FMap{Path: &FPath{From: []int{k, in[g.r.Intn(len(in))]}}}, false, nil
		case rawT && len(deep) > 0 && nextT:
			k := deep[g.r.Intn(len(deep))]
			in := g.kmap[k].keys
			to := toPath()
			return &FMap{Path: &FPath{From: []int{k, in[g.r.Intn(len(in))]}, To: to}}, true, shapeTo(to, false, nil)
		case nextT && g.r.Chance(1, 2):
			// the whole output under a path of two fields
			to := []int{g.key(), g.key()}
			return &FMap{Path: &FPath{To: to}}, true, shapeTo(to, rawT, nil)
		}
	}
	switch {
	case !rawT && nextT:
		// ToField, sometimes into two fields
		f := &FMap{To: []FEntry{{To: g.key()}}}
		if g.r.Chance(1, 4) {
			f.To = append(f.To, FEntry{To: g.key()})
		}
		var keys []int
		for _, e := range f.To {
			keys = append(keys, e.To)
		}
		return f, true, keys
	case rawT && !nextT && len(strs) > 0:
		k := pick(strs)
		return &FMap{Take: &k}, false, nil
	case rawT && nextT:
		// map to map. Towards a fan-in / re-join (forceTo) the edge must write fields of its own.
		roll := g.r.Intn(20)
		switch {
		case !forceTo && len(umaps) > 0 && g.inject == "" && g.r.Chance(1, 2):
			// FromField of a field that holds a map: the successor's input is that map
			k := umaps[g.r.Intn(len(umaps))]
			return &FMap{Take: &k, TakeMap: true}, true, g.kmap[k].keys
		case len(allKeys) > 0 && (forceTo && (roll < 15 || !g.nestOK()) || !forceTo && roll < 8):
			// MapFields: some of the fields, each to a field of its own; a field that holds a map
			// arrives as a nested map
			f := &FMap{}
			var keys []int
			n := g.r.Range(1, len(allKeys))
			perm := append([]int(nil), allKeys...)
			for i := 0; i < n; i++ {
				j := i + g.r.Intn(len(perm)-i)
				perm[i], perm[j] = perm[j], perm[i]
				from := perm[i]
				if i == 0 {
					from = pick(allKeys)
				}
				to := g.key()
				if sh := g.kmap[from]; sh != nil {
					g.setShape(to, sh.typed, sh.keys)
					f.mapValued = true
				}
				f.To = append(f.To, FEntry{From: &from, To: to})
				keys = append(keys, to)
			}
			return f, true, keys
		case g.nestOK() && (forceTo || roll < 12):
			// ToField of the whole map: it sits under the field as a nested map
			to := g.key()
			g.setShape(to, false, strs)
			return &FMap{To: []FEntry{{To: to}}}, true, []int{to}
		}
	}
	return nil, rawT, allKeys
}

// wfLeaf: a node or nested graph whose outgoing edges carry a field mapping towards a
// value of type nextT (nil: free choice).
func (g *gctx) wfLeaf(curT bool, curKeys []int, nextT *bool, forceTo bool, depth int, allowSub bool) stageOut {
	rawT := g.r.Chance(1, 2)
	want := rawT
	if nextT != nil {
		want = *nextT
	} else if g.r.Chance(1, 2) {
		want = !rawT
	}
	if forceTo {
		want = true
	}
	var st stageOut
	if allowSub && g.r.Chance(1, 5) {
		st = g.genSub(curT, curKeys, rawT, depth)
	} else {
		st = g.genNode(curT, curKeys, rawT)
	}
	if rawT && (!want && len(g.strKeys(st.keys)) == 0 || forceTo && len(st.keys) == 0 && !g.nestOK()) {
		// a map whose keys are not known statically cannot be read field by field: use a string producer
		rawT = false
		st = g.genNode(curT, curKeys, rawT)
	}
	f, t, keys := g.outMapFor(rawT, st.keys, want, forceTo)
	st.p.OutMap = f
	if f != nil && st.p.N != nil && (f.Path != nil && len(f.Path.From) > 0 || f.Path == nil && (f.Take != nil || f.To[0].From != nil)) {
		// Workflow.Compile rejects a mapping that reads fields of an interface-typed output
		// ("predecessor output type should be struct or map"); ToField takes the whole any value
		st.p.N.AnyOut = false
	}
	_ = t
	return stageOut{st.p, keys, true, false}
}

// wfSeq: nStages stages of a Workflow. endTo: every exit of the sequence must carry a To
// mapping (it ends in a fan-in or a re-join). Returns the type the successor sees in tout.
// mappedIn: the edges entering the sequence carry a field mapping (a branch condition reads
// the unmapped output of its start node, so no branch may come first).
func (g *gctx) wfSeq(tin bool, keys []int, depth int, nStages int, endTo bool, altStart bool, singleIn bool, mappedIn bool) (stageOut, bool) {
	return g.wfSeq2(tin, keys, depth, nStages, endTo, altStart, singleIn, mappedIn, nil)
}

// wfSeqTo: a whole workflow from START (no branch first) to a value of type *tout
func (g *gctx) wfSeqTo(tin bool, keys []int, depth int, nStages int, tout *bool) (stageOut, bool) {
	return g.wfSeq2(tin, keys, depth, nStages, false, false, false, false, tout)
}

func (g *gctx) wfSeq2(tin bool, keys []int, depth int, nStages int, endTo bool, altStart bool, singleIn bool, mappedIn bool, tout *bool) (stageOut, bool) {
	var stages []*Prog
	curT, curKeys, single := tin, keys, singleIn
	prevMapped := mappedIn
	for i := 0; i < nStages; i++ {
		last := i == nStages-1
		first := i == 0
		roll := g.r.Intn(12)
		deep := depth < g.maxDepth && g.budget > 2
		var st stageOut
		strLast := last && tout != nil && !*tout // the sequence must end in a string: no fan-in / re-join last
		switch {
		case roll < 2 && deep && !(first && altStart) && !strLast:
			n := g.r.Range(2, 3)
			var kids []*Prog
			var ks []int
			for j := 0; j < n; j++ {
				k, _ := g.wfSeq(curT, curKeys, depth+1, g.r.Range(1, 2), true, false, single, prevMapped)
				kids = append(kids, k.p)
				ks = append(ks, k.keys...)
			}
			st = stageOut{&Prog{Op: "par", Kids: kids}, ks, false, false}
			curT, prevMapped = true, true
		case roll < 4 && deep && single && !prevMapped && !(first && altStart) && !strLast:
			n := g.r.Range(2, 3)
			c := &CSpec{ID: g.id(), Collect: g.r.Chance(1, 2)}
			var kids []*Prog
			for j := 0; j < n; j++ {
				k, _ := g.wfSeq(curT, curKeys, depth+1, g.r.Range(1, 2), true, true, true, false)
				kids = append(kids, k.p)
			}
			st = stageOut{&Prog{Op: "branch", C: c, Kids: kids}, nil, false, false}
			curT, prevMapped = true, true
		default:
			var next *bool
			if last && endTo {
				t := true
				next = &t
			} else if last && tout != nil {
				next = tout
			}
			st = g.wfLeaf(curT, curKeys, next, last && endTo, depth, deep)
			curT = st.p.outMap()
			prevMapped = st.p.OutMap != nil
		}
		stages = append(stages, st.p)
		curKeys, single = st.keys, st.single
		if g.budget <= 0 && !last {
			if endTo {
				t := true
				st = g.wfLeaf(curT, curKeys, &t, true, depth, false)
				stages = append(stages, st.p)
				curT, curKeys, single = true, st.keys, true
			} else if tout != nil && curT != *tout {
				st = g.wfLeaf(curT, curKeys, tout, false, depth, false)
				stages = append(stages, st.p)
				curT, curKeys, single = st.p.outMap(), st.keys, true
			}
			break
		}
	}
	if len(stages) == 1 {
		return stageOut{stages[0], curKeys, single, false}, curT
	}
	return stageOut{&Prog{Op: "seq", Kids: stages}, curKeys, single, false}, curT
}

// ---------------------------------------------------------------- Chain-shaped programs

func (g *gctx) chainSeq(tin bool, keys []int, nStages int) stageOut {
	return g.chainSeqTo(tin, keys, nStages, nil)
}

func (g *gctx) chainSeqTo(tin bool, keys []int, nStages int, tout *bool) stageOut {
	var stages []*Prog
	curT, curKeys, single := tin, keys, true
	for i := 0; i < nStages; i++ {
		last := i == nStages-1
		wantT := g.r.Chance(1, 2)
		if last && tout != nil {
			wantT = *tout
		}
		roll := g.r.Intn(12)
		deep := g.budget > 2
		var st stageOut
		switch {
		case roll < 3 && deep && single && !(last && tout != nil && !*tout):
			n := g.r.Range(2, 3)
			var kids []*Prog
			var ks []int
			for j := 0; j < n; j++ {
				g.budget--
				w := &Wrap{}
				innerIn := curT
				typedIn := false
				if curT && len(curKeys) > 0 && g.r.Chance(1, 2) {
					k := curKeys[g.r.Intn(len(curKeys))]
					w.In = &k
					innerIn = false
					if sh := g.kmap[k]; sh != nil {
						innerIn, typedIn = true, sh.typed
					}
				}
				ok := g.key()
				w.Out = &ok
				ks = append(ks, ok)
				// the value under the output key: a string, or (nested) a map again
				innerOut := g.nestOK() && g.r.Chance(1, 3)
				sp := g.nspec(kindOf(innerIn, innerOut))
				sp.TIn = typedIn
				if innerOut {
					sp.TOut = g.r.Chance(1, 2)
					own := []int{sp.K1}
					if sp.Kind == 2 {
						own = []int{sp.K1, sp.K2}
					}
					g.setShape(ok, sp.TOut, own)
				}
				kids = append(kids, &Prog{Op: "node", W: w, N: sp})
			}
			st = stageOut{&Prog{Op: "par", Kids: kids}, ks, false, false}
			wantT = true
		case roll < 6 && deep && single:
			n := g.r.Range(2, 3)
			c := &CSpec{ID: g.id(), Collect: g.r.Chance(1, 2)}
			var kids []*Prog
			cnt := map[int]int{}
			for j := 0; j < n; j++ {
				var k stageOut
				if g.r.Chance(1, 5) {
					k = g.genSub(curT, curKeys, wantT, 1)
				} else {
					k = g.genNode(curT, curKeys, wantT)
				}
				kids = append(kids, k.p)
				for _, key := range k.keys {
					cnt[key]++
				}
			}
			var common []int
			for key, c := range cnt {
				if c == n {
					common = append(common, key)
				}
			}
			sortInts(common)
			st = stageOut{&Prog{Op: "branch", C: c, Kids: kids}, common, false, false}
		case roll < 7 && deep:
			st = g.genSub(curT, curKeys, wantT, 1)
		default:
			st = g.genNode(curT, curKeys, wantT)
		}
		stages = append(stages, st.p)
		curT, curKeys, single = wantT, st.keys, st.single
		if g.budget <= 0 && !last {
			if tout != nil && curT != *tout {
				st = g.genNode(curT, curKeys, *tout)
				stages = append(stages, st.p)
				curT, curKeys, single = *tout, st.keys, true
			}
			break
		}
	}
	if len(stages) == 1 {
		return stageOut{stages[0], curKeys, single, false}
	}
	return stageOut{&Prog{Op: "seq", Kids: stages}, curKeys, single, false}
}
