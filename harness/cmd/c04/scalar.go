// Engine C04 — chunk types whose concatenation is "the last chunk" (ints; eino's rule for
// ints, uints, floats, bool, time values).  The model's chunk universe is strings and maps, so
// these cases are compared by the direct oracle only; the oracle concatenates the chunks a
// stream paradigm delivers with the harness's OWN rule (strings appended, ints: the last one,
// maps key by key) — not with eino's concatStreamReader, which is part of what is checked.
package main

import (
	"context"
	"fmt"

	"github.com/cloudwego/eino/compose"
	"github.com/cloudwego/eino/schema"

	"verif/harness/lib"
)

// ScalarSpec: a producer whose Stream / Transform natives deliver the int chunks Out (its Invoke /
// Collect natives return the last of them), in one of several positions.
type ScalarSpec struct {
	// 0 the four views of the producer alone (hook VerifPack)
	// 1 START -> producer -> consumer (invoke-only, int -> string) -> END
	// 2 the producer emits map chunks {n: int, t: string}; the consumer reads n through an input key
	// 3 START -> producer (output key k) -> END: the map {k: int}
	// 4 Graph[int, int] START -> inc (invoke-only) -> END; Collect / Transform are called with the
	//   input chunks In, Invoke / Stream with their concatenation (the last one)
	// 5 Graph[any, string] START -> describe (invoke-only, any -> string) -> END; Collect / Transform are
	//   called with any-typed input chunks that HOLD maps of the Go type MT, Invoke / Stream with their
	//   concatenation: the engine concatenates interface-typed chunks by their dynamic type
	// 6 START -> producer (string -> any, chunks holding maps of type MT) -> describe (invoke-only) -> END
	// 7 Graph[string, any] START -> producer (string -> any, chunks holding maps of type MT) -> END
	Shape int     `json:"shape"`
	// Go type of the maps held by the any-typed chunks of shapes 5-7 (chunk i is {a|b: Out[i]}):
	// 0 map[string]string, 1 map[string]int, 2 NMap, 3 map[string]any, 4 map[string]map[string]string
	MT    int     `json:"mt,omitempty"`
	Nat   [4]bool `json:"nat"`
	Out   []int   `json:"out"`
	In    []int   `json:"in,omitempty"`
	DAG   bool    `json:"dag,omitempty"`
	Pipe  bool    `json:"pipe,omitempty"`
}

func lastInt(xs []int) int { return xs[len(xs)-1] }

func intStream[T any](xs []T, pipe bool) *schema.StreamReader[T] {
	if !pipe {
		return schema.StreamReaderFromArray(append(make([]T, 0, len(xs)+1), xs...))
	}
	sr, sw := schema.Pipe[T](0)
	go func() {
		defer sw.Close()
		for _, x := range xs {
			if sw.Send(x, nil) {
				return
			}
		}
	}()
	return sr
}

// natives of a producer I -> O whose stream forms deliver chunks and whose value forms return whole
func scalarNatives[I, O any](sp *ScalarSpec, chunks []O, whole O) (compose.Invoke[I, O, any], compose.Stream[I, O, any],
	compose.Collect[I, O, any], compose.Transform[I, O, any]) {
	var fi compose.Invoke[I, O, any]
	var fs compose.Stream[I, O, any]
	var fc compose.Collect[I, O, any]
	var ft compose.Transform[I, O, any]
	var zero O
	if sp.Nat[0] {
		fi = func(ctx context.Context, in I, _ ...any) (O, error) { return whole, nil }
	}
	if sp.Nat[1] {
		fs = func(ctx context.Context, in I, _ ...any) (*schema.StreamReader[O], error) {
			return intStream(chunks, sp.Pipe), nil
		}
	}
	if sp.Nat[2] {
		fc = func(ctx context.Context, in *schema.StreamReader[I], _ ...any) (O, error) {
			if _, err := readAll(in); err != nil {
				return zero, err
			}
			return whole, nil
		}
	}
	if sp.Nat[3] {
		ft = func(ctx context.Context, in *schema.StreamReader[I], _ ...any) (*schema.StreamReader[O], error) {
			if _, err := readAll(in); err != nil {
				return nil, err
			}
			return intStream(chunks, sp.Pipe), nil
		}
	}
	return fi, fs, fc, ft
}

func scalarLambda[I, O any](sp *ScalarSpec, chunks []O, whole O) *compose.Lambda {
	fi, fs, fc, ft := scalarNatives[I, O](sp, chunks, whole)
	l, err := compose.AnyLambda(fi, fs, fc, ft)
	if err != nil {
		panic(err)
	}
	return l
}

// the harness's own concatenation of what a stream paradigm delivered
func ownConcat(chunks []any) (any, error) {
	if len(chunks) == 0 {
		return nil, fmt.Errorf("empty stream")
	}
	switch chunks[0].(type) {
	case int:
		return chunks[len(chunks)-1], nil
	case string:
		s := ""
		for _, c := range chunks {
			s += c.(string)
		}
		return s, nil
	case map[string]any:
		groups := map[string][]any{}
		for _, c := range chunks {
			for k, v := range c.(map[string]any) {
				groups[k] = append(groups[k], v)
			}
		}
		out := map[string]any{}
		for k, vs := range groups {
			v, err := ownConcat(vs)
			if err != nil {
				return nil, err
			}
			out[k] = v
		}
		return out, nil
	case map[string]string, map[string]int, NMap, map[string]map[string]string:
		// a typed map: concatenated key by key like map[string]any, the result has the chunks' type
		mt := -1
		var gen []any
		for _, c := range chunks {
			m, t, ok := untypeMap(c)
			if !ok || mt >= 0 && t != mt {
				return nil, fmt.Errorf("chunks of different types: %T next to %T", chunks[0], c)
			}
			mt = t
			gen = append(gen, m)
		}
		v, err := ownConcat(gen)
		if err != nil {
			return nil, err
		}
		return retypeMap(v.(map[string]any), mt), nil
	}
	return nil, fmt.Errorf("unsupported chunk type %T", chunks[0])
}

// untypeMap: the entries of a typed map as a map[string]any, and the code (ScalarSpec.MT) of its Go type
func untypeMap(x any) (map[string]any, int, bool) {
	out := map[string]any{}
	switch m := x.(type) {
	case map[string]string:
		for k, v := range m {
			out[k] = v
		}
		return out, 0, true
	case map[string]int:
		for k, v := range m {
			out[k] = v
		}
		return out, 1, true
	case NMap:
		for k, v := range m {
			out[k] = v
		}
		return out, 2, true
	case map[string]any:
		return m, 3, true
	case map[string]map[string]string:
		for k, v := range m {
			in := map[string]any{}
			for k2, v2 := range v {
				in[k2] = v2
			}
			out[k] = in
		}
		return out, 4, true
	}
	return nil, 0, false
}

func retypeMap(m map[string]any, mt int) any {
	switch mt {
	case 0:
		out := map[string]string{}
		for k, v := range m {
			out[k] = v.(string)
		}
		return out
	case 1:
		out := map[string]int{}
		for k, v := range m {
			out[k] = v.(int)
		}
		return out
	case 2:
		return NMap(m)
	case 4:
		out := map[string]map[string]string{}
		for k, v := range m {
			in := map[string]string{}
			for k2, v2 := range v.(map[string]any) {
				in[k2] = v2.(string)
			}
			out[k] = in
		}
		return out
	}
	return m
}

// anyMapChunks: the any-typed chunks of shapes 5-7 (chunk i holds the map {a|b: Out[i]} of Go type MT;
// strings instead of ints where the type asks for them) and their concatenation by the harness's own rule
func anyMapChunks(sp *ScalarSpec) ([]any, any, error) {
	var chunks []any
	for i, n := range sp.Out {
		k := "a"
		if i%2 == 1 {
			k = "b"
		}
		var v any = fmt.Sprintf("s%d", n)
		switch sp.MT {
		case 1:
			v = n
		case 4:
			v = map[string]any{fmt.Sprintf("f%d", n%2): fmt.Sprintf("s%d", n)}
		}
		chunks = append(chunks, retypeMap(map[string]any{k: v}, sp.MT))
	}
	whole, err := ownConcat(chunks)
	return chunks, whole, err
}

type fourCalls struct {
	invoke    func() (any, error)
	stream    func() ([]any, error, error) // chunks, call error, item error
	collect   func() (any, error)
	transform func() ([]any, error, error)
}

func drainAny[O any](sr *schema.StreamReader[O], err error) ([]any, error, error) {
	if err != nil {
		return nil, err, nil
	}
	cs, ierr := drain(sr)
	out := make([]any, len(cs))
	for i, c := range cs {
		out[i] = any(c)
	}
	return out, nil, ierr
}

func callsOf[I, O any](r compose.Runnable[I, O], in I, chunks []I) fourCalls {
	ctx := context.Background()
	return fourCalls{
		invoke:    func() (any, error) { v, err := r.Invoke(ctx, in); return any(v), err },
		stream:    func() ([]any, error, error) { return drainAny(r.Stream(ctx, in)) },
		collect:   func() (any, error) { v, err := r.Collect(ctx, intStream(chunks, false)); return any(v), err },
		transform: func() ([]any, error, error) { return drainAny(r.Transform(ctx, intStream(chunks, false))) },
	}
}

// packRunnable presents the four views of one packed lambda as a Runnable
type packRunnable[I, O any] struct {
	i compose.Invoke[I, O, any]
	s compose.Stream[I, O, any]
	c compose.Collect[I, O, any]
	t compose.Transform[I, O, any]
}

func (p packRunnable[I, O]) Invoke(ctx context.Context, in I, _ ...compose.Option) (O, error) {
	return p.i(ctx, in)
}
func (p packRunnable[I, O]) Stream(ctx context.Context, in I, _ ...compose.Option) (*schema.StreamReader[O], error) {
	return p.s(ctx, in)
}
func (p packRunnable[I, O]) Collect(ctx context.Context, in *schema.StreamReader[I], _ ...compose.Option) (O, error) {
	return p.c(ctx, in)
}
func (p packRunnable[I, O]) Transform(ctx context.Context, in *schema.StreamReader[I], _ ...compose.Option) (*schema.StreamReader[O], error) {
	return p.t(ctx, in)
}

func buildScalar(sp *ScalarSpec) (fourCalls, error) {
	ctx := context.Background()
	var copts []compose.GraphCompileOption
	if sp.DAG {
		copts = append(copts, compose.WithNodeTriggerMode(compose.AllPredecessor))
	}
	first := func(errs ...error) error {
		for _, e := range errs {
			if e != nil {
				return e
			}
		}
		return nil
	}
	show := compose.InvokableLambda(func(ctx context.Context, n int) (string, error) { return fmt.Sprintf("got %d", n), nil })
	switch sp.Shape {
	case 0:
		fi, fs, fc, ft := scalarNatives[string, int](sp, sp.Out, lastInt(sp.Out))
		i, s, c, t := c04Pack(fi, fs, fc, ft)
		return callsOf[string, int](packRunnable[string, int]{i, s, c, t}, "x", []string{"x"}), nil
	case 1:
		g := compose.NewGraph[string, string]()
		if err := first(g.AddLambdaNode("p", scalarLambda[string, int](sp, sp.Out, lastInt(sp.Out))), g.AddLambdaNode("c", show),
			g.AddEdge(compose.START, "p"), g.AddEdge("p", "c"), g.AddEdge("c", compose.END)); err != nil {
			return fourCalls{}, err
		}
		r, err := g.Compile(ctx, copts...)
		if err != nil {
			return fourCalls{}, err
		}
		return callsOf[string, string](r, "x", []string{"x"}), nil
	case 2:
		var chunks []map[string]any
		text := ""
		for i, n := range sp.Out {
			t := fmt.Sprintf("t%d", i)
			text += t
			chunks = append(chunks, map[string]any{"n": n, "t": t})
		}
		whole := map[string]any{"n": lastInt(sp.Out), "t": text}
		g := compose.NewGraph[string, string]()
		if err := first(g.AddLambdaNode("p", scalarLambda[string, map[string]any](sp, chunks, whole)),
			g.AddLambdaNode("c", show, compose.WithInputKey("n")),
			g.AddEdge(compose.START, "p"), g.AddEdge("p", "c"), g.AddEdge("c", compose.END)); err != nil {
			return fourCalls{}, err
		}
		r, err := g.Compile(ctx, copts...)
		if err != nil {
			return fourCalls{}, err
		}
		return callsOf[string, string](r, "x", []string{"x"}), nil
	case 3:
		g := compose.NewGraph[string, map[string]any]()
		if err := first(g.AddLambdaNode("p", scalarLambda[string, int](sp, sp.Out, lastInt(sp.Out)), compose.WithOutputKey("k")),
			g.AddEdge(compose.START, "p"), g.AddEdge("p", compose.END)); err != nil {
			return fourCalls{}, err
		}
		r, err := g.Compile(ctx, copts...)
		if err != nil {
			return fourCalls{}, err
		}
		return callsOf[string, map[string]any](r, "x", []string{"x"}), nil
	case 5, 6, 7:
		chunks, whole, err := anyMapChunks(sp)
		if err != nil {
			return fourCalls{}, err
		}
		describe := compose.InvokableLambda(func(ctx context.Context, in any) (string, error) { return renderAny(in), nil })
		if sp.Shape == 5 {
			g := compose.NewGraph[any, string]()
			if err := first(g.AddLambdaNode("c", describe), g.AddEdge(compose.START, "c"), g.AddEdge("c", compose.END)); err != nil {
				return fourCalls{}, err
			}
			r, err := g.Compile(ctx, copts...)
			if err != nil {
				return fourCalls{}, err
			}
			return callsOf[any, string](r, whole, chunks), nil
		}
		p := scalarLambda[string, any](sp, chunks, whole)
		if sp.Shape == 6 {
			g := compose.NewGraph[string, string]()
			if err := first(g.AddLambdaNode("p", p), g.AddLambdaNode("c", describe),
				g.AddEdge(compose.START, "p"), g.AddEdge("p", "c"), g.AddEdge("c", compose.END)); err != nil {
				return fourCalls{}, err
			}
			r, err := g.Compile(ctx, copts...)
			if err != nil {
				return fourCalls{}, err
			}
			return callsOf[string, string](r, "x", []string{"x"}), nil
		}
		g := compose.NewGraph[string, any]()
		if err := first(g.AddLambdaNode("p", p), g.AddEdge(compose.START, "p"), g.AddEdge("p", compose.END)); err != nil {
			return fourCalls{}, err
		}
		r, err := g.Compile(ctx, copts...)
		if err != nil {
			return fourCalls{}, err
		}
		return callsOf[string, any](r, "x", []string{"x"}), nil
	default:
		g := compose.NewGraph[int, int]()
		inc := compose.InvokableLambda(func(ctx context.Context, n int) (int, error) { return n + 1, nil })
		if err := first(g.AddLambdaNode("inc", inc), g.AddEdge(compose.START, "inc"), g.AddEdge("inc", compose.END)); err != nil {
			return fourCalls{}, err
		}
		r, err := g.Compile(ctx, copts...)
		if err != nil {
			return fourCalls{}, err
		}
		return callsOf[int, int](r, lastInt(sp.In), sp.In), nil
	}
}

func runScalar(c *Case) lib.Result {
	sp := c.Scalar
	res := lib.Result{Nontrivial: true}
	type out struct {
		Class  string `json:"class"`
		Val    string `json:"val,omitempty"`
		Chunks string `json:"chunks,omitempty"`
		Msg    string `json:"msg,omitempty"`
	}
	obs := struct {
		Err string `json:"err,omitempty"`
		P   [4]out `json:"p"`
	}{}
	calls, err := buildScalar(sp)
	if err != nil {
		obs.Err = "compile: " + err.Error()
		res.Obs, res.Oracle, res.Sig = obs, obs.Err, "harness-compile"
		return res
	}
	value := func(v any, err error) POut {
		if err != nil {
			return POut{Class: "err-call", Msg: err.Error()}
		}
		return POut{Class: "ok", Msg: renderAny(v)}
	}
	chunksOut := map[int]string{}
	stream := func(par int, cs []any, cerr, ierr error) POut {
		if cerr != nil {
			return POut{Class: "err-call", Msg: cerr.Error()}
		}
		chunksOut[par] = fmt.Sprint(cs)
		if ierr != nil {
			return POut{Class: "err-item", Msg: ierr.Error()}
		}
		v, err := ownConcat(cs)
		if err != nil {
			return POut{Class: "err-item", Msg: "concat of the output stream: " + err.Error()}
		}
		return POut{Class: "ok", Msg: renderAny(v)}
	}
	for par := 0; par < 4; par++ {
		p := par
		o := guarded(func() POut {
			switch p {
			case 0:
				return value(calls.invoke())
			case 1:
				cs, ce, ie := calls.stream()
				return stream(1, cs, ce, ie)
			case 2:
				return value(calls.collect())
			default:
				cs, ce, ie := calls.transform()
				return stream(3, cs, ce, ie)
			}
		})
		obs.P[par] = out{Class: o.Class, Chunks: chunksOut[par]}
		if o.ok() {
			obs.P[par].Val = o.Msg
		} else {
			obs.P[par].Msg = o.Msg
		}
	}
	res.Obs = obs
	allOK, anyOK := true, false
	for par := 0; par < 4; par++ {
		o := obs.P[par]
		if o.Class == "panic" || o.Class == "hang" {
			res.Oracle = fmt.Sprintf("%s: %s %s", parName[par], o.Class, o.Msg)
			res.Sig = o.Class
		}
		allOK = allOK && o.Class == "ok"
		anyOK = anyOK || o.Class == "ok"
	}
	if res.Oracle == "" && anyOK && !allOK {
		var parts []string
		for par := 0; par < 4; par++ {
			parts = append(parts, parName[par]+"="+obs.P[par].Class)
		}
		what := "int chunks"
		if sp.Shape >= 5 {
			what = "any-typed chunks holding " + [...]string{"map[string]string", "map[string]int", "NMap", "map[string]any", "map[string]map[string]string"}[sp.MT%5]
			for par := 0; par < 4; par++ {
				if obs.P[par].Class != "ok" {
					what += "; " + parName[par] + ": " + obs.P[par].Msg
					break
				}
			}
		}
		res.Oracle = "a failure is reported in some paradigms only (" + what + "): " + fmt.Sprint(parts)
		res.Sig = "scalar:fail-some"
	}
	if res.Oracle == "" && allOK {
		for par := 1; par < 4; par++ {
			if obs.P[par].Val != obs.P[0].Val {
				res.Oracle = fmt.Sprintf("%s delivers %s (chunks %s; ints concatenate to the last chunk), Invoke returns %s",
					parName[par], obs.P[par].Val, obs.P[par].Chunks, obs.P[0].Val)
				res.Sig = "value-differs"
				break
			}
		}
	}
	cls := "fail"
	if allOK {
		cls = "ok"
	} else if anyOK {
		cls = "mixed"
	}
	zeroLast := len(sp.Out) > 1 && lastInt(sp.Out) == 0
	res.Tags = []string{"kind:scalar", fmt.Sprintf("scalarshape:%d", sp.Shape), "nat:" + natStr(sp.Nat), "class:" + cls,
		fmt.Sprintf("zerolast:%v", zeroLast)}
	if sp.Shape >= 5 {
		res.Tags = append(res.Tags, fmt.Sprintf("anymap:%d", sp.MT))
	}
	return res
}
