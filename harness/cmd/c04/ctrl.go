// Engine C04 — Workflow nodes WITHOUT a data input (round 5).
//
// A Workflow node may depend on a predecessor for its execution only (AddDependency) and take its
// input from nowhere, or from static values only (SetStaticValue).  The channel of such a node has
// nothing to merge: in value mode it hands the node the zero value of its input type, in stream
// mode a stream that must stand for the same value (one zero chunk; dagChannel.get, emptyStream /
// zeroValue of the node's genericHelper).  The four paradigms of the compiled Workflow must agree
// on what the node then computes.  The model's graphs have no node without a data input, so these
// cases are compared by the direct oracle only (like the kinds nilout and scalar).
package main

import (
	"context"
	"fmt"

	"github.com/cloudwego/eino/compose"
	"github.com/cloudwego/eino/schema"

	"verif/harness/lib"
)

type CtrlSpec struct {
	// 0 START -> a => b -> END           (=> : execution dependency only; b : string -> string)
	// 1 the same, b : map -> string       (zero value: the nil map)
	// 2 b : map -> string with a static value under "k" and no other input
	// 3 a and b both feed END through ToField (fan-in of a computed and a constant branch)
	// 4 b is a nested graph (string -> string) that is only triggered, never fed
	// 5 b : string -> string behind a passthrough node that is itself only triggered
	// Shapes 6-8: Workflow edges that carry TWO handlers, a field mapping and the run-time check of the mapped
	// field against a concrete field type (b is declared with map[string]string), in that order:
	// 6 a : string -> any (a string at run time) -> ToField(k) -> b
	// 7 the same, a returns a map at run time: the check fails, in every paradigm
	// 8 a : string -> map[string]any {x: string, y: {z: string}} -> MapFields(x -> y) -> b  (the target field name is
	//   also a field of the source, of another type: the check must see the MAPPED value)
	Shape  int      `json:"shape"`
	Nat    [4]bool  `json:"nat"`    // natives of b (of the node inside the nested graph for shape 4)
	NChunk int      `json:"nchunk"` // chunks b's S / T natives deliver (1-3, one of them empty)
	Pipe   bool     `json:"pipe,omitempty"`
	In     []string `json:"in"` // the caller's input chunks (Invoke / Stream get their concatenation)
}

// what b computes: a rendering of (the concatenation of) its input
func ctrlShow(x any) string {
	switch t := x.(type) {
	case string:
		return "b[" + t + "]"
	case map[string]string:
		s := "b{"
		for _, k := range sortedKeysS(t) {
			s += k + "=" + t[k] + ";"
		}
		return s + "}"
	case map[string]any:
		// a nil map and an empty map are the same value here
		s := "b{"
		for _, k := range sortedKeysPlain(t) {
			s += k + "=" + fmt.Sprint(t[k]) + ";"
		}
		return s + "}"
	}
	return fmt.Sprintf("b<%T:%v>", x, x)
}

func ctrlEmit(sp *CtrlSpec, s string) *schema.StreamReader[string] {
	var parts []string
	switch sp.NChunk {
	case 1:
		parts = []string{s}
	case 2:
		parts = []string{s[:len(s)/2], s[len(s)/2:]}
	default:
		parts = []string{s[:1], "", s[1:]}
	}
	if !sp.Pipe {
		return schema.StreamReaderFromArray(parts)
	}
	sr, sw := schema.Pipe[string](0)
	go func() {
		defer sw.Close()
		for _, p := range parts {
			if sw.Send(p, nil) {
				return
			}
		}
	}()
	return sr
}

func ctrlLambda[I any](sp *CtrlSpec, rec *recorder) *compose.Lambda {
	var fi compose.Invoke[I, string, any]
	var fs compose.Stream[I, string, any]
	var fc compose.Collect[I, string, any]
	var ft compose.Transform[I, string, any]
	whole := func(in *schema.StreamReader[I]) (any, error) {
		cs, err := readAll(in)
		if err != nil {
			return nil, err
		}
		return concatAny(cs)
	}
	if sp.Nat[0] {
		fi = func(ctx context.Context, in I, _ ...any) (string, error) {
			rec.add(ctx, 1, "I")
			return ctrlShow(any(in)), nil
		}
	}
	if sp.Nat[1] {
		fs = func(ctx context.Context, in I, _ ...any) (*schema.StreamReader[string], error) {
			rec.add(ctx, 1, "S")
			return ctrlEmit(sp, ctrlShow(any(in))), nil
		}
	}
	if sp.Nat[2] {
		fc = func(ctx context.Context, in *schema.StreamReader[I], _ ...any) (string, error) {
			rec.add(ctx, 1, "C")
			x, err := whole(in)
			if err != nil {
				return "", err
			}
			return ctrlShow(x), nil
		}
	}
	if sp.Nat[3] {
		ft = func(ctx context.Context, in *schema.StreamReader[I], _ ...any) (*schema.StreamReader[string], error) {
			rec.add(ctx, 1, "T")
			x, err := whole(in)
			if err != nil {
				return nil, err
			}
			return ctrlEmit(sp, ctrlShow(x)), nil
		}
	}
	l, err := compose.AnyLambda(fi, fs, fc, ft)
	if err != nil {
		panic(err)
	}
	return l
}

func compileCtrl(sp *CtrlSpec, rec *recorder) (compose.Runnable[string, any], error) {
	ctx := context.Background()
	a := compose.InvokableLambda(func(ctx context.Context, in string) (string, error) { return "a(" + in + ")", nil })
	if sp.Shape == 3 {
		wf := compose.NewWorkflow[string, map[string]any]()
		wf.AddLambdaNode("a", a).AddInput(compose.START)
		wf.AddLambdaNode("b", ctrlLambda[string](sp, rec)).AddDependency("a")
		wf.End().AddInput("a", compose.ToField("x")).AddInput("b", compose.ToField("y"))
		r, err := wf.Compile(ctx)
		if err != nil {
			return nil, err
		}
		return ctrlErase[map[string]any]{r: r}, nil
	}
	wf := compose.NewWorkflow[string, string]()
	if sp.Shape >= 6 && sp.Shape <= 8 {
		var src *compose.Lambda
		switch sp.Shape {
		case 6:
			src = compose.InvokableLambda(func(ctx context.Context, in string) (any, error) { return "a(" + in + ")", nil })
		case 7:
			src = compose.InvokableLambda(func(ctx context.Context, in string) (any, error) {
				return map[string]any{"q": "a(" + in + ")"}, nil
			})
		default:
			src = compose.StreamableLambda(func(ctx context.Context, in string) (*schema.StreamReader[map[string]any], error) {
				return schema.StreamReaderFromArray([]map[string]any{
					{"x": "a("},
					{"y": map[string]any{"z": in}},
					{"x": in + ")"},
				}), nil
			})
		}
		wf.AddLambdaNode("a", src).AddInput(compose.START)
		if sp.Shape == 8 {
			wf.AddLambdaNode("b", ctrlLambda[map[string]string](sp, rec)).AddInput("a", compose.MapFields("x", "y"))
		} else {
			wf.AddLambdaNode("b", ctrlLambda[map[string]string](sp, rec)).AddInput("a", compose.ToField("k"))
		}
		wf.End().AddInput("b")
		r, err := wf.Compile(ctx)
		if err != nil {
			return nil, err
		}
		return ctrlErase[string]{r: r}, nil
	}
	wf.AddLambdaNode("a", a).AddInput(compose.START)
	switch sp.Shape {
	case 0:
		wf.AddLambdaNode("b", ctrlLambda[string](sp, rec)).AddDependency("a")
	case 1:
		wf.AddLambdaNode("b", ctrlLambda[map[string]any](sp, rec)).AddDependency("a")
	case 2:
		wf.AddLambdaNode("b", ctrlLambda[map[string]any](sp, rec)).AddDependency("a").SetStaticValue(compose.FieldPath{"k"}, "static")
	case 4:
		sub := compose.NewGraph[string, string]()
		if err := sub.AddLambdaNode("n", ctrlLambda[string](sp, rec)); err != nil {
			return nil, err
		}
		if err := sub.AddEdge(compose.START, "n"); err != nil {
			return nil, err
		}
		if err := sub.AddEdge("n", compose.END); err != nil {
			return nil, err
		}
		wf.AddGraphNode("b", sub).AddDependency("a")
	case 5:
		wf.AddPassthroughNode("p").AddDependency("a")
		wf.AddLambdaNode("b", ctrlLambda[string](sp, rec)).AddInput("p")
	default:
		return nil, fmt.Errorf("harness: ctrl shape %d", sp.Shape)
	}
	wf.End().AddInput("b")
	r, err := wf.Compile(ctx)
	if err != nil {
		return nil, err
	}
	return ctrlErase[string]{r: r}, nil
}

// ctrlErase presents a Runnable[string, O] as a Runnable[string, any]
type ctrlErase[O any] struct{ r compose.Runnable[string, O] }

func (e ctrlErase[O]) Invoke(ctx context.Context, in string, opts ...compose.Option) (any, error) {
	return e.r.Invoke(ctx, in, opts...)
}
func (e ctrlErase[O]) Collect(ctx context.Context, in *schema.StreamReader[string], opts ...compose.Option) (any, error) {
	return e.r.Collect(ctx, in, opts...)
}
func (e ctrlErase[O]) Stream(ctx context.Context, in string, opts ...compose.Option) (*schema.StreamReader[any], error) {
	sr, err := e.r.Stream(ctx, in, opts...)
	if err != nil {
		return nil, err
	}
	return schema.StreamReaderWithConvert(sr, func(o O) (any, error) { return o, nil }), nil
}
func (e ctrlErase[O]) Transform(ctx context.Context, in *schema.StreamReader[string], opts ...compose.Option) (*schema.StreamReader[any], error) {
	sr, err := e.r.Transform(ctx, in, opts...)
	if err != nil {
		return nil, err
	}
	return schema.StreamReaderWithConvert(sr, func(o O) (any, error) { return o, nil }), nil
}

func runCtrl(c *Case) lib.Result {
	sp := c.Ctrl
	rec := &recorder{}
	rec.reset()
	res := lib.Result{Nontrivial: true}
	type out struct {
		Class  string   `json:"class"`
		Val    string   `json:"val,omitempty"`
		Chunks []string `json:"chunks,omitempty"`
		Msg    string   `json:"msg,omitempty"`
	}
	obs := struct {
		Err string `json:"err,omitempty"`
		P   [4]out `json:"p"`
	}{}
	r, err := compileCtrl(sp, rec)
	if err != nil {
		obs.Err = "compile: " + err.Error()
		res.Obs, res.Oracle, res.Sig = obs, obs.Err, "harness-compile"
		return res
	}
	whole := ""
	for _, s := range sp.In {
		whole += s
	}
	inStream := func() *schema.StreamReader[string] {
		return schema.StreamReaderFromArray(append([]string(nil), sp.In...))
	}
	ctx := context.Background()
	var chunks [4][]string
	value := func(v any, err error) POut {
		if err != nil {
			return POut{Class: "err-call", Msg: err.Error()}
		}
		return POut{Class: "ok", Msg: renderAny(v)}
	}
	stream := func(par int, sr *schema.StreamReader[any], err error) POut {
		if err != nil {
			return POut{Class: "err-call", Msg: err.Error()}
		}
		cs, err := drain(sr)
		for _, c := range cs {
			chunks[par] = append(chunks[par], renderAny(c))
		}
		if err != nil {
			return POut{Class: "err-item", Msg: err.Error()}
		}
		// the harness's own concatenation, not eino's
		v, err := concatAny(cs)
		if err != nil {
			return POut{Class: "err-item", Msg: "concat of the output stream: " + err.Error()}
		}
		return POut{Class: "ok", Msg: renderAny(v)}
	}
	for par := 0; par < 4; par++ {
		p := par
		o := guarded(func() POut {
			switch p {
			case 0:
				return value(r.Invoke(ctx, whole))
			case 1:
				sr, err := r.Stream(ctx, whole)
				return stream(p, sr, err)
			case 2:
				return value(r.Collect(ctx, inStream()))
			default:
				sr, err := r.Transform(ctx, inStream())
				return stream(p, sr, err)
			}
		})
		obs.P[par] = out{Class: o.Class, Chunks: chunks[par]}
		if o.ok() {
			obs.P[par].Val = o.Msg
		} else {
			obs.P[par].Msg = o.Msg
		}
	}
	res.Obs = obs
	what := "a Workflow node without a data input"
	if sp.Shape >= 6 {
		what = "a Workflow edge with a field mapping followed by the run-time check of the mapped field"
	}
	allOK, anyOK := true, false
	for par := 0; par < 4; par++ {
		o := obs.P[par]
		if o.Class == "panic" || o.Class == "hang" {
			res.Oracle = fmt.Sprintf("%s: %s %s", parName[par], o.Class, o.Msg)
			res.Sig = o.Class
		}
		allOK = allOK && o.Class == "ok"
		anyOK = anyOK || o.Class == "ok"
	}
	if res.Oracle == "" && anyOK && !allOK {
		var parts []string
		msg := ""
		for par := 0; par < 4; par++ {
			parts = append(parts, parName[par]+"="+obs.P[par].Class)
			if msg == "" && obs.P[par].Msg != "" {
				msg = obs.P[par].Msg
			}
		}
		res.Oracle = "a failure is reported in some paradigms only (" + what + "): " + fmt.Sprint(parts) + " | " + msg
		res.Sig = "ctrl-only:fail-some"
	}
	if res.Oracle == "" && allOK {
		for par := 1; par < 4; par++ {
			if obs.P[par].Val != obs.P[0].Val {
				res.Oracle = fmt.Sprintf("%s: %s delivers %s (chunks %v), Invoke returns %s", what, parName[par], obs.P[par].Val, obs.P[par].Chunks, obs.P[0].Val)
				res.Sig = "value-differs"
				break
			}
		}
	}
	cls := "fail"
	if allOK {
		cls = "ok"
	} else if anyOK {
		cls = "mixed"
	}
	res.Tags = []string{"kind:ctrl", fmt.Sprintf("ctrlshape:%d", sp.Shape), "nat:" + natStr(sp.Nat), "class:" + cls}
	return res
}
