// Engine C14, part 5 — minimisation of a case on which the direct oracle fails
// (lib.Shrinker): drop chunks, then drop map keys / message fields, greedily, as long as
// the same oracle failure (same signature) persists.
package main

import (
	"encoding/json"
	"time"
)

// Minimisation is a convenience, never part of the verdict: it stops after shrinkPerCase on one case and after
// shrinkBudget in the whole process (a change that makes hundreds of cases fail, long chunk lists among them, must
// not turn a one-minute check into a ten-minute one); what has been reached by then is what is reported.
const (
	shrinkPerCase = 3 * time.Second
	shrinkBudget  = 20 * time.Second
)

var shrinkSpent time.Duration

func cloneCase(c *Case) *Case {
	b, _ := json.Marshal(c)
	var d Case
	_ = json.Unmarshal(b, &d)
	return &d
}

func (engine) Shrink(ci any, stillFails func(any) bool) any {
	if _, conc := concFailed[concKey(ci.(*Case))]; conc {
		return ci // seen by the concurrent oracle: depends on the interleaving, not minimised (conc.go)
	}
	if _, cold := coldFailed[concKey(ci.(*Case))]; cold {
		return ci // seen by the cold-start oracle: likewise (cold.go)
	}
	start := time.Now()
	defer func() { shrinkSpent += time.Since(start) }()
	over := func() bool { return time.Since(start) > shrinkPerCase || shrinkSpent+time.Since(start) > shrinkBudget }
	cur := cloneCase(ci.(*Case))
	try := func(mut func(c *Case) bool) bool {
		if over() {
			return false
		}
		cand := cloneCase(cur)
		if !mut(cand) {
			return false
		}
		if stillFails(cand) {
			cur = cand
			return true
		}
		return false
	}
	nChunks := func(c *Case) int {
		switch c.Kind {
		case "generic":
			return len(c.Chunks)
		case "msg":
			return len(c.Msgs)
		case "msglist":
			return len(c.Lists)
		case "deep":
			return len(c.Deep)
		}
		return len(c.MMaps)
	}
	dropChunk := func(i int) func(c *Case) bool {
		return func(c *Case) bool {
			if i >= nChunks(c) {
				return false
			}
			switch c.Kind {
			case "generic":
				c.Chunks = append(c.Chunks[:i:i], c.Chunks[i+1:]...)
			case "msg":
				c.Msgs = append(c.Msgs[:i:i], c.Msgs[i+1:]...)
			case "msglist":
				c.Lists = append(c.Lists[:i:i], c.Lists[i+1:]...)
			case "deep":
				c.Deep = append(c.Deep[:i:i], c.Deep[i+1:]...)
			default:
				c.MMaps = append(c.MMaps[:i:i], c.MMaps[i+1:]...)
			}
			return true
		}
	}
	// 0. long lists: whole blocks of chunks first (halves, quarters, ...), then single chunks
	for size := nChunks(cur) / 2; size >= 2; size /= 2 {
		for i := 0; i+size <= nChunks(cur) && !over(); {
			i0, sz := i, size
			if !try(func(c *Case) bool {
				for k := 0; k < sz; k++ {
					if !dropChunk(i0)(c) {
						return false
					}
				}
				return true
			}) {
				i += size
			}
		}
	}
	for progress, rounds := true, 0; progress && rounds < 50 && !over(); rounds++ {
		progress = false
		// 1. whole chunks
		for i := nChunks(cur) - 1; i >= 0; i-- {
			if try(dropChunk(i)) {
				progress = true
			}
		}
		// 2. keys of map chunks (top level)
		if cur.Kind == "generic" {
			for i := range cur.Chunks {
				if cur.Chunks[i] == nil || cur.Chunks[i].K != "map" {
					continue
				}
				for k := range cur.Chunks[i].M {
					i, k := i, k
					if try(func(c *Case) bool { delete(c.Chunks[i].M, k); return true }) {
						progress = true
					}
				}
			}
		}
		if cur.Kind == "deep" {
			// keys at the first two levels
			for i := range cur.Deep {
				for k, v := range cur.Deep[i] {
					i, k := i, k
					if try(func(c *Case) bool { delete(c.Deep[i], k); return true }) {
						progress = true
						continue
					}
					if v.K == "map" {
						for k2 := range v.M {
							k2 := k2
							if try(func(c *Case) bool { delete(c.Deep[i][k].M, k2); return true }) {
								progress = true
							}
						}
					}
				}
			}
		}
		if cur.Kind == "msgmap" {
			for i := range cur.MMaps {
				for k := range cur.MMaps[i] {
					i, k := i, k
					if try(func(c *Case) bool { delete(c.MMaps[i], k); return true }) {
						progress = true
					}
				}
			}
		}
		// 3. fields of message chunks
		shrinkMsg := func(get func(c *Case) *Msg) {
			for _, f := range []func(m *Msg) bool{
				func(m *Msg) bool { ok := m.TCs != nil; m.TCs = nil; return ok },
				func(m *Msg) bool { ok := m.Meta != nil; m.Meta = nil; return ok },
				func(m *Msg) bool { ok := m.Extra != nil; m.Extra = nil; return ok },
				func(m *Msg) bool { ok := m.Multi != nil; m.Multi = nil; return ok },
				func(m *Msg) bool { ok := m.Content != ""; m.Content = ""; return ok },
				func(m *Msg) bool { ok := m.Name != ""; m.Name = ""; return ok },
				func(m *Msg) bool { ok := m.TCID != ""; m.TCID = ""; return ok },
				func(m *Msg) bool { ok := m.Role != ""; m.Role = ""; return ok },
				func(m *Msg) bool {
					ok := len(m.TCs) > 1
					if ok {
						m.TCs = m.TCs[:len(m.TCs)-1]
					}
					return ok
				},
				func(m *Msg) bool {
					ok := len(m.TCs) > 1
					if ok {
						m.TCs = m.TCs[1:]
					}
					return ok
				},
				func(m *Msg) bool {
					ok := m.Meta != nil && m.Meta.Usage != nil
					if ok {
						m.Meta.Usage = nil
					}
					return ok
				},
				func(m *Msg) bool {
					ok := m.Meta != nil && m.Meta.HasLP
					if ok {
						m.Meta.HasLP = false
						m.Meta.LP = nil
					}
					return ok
				},
				func(m *Msg) bool {
					ok := m.Meta != nil && m.Meta.Finish != ""
					if ok {
						m.Meta.Finish = ""
					}
					return ok
				},
			} {
				f := f
				if try(func(c *Case) bool {
					m := get(c)
					if m == nil || m.Nil {
						return false
					}
					return f(m)
				}) {
					progress = true
				}
			}
		}
		if cur.Kind == "msg" {
			for i := range cur.Msgs {
				i := i
				shrinkMsg(func(c *Case) *Msg { return c.Msgs[i] })
			}
		}
		if cur.Kind == "msglist" {
			for i := range cur.Lists {
				for j := range cur.Lists[i] {
					i, j := i, j
					shrinkMsg(func(c *Case) *Msg { return c.Lists[i][j] })
				}
			}
		}
		if cur.Kind == "msgmap" {
			for i := range cur.MMaps {
				for k, v := range cur.MMaps[i] {
					if v.K != "msg" {
						continue
					}
					i, k := i, k
					shrinkMsg(func(c *Case) *Msg { return c.MMaps[i][k].Msg })
				}
			}
		}
	}
	return cur
}
