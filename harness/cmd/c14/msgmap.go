// Engine C14, part 4 — map chunks whose values may be chat messages: map[string]any holding
// *schema.Message values (what a fan-in of message streams produces) next to ordinary
// values, or a map[string]*schema.Message, through concatStreamReader.  Mirrors
// Model/ConcatMsgMap.v.
package main

import (
	"context"
	"fmt"
	"reflect"
	"sort"

	"github.com/cloudwego/eino/compose"
	"github.com/cloudwego/eino/schema"

	"verif/harness/lib"
)

// MV mirrors Model/ConcatMsgMap.v's mval.
type MV struct {
	K   string `json:"k"` // "nilptr" (typed nil *Message) | "msg" | "val" (V; {K:"nil"} = nil interface)
	Msg *Msg   `json:"msg,omitempty"`
	V   *CV    `json:"v,omitempty"`
}

type MMap map[string]*MV

func (v *MV) toGo() any {
	switch v.K {
	case "nilptr":
		return (*schema.Message)(nil)
	case "msg":
		return v.Msg.toGo()
	}
	return v.V.toGo()
}

func mvFromGo(x any) *MV {
	if m, ok := x.(*schema.Message); ok {
		if m == nil {
			return &MV{K: "nilptr"}
		}
		return &MV{K: "msg", Msg: fromGoMsg(m)}
	}
	return &MV{K: "val", V: fromGo(x)}
}

func (v *MV) coq() string {
	switch v.K {
	case "nilptr":
		return "MVPtrNil"
	case "msg":
		return lib.CoqApp("MVMsg", v.Msg.coqBare())
	}
	return lib.CoqApp("MVVal", v.V.coq())
}

func (m MMap) coq() string {
	keys := make([]string, 0, len(m))
	for k := range m {
		keys = append(keys, k)
	}
	sort.Strings(keys)
	items := make([]string, len(keys))
	for i, k := range keys {
		items[i] = lib.CoqPair(lib.CoqStr(k), m[k].coq())
	}
	return lib.CoqList(items)
}

type KObs struct {
	Class string `json:"class"` // val | err | panic
	Val   MMap   `json:"val,omitempty"`
	Msg   string `json:"msg,omitempty"`
}

func (o KObs) coq() string {
	switch o.Class {
	case "val":
		return lib.CoqApp("KVal", o.Val.coq())
	case "err":
		return "KErr"
	}
	return "KPanic"
}

func normMV(v *MV) *MV {
	c := *v
	if c.Msg != nil {
		c.Msg = normMsg(c.Msg)
	}
	if c.V != nil {
		c.V = normalize(c.V)
	}
	return &c
}

func kobsEqual(a, b KObs) bool {
	if a.Class != b.Class {
		return false
	}
	if a.Class != "val" {
		return true
	}
	if len(a.Val) != len(b.Val) {
		return false
	}
	for k, v := range a.Val {
		w, ok := b.Val[k]
		if !ok || !reflect.DeepEqual(normMV(v), normMV(w)) {
			return false
		}
	}
	return true
}

// runMMaps builds fresh Go maps, runs concatStreamReader at the chosen static type and
// verifies that the input messages were not written to.
func runMMaps(typed bool, ms []MMap) (KObs, string) {
	built := make([]map[string]any, len(ms))
	for i, m := range ms {
		if m == nil {
			continue
		}
		built[i] = make(map[string]any, len(m))
		for k, v := range m {
			built[i][k] = v.toGo()
		}
	}
	var out map[string]any
	var err error
	p := lib.Recover(func() {
		if typed {
			items := make([]map[string]*schema.Message, len(built))
			for i, m := range built {
				if m == nil {
					continue
				}
				items[i] = make(map[string]*schema.Message, len(m))
				for k, v := range m {
					items[i][k] = v.(*schema.Message)
				}
			}
			var tout map[string]*schema.Message
			tout, err = compose.VerifConcatStreamReader(schema.StreamReaderFromArray(items))
			if err == nil {
				out = make(map[string]any, len(tout))
				for k, v := range tout {
					out[k] = v
				}
			}
			return
		}
		out, err = compose.VerifConcatStreamReader(schema.StreamReaderFromArray(built))
	})
	var o KObs
	switch {
	case p != nil:
		o = KObs{Class: "panic", Msg: fmt.Sprint(p)}
	case err != nil:
		o = KObs{Class: "err", Msg: err.Error()}
	default:
		o = KObs{Class: "val", Val: MMap{}}
		for k, v := range out {
			o.Val[k] = mvFromGo(v)
		}
	}
	for i, m := range built {
		if len(m) != len(ms[i]) {
			return o, fmt.Sprintf("chunk %d: the input map changed its key set (%d keys, it had %d)", i, len(m), len(ms[i]))
		}
		for k, v := range m {
			spec, had := ms[i][k]
			if !had {
				return o, fmt.Sprintf("chunk %d: the input map gained key %s", i, k)
			}
			g, ok := v.(*schema.Message)
			switch {
			case !ok:
				if spec.K != "val" || !reflect.DeepEqual(normalize(fromGo(v)), normalize(fromGo(spec.V.toGo()))) {
					return o, fmt.Sprintf("chunk %d key %s: input value was modified", i, k)
				}
				continue
			case g == nil:
				if spec.K != "nilptr" {
					return o, fmt.Sprintf("chunk %d key %s: input value became a nil message pointer", i, k)
				}
				continue
			case spec.K != "msg":
				return o, fmt.Sprintf("chunk %d key %s: input value was replaced by a message", i, k)
			}
			if why := sentinelsIntact(g); why != "" {
				return o, fmt.Sprintf("chunk %d key %s: %s", i, k, why)
			}
			if !reflect.DeepEqual(fromGoMsg(g), fromGoMsg(ms[i][k].Msg.toGo())) {
				return o, fmt.Sprintf("chunk %d key %s: input message was modified", i, k)
			}
		}
	}
	return o, ""
}

func runMsgMap(c *Case) lib.Result {
	res := lib.Result{}
	o, mut := runMMaps(c.Typed, c.MMaps)
	res.Obs = o
	n := len(c.MMaps)
	res.Tags = []string{"kind:msgmap", "class:" + o.Class, fmt.Sprintf("chunks:%d", n), fmt.Sprintf("typed:%v", c.Typed)}
	var hasMsg, hasVal, hasNilPtr bool
	for _, m := range c.MMaps {
		for _, v := range m {
			hasMsg = hasMsg || v.K == "msg"
			hasNilPtr = hasNilPtr || v.K == "nilptr"
			hasVal = hasVal || (v.K == "val" && v.V.K != "nil")
		}
	}
	if hasMsg && hasVal {
		res.Tags = append(res.Tags, "feat:msg-and-values")
	}
	if hasNilPtr {
		res.Tags = append(res.Tags, "feat:nil-msg-pointer")
	}
	res.Nontrivial = n >= 2
	cs := make([]string, n)
	for i, m := range c.MMaps {
		cs[i] = m.coq()
	}
	res.CoqTerm = lib.CoqApp("CaseMsgMap", lib.CoqList(cs), o.coq())
	fail := func(sig, format string, a ...any) {
		if res.Oracle == "" {
			res.Oracle = fmt.Sprintf(format, a...)
			res.Sig = sig
		}
	}
	if o.Class == "panic" {
		fail("msgmap-panic", "concatStreamReader on map chunks with message values panicked: %s", o.Msg)
	}
	if mut != "" {
		fail("msgmap-input-mutated", "%s", mut)
	}
	for rep := 0; rep < 2; rep++ {
		if o2, _ := runMMaps(c.Typed, c.MMaps); !kobsEqual(o, o2) {
			fail("msgmap-nondet", "non-deterministic result: %s vs %s", js(o), js(o2))
		}
	}
	if c.Fanin {
		res.Tags = append(res.Tags, "api:fan-in")
		if of := runFanin(c.MMaps); !kobsEqual(o, of) {
			fail("msgmap-fanin-disagree", "a compose fan-in of the per-key streams gives %s, concatStreamReader on the interleaved chunks gives %s", js(of), js(o))
		}
	}
	for i := 0; i < n && res.Oracle == ""; i++ {
		for j := i + 1; j <= n && res.Oracle == ""; j++ {
			if i == 0 && j == n {
				continue
			}
			seg, _ := runMMaps(c.Typed, c.MMaps[i:j])
			sig := "msgmap-rechunk"
			if i > 0 {
				sig = "msgmap-rechunk-mid"
			}
			if seg.Class == "panic" {
				fail("msgmap-panic", "chunks [%d,%d) panic: %s", i, j, seg.Msg)
				continue
			}
			if seg.Class != "val" {
				if o.Class == "val" {
					fail(sig, "chunks [%d,%d) fail alone (%s) but the whole list concatenates", i, j, seg.Msg)
				}
				continue
			}
			spliced := append(append(append([]MMap{}, c.MMaps[:i]...), seg.Val), c.MMaps[j:]...)
			if o2, _ := runMMaps(c.Typed, spliced); !kobsEqual(o, o2) {
				fail(sig, "concatenating chunks [%d,%d) first changes the result: whole=%s split=%s", i, j, js(o), js(o2))
			}
		}
	}
	return res
}

// runFanin: the real glue.  One streaming lambda per key emits that key's messages; the
// parallel's outputs are merged by the engine into a stream of map[string]any chunks (in an
// interleaving of its own choosing) and concatenated for the invoke-only sink.  By
// interleaving_independent (Props/C14.v) the result must not depend on the interleaving.
func runFanin(ms []MMap) KObs {
	perKey := map[string][]*Msg{}
	var keys []string
	for _, m := range ms {
		for k, v := range m {
			if _, ok := perKey[k]; !ok {
				keys = append(keys, k)
			}
			if v.K == "nilptr" {
				perKey[k] = append(perKey[k], &Msg{Nil: true})
			} else {
				perKey[k] = append(perKey[k], v.Msg)
			}
		}
	}
	sort.Strings(keys)
	if len(keys) == 0 {
		return KObs{Class: "err", Msg: "no stream"}
	}
	var out map[string]any
	var err error
	p := lib.Recover(func() {
		ctx := context.Background()
		par := compose.NewParallel()
		for _, k := range keys {
			msgs := buildMsgs(perKey[k])
			par.AddLambda(k, compose.StreamableLambda(func(ctx context.Context, in string) (*schema.StreamReader[*schema.Message], error) {
				return schema.StreamReaderFromArray(msgs), nil
			}))
		}
		ch := compose.NewChain[string, map[string]any]()
		ch.AppendParallel(par)
		ch.AppendLambda(compose.InvokableLambda(func(ctx context.Context, in map[string]any) (map[string]any, error) {
			return in, nil
		}))
		r, cerr := ch.Compile(ctx)
		if cerr != nil {
			panic("harness: fan-in chain does not compile: " + cerr.Error())
		}
		call := func() (map[string]any, error) {
			sr, serr := r.Stream(ctx, "")
			if serr != nil {
				return nil, serr
			}
			return compose.VerifConcatStreamReader(sr)
		}
		out, err = call()
		// a second call on the SAME compiled object (the lambdas hand out the same message values again)
		out2, err2 := call()
		if o1, o2 := faninObs(out, err), faninObs(out2, err2); !kobsEqual(o1, o2) && secondCall == "" {
			secondCall = fmt.Sprintf("fan-in: the second Stream call on the same compiled chain (same chunks) gives %s, the first gave %s", js(o2), js(o1))
		}
	})
	if p != nil {
		return KObs{Class: "panic", Msg: fmt.Sprint(p)}
	}
	return faninObs(out, err)
}

func faninObs(out map[string]any, err error) KObs {
	if err != nil {
		return KObs{Class: "err", Msg: err.Error()}
	}
	o := KObs{Class: "val", Val: MMap{}}
	for k, v := range out {
		o.Val[k] = mvFromGo(v)
	}
	return o
}

// genFaninCase: 2-3 keys, 1-4 message chunks per key, every map chunk holds one key; the
// chunk list is a random interleaving of the per-key sequences.
func genFaninCase(r *lib.Rng, tier string) *Case {
	c := &Case{Kind: "msgmap", Fanin: true}
	nk := r.Range(2, 3) // a Parallel needs at least two branches
	var queues [][]MMap
	for j := 0; j < nk; j++ {
		k := keyPool[j]
		p := newProfile(r, tier)
		var q []MMap
		for i, nc := 0, r.Range(1, 4); i < nc; i++ {
			msg := genMsg(r, p)
			if msg.Nil {
				q = append(q, MMap{k: &MV{K: "nilptr"}})
				continue
			}
			if len(msg.TCs) > 2 {
				msg.TCs = msg.TCs[:2]
			}
			q = append(q, MMap{k: &MV{K: "msg", Msg: msg}})
		}
		queues = append(queues, q)
	}
	for len(queues) > 0 {
		j := r.Intn(len(queues))
		c.MMaps = append(c.MMaps, queues[j][0])
		queues[j] = queues[j][1:]
		if len(queues[j]) == 0 {
			queues = append(queues[:j], queues[j+1:]...)
		}
	}
	return c
}

func genMsgMapCase(r *lib.Rng, tier string) *Case {
	if r.Chance(1, 3) {
		return genFaninCase(r, tier)
	}
	c := &Case{Kind: "msgmap", Typed: r.Chance(1, 3)}
	n := r.Intn(6)
	if tier == "thorough" {
		n = r.Intn(10)
	}
	profiles := map[string]*msgProfile{}
	kinds := map[string]int{} // 0 = message, 1 = ordinary value
	valTypes := map[string]int{}
	for i := 0; i < n; i++ {
		m := MMap{}
		if r.Chance(1, 20) {
			m = nil
		}
		for j, nk := 0, r.Intn(4); j < nk && m != nil; j++ {
			k := r.Pick(keyPool)
			kind, seen := kinds[k]
			if !seen {
				kind = 0
				if !c.Typed && r.Chance(2, 5) {
					kind = 1
				}
				kinds[k] = kind
				profiles[k] = newProfile(r, tier)
			} else if !c.Typed && r.Chance(1, 15) {
				kind = 1 - kind // deliberate clash between a message and an ordinary value
			}
			switch {
			case !c.Typed && r.Chance(1, 8):
				m[k] = &MV{K: "val", V: &CV{K: "nil"}}
			case kind == 0 && r.Chance(1, 12):
				m[k] = &MV{K: "nilptr"}
			case kind == 0:
				msg := genMsg(r, profiles[k])
				if msg.Nil {
					m[k] = &MV{K: "nilptr"}
				} else {
					if len(msg.TCs) > 2 {
						msg.TCs = msg.TCs[:2]
					}
					m[k] = &MV{K: "msg", Msg: msg}
				}
			default:
				td, ok := valTypes[k]
				if !ok {
					td = []int{tdStr, tdInt, tdS0, tdAcc, tdMapAny, tdMapStr}[r.Intn(6)]
					valTypes[k] = td
				}
				m[k] = &MV{K: "val", V: genVal(r, td, 1)}
			}
		}
		c.MMaps = append(c.MMaps, m)
	}
	return c
}
