// Engine C14, part 6: concatenation while other concatenations run.
//
// The property: the result is a (deterministic) function OF THE CHUNK SEQUENCE - hence of nothing else, in
// particular not of what other stream-to-value conversions the process performs at the same time (the graph engine
// converts the streams of parallel branches and of concurrent runs on different goroutines).  An implementation
// that keeps state between calls (a cache of the last lookup, a pooled buffer, a memo table) without
// synchronisation satisfies every single-threaded law and still breaks this one.  For the cases the generator
// marks (Case.Conc = rounds per goroutine) the case's own concatenation is repeated on two goroutines while
// three other goroutines concatenate chunk lists of OTHER types (strings, int64, a map[string]any holding int64 /
// string / registered struct values, messages with tool-call fragments, usage and Extra maps, a stream of any, a
// registered struct type, map[string]string, and the stream-level entry points ConcatMessageStream /
// concatStreamReader on messages, strings and message lists); every result, the case's and the
// companions', must equal what the same call returned when it ran alone.  Nothing here depends on timing for its
// verdict: a slow machine only makes the interleavings coarser (a miss, never an alarm).
package main

import (
	"fmt"
	"reflect"
	"sync"
	"sync/atomic"

	"github.com/cloudwego/eino/compose"
	"github.com/cloudwego/eino/schema"

	"verif/harness/lib"
)

// renderObs: class, and the value for class val (error and panic texts may legitimately name another key)
func renderObs(class string, val any) string {
	if class != "val" {
		return class
	}
	return "val " + js(val)
}

// pure variants of the generic entry points: no shared harness state (genericMut), chunk values built per call
func concatPure(c *Case, chunks []*CV) string {
	vals := make([]any, len(chunks))
	for i, ch := range chunks {
		vals[i] = ch.toGo()
	}
	return concatPureVals(c, chunks, vals)
}

// concatSharedVals: the case's own concatenation on chunk values built ONCE: every call, on whatever goroutine,
// is handed the same Go values (maps, pointers) - what two consumers of one copied stream get.  The sequential
// oracles check that a concatenation does not write to its chunks, so sharing them is safe for an implementation
// that keeps to that; one that writes to a chunk and puts the old value back before returning shows here.
func concatSharedVals(c *Case) func() string {
	vals := make([]any, len(c.Chunks))
	for i, ch := range c.Chunks {
		vals[i] = ch.toGo()
	}
	return func() string { return concatPureVals(c, c.Chunks, vals) }
}

func concatPureVals(c *Case, chunks []*CV, vals []any) string {
	var o Obs
	switch {
	case c.Any && c.Tagged && taggedOK(chunks):
		o = concatTaggedGo(chunks)
	case c.Any:
		var out any
		var err error
		p := lib.Recover(func() { out, err = compose.VerifConcatStreamReader(schema.StreamReaderFromArray(vals)) })
		switch {
		case p != nil:
			o = Obs{Class: "panic", Msg: fmt.Sprint(p)}
		case err != nil:
			o = Obs{Class: "err", Msg: err.Error()}
		default:
			o = Obs{Class: "val", Val: fromGo(out)}
		}
	default:
		o = concatVals(chunks, vals, -1)
	}
	if o.Class == "panic" {
		return "panic " + o.Msg
	}
	return renderObs(o.Class, normalize(o.Val))
}

type companion struct {
	name string
	run  func() any // the Go value returned (an error or a recovered panic as a string "err ..." / "panic ...")
	base any
}

var (
	companions     []*companion
	companionsOnce sync.Once
)

// typedCompanion: internal.ConcatItems on a prebuilt typed chunk list (the chunks are never written to - the
// sequential oracles check that - so every goroutine may read the same list); as little harness work per call
// as possible, so that most of a companion's time is spent inside the concatenation
func typedCompanion[T any](name string, items []T) *companion {
	return &companion{name: name, run: func() (out any) {
		if p := lib.Recover(func() {
			v, err := compose.VerifConcatItems(items)
			if err != nil {
				out = "err " + err.Error()
			} else {
				out = v
			}
		}); p != nil {
			out = fmt.Sprint("panic ", p)
		}
		return out
	}}
}

func initCompanions() {
	companions = buildCompanions()
	for _, k := range companions {
		k.base = k.run()
	}
}

// buildCompanions: the companion calls, none of them run yet (cold.go needs them before ANY concatenation of the process)
func buildCompanions() []*companion {
	i0, i1 := 0, 1
	msgs := []*schema.Message{
		{Role: schema.Assistant, Content: "he", Extra: map[string]any{"k": "a", "n": int64(1)},
			ToolCalls: []schema.ToolCall{{Index: &i1, ID: "c1", Function: schema.FunctionCall{Name: "g", Arguments: "{\"q\":"}}, {Index: &i0, ID: "c0", Function: schema.FunctionCall{Name: "f", Arguments: "[1,"}}}},
		{Role: schema.Assistant, Content: "llo", Extra: map[string]any{"k": "b", "n": int64(2), "m": map[string]any{"x": "u"}},
			ToolCalls: []schema.ToolCall{{Index: &i0, Function: schema.FunctionCall{Arguments: "2]"}}, {Index: &i1, Function: schema.FunctionCall{Arguments: "true}"}}}},
		{Content: "!", Extra: map[string]any{"m": map[string]any{"x": "v"}}, ResponseMeta: &schema.ResponseMeta{FinishReason: "stop", Usage: &schema.TokenUsage{PromptTokens: 3, CompletionTokens: 4, TotalTokens: 7}}},
	}
	viaStream := func(name string, f func() (any, error)) *companion {
		return &companion{name: name, run: func() (out any) {
			if p := lib.Recover(func() {
				v, err := f()
				if err != nil {
					out = "err " + err.Error()
				} else {
					out = v
				}
			}); p != nil {
				out = fmt.Sprint("panic ", p)
			}
			return out
		}}
	}
	return []*companion{
		typedCompanion("string chunks", []string{"a", "b", "c"}),
		typedCompanion("int64 chunks", []int64{1, 2, 3}),
		typedCompanion("map[string]any chunks {n int64, t string, a Acc}", []map[string]any{
			{"n": int64(0), "t": "x", "a": Acc{N: 1}}, {"n": int64(1), "t": "x", "a": Acc{N: 2}}, {"n": int64(2), "t": "x"}}),
		{name: "message chunks with Extra maps", run: func() (out any) {
			if p := lib.Recover(func() {
				v, err := schema.ConcatMessages(msgs)
				if err != nil {
					out = "err " + err.Error()
				} else {
					out = v
				}
			}); p != nil {
				out = fmt.Sprint("panic ", p)
			}
			return out
		}},
		typedCompanion("any chunks (float64, nil)", []any{float64(1), nil, float64(2)}),
		typedCompanion("Acc chunks (registered function)", []Acc{{N: 1}, {N: 2}, {N: 3}}),
		typedCompanion("map[string]string chunks", []map[string]string{{"a": "x"}, {"a": "y", "b": "z"}}),
		// the stream-level entry points
		viaStream("message chunks through ConcatMessageStream", func() (any, error) {
			return schema.ConcatMessageStream(schema.StreamReaderFromArray(msgs))
		}),
		viaStream("string chunks through concatStreamReader", func() (any, error) {
			return compose.VerifConcatStreamReader(schema.StreamReaderFromArray([]string{"x", "", "yz"}))
		}),
		viaStream("message lists through concatStreamReader", func() (any, error) {
			return compose.VerifConcatStreamReader(schema.StreamReaderFromArray([][]*schema.Message{{msgs[0], nil}, {msgs[1], msgs[2]}}))
		}),
	}
}

// concFailed: what the concurrent phase reported for a case of this process (key: the case without its Conc
// field).  A failure here depends on the interleaving the run happened to get, so it need not show again when
// lib.Main runs the same case a second time (it does so after shrinking): what was observed once is reported
// again, the case is not minimised (shrink.go), and its Conc is raised so that a replay in a fresh process
// tries much longer than the generated case did.
var concFailed = map[string]string{}

func concKey(c *Case) string {
	d := *c
	d.Conc = 0
	d.Cold = 0
	return js(&d)
}

const concReplayRounds = 20000

// concurrentPhase: the concurrent oracle on case c (own = its own concatenation); "" = nothing seen
func concurrentPhase(c *Case, own func() string) string {
	key := concKey(c)
	if why, ok := concFailed[key]; ok {
		return why
	}
	why := concurrentCheck(c.Conc, own)
	if why != "" {
		concFailed[key] = why
		if c.Conc < concReplayRounds {
			c.Conc = concReplayRounds
		}
	}
	return why
}

// concurrentCheck: own = the case's own concatenation (reentrant, canonical rendering).  Returns what failed.
func concurrentCheck(rounds int, own func() string) string {
	companionsOnce.Do(initCompanions)
	base := own()
	if again := own(); again != base {
		return "" // not deterministic even alone: reported by the sequential oracle
	}
	var (
		mu   sync.Mutex
		why  string
		wg   sync.WaitGroup
		stop = make(chan struct{})
	)
	report := func(s string) {
		mu.Lock()
		if why == "" {
			why = s
			close(stop)
		}
		mu.Unlock()
	}
	stopped := func() bool {
		select {
		case <-stop:
			return true
		default:
			return false
		}
	}
	start := make(chan struct{})
	worker := func(name string, f func() string, want string, n int) {
		defer wg.Done()
		<-start
		for i := 0; i < n && !stopped(); i++ {
			var got string
			if p := lib.Recover(func() { got = f() }); p != nil {
				got = fmt.Sprint("panic ", p)
			}
			if got != want {
				report(fmt.Sprintf("%s gives %s when it runs alone and %s while other concatenations run at the same time", name, want, got))
				return
			}
		}
	}
	const ownWorkers, otherWorkers = 2, 3
	var ownDone int32
	wg.Add(ownWorkers + otherWorkers)
	for w := 0; w < ownWorkers; w++ {
		go func() {
			worker("the case's chunk list", own, base, rounds)
			atomic.AddInt32(&ownDone, 1)
		}()
	}
	for w := 0; w < otherWorkers; w++ {
		w := w
		go func() {
			defer wg.Done()
			<-start
			// at least `rounds` calls, and for as long as the case's own workers are running
			for i := 0; (i < rounds || atomic.LoadInt32(&ownDone) < ownWorkers) && !stopped(); i++ {
				k := companions[(w+i)%len(companions)]
				if got := k.run(); !reflect.DeepEqual(got, k.base) {
					report(fmt.Sprintf("%s give %s when their concatenation runs alone and %s while other concatenations (this case's among them) run at the same time",
						k.name, show(k.base), show(got)))
					return
				}
			}
		}()
	}
	close(start)
	wg.Wait()
	return why
}

func show(x any) string {
	if s, ok := x.(string); ok {
		return s
	}
	return js(x)
}

// one generic / message case in concOneIn runs the concurrent phase, concRounds rounds per goroutine
const (
	concOneIn  = 8
	concRounds = 400
)
