// Engine C14, part 3 — custom chunk types with a concat function registered by the
// application (compose.RegisterStreamChunkConcatFunc).  Mirrors Model/ConcatUser.v
// (harness_user): the registered function is called with the chunk list as it is, at top
// level (concatStreamReader[Acc]) and under map keys (concatSliceValue -> GetConcatFunc).
package main

import (
	"fmt"

	"github.com/cloudwego/eino/compose"
)

// Acc: registered function = sum of the N fields.
type Acc struct{ N int }

// Lim: registered function = sum of the N fields, an error when the sum exceeds 5.
type Lim struct{ N int }

func init() {
	compose.RegisterStreamChunkConcatFunc(func(items []Acc) (Acc, error) {
		s := 0
		for _, it := range items {
			s += it.N
		}
		return Acc{N: s}, nil
	})
	compose.RegisterStreamChunkConcatFunc(func(items []Lim) (Lim, error) {
		s := 0
		for _, it := range items {
			s += it.N
		}
		if s > 5 {
			return Lim{}, fmt.Errorf("Lim: sum %d exceeds 5", s)
		}
		return Lim{N: s}, nil
	})
}

// Num: an interface type with a concat function registered for the interface type itself:
// ConcatItems[Num] must hand the chunks to it (it must not fall back to concatenation by
// dynamic type).  The function sums Val() over the non-nil chunks and answers with a NumA, and
// with the nil Num when every chunk is nil.
type Num interface{ Val() int }
type NumA int
type NumB struct{ V int }

func (n NumA) Val() int { return int(n) }
func (n NumB) Val() int { return n.V }

func init() {
	compose.RegisterStreamChunkConcatFunc(func(items []Num) (Num, error) {
		s, some := 0, false
		for _, it := range items {
			if it != nil {
				some = true
				s += it.Val()
			}
		}
		if !some {
			// nothing to sum: the nil Num (a legitimate value of the chunk type; payload 0 in the model)
			return nil, nil
		}
		return NumA(s), nil
	})
}

// usesRegistered: some chunk (at any depth) is of a type registered here
func usesRegistered(vs []*CV) bool {
	for _, v := range vs {
		if v == nil {
			continue
		}
		if v.K == "other" && (v.Tag == 6 || v.Tag == 7 || v.Tag == 9) {
			return true
		}
		if v.K == "map" {
			for _, e := range v.M {
				if usesRegistered([]*CV{e}) {
					return true
				}
			}
		}
	}
	return false
}
