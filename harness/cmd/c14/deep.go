// Engine C14, part 6 — map[string]any chunks whose values, at any nesting depth, may be chat
// messages, typed nil message pointers, message lists ([]*schema.Message), ordinary values,
// nil interfaces or again map[string]any maps of these, through concatStreamReader.
// Mirrors Model/ConcatDeep.v (a Go map[string]any is always rendered as DMap).
package main

import (
	"fmt"
	"reflect"
	"sort"

	"github.com/cloudwego/eino/compose"
	"github.com/cloudwego/eino/schema"

	"verif/harness/lib"
)

// DV mirrors Model/ConcatDeep.v's dval.
type DV struct {
	K    string         `json:"k"` // "nilptr" | "msg" | "list" | "val" | "map"
	Msg  *Msg           `json:"msg,omitempty"`
	List []*Msg         `json:"list,omitempty"` // list: entries may be nil messages ({"nil":true})
	V    *CV            `json:"v,omitempty"`    // val: never a map[string]any ({K:"nil"} = nil interface)
	M    map[string]*DV `json:"m,omitempty"`
}

type DMap map[string]*DV

func (v *DV) toGo() any {
	switch v.K {
	case "nilptr":
		return (*schema.Message)(nil)
	case "msg":
		return v.Msg.toGo()
	case "list":
		if v.List == nil {
			return []*schema.Message(nil)
		}
		return buildMsgs(v.List)
	case "map":
		return DMap(v.M).toGo()
	}
	return v.V.toGo()
}

func (m DMap) toGo() map[string]any {
	if m == nil {
		return nil
	}
	out := make(map[string]any, len(m))
	for k, v := range m {
		out[k] = v.toGo()
	}
	return out
}

func dvFromGo(x any) *DV {
	switch t := x.(type) {
	case *schema.Message:
		if t == nil {
			return &DV{K: "nilptr"}
		}
		return &DV{K: "msg", Msg: fromGoMsg(t)}
	case []*schema.Message:
		l := []*Msg{}
		for _, g := range t {
			l = append(l, fromGoMsg(g))
		}
		return &DV{K: "list", List: l}
	case map[string]any:
		return &DV{K: "map", M: dmapFromGo(t)}
	}
	return &DV{K: "val", V: fromGo(x)}
}

func dmapFromGo(m map[string]any) DMap {
	out := DMap{}
	for k, v := range m {
		out[k] = dvFromGo(v)
	}
	return out
}

func (v *DV) coq() string {
	switch v.K {
	case "nilptr":
		return "DPtrNil"
	case "msg":
		return lib.CoqApp("DMsg", v.Msg.coqBare())
	case "list":
		return lib.CoqApp("DList", msgsCoq(v.List))
	case "map":
		return lib.CoqApp("DMap", DMap(v.M).coq())
	}
	return lib.CoqApp("DVal", v.V.coq())
}

func (m DMap) coq() string {
	keys := make([]string, 0, len(m))
	for k := range m {
		keys = append(keys, k)
	}
	sort.Strings(keys)
	items := make([]string, len(keys))
	for i, k := range keys {
		items[i] = lib.CoqPair(lib.CoqStr(k), m[k].coq())
	}
	return lib.CoqList(items)
}

type DObs struct {
	Class string `json:"class"` // val | err | panic
	Val   DMap   `json:"val,omitempty"`
	Msg   string `json:"msg,omitempty"`
}

func (o DObs) coq() string {
	switch o.Class {
	case "val":
		return lib.CoqApp("DOVal", o.Val.coq())
	case "err":
		return "DOErr"
	}
	return "DOPanic"
}

// normDV: nil and empty slices / maps are the same value
func normDV(v *DV) *DV {
	c := *v
	if c.Msg != nil {
		c.Msg = normMsg(c.Msg)
	}
	if c.K == "list" {
		l := []*Msg{}
		for _, m := range c.List {
			if m == nil || m.Nil {
				l = append(l, &Msg{Nil: true})
			} else {
				l = append(l, normMsg(m))
			}
		}
		c.List = l
	}
	if c.V != nil {
		c.V = normalize(c.V)
	}
	if c.K == "map" {
		m := map[string]*DV{}
		for k, e := range c.M {
			m[k] = normDV(e)
		}
		c.M = m
	}
	return &c
}

func dobsEqual(a, b DObs) bool {
	if a.Class != b.Class {
		return false
	}
	if a.Class != "val" {
		return true
	}
	return reflect.DeepEqual(normDV(&DV{K: "map", M: a.Val}), normDV(&DV{K: "map", M: b.Val}))
}

// checkDeepInputs: the messages inside the built chunks were not written to
func checkDeepInputs(built any, spec *DV, where string) string {
	switch spec.K {
	case "msg":
		g := built.(*schema.Message)
		if why := sentinelsIntact(g); why != "" {
			return where + ": " + why
		}
		if !reflect.DeepEqual(fromGoMsg(g), fromGoMsg(spec.Msg.toGo())) {
			return where + ": input message was modified"
		}
	case "list":
		gs := built.([]*schema.Message)
		if len(gs) != len(spec.List) {
			return where + ": input message list changed length"
		}
		for i, g := range gs {
			if g == nil {
				if !spec.List[i].Nil {
					return fmt.Sprintf("%s[%d]: input entry became nil", where, i)
				}
				continue
			}
			if why := sentinelsIntact(g); why != "" {
				return fmt.Sprintf("%s[%d]: %s", where, i, why)
			}
			if !reflect.DeepEqual(fromGoMsg(g), fromGoMsg(spec.List[i].toGo())) {
				return fmt.Sprintf("%s[%d]: input message was modified", where, i)
			}
		}
	case "map":
		bm := built.(map[string]any)
		if len(bm) != len(spec.M) {
			return where + ": input map changed its key set"
		}
		for k, e := range spec.M {
			bv, ok := bm[k]
			if !ok {
				return where + ": input map lost key " + k
			}
			if why := checkDeepInputs(bv, e, where+"/"+k); why != "" {
				return why
			}
		}
	}
	return ""
}

func runDeepOn(ms []DMap) (DObs, string) {
	built := make([]map[string]any, len(ms))
	for i, m := range ms {
		built[i] = m.toGo()
	}
	var out map[string]any
	var err error
	p := lib.Recover(func() {
		out, err = compose.VerifConcatStreamReader(schema.StreamReaderFromArray(built))
	})
	var o DObs
	switch {
	case p != nil:
		o = DObs{Class: "panic", Msg: fmt.Sprint(p)}
	case err != nil:
		o = DObs{Class: "err", Msg: err.Error()}
	default:
		o = DObs{Class: "val", Val: dmapFromGo(out)}
	}
	for i, m := range ms {
		if m == nil {
			continue
		}
		if why := checkDeepInputs(built[i], &DV{K: "map", M: m}, fmt.Sprintf("chunk %d", i)); why != "" {
			return o, why
		}
	}
	return o, ""
}

func dvDepth(v *DV) int {
	if v == nil || v.K != "map" {
		return 0
	}
	d := 0
	for _, e := range v.M {
		if x := dvDepth(e); x > d {
			d = x
		}
	}
	return d + 1
}

func dvHas(v *DV, level int, p func(*DV, int) bool) bool {
	if v == nil {
		return false
	}
	if p(v, level) {
		return true
	}
	for _, e := range v.M {
		if dvHas(e, level+1, p) {
			return true
		}
	}
	return false
}

func runDeep(c *Case) lib.Result {
	res := lib.Result{}
	o, mut := runDeepOn(c.Deep)
	res.Obs = o
	n := len(c.Deep)
	depth := 0
	var deepMsg, deepList, anyList bool
	for _, m := range c.Deep {
		top := &DV{K: "map", M: m}
		if d := dvDepth(top); d > depth {
			depth = d
		}
		deepMsg = deepMsg || dvHas(top, 0, func(v *DV, l int) bool { return l >= 2 && (v.K == "msg" || v.K == "nilptr") })
		deepList = deepList || dvHas(top, 0, func(v *DV, l int) bool { return l >= 2 && v.K == "list" })
		anyList = anyList || dvHas(top, 0, func(v *DV, l int) bool { return v.K == "list" })
	}
	res.Tags = []string{"kind:deep", "class:" + o.Class, fmt.Sprintf("chunks:%d", n), fmt.Sprintf("depth:%d", depth)}
	if deepMsg {
		res.Tags = append(res.Tags, "feat:nested-msg")
	}
	if anyList {
		res.Tags = append(res.Tags, "feat:msg-list-in-map")
	}
	if deepList {
		res.Tags = append(res.Tags, "feat:nested-msg-list")
	}
	res.Nontrivial = n >= 2
	cs := make([]string, n)
	for i, m := range c.Deep {
		cs[i] = m.coq()
	}
	res.CoqTerm = lib.CoqApp("CaseDeep", lib.CoqList(cs), o.coq())
	fail := func(sig, format string, a ...any) {
		if res.Oracle == "" {
			res.Oracle = fmt.Sprintf(format, a...)
			res.Sig = sig
		}
	}
	if o.Class == "panic" {
		fail("deep-panic", "concatStreamReader on nested map chunks panicked: %s", o.Msg)
	}
	if mut != "" {
		fail("deep-input-mutated", "%s", mut)
	}
	for rep := 0; rep < 2; rep++ {
		if o2, _ := runDeepOn(c.Deep); !dobsEqual(o, o2) {
			fail("deep-nondet", "non-deterministic result: %s vs %s", js(o), js(o2))
		}
	}
	for i := 0; i < n && res.Oracle == ""; i++ {
		for j := i + 1; j <= n && res.Oracle == ""; j++ {
			if i == 0 && j == n {
				continue
			}
			seg, _ := runDeepOn(c.Deep[i:j])
			sig := "deep-rechunk"
			if i > 0 {
				sig = "deep-rechunk-mid"
			}
			if seg.Class == "panic" {
				fail("deep-panic", "chunks [%d,%d) panic: %s", i, j, seg.Msg)
				continue
			}
			if seg.Class != "val" {
				if o.Class == "val" {
					fail(sig, "chunks [%d,%d) fail alone (%s) but the whole list concatenates", i, j, seg.Msg)
				}
				continue
			}
			spliced := append(append(append([]DMap{}, c.Deep[:i]...), seg.Val), c.Deep[j:]...)
			o2, _ := runDeepOn(spliced)
			if o2.Class == "panic" {
				fail("deep-panic", "panic after chunks [%d,%d) were concatenated first: %s", i, j, o2.Msg)
			} else if !dobsEqual(o, o2) {
				fail(sig, "concatenating chunks [%d,%d) first changes the result: whole=%s split=%s", i, j, js(o), js(o2))
			}
		}
	}
	return res
}

// ---------------------------------------------------------------- generator

type deepProfile struct {
	tier     string
	kinds    map[string]int // per key path: 0 message, 1 message list, 2 ordinary value, 3 nested map
	profiles map[string]*msgProfile
	valTypes map[string]int
	widths   map[string]int
}

func (p *deepProfile) msgProfile(r *lib.Rng, path string) *msgProfile {
	mp, ok := p.profiles[path]
	if !ok {
		mp = newProfile(r, p.tier)
		mp.depth = 1
		p.profiles[path] = mp
	}
	return mp
}

func (p *deepProfile) genMsg(r *lib.Rng, path string) *Msg {
	m := genMsg(r, p.msgProfile(r, path))
	if len(m.TCs) > 2 {
		m.TCs = m.TCs[:2]
	}
	return m
}

func genDeepMap(r *lib.Rng, p *deepProfile, path string, depth int) DMap {
	m := DMap{}
	nk := r.Range(1, 3)
	if r.Chance(1, 10) {
		nk = 0
	}
	for j := 0; j < nk; j++ {
		k := r.Pick(keyPool[:4])
		full := path + "/" + k
		kind, seen := p.kinds[full]
		if !seen {
			switch x := r.Intn(20); {
			case x < 6:
				kind = 0
			case x < 9:
				kind = 1
			case x < 13:
				kind = 2
			default:
				kind = 3
			}
			if kind == 3 && depth <= 0 {
				kind = r.Intn(3)
			}
			p.kinds[full] = kind
		} else if r.Chance(1, 15) {
			kind = r.Intn(4) // deliberate clash
			if kind == 3 && depth <= 0 {
				kind = 2
			}
		}
		switch {
		case r.Chance(1, 10):
			m[k] = &DV{K: "val", V: &CV{K: "nil"}}
		case kind == 0 && r.Chance(1, 12):
			m[k] = &DV{K: "nilptr"}
		case kind == 0:
			msg := p.genMsg(r, full)
			if msg.Nil {
				m[k] = &DV{K: "nilptr"}
			} else {
				m[k] = &DV{K: "msg", Msg: msg}
			}
		case kind == 1:
			w, ok := p.widths[full]
			if !ok {
				w = r.Intn(3)
				p.widths[full] = w
			}
			if r.Chance(1, 20) {
				w = r.Intn(3)
			}
			l := []*Msg{}
			if w == 0 && r.Chance(1, 2) {
				l = nil
			}
			for i := 0; i < w; i++ {
				if r.Chance(1, 4) {
					l = append(l, &Msg{Nil: true})
				} else {
					msg := p.genMsg(r, fmt.Sprintf("%s#%d", full, i))
					l = append(l, msg)
				}
			}
			m[k] = &DV{K: "list", List: l}
		case kind == 2:
			td, ok := p.valTypes[full]
			if !ok {
				td = []int{tdStr, tdInt, tdS0, tdAcc, tdMapStr, tdStrSlice, tdPS0}[r.Intn(7)]
				p.valTypes[full] = td
			}
			m[k] = &DV{K: "val", V: genVal(r, td, 0)}
		default:
			m[k] = &DV{K: "map", M: genDeepMap(r, p, full, depth-1)}
		}
	}
	return m
}

func genDeepCase(r *lib.Rng, tier string) *Case {
	c := &Case{Kind: "deep"}
	n, depth := r.Intn(6), 2
	if tier == "thorough" {
		n, depth = r.Intn(9), 3
	}
	p := &deepProfile{tier: tier, kinds: map[string]int{}, profiles: map[string]*msgProfile{}, valTypes: map[string]int{}, widths: map[string]int{}}
	for i := 0; i < n; i++ {
		if r.Chance(1, 25) {
			c.Deep = append(c.Deep, nil)
			continue
		}
		c.Deep = append(c.Deep, genDeepMap(r, p, "", depth))
	}
	return c
}
