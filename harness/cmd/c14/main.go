// Engine C14 — chunk concatenation (internal/concat.go, schema.ConcatMessages).
// Part 1 (this file): generic values. Part 2 (msg.go): chat messages.
package main

import (
	"encoding/json"
	"fmt"
	"reflect"
	"sort"

	"github.com/cloudwego/eino/compose"
	"github.com/cloudwego/eino/schema"

	"verif/harness/lib"
)

// CV mirrors Model/Concat.v's cval.
type CV struct {
	K   string         `json:"k"` // str | num | nil | other | map
	S   string         `json:"s,omitempty"`
	Kind int           `json:"kind,omitempty"` // num: 0 int, 1 int64, 2 bool, 3 float64
	Z   int64          `json:"z,omitempty"`
	Tag int            `json:"tag,omitempty"`
	P   int            `json:"p,omitempty"`
	M   map[string]*CV `json:"m,omitempty"`
}

type S0 struct{ A int }
type S1 struct{ B int }

func (v *CV) toGo() any {
	switch v.K {
	case "str":
		return v.S
	case "num":
		switch v.Kind {
		case 0:
			return int(v.Z)
		case 1:
			return int64(v.Z)
		case 2:
			return v.Z != 0
		default:
			return float64(v.Z)
		}
	case "nil":
		return nil
	case "other":
		if v.Tag == 0 {
			return S0{A: v.P}
		}
		return S1{B: v.P}
	case "map":
		m := make(map[string]any, len(v.M))
		for k, e := range v.M {
			m[k] = e.toGo()
		}
		return m
	}
	panic("bad CV")
}

func fromGo(x any) *CV {
	switch t := x.(type) {
	case nil:
		return &CV{K: "nil"}
	case string:
		return &CV{K: "str", S: t}
	case int:
		return &CV{K: "num", Kind: 0, Z: int64(t)}
	case int64:
		return &CV{K: "num", Kind: 1, Z: t}
	case bool:
		z := int64(0)
		if t {
			z = 1
		}
		return &CV{K: "num", Kind: 2, Z: z}
	case float64:
		return &CV{K: "num", Kind: 3, Z: int64(t)}
	case S0:
		return &CV{K: "other", Tag: 0, P: t.A}
	case S1:
		return &CV{K: "other", Tag: 1, P: t.B}
	case map[string]any:
		m := map[string]*CV{}
		for k, e := range t {
			m[k] = fromGo(e)
		}
		return &CV{K: "map", M: m}
	}
	return &CV{K: "str", S: fmt.Sprintf("<unrenderable %T>", x)}
}

func (v *CV) coq() string {
	switch v.K {
	case "str":
		return lib.CoqApp("CStr", lib.CoqStr(v.S))
	case "num":
		return lib.CoqApp("CNum", lib.CoqN(uint64(v.Kind)), lib.CoqZ(v.Z))
	case "nil":
		return "CNil"
	case "other":
		return lib.CoqApp("COther", lib.CoqN(uint64(v.Tag)), lib.CoqN(uint64(v.P)))
	case "map":
		keys := make([]string, 0, len(v.M))
		for k := range v.M {
			keys = append(keys, k)
		}
		sort.Strings(keys)
		items := make([]string, len(keys))
		for i, k := range keys {
			items[i] = lib.CoqPair(lib.CoqStr(k), v.M[k].coq())
		}
		return lib.CoqApp("CMap", lib.CoqList(items))
	}
	panic("bad CV")
}

// Case: a statically typed chunk list.
type Case struct {
	Kind   string   `json:"kind"` // "generic" | "msg" | "msglist"
	Chunks []*CV    `json:"chunks,omitempty"`
	API    int      `json:"api,omitempty"`   // msg: which entry point is sent to the model (see msg.go)
	Chain  bool     `json:"chain,omitempty"` // msg: also run through a compose chain
	Msgs   []*Msg   `json:"msgs,omitempty"`
	Lists  [][]*Msg `json:"lists,omitempty"`
}

type Obs struct {
	Class string `json:"class"` // val | err | panic
	Val   *CV    `json:"val,omitempty"`
	Msg   string `json:"msg,omitempty"`
}

func concatTyped[T any](vals []any) (out any, err error) {
	items := make([]T, len(vals))
	for i, v := range vals {
		if v != nil {
			items[i] = v.(T)
		}
	}
	sr := schema.StreamReaderFromArray(items)
	return compose.VerifConcatStreamReader(sr)
}

// concatGo runs concatStreamReader on the chunk list at its static type.
func concatGo(chunks []*CV) (o Obs) {
	vals := make([]any, len(chunks))
	for i, c := range chunks {
		vals[i] = c.toGo()
	}
	var out any
	var err error
	p := lib.Recover(func() {
		if len(chunks) == 0 {
			out, err = concatTyped[string](vals)
			return
		}
		switch vals[0].(type) {
		case string:
			out, err = concatTyped[string](vals)
		case int:
			out, err = concatTyped[int](vals)
		case int64:
			out, err = concatTyped[int64](vals)
		case bool:
			out, err = concatTyped[bool](vals)
		case float64:
			out, err = concatTyped[float64](vals)
		case S0:
			out, err = concatTyped[S0](vals)
		case S1:
			out, err = concatTyped[S1](vals)
		case map[string]any:
			out, err = concatTyped[map[string]any](vals)
		default:
			panic("harness: unsupported top-level chunk type")
		}
	})
	if p != nil {
		return Obs{Class: "panic", Msg: fmt.Sprint(p)}
	}
	if err != nil {
		return Obs{Class: "err", Msg: err.Error()}
	}
	return Obs{Class: "val", Val: fromGo(out)}
}

func (o Obs) coq() string {
	switch o.Class {
	case "val":
		return lib.CoqApp("OVal", o.Val.coq())
	case "err":
		return "OErr"
	}
	return "OPanic"
}

func obsEqual(a, b Obs) bool {
	if a.Class != b.Class {
		return false
	}
	if a.Class != "val" {
		return true
	}
	return reflect.DeepEqual(normalize(a.Val), normalize(b.Val))
}

// normalize: nil and empty maps are the same value
func normalize(v *CV) *CV {
	if v == nil {
		return nil
	}
	c := *v
	if c.K == "map" {
		m := map[string]*CV{}
		for k, e := range c.M {
			m[k] = normalize(e)
		}
		c.M = m
	}
	return &c
}

// ---------------------------------------------------------------- generator

var keyPool = []string{"a", "b", "c", "k1", "k2"}
var strPool = []string{"", "x", "yz", "hello ", "W", "", "0"}

func fixBool(v *CV) *CV {
	if v.K == "num" && v.Kind == 2 {
		v.Z = v.Z & 1
	}
	return v
}

func genLeaf(r *lib.Rng, ty int) *CV {
	switch ty {
	case 0:
		return &CV{K: "str", S: r.Pick(strPool)}
	case 1:
		return fixBool(&CV{K: "num", Kind: r.Intn(4), Z: int64(r.Range(-2, 3))})
	case 2:
		return &CV{K: "other", Tag: r.Intn(2), P: []int{0, 0, 1, 2}[r.Intn(4)]}
	default:
		return &CV{K: "nil"}
	}
}

func genMap(r *lib.Rng, depth int, keyTypes map[string]int) *CV {
	m := map[string]*CV{}
	nk := r.Intn(4)
	for j := 0; j < nk; j++ {
		k := r.Pick(keyPool)
		// mostly type-stable per key (so that concatenation usually succeeds),
		// sometimes a deliberate clash, sometimes nil
		ty, seen := keyTypes[k]
		if !seen || r.Chance(1, 12) {
			ty = r.Intn(5)
			if !seen {
				keyTypes[k] = ty
			}
		}
		switch {
		case r.Chance(1, 8):
			m[k] = &CV{K: "nil"}
		case ty == 4 && depth > 0:
			m[k] = genMap(r, depth-1, map[string]int{})
		case ty == 4:
			m[k] = genLeaf(r, 0)
		default:
			m[k] = genLeaf(r, ty)
			if ty == 1 { // keep the numeric kind stable per key
				m[k].Kind = len(k) % 4
				fixBool(m[k])
			}
			if ty == 2 {
				m[k].Tag = len(k) % 2
			}
		}
	}
	return &CV{K: "map", M: m}
}

func genGeneric(r *lib.Rng, tier string) *Case {
	maxChunks := 8
	depth := 2
	if tier == "thorough" {
		maxChunks = 20
		depth = 3
	}
	n := r.Intn(maxChunks + 1)
	c := &Case{Kind: "generic"}
	top := r.Intn(10)
	keyTypes := map[string]int{}
	kind, tag := r.Intn(4), r.Intn(2)
	for i := 0; i < n; i++ {
		switch {
		case top < 6:
			c.Chunks = append(c.Chunks, genMap(r, depth, keyTypes))
		case top < 8:
			c.Chunks = append(c.Chunks, genLeaf(r, 0))
		case top < 9:
			v := genLeaf(r, 1)
			v.Kind = kind
			fixBool(v)
			c.Chunks = append(c.Chunks, v)
		default:
			v := genLeaf(r, 2)
			v.Tag = tag
			c.Chunks = append(c.Chunks, v)
		}
	}
	return c
}

// ---------------------------------------------------------------- engine

type engine struct{}

func (engine) ID() string { return "C14" }
func (engine) CoqHeader() string {
	return "From Eino Require Import Base.Util Model.Concat Model.ConcatMsg Corr.C14.\n"
}
func (engine) CoqCaseType() string { return "ccase" }

func (engine) Generate(r *lib.Rng, tier string, i int) any {
	if i%2 == 1 {
		return genMsgCase(r, tier)
	}
	return genGeneric(r, tier)
}

func (engine) Decode(raw json.RawMessage) (any, error) {
	var c Case
	if err := json.Unmarshal(raw, &c); err != nil {
		return nil, err
	}
	return &c, nil
}

func (engine) Run(ci any) lib.Result {
	c := ci.(*Case)
	if c.Kind != "generic" {
		return runMsg(c)
	}
	res := lib.Result{}
	o := concatGo(c.Chunks)
	res.Obs = o
	res.Tags = []string{"kind:generic", "class:" + o.Class, fmt.Sprintf("chunks:%d", len(c.Chunks))}
	if len(c.Chunks) > 0 {
		res.Tags = append(res.Tags, "top:"+c.Chunks[0].K)
	}
	res.Nontrivial = len(c.Chunks) >= 2
	res.CoqTerm = lib.CoqApp("CaseGen", lib.CoqList(mapCoq(c.Chunks)), o.coq())

	// direct oracle: total (no panic), deterministic, re-chunking invariant
	switch {
	case o.Class == "panic":
		res.Oracle = "concatenation panicked: " + o.Msg
		res.Sig = "generic-panic"
	default:
		for rep := 0; rep < 2; rep++ {
			if o2 := concatGo(c.Chunks); !obsEqual(o, o2) {
				res.Oracle = "non-deterministic result"
				res.Sig = "generic-nondet"
			}
		}
		for split := 1; split < len(c.Chunks) && res.Oracle == ""; split++ {
			pre := concatGo(c.Chunks[:split])
			var o2 Obs
			if pre.Class != "val" {
				o2 = pre
			} else {
				o2 = concatGo(append([]*CV{pre.Val}, c.Chunks[split:]...))
			}
			if !obsEqual(o, o2) {
				res.Oracle = fmt.Sprintf("re-chunking at %d changes the result: whole=%s split=%s", split, js(o), js(o2))
				res.Sig = "generic-rechunk"
			}
		}
	}
	return res
}

func mapCoq(vs []*CV) []string {
	out := make([]string, len(vs))
	for i, v := range vs {
		out[i] = v.coq()
	}
	return out
}

func js(x any) string { b, _ := json.Marshal(x); return string(b) }

func main() { lib.Main(engine{}) }
