// Engine C14 — chunk concatenation (internal/concat.go, schema.ConcatMessages).
// Part 1 (this file): generic values. Part 2 (msg.go): chat messages.
package main

import (
	"context"
	"encoding/json"
	"errors"
	"fmt"
	"reflect"
	"sort"
	"strconv"

	"github.com/cloudwego/eino/compose"
	"github.com/cloudwego/eino/schema"

	"verif/harness/lib"
)

// CV mirrors Model/Concat.v's cval.
type CV struct {
	K    string         `json:"k"` // str | num | nil | other | map
	S    string         `json:"s,omitempty"`
	Kind int            `json:"kind,omitempty"` // num: 0 int, 1 int64, 2 bool, 3 float64
	Z    int64          `json:"z,omitempty"`
	Tag  int            `json:"tag,omitempty"`
	P    int            `json:"p,omitempty"`
	M    map[string]*CV `json:"m,omitempty"`
	MT   int            `json:"mt,omitempty"` // map: 0 map[string]any, 1 map[string]string (every value a str), 2 map[string]int (every value an int), 3 map[int]string (keys in decimal), 4 MyMap (a named map[string]string)
	// map: the Go value is the typed nil map (the model does not distinguish it from the empty map)
	NilMap bool `json:"nilmap,omitempty"`
}

// unregistered types ("other", by tag): 0 S0, 1 S1 (structs), 2 MyStr (named string),
// 3 MyInt (named int), 4 *S0, 5 *S1. Payload p = 0 is the zero value of the type.
// Types with a concat function registered by this harness (user.go): 6 Acc, 7 Lim.
// 8 []string (p = 0 nil, p = 1 empty but not nil, p > 1 p-1 elements; a slice is the zero Value iff nil).
// 11 **S0, 12 Emb, 13 [2]int (see below).
// 10 the twin of S0 (see below). 9 Num (user.go): an INTERFACE type with a function registered for the interface type; p = Val(),
// S = "A" NumA(p), "B" NumB{p}, "" the nil Num (p = 0). Only used as the static chunk type of a stream.
type S0 struct{ A int }
type S1 struct{ B int }
type MyStr string
type MyInt int

// 11 **S0: pointer depth 2 (p = 0 the nil **S0; p = ptrToZero a NON-NIL pointer to the nil *S0 - a non-zero value;
// else a pointer to a pointer to S0{A: p}).  12 Emb: a struct that EMBEDS S0 (and so has its method Tag()).
// 13 [2]int: an array type (zero iff every element is).
type Emb struct {
	S0
	Note string
}
type Arr2 = [2]int

// Tagged: a non-empty interface type WITHOUT a registered function, implemented by S0 and *S0:
// a stream of Tagged is concatenated by dynamic type exactly like a stream of any.
type Tagged interface{ Tag() int }

func (s S0) Tag() int { return s.A }

// MyMap: a NAMED map type (MT 4): concatMaps must build the result with the chunk type itself
type MyMap map[string]string

const nOtherTags = 14

// ptrToZero: the payload of a pointer chunk (tags 4, 5) that is a NON-NIL pointer to the zero struct (&S0{}): a
// non-zero value for reflect's IsZero (only the nil pointer, payload 0, is the zero value of a pointer type)
const ptrToZero = 1000

// 10: the TWIN of S0 — a different Go type with the same name and the same package path (a type declared
// inside a function): reflect.Type identity tells the two apart, their printed name "main.S0" does not.
// Only reachable through these three closures (the type has no name at package level).
var (
	mkTwin     func(p int) any
	isTwin     func(x any) (int, bool)
	concatTwin func(vals []any, errAt int) (any, error)
)

func init() {
	type S0 struct{ A int }
	mkTwin = func(p int) any { return S0{A: p} }
	isTwin = func(x any) (int, bool) { t, ok := x.(S0); return t.A, ok }
	concatTwin = func(vals []any, errAt int) (any, error) { return concatTyped[S0](vals, errAt) }
}

func otherToGo(tag, p int, variant string) any {
	switch tag {
	case 11:
		if p == 0 {
			return (**S0)(nil)
		}
		var inner *S0
		if p != ptrToZero {
			inner = &S0{A: p}
		}
		return &inner
	case 12:
		if p == 0 {
			return Emb{}
		}
		return Emb{S0: S0{A: p}, Note: "n"}
	case 13:
		return Arr2{0, p}
	case 10:
		return mkTwin(p)
	case 9:
		switch {
		case variant == "B":
			return NumB{V: p}
		case variant == "A" || p != 0:
			return NumA(p)
		}
		return nil
	case 0:
		return S0{A: p}
	case 1:
		return S1{B: p}
	case 2:
		if p == 0 {
			return MyStr("")
		}
		return MyStr(fmt.Sprintf("s%d", p))
	case 3:
		return MyInt(p)
	case 4:
		if p == 0 {
			return (*S0)(nil)
		}
		if p == ptrToZero {
			return &S0{} // a non-nil pointer to the zero struct: not the zero value of *S0
		}
		return &S0{A: p}
	case 6:
		return Acc{N: p}
	case 7:
		return Lim{N: p}
	case 8:
		if p == 0 {
			return []string(nil)
		}
		s := make([]string, p-1)
		for i := range s {
			s[i] = "e"
		}
		return s
	default:
		if p == 0 {
			return (*S1)(nil)
		}
		if p == ptrToZero {
			return &S1{}
		}
		return &S1{B: p}
	}
}

func (v *CV) toGo() any {
	switch v.K {
	case "str":
		return v.S
	case "num":
		switch v.Kind {
		case 0:
			return int(v.Z)
		case 1:
			return int64(v.Z)
		case 2:
			return v.Z != 0
		default:
			return float64(v.Z)
		}
	case "nil":
		return nil
	case "other":
		return otherToGo(v.Tag, v.P, v.S)
	case "map":
		if v.NilMap {
			switch v.MT {
			case 1:
				return map[string]string(nil)
			case 2:
				return map[string]int(nil)
			case 3:
				return map[int]string(nil)
			case 4:
				return MyMap(nil)
			}
			return map[string]any(nil)
		}
		if v.MT == 4 {
			m := make(MyMap, len(v.M))
			for k, e := range v.M {
				m[k] = e.S
			}
			return m
		}
		if v.MT == 3 {
			m := make(map[int]string, len(v.M))
			for k, e := range v.M {
				n, err := strconv.Atoi(k)
				if err != nil {
					panic("bad CV: map[int]string key " + k)
				}
				m[n] = e.S
			}
			return m
		}
		if v.MT == 1 {
			m := make(map[string]string, len(v.M))
			for k, e := range v.M {
				m[k] = e.S
			}
			return m
		}
		if v.MT == 2 {
			m := make(map[string]int, len(v.M))
			for k, e := range v.M {
				m[k] = int(e.Z)
			}
			return m
		}
		m := make(map[string]any, len(v.M))
		for k, e := range v.M {
			m[k] = e.toGo()
		}
		return m
	}
	panic("bad CV")
}

func fromGo(x any) *CV {
	if x != nil {
		if p, ok := isTwin(x); ok {
			return &CV{K: "other", Tag: 10, P: p}
		}
	}
	switch t := x.(type) {
	case nil:
		return &CV{K: "nil"}
	case string:
		return &CV{K: "str", S: t}
	case int:
		return &CV{K: "num", Kind: 0, Z: int64(t)}
	case int64:
		return &CV{K: "num", Kind: 1, Z: t}
	case bool:
		z := int64(0)
		if t {
			z = 1
		}
		return &CV{K: "num", Kind: 2, Z: z}
	case float64:
		return &CV{K: "num", Kind: 3, Z: int64(t)}
	case S0:
		return &CV{K: "other", Tag: 0, P: t.A}
	case S1:
		return &CV{K: "other", Tag: 1, P: t.B}
	case MyStr:
		p := 0
		if t != "" {
			if _, err := fmt.Sscanf(string(t), "s%d", &p); err != nil {
				p = -1
			}
		}
		return &CV{K: "other", Tag: 2, P: p}
	case MyInt:
		return &CV{K: "other", Tag: 3, P: int(t)}
	case *S0:
		if t == nil {
			return &CV{K: "other", Tag: 4, P: 0}
		}
		if t.A == 0 {
			return &CV{K: "other", Tag: 4, P: ptrToZero}
		}
		return &CV{K: "other", Tag: 4, P: t.A}
	case *S1:
		if t == nil {
			return &CV{K: "other", Tag: 5, P: 0}
		}
		if t.B == 0 {
			return &CV{K: "other", Tag: 5, P: ptrToZero}
		}
		return &CV{K: "other", Tag: 5, P: t.B}
	case **S0:
		switch {
		case t == nil:
			return &CV{K: "other", Tag: 11, P: 0}
		case *t == nil:
			return &CV{K: "other", Tag: 11, P: ptrToZero}
		}
		return &CV{K: "other", Tag: 11, P: (*t).A}
	case Emb:
		if t.S0.A == 0 && t.Note != "" {
			return &CV{K: "other", Tag: 12, P: -1}
		}
		return &CV{K: "other", Tag: 12, P: t.S0.A}
	case Arr2:
		if t[0] != 0 {
			return &CV{K: "other", Tag: 13, P: -1}
		}
		return &CV{K: "other", Tag: 13, P: t[1]}
	case Acc:
		return &CV{K: "other", Tag: 6, P: t.N}
	case Lim:
		return &CV{K: "other", Tag: 7, P: t.N}
	case NumA:
		return &CV{K: "other", Tag: 9, P: int(t), S: "A"}
	case NumB:
		return &CV{K: "other", Tag: 9, P: t.V, S: "B"}
	case map[int]string:
		m := map[string]*CV{}
		for k, e := range t {
			m[strconv.Itoa(k)] = &CV{K: "str", S: e}
		}
		return &CV{K: "map", MT: 3, M: m}
	case []string:
		if t == nil {
			return &CV{K: "other", Tag: 8, P: 0}
		}
		return &CV{K: "other", Tag: 8, P: len(t) + 1}
	case map[string]string:
		m := map[string]*CV{}
		for k, e := range t {
			m[k] = &CV{K: "str", S: e}
		}
		return &CV{K: "map", MT: 1, M: m}
	case MyMap:
		m := map[string]*CV{}
		for k, e := range t {
			m[k] = &CV{K: "str", S: e}
		}
		return &CV{K: "map", MT: 4, M: m}
	case map[string]int:
		m := map[string]*CV{}
		for k, e := range t {
			m[k] = &CV{K: "num", Kind: 0, Z: int64(e)}
		}
		return &CV{K: "map", MT: 2, M: m}
	case map[string]any:
		m := map[string]*CV{}
		for k, e := range t {
			m[k] = fromGo(e)
		}
		return &CV{K: "map", M: m}
	}
	return &CV{K: "str", S: fmt.Sprintf("<unrenderable %T>", x)}
}

func (v *CV) coq() string {
	switch v.K {
	case "str":
		return lib.CoqApp("CStr", lib.CoqStr(v.S))
	case "num":
		return lib.CoqApp("CNum", lib.CoqN(uint64(v.Kind)), lib.CoqZ(v.Z))
	case "nil":
		return "CNil"
	case "other":
		p := v.P
		if p < 0 {
			p = 999999
		}
		return lib.CoqApp("COther", lib.CoqN(uint64(v.Tag)), lib.CoqN(uint64(p)))
	case "map":
		keys := make([]string, 0, len(v.M))
		for k := range v.M {
			keys = append(keys, k)
		}
		sort.Strings(keys)
		items := make([]string, len(keys))
		for i, k := range keys {
			items[i] = lib.CoqPair(lib.CoqStr(k), v.M[k].coq())
		}
		return lib.CoqApp("CMap", lib.CoqN(uint64(v.MT)), lib.CoqList(items))
	}
	panic("bad CV")
}

// Case: a statically typed chunk list.
type Case struct {
	Kind   string   `json:"kind"` // "generic" | "msg" | "msglist" | "msgmap" | "deep"
	Chunks []*CV    `json:"chunks,omitempty"`
	API    int      `json:"api,omitempty"`   // msg: which entry point is sent to the model (see msg.go)
	Chain  bool     `json:"chain,omitempty"` // msg: also run through a compose chain
	Msgs   []*Msg   `json:"msgs,omitempty"`
	Lists  [][]*Msg `json:"lists,omitempty"`
	MMaps  []MMap   `json:"mmaps,omitempty"`  // msgmap: map chunks whose values may be messages
	Typed  bool     `json:"typed,omitempty"`  // msgmap: static type map[string]*schema.Message instead of map[string]any
	Any    bool     `json:"any,omitempty"`    // generic: the static chunk type is any (interface-typed stream)
	Tagged bool     `json:"tagged,omitempty"` // generic + any: the static chunk type is the interface type Tagged (every chunk is an S0, a *S0 or nil)
	Fanin  bool     `json:"fanin,omitempty"`  // msgmap: every chunk holds one message under one key; also run as a compose fan-in
	// generic (not any) / msg: the reader reports a read error in front of chunk ErrAt (0..len); only the
	// stream-level entry points are run
	ErrAt *int `json:"err_at,omitempty"`
	// deep: map[string]any chunks with messages / message lists / nested maps at any depth (deep.go)
	Deep []DMap `json:"deep,omitempty"`
	// generic / msg (without read error): also concatenate the chunk list Conc times on two goroutines while
	// three others concatenate chunk lists of other types (conc.go)
	Conc int `json:"conc,omitempty"`
	// generic / msg (without read error): also run the chunk list as one of the FIRST concatenations of Cold fresh
	// processes, at the same time as other first concatenations (cold.go)
	Cold int `json:"cold,omitempty"`
}

// coqItems: what the reader delivers as a list of sitem (Model/ConcatStream.v)
func coqItems(terms []string, errAt int) string {
	var out []string
	for i := 0; i <= len(terms); i++ {
		if i == errAt {
			out = append(out, "SErr")
		}
		if i < len(terms) {
			out = append(out, "(SVal "+terms[i]+")")
		}
	}
	return lib.CoqList(out)
}

type Obs struct {
	Class string `json:"class"` // val | err | panic
	Val   *CV    `json:"val,omitempty"`
	Msg   string `json:"msg,omitempty"`
}

func concatTyped[T any](vals []any, errAt int) (out any, err error) {
	items := make([]T, len(vals))
	for i, v := range vals {
		if v != nil {
			items[i] = v.(T)
		}
	}
	return compose.VerifConcatStreamReader(streamOf(items, errAt))
}

// concatAnyGo runs concatStreamReader[any] on the chunk list (chunks of any dynamic type, nil included).
func concatAnyGo(chunks []*CV) (o Obs) {
	vals := make([]any, len(chunks))
	for i, c := range chunks {
		vals[i] = c.toGo()
	}
	var out any
	var err error
	pre := snapshotVals(vals)
	p := lib.Recover(func() {
		out, err = compose.VerifConcatStreamReader(schema.StreamReaderFromArray(vals))
	})
	compareVals(pre, vals)
	if p != nil {
		return Obs{Class: "panic", Msg: fmt.Sprint(p)}
	}
	if err != nil {
		return Obs{Class: "err", Msg: err.Error()}
	}
	return Obs{Class: "val", Val: fromGo(out)}
}

// concatTaggedGo runs concatStreamReader[Tagged] (chunks: S0, *S0, nil)
func concatTaggedGo(chunks []*CV) (o Obs) {
	vals := make([]Tagged, len(chunks))
	for i, c := range chunks {
		if v := c.toGo(); v != nil {
			vals[i] = v.(Tagged)
		}
	}
	var out Tagged
	var err error
	p := lib.Recover(func() {
		out, err = compose.VerifConcatStreamReader(schema.StreamReaderFromArray(vals))
	})
	if p != nil {
		return Obs{Class: "panic", Msg: fmt.Sprint(p)}
	}
	if err != nil {
		return Obs{Class: "err", Msg: err.Error()}
	}
	return Obs{Class: "val", Val: fromGo(any(out))}
}

func taggedOK(chunks []*CV) bool {
	for _, c := range chunks {
		if !(c.K == "nil" || (c.K == "other" && (c.Tag == 0 || c.Tag == 4))) {
			return false
		}
	}
	return true
}

// isNumCase: the static chunk type is the interface type Num (every chunk has tag 9)
func isNumCase(chunks []*CV) bool {
	return len(chunks) > 0 && chunks[0].K == "other" && chunks[0].Tag == 9
}

// renderNum: the nil Num is payload 0 of tag 9
func renderNum(o Obs) Obs {
	if o.Class == "val" && o.Val.K == "nil" {
		o.Val = &CV{K: "other", Tag: 9}
	}
	return o
}

// genericMut: set by the generic entry points below when a call wrote to one of the chunk values it
// was given (a map chunk that gained / lost a key or changed a value, a pointed-to struct that was
// written): the chunk values are rendered before and after the call and compared.  Run resets and
// reads it (inputs must not be written to: the same chunk objects may be concatenated again).
var genericMut string

func snapshotVals(vals []any) []*CV {
	out := make([]*CV, len(vals))
	for i, v := range vals {
		out[i] = fromGo(v)
	}
	return out
}

func compareVals(pre []*CV, vals []any) {
	if genericMut != "" {
		return
	}
	for i, v := range vals {
		if post := fromGo(v); !reflect.DeepEqual(pre[i], post) {
			genericMut = fmt.Sprintf("input chunk %d was modified: it was %s, now it is %s", i, js(pre[i]), js(post))
			return
		}
	}
}

// concatGo runs concatStreamReader on the chunk list at its static type.
func concatGo(chunks []*CV) (o Obs) { return concatGoErr(chunks, -1) }

// streamOf: the chunks as a stream; errAt >= 0 puts a read error in front of chunk errAt
func streamOf[T any](items []T, errAt int) *schema.StreamReader[T] {
	if errAt < 0 {
		return schema.StreamReaderFromArray(items)
	}
	sr, sw := schema.Pipe[T](len(items) + 2)
	for i := 0; i <= len(items); i++ {
		if i == errAt {
			var zero T
			sw.Send(zero, errors.New("harness: read error"))
		}
		if i < len(items) {
			sw.Send(items[i], nil)
		}
	}
	sw.Close()
	return sr
}

func concatGoErr(chunks []*CV, errAt int) (o Obs) {
	vals := make([]any, len(chunks))
	for i, c := range chunks {
		vals[i] = c.toGo()
	}
	pre := snapshotVals(vals)
	defer func() { compareVals(pre, vals) }()
	return concatVals(chunks, vals, errAt)
}

// concatVals: concatStreamReader on the built chunk values at their static type (no harness state
// is touched: safe to call from several goroutines)
func concatVals(chunks []*CV, vals []any, errAt int) (o Obs) {
	var out any
	var err error
	p := lib.Recover(func() {
		if len(chunks) == 0 {
			out, err = concatTyped[string](vals, errAt)
			return
		}
		if isNumCase(chunks) {
			out, err = concatTyped[Num](vals, errAt)
			return
		}
		if _, ok := isTwin(vals[0]); ok && vals[0] != nil {
			out, err = concatTwin(vals, errAt)
			return
		}
		switch vals[0].(type) {
		case string:
			out, err = concatTyped[string](vals, errAt)
		case int:
			out, err = concatTyped[int](vals, errAt)
		case int64:
			out, err = concatTyped[int64](vals, errAt)
		case bool:
			out, err = concatTyped[bool](vals, errAt)
		case float64:
			out, err = concatTyped[float64](vals, errAt)
		case S0:
			out, err = concatTyped[S0](vals, errAt)
		case S1:
			out, err = concatTyped[S1](vals, errAt)
		case MyStr:
			out, err = concatTyped[MyStr](vals, errAt)
		case MyInt:
			out, err = concatTyped[MyInt](vals, errAt)
		case *S0:
			out, err = concatTyped[*S0](vals, errAt)
		case *S1:
			out, err = concatTyped[*S1](vals, errAt)
		case **S0:
			out, err = concatTyped[**S0](vals, errAt)
		case Emb:
			out, err = concatTyped[Emb](vals, errAt)
		case Arr2:
			out, err = concatTyped[Arr2](vals, errAt)
		case Acc:
			out, err = concatTyped[Acc](vals, errAt)
		case Lim:
			out, err = concatTyped[Lim](vals, errAt)
		case []string:
			out, err = concatTyped[[]string](vals, errAt)
		case map[string]string:
			out, err = concatTyped[map[string]string](vals, errAt)
		case map[string]int:
			out, err = concatTyped[map[string]int](vals, errAt)
		case map[string]any:
			out, err = concatTyped[map[string]any](vals, errAt)
		case map[int]string:
			out, err = concatTyped[map[int]string](vals, errAt)
		case MyMap:
			out, err = concatTyped[MyMap](vals, errAt)
		default:
			panic("harness: unsupported top-level chunk type")
		}
	})
	if p != nil {
		return Obs{Class: "panic", Msg: fmt.Sprint(p)}
	}
	if err != nil {
		return Obs{Class: "err", Msg: err.Error()}
	}
	o = Obs{Class: "val", Val: fromGo(out)}
	if isNumCase(chunks) {
		o = renderNum(o)
	}
	return o
}

// concatViaChain: the same chunk list as the output stream of a streamable lambda in a
// compiled chain called with Invoke (the engine has to turn the stream into a value).
func concatViaChain[T any](chunks []*CV, errAt int) (o Obs) {
	items := make([]T, len(chunks))
	for i, c := range chunks {
		if v := c.toGo(); v != nil {
			items[i] = v.(T)
		}
	}
	var out T
	var err error
	p := lib.Recover(func() {
		ctx := context.Background()
		ch := compose.NewChain[string, T]()
		ch.AppendLambda(compose.StreamableLambda(func(ctx context.Context, in string) (*schema.StreamReader[T], error) {
			if in == "tail" {
				return streamOf(items[1:], -1), nil
			}
			return streamOf(items, errAt), nil
		}))
		r, cerr := ch.Compile(ctx)
		if cerr != nil {
			panic("harness: chain does not compile: " + cerr.Error())
		}
		out, err = r.Invoke(ctx, "")
		// a second call on the SAME compiled object with ANOTHER chunk list (the first chunk dropped): what the
		// stream-level entry point gives for that list, whatever the object converted before
		if len(items) >= 2 && errAt < 0 && secondCall == "" {
			want, werr := compose.VerifConcatStreamReader(streamOf(items[1:], -1))
			if werr != nil || any(want) != nil { // a nil value as a node's whole output is the graph engine's business
				got, gerr := r.Invoke(ctx, "tail")
				if w, g := renderCall(any(want), werr), renderCall(any(got), gerr); w != g {
					secondCall = fmt.Sprintf("chain.Invoke: the second call on the same compiled chain, made with the chunk list without its first chunk, gives %s; concatStreamReader gives %s for that list", g, w)
				}
			}
		}
		// the other conversion site of the engine: the stream feeds an invoke-only successor node while the chain
		// is called with Stream (the graph converts the node input with the chunk type's concatStream)
		if errAt < 0 && secondCall == "" && (err != nil || any(out) != nil) {
			ch2 := compose.NewChain[string, T]()
			ch2.AppendLambda(compose.StreamableLambda(func(ctx context.Context, in string) (*schema.StreamReader[T], error) {
				return streamOf(items, -1), nil
			}))
			ch2.AppendLambda(compose.InvokableLambda(func(ctx context.Context, in T) (T, error) { return in, nil }))
			r2, cerr := ch2.Compile(ctx)
			if cerr != nil {
				panic("harness: chain does not compile: " + cerr.Error())
			}
			var got T
			sr, gerr := r2.Stream(ctx, "")
			if gerr == nil {
				got, gerr = compose.VerifConcatStreamReader(sr)
			}
			if w, g := renderCall(any(out), err), renderCall(any(got), gerr); w != g {
				secondCall = fmt.Sprintf("the chunk list converted for an invoke-only successor node (chain called with Stream) gives %s; chain.Invoke on the streaming node alone gives %s", g, w)
			}
			// and the third: the chunk list as the INPUT stream of a chain of one invoke-only node, called with Collect
			ch3 := compose.NewChain[T, T]()
			ch3.AppendLambda(compose.InvokableLambda(func(ctx context.Context, in T) (T, error) { return in, nil }))
			r3, cerr := ch3.Compile(ctx)
			if cerr != nil {
				panic("harness: chain does not compile: " + cerr.Error())
			}
			got3, gerr3 := r3.Collect(ctx, streamOf(items, -1))
			if w, g := renderCall(any(out), err), renderCall(any(got3), gerr3); w != g && secondCall == "" {
				secondCall = fmt.Sprintf("the chunk list as the input stream of an invoke-only node (chain called with Collect) gives %s; chain.Invoke on the streaming node gives %s", g, w)
			}
		}
	})
	if p != nil {
		return Obs{Class: "panic", Msg: fmt.Sprint(p)}
	}
	if err != nil {
		return Obs{Class: "err", Msg: err.Error()}
	}
	o = Obs{Class: "val", Val: fromGo(any(out))}
	if isNumCase(chunks) {
		o = renderNum(o)
	}
	return o
}

// secondCall: set by the chain entry points when a second call on the same compiled object did not give what it
// must: chain.Invoke called again with the chunk list WITHOUT its first chunk must give what concatStreamReader
// gives for that list (nothing of the first conversion may survive in the compiled object); the fan-in called
// again on the same chunks must give the same map (class and value; error texts are not compared).  Run resets and
// reads it.  Only written on the goroutine that runs the case.
var secondCall string

func renderCall(out any, err error) string {
	if err != nil {
		return "an error"
	}
	return "the value " + js(normalize(fromGo(out)))
}

func (o Obs) coq() string {
	switch o.Class {
	case "val":
		return lib.CoqApp("OVal", o.Val.coq())
	case "err":
		return "OErr"
	}
	return "OPanic"
}

func obsEqual(a, b Obs) bool {
	if a.Class != b.Class {
		return false
	}
	if a.Class != "val" {
		return true
	}
	return reflect.DeepEqual(normalize(a.Val), normalize(b.Val))
}

// normalize: nil and empty maps are the same value
func normalize(v *CV) *CV {
	if v == nil {
		return nil
	}
	c := *v
	if c.K == "map" {
		m := map[string]*CV{}
		for k, e := range c.M {
			m[k] = normalize(e)
		}
		c.M = m
	}
	return &c
}

// ---------------------------------------------------------------- generator

// (the empty string is a legal map key; it comes last: the fan-in generator names graph nodes after the first three)
var keyPool = []string{"a", "b", "c", "k1", "k2", ""}
var strPool = []string{"", "x", "yz", "hello ", "W", "", "0"}

// type descriptors of the values that may sit under a map key
const (
	tdStr = iota
	tdInt
	tdInt64
	tdBool
	tdFloat
	tdS0
	tdS1
	tdMyStr
	tdMyInt
	tdPS0
	tdPS1
	tdAcc
	tdLim
	tdStrSlice
	tdMapAny
	tdMapStr
	tdMapInt
	tdMapIK  // map[int]string
	tdMyMap  // MyMap
	tdS0Twin // the twin of S0 (same printed name, different type)
	tdPPS0   // **S0
	tdEmb    // Emb (embeds S0)
	tdArr    // [2]int
	tdNil
	nTD
	tdNum = nTD // the interface type Num: only as the static chunk type of a stream
)

// same reflect.Kind, different Go type
var sibling = map[int]int{tdStr: tdMyStr, tdMyStr: tdStr, tdInt: tdMyInt, tdMyInt: tdInt, tdS0: tdS0Twin, tdS0Twin: tdS0, tdS1: tdAcc,
	tdPS0: tdPS1, tdPS1: tdPS0, tdMapAny: tdMapStr, tdMapStr: tdMyMap, tdMyMap: tdMapInt, tdMapInt: tdMapIK, tdMapIK: tdMapAny, tdAcc: tdLim, tdLim: tdS0, tdPPS0: tdPS0, tdEmb: tdS0}

var tdNames = []string{"string", "int", "int64", "bool", "float64", "S0", "S1", "MyStr", "MyInt", "*S0", "*S1", "Acc", "Lim", "[]string",
	"map[string]any", "map[string]string", "map[string]int", "map[int]string", "MyMap", "S0(twin)", "**S0", "Emb", "[2]int", "nil", "Num"}

func genVal(r *lib.Rng, td, depth int) *CV {
	payload := []int{0, 0, 1, 2}[r.Intn(4)]
	switch td {
	case tdStr:
		return &CV{K: "str", S: r.Pick(strPool)}
	case tdInt, tdInt64, tdFloat:
		return &CV{K: "num", Kind: map[int]int{tdInt: 0, tdInt64: 1, tdFloat: 3}[td], Z: int64(r.Range(-2, 3))}
	case tdBool:
		return &CV{K: "num", Kind: 2, Z: int64(r.Intn(2))}
	case tdS0, tdS1, tdMyStr, tdMyInt, tdPS0, tdPS1, tdS0Twin, tdPPS0, tdEmb, tdArr:
		if (td == tdPS0 || td == tdPS1 || td == tdPPS0) && payload == 2 {
			payload = ptrToZero
		}
		return &CV{K: "other", Tag: map[int]int{tdS0: 0, tdS1: 1, tdMyStr: 2, tdMyInt: 3, tdPS0: 4, tdPS1: 5, tdS0Twin: 10, tdPPS0: 11, tdEmb: 12, tdArr: 13}[td], P: payload}
	case tdStrSlice:
		return &CV{K: "other", Tag: 8, P: []int{0, 0, 1, 2, 3}[r.Intn(5)]}
	case tdAcc, tdLim:
		// registered custom types: payloads 0..3 (Lim fails when the sum exceeds 5)
		return &CV{K: "other", Tag: map[int]int{tdAcc: 6, tdLim: 7}[td], P: r.Intn(4)}
	case tdNum:
		p := r.Intn(4)
		return &CV{K: "other", Tag: 9, P: p, S: []string{"", "A", "B", "A"}[r.Intn(4)]}
	case tdMapAny:
		if depth <= 0 {
			return &CV{K: "map", M: map[string]*CV{}}
		}
		if r.Chance(1, 12) {
			return &CV{K: "map", NilMap: true}
		}
		return genMap(r, depth-1, map[string]int{})
	case tdMapIK:
		if r.Chance(1, 10) {
			return &CV{K: "map", MT: 3, NilMap: true}
		}
		m := map[string]*CV{}
		for j, nk := 0, r.Intn(3); j < nk; j++ {
			m[r.Pick([]string{"0", "1", "-7", "42"})] = &CV{K: "str", S: r.Pick(strPool)}
		}
		return &CV{K: "map", MT: 3, M: m}
	case tdMyMap:
		if r.Chance(1, 10) {
			return &CV{K: "map", MT: 4, NilMap: true}
		}
		m := map[string]*CV{}
		for j, nk := 0, r.Intn(3); j < nk; j++ {
			m[r.Pick(keyPool)] = &CV{K: "str", S: r.Pick(strPool)}
		}
		return &CV{K: "map", MT: 4, M: m}
	case tdMapStr:
		if r.Chance(1, 10) {
			return &CV{K: "map", MT: 1, NilMap: true}
		}
		m := map[string]*CV{}
		for j, nk := 0, r.Intn(3); j < nk; j++ {
			m[r.Pick(keyPool)] = &CV{K: "str", S: r.Pick(strPool)}
		}
		return &CV{K: "map", MT: 1, M: m}
	case tdMapInt:
		m := map[string]*CV{}
		for j, nk := 0, r.Intn(3); j < nk; j++ {
			m[r.Pick(keyPool)] = &CV{K: "num", Kind: 0, Z: int64(r.Range(-2, 3))}
		}
		return &CV{K: "map", MT: 2, M: m}
	}
	return &CV{K: "nil"}
}

// genMap: a map[string]any chunk. Values are mostly type-stable per key (so that
// concatenation usually succeeds); a deliberate clash picks, half of the time, a type of
// the same reflect.Kind (string vs named string, S0 vs S1, *S0 vs *S1, map[string]any vs
// map[string]string, int vs named int).
func genMap(r *lib.Rng, depth int, keyTypes map[string]int) *CV {
	if r.Chance(1, 25) {
		return &CV{K: "map", NilMap: true}
	}
	m := map[string]*CV{}
	nk := r.Intn(4)
	for j := 0; j < nk; j++ {
		k := r.Pick(keyPool)
		td, seen := keyTypes[k]
		if !seen {
			td = r.Intn(nTD)
			if r.Chance(1, 3) {
				td = []int{tdStr, tdMapAny, tdInt, tdAcc, tdLim}[r.Intn(5)]
			}
			keyTypes[k] = td
		} else if r.Chance(1, 12) {
			if sib, ok := sibling[td]; ok && r.Chance(1, 2) {
				td = sib
			} else {
				td = r.Intn(nTD)
			}
		}
		if r.Chance(1, 8) {
			td = tdNil
		}
		m[k] = genVal(r, td, depth)
	}
	return &CV{K: "map", M: m}
}

func genGeneric(r *lib.Rng, tier string) *Case {
	maxChunks := 8
	depth := 2
	if tier == "thorough" {
		maxChunks = 20
		depth = 3
	}
	n := r.Intn(maxChunks + 1)
	c := &Case{Kind: "generic"}
	keyTypes := map[string]int{}
	top := tdMapAny
	if r.Chance(2, 5) {
		top = r.Intn(nTD - 1) // every type but nil
		if r.Chance(1, 5) {
			top = tdNum
		}
	}
	c.Chain = r.Chance(1, 3)
	if r.Chance(1, 6) {
		// interface-typed stream: chunks mostly of one dynamic type, nil chunks, rare clashes
		c.Any = true
		td := r.Intn(nTD - 1) // the dynamic type most chunks have: every type, pointers included
		if r.Chance(1, 4) {
			td = []int{tdPS0, tdMapAny, tdPS1, tdStr, tdS0}[r.Intn(5)]
		}
		for i := 0; i < n; i++ {
			t := td
			switch {
			case r.Chance(1, 5):
				t = tdNil
			case r.Chance(1, 12):
				if sib, ok := sibling[td]; ok && r.Chance(1, 2) {
					t = sib
				} else {
					t = r.Intn(nTD)
				}
			}
			if t == tdMapAny {
				c.Chunks = append(c.Chunks, genMap(r, depth, keyTypes))
			} else {
				c.Chunks = append(c.Chunks, genVal(r, t, depth))
			}
		}
		c.Tagged = taggedOK(c.Chunks) && r.Chance(2, 3)
		return c
	}
	if r.Chance(1, 25) {
		// a stream as long as real ones (dozens to hundreds of small chunks): strings, or maps with type-stable keys
		n = r.Range(33, 120)
		if tier == "thorough" {
			n = r.Range(33, 200)
		}
		long := r.Intn(3)
		for i := 0; i < n; i++ {
			switch long {
			case 0:
				c.Chunks = append(c.Chunks, genVal(r, tdStr, 0))
			case 1:
				c.Chunks = append(c.Chunks, genVal(r, tdAcc, 0))
			default:
				m := map[string]*CV{}
				if r.Chance(2, 3) {
					m["t"] = genVal(r, tdStr, 0)
				}
				if r.Chance(1, 3) {
					m["n"] = genVal(r, tdInt64, 0)
				}
				if r.Chance(1, 3) {
					m["a"] = genVal(r, tdAcc, 0)
				}
				if r.Chance(1, 6) {
					m["m"] = &CV{K: "map", MT: 1, M: map[string]*CV{"k1": genVal(r, tdStr, 0)}}
				}
				if r.Chance(1, 10) {
					m["z"] = &CV{K: "nil"}
				}
				c.Chunks = append(c.Chunks, &CV{K: "map", M: m})
			}
		}
		return c
	}
	for i := 0; i < n; i++ {
		if top == tdMapAny {
			c.Chunks = append(c.Chunks, genMap(r, depth, keyTypes))
		} else {
			c.Chunks = append(c.Chunks, genVal(r, top, depth))
		}
	}
	if r.Chance(1, 14) {
		k := r.Intn(n + 1)
		c.ErrAt = &k
	}
	return c
}

// ---------------------------------------------------------------- engine

type engine struct{}

func (engine) ID() string { return "C14" }
func (engine) CoqHeader() string {
	return "From Eino Require Import Base.Util Model.Concat Model.ConcatMsg Model.ConcatMsgMap Model.ConcatStream Model.ConcatDeep Corr.C14.\n"
}
func (engine) CoqCaseType() string { return "ccase" }

func (engine) Generate(r *lib.Rng, tier string, i int) any {
	var c *Case
	if i%2 == 1 {
		c = genMsgCase(r, tier)
	} else {
		c = genGeneric(r, tier)
	}
	// drawn last, so that the chunk lists of a seed are what they were before this field existed
	if (c.Kind == "generic" || c.Kind == "msg") && c.ErrAt == nil && r.Chance(1, concOneIn) {
		c.Conc = concRounds
	}
	if (c.Kind == "generic" || c.Kind == "msg") && c.ErrAt == nil && r.Chance(1, coldOneIn) {
		c.Cold = coldProcs
	}
	return c
}

func (engine) Decode(raw json.RawMessage) (any, error) {
	var c Case
	if err := json.Unmarshal(raw, &c); err != nil {
		return nil, err
	}
	return &c, nil
}

func (e engine) Run(ci any) lib.Result {
	secondCall = ""
	res := e.run(ci)
	if secondCall != "" && res.Oracle == "" {
		res.Oracle = secondCall
		res.Sig = "second-call-differs"
	}
	return res
}

func (engine) run(ci any) lib.Result {
	c := ci.(*Case)
	if c.Kind != "generic" {
		return runMsg(c)
	}
	if c.ErrAt != nil && !c.Any {
		return runGenericErr(c)
	}
	res := lib.Result{}
	concatGo := concatGo
	if c.Any {
		concatGo = concatAnyGo
		if c.Tagged && taggedOK(c.Chunks) {
			// re-chunked lists stay within S0 / *S0 / nil: results of those types only
			concatGo = func(chunks []*CV) Obs {
				if !taggedOK(chunks) {
					return concatAnyGo(chunks)
				}
				return concatTaggedGo(chunks)
			}
		}
	}
	genericMut = ""
	o := concatGo(c.Chunks)
	res.Obs = o
	res.Tags = []string{"kind:generic", "class:" + o.Class, fmt.Sprintf("chunks:%d", len(c.Chunks))}
	if c.Any {
		res.Tags = append(res.Tags, "static:any")
		if c.Tagged && taggedOK(c.Chunks) {
			res.Tags = append(res.Tags, "static:Tagged")
		}
	}
	if len(c.Chunks) > 0 {
		res.Tags = append(res.Tags, "top:"+c.Chunks[0].K)
	}
	if usesRegistered(c.Chunks) {
		res.Tags = append(res.Tags, "feat:registered-type")
	}
	res.Tags = append(res.Tags, clashTags(c.Chunks)...)
	if isNumCase(c.Chunks) {
		res.Tags = append(res.Tags, "feat:registered-interface-type")
	}
	if hasCV(c.Chunks, func(v *CV) bool { return v.K == "map" && v.NilMap }) {
		res.Tags = append(res.Tags, "feat:nil-map")
	}
	if hasCV(c.Chunks, func(v *CV) bool { return v.K == "map" && v.MT == 3 }) {
		res.Tags = append(res.Tags, "feat:int-key-map")
	}
	res.Nontrivial = len(c.Chunks) >= 2
	res.CoqTerm = lib.CoqApp("CaseGen", lib.CoqList(mapCoq(c.Chunks)), o.coq())
	if c.Any {
		res.CoqTerm = lib.CoqApp("CaseAny", lib.CoqList(mapCoq(c.Chunks)), o.coq())
	}

	// the public path: a compiled chain that must concatenate a node's output stream
	// (a node whose whole output is the nil value is the graph engine's business, not
	// concatenation's: such cases are not sent through the chain)
	if len(c.Chunks) > 0 && c.Chain && c.Any && !(o.Class == "val" && o.Val.K == "nil") {
		res.Tags = append(res.Tags, "api:chain.Invoke")
		if oc := concatViaChain[any](c.Chunks, -1); !obsEqual(o, oc) {
			res.Oracle = "chain.Invoke and concatStreamReader disagree: " + js(oc) + " vs " + js(o)
			res.Sig = "generic-api-disagree"
		}
	}
	if len(c.Chunks) > 0 && c.Chain && !c.Any {
		oc, known := chainTyped(c.Chunks, -1)
		if isNumCase(c.Chunks) && o.Class == "val" && o.Val.S == "" {
			known = false // the nil Num as a node's whole output is the graph engine's business
		}
		if known {
			res.Tags = append(res.Tags, "api:chain.Invoke")
			if !obsEqual(o, oc) {
				res.Oracle = "chain.Invoke and concatStreamReader disagree: " + js(oc) + " vs " + js(o)
				res.Sig = "generic-api-disagree"
			}
		}
	}
	// direct oracle: total (no panic), deterministic, re-chunking invariant, inputs not written to
	switch {
	case res.Oracle != "":
	case o.Class == "panic":
		res.Oracle = "concatenation panicked: " + o.Msg
		res.Sig = "generic-panic"
	default:
		for rep := 0; rep < 2; rep++ {
			if o2 := concatGo(c.Chunks); o2.Class == "panic" {
				res.Oracle = "concatenation panicked: " + o2.Msg
				res.Sig = "generic-panic"
			} else if !obsEqual(o, o2) && res.Oracle == "" {
				res.Oracle = "non-deterministic result: " + js(o) + " vs " + js(o2)
				res.Sig = "generic-nondet"
			}
		}
		// a function registered for the static chunk type is what concatenates >= 2 chunks
		if why := registeredSpec(c, o); why != "" && res.Oracle == "" {
			res.Oracle = why
			res.Sig = "registered-fn-not-applied"
		}
		// the "single non-zero rule" of the anchored mechanism for a type without a concatenation function
		if why := nonzeroSpec(c, o); why != "" && res.Oracle == "" {
			res.Oracle = why
			res.Sig = "single-nonzero-rule"
		}
		// "maps of these": under every key the values are concatenated as a stream of their own type is
		if why := perKeySpec(c, o); why != "" && res.Oracle == "" {
			res.Oracle = why
			res.Sig = "map-not-keywise"
		}
		// re-chunking: concatenate any segment [i,j) first, splice the result in, concatenate again
		n := len(c.Chunks)
		for _, sg := range segmentsOf(n) {
			if i, j := sg[0], sg[1]; res.Oracle == "" {
				sig := "generic-rechunk"
				if i > 0 {
					sig = "generic-rechunk-mid"
				}
				seg := concatGo(c.Chunks[i:j])
				var o2 Obs
				if seg.Class != "val" {
					o2 = seg
				} else {
					spliced := append(append(append([]*CV{}, c.Chunks[:i]...), seg.Val), c.Chunks[j:]...)
					o2 = concatGo(spliced)
				}
				if seg.Class == "panic" || o2.Class == "panic" {
					res.Oracle = fmt.Sprintf("concatenation panicked when chunks [%d,%d) are concatenated first: %s%s", i, j, seg.Msg, o2.Msg)
					res.Sig = "generic-panic"
				} else if !obsEqual(o, o2) {
					res.Oracle = fmt.Sprintf("concatenating chunks [%d,%d) first changes the result: whole=%s split=%s", i, j, js(o), js(o2))
					res.Sig = sig
				}
			}
		}
	}
	if genericMut != "" && res.Oracle == "" {
		res.Oracle = genericMut
		res.Sig = "generic-input-mutated"
	}
	if c.Conc > 0 {
		res.Tags = append(res.Tags, "feat:concurrent")
		if res.Oracle == "" {
			if why := concurrentPhase(c, concatSharedVals(c)); why != "" {
				res.Oracle = why
				res.Sig = "concurrent-nondet"
			}
		}
	}
	if c.Cold > 0 {
		res.Tags = append(res.Tags, "feat:cold-start")
		if res.Oracle == "" {
			why, lost := coldPhase(c, func() string { return concatPure(c, c.Chunks) })
			if why != "" {
				res.Oracle = why
				res.Sig = "cold-start-nondet"
			}
			if lost > 0 {
				res.Tags = append(res.Tags, "cold:child-lost")
			}
		}
	}
	return res
}

// chainTyped: the chunk list through a compiled chain at its static type (a few types only)
func chainTyped(chunks []*CV, errAt int) (Obs, bool) {
	if isNumCase(chunks) {
		return concatViaChain[Num](chunks, errAt), true
	}
	switch chunks[0].toGo().(type) {
	case string:
		return concatViaChain[string](chunks, errAt), true
	case map[string]any:
		return concatViaChain[map[string]any](chunks, errAt), true
	case map[int]string:
		return concatViaChain[map[int]string](chunks, errAt), true
	case MyMap:
		return concatViaChain[MyMap](chunks, errAt), true
	case Acc:
		return concatViaChain[Acc](chunks, errAt), true
	case S0:
		return concatViaChain[S0](chunks, errAt), true
	}
	return Obs{}, false
}

// runGenericErr: a statically typed stream whose reader reports a read error: every
// stream-level entry point must return an error (never a value, never a panic).
func runGenericErr(c *Case) lib.Result {
	res := lib.Result{}
	at := *c.ErrAt
	if at < 0 || at > len(c.Chunks) {
		at = len(c.Chunks)
	}
	o := concatGoErr(c.Chunks, at)
	res.Obs = o
	res.Tags = []string{"kind:generic", "class:" + o.Class, fmt.Sprintf("chunks:%d", len(c.Chunks)), "feat:read-error"}
	res.Nontrivial = len(c.Chunks) >= 2
	res.CoqTerm = lib.CoqApp("CaseGenS", coqItems(mapCoq(c.Chunks), at), o.coq())
	check := func(name string, o Obs) {
		if res.Oracle != "" {
			return
		}
		switch o.Class {
		case "panic":
			res.Oracle = name + " panicked on a stream with a read error: " + o.Msg
			res.Sig = "generic-panic"
		case "val":
			res.Oracle = fmt.Sprintf("%s returned a value although the reader reported an error in front of chunk %d: %s", name, at, js(o))
			res.Sig = "read-error-ignored"
		}
	}
	check("concatStreamReader", o)
	check("concatStreamReader (second run)", concatGoErr(c.Chunks, at))
	if len(c.Chunks) > 0 && c.Chain {
		if oc, known := chainTyped(c.Chunks, at); known {
			res.Tags = append(res.Tags, "api:chain.Invoke")
			check("chain.Invoke", oc)
		}
	}
	return res
}

// goTypeName: the Go type a CV stands for ("" for nil)
func goTypeName(v *CV) string {
	switch v.K {
	case "str":
		return "string"
	case "num":
		return []string{"int", "int64", "bool", "float64"}[v.Kind]
	case "other":
		return []string{"S0", "S1", "MyStr", "MyInt", "*S0", "*S1", "Acc", "Lim", "[]string", "Num", "S0(twin)", "**S0", "Emb", "[2]int"}[v.Tag]
	case "map":
		if v.MT == 1 {
			return "map[string]string"
		}
		if v.MT == 2 {
			return "map[string]int"
		}
		if v.MT == 3 {
			return "map[int]string"
		}
		if v.MT == 4 {
			return "MyMap"
		}
		return "map[string]any"
	}
	return ""
}

var kindOf = map[string]string{"string": "string", "MyStr": "string", "int": "int", "MyInt": "int", "S0": "struct", "S1": "struct",
	"*S0": "ptr", "*S1": "ptr", "**S0": "ptr", "Emb": "struct", "[2]int": "array", "S0(twin)": "struct", "Acc": "struct", "Lim": "struct", "[]string": "slice", "map[string]any": "map", "map[string]string": "map", "map[string]int": "map", "map[int]string": "map", "MyMap": "map", "Num": "interface", "int64": "int64", "bool": "bool", "float64": "float64"}

// clashTags reports whether some key (at any depth, following the first map per key) holds
// values of different Go types, and whether two of them share a reflect.Kind.
func clashTags(chunks []*CV) []string {
	clash, same := false, false
	var walk func(ms []*CV)
	walk = func(ms []*CV) {
		byKey := map[string][]*CV{}
		for _, m := range ms {
			if m == nil || m.K != "map" {
				continue
			}
			for k, v := range m.M {
				if v.K != "nil" {
					byKey[k] = append(byKey[k], v)
				}
			}
		}
		for _, vs := range byKey {
			var sub []*CV
			for _, v := range vs {
				if goTypeName(v) != goTypeName(vs[0]) {
					clash = true
					if kindOf[goTypeName(v)] == kindOf[goTypeName(vs[0])] {
						same = true
					}
				}
				if v.K == "map" && v.MT == 0 {
					sub = append(sub, v)
				}
			}
			if len(sub) > 1 {
				walk(sub)
			}
		}
	}
	walk(chunks)
	var out []string
	if clash {
		out = append(out, "feat:type-clash")
	}
	if same {
		out = append(out, "feat:same-kind-clash")
	}
	return out
}

// perKeySpec: for a list (>= 2) of map[string]any chunks the result must be, key by key, what
// concatStreamReader gives on the non-nil values found under that key taken as a stream of
// their own static type (nil when there is none; an error of the whole when the values of some
// key are of different types or do not concatenate) — the implementation's own typed path is the
// specification of its keyed path (theorems maps_are_keyed / fields_merged: result[k] = concat (values at k)).
func perKeySpec(c *Case, o Obs) string {
	if c.Any || len(c.Chunks) < 2 || o.Class == "panic" {
		return ""
	}
	seen := map[string]bool{}
	var keys []string
	for _, ch := range c.Chunks {
		if ch.K != "map" || ch.MT != 0 {
			return ""
		}
		for k := range ch.M {
			if !seen[k] {
				seen[k] = true
				keys = append(keys, k)
			}
		}
	}
	sort.Strings(keys)
	expected := map[string]*CV{}
	mustFail := ""
	for _, k := range keys {
		var vals []*CV
		for _, ch := range c.Chunks {
			if v, ok := ch.M[k]; ok && v.K != "nil" {
				vals = append(vals, v)
			}
		}
		if len(vals) == 0 {
			expected[k] = &CV{K: "nil"}
			continue
		}
		same := true
		for _, v := range vals {
			if goTypeName(v) != goTypeName(vals[0]) {
				same = false
			}
		}
		if !same {
			mustFail = fmt.Sprintf("key %q holds values of different types", k)
			continue
		}
		ok := concatGo(vals)
		switch ok.Class {
		case "panic":
			return fmt.Sprintf("the values under key %q panic as a stream of %s: %s", k, goTypeName(vals[0]), ok.Msg)
		case "err":
			mustFail = fmt.Sprintf("the values under key %q do not concatenate as a stream of %s (%s)", k, goTypeName(vals[0]), ok.Msg)
		default:
			expected[k] = ok.Val
		}
	}
	if mustFail != "" {
		if o.Class != "err" {
			return mustFail + ", but the map chunks concatenate to " + js(o)
		}
		return ""
	}
	if o.Class != "val" {
		return "under every key the values concatenate as a stream of their own type, but the map chunks fail: " + o.Msg
	}
	if o.Val.K != "map" || len(o.Val.M) != len(expected) {
		return fmt.Sprintf("the result has %d keys, the chunks have %d", len(o.Val.M), len(expected))
	}
	for _, k := range keys {
		if got, ok := o.Val.M[k]; !ok || !reflect.DeepEqual(normalize(got), normalize(expected[k])) {
			return fmt.Sprintf("key %q: the map chunks give %s, the values as a stream of their own type give %s", k, js(got), js(expected[k]))
		}
	}
	return ""
}

// registeredSpec: for a statically typed stream (>= 2 chunks) of one of the types this
// harness registered a concat function for, the result must be what that function computes
// (an independent statement of user.go: Acc / Num sum, Lim sum or an error above 5).
func registeredSpec(c *Case, o Obs) string {
	if c.Any || len(c.Chunks) < 2 || c.Chunks[0].K != "other" {
		return ""
	}
	tag := c.Chunks[0].Tag
	if tag != 6 && tag != 7 && tag != 9 {
		return ""
	}
	sum := 0
	for _, v := range c.Chunks {
		if v.K != "other" || v.Tag != tag {
			return ""
		}
		sum += v.P
	}
	name := map[int]string{6: "Acc", 7: "Lim", 9: "Num"}[tag]
	if tag == 7 && sum > 5 {
		if o.Class != "err" {
			return fmt.Sprintf("the function registered for %s fails on this chunk list (sum %d), concatenation returned %s", name, sum, js(o))
		}
		return ""
	}
	if o.Class != "val" || o.Val.K != "other" || o.Val.Tag != tag || o.Val.P != sum {
		return fmt.Sprintf("the function registered for %s gives %d on this chunk list, concatenation returned %s", name, sum, js(o))
	}
	return ""
}

// nonzeroSpec: a statically typed stream (>= 2 chunks) of a type that has no concatenation function (the two
// structs, the named string / int, the two pointer types, []string, the twin struct) is concatenated by the
// single non-zero rule: no non-zero chunk - the zero value of the type; exactly one - that chunk; several - an
// error.  "Zero" is reflect's IsZero on the Go values the harness built (an independent statement: a non-nil
// pointer to a zero struct and an empty non-nil slice are NOT zero).
func nonzeroSpec(c *Case, o Obs) string {
	if c.Any || len(c.Chunks) < 2 || c.Chunks[0].K != "other" || o.Class == "panic" {
		return ""
	}
	tag := c.Chunks[0].Tag
	if tag == 6 || tag == 7 || tag == 9 {
		return "" // registered
	}
	var nonzero []*CV
	for _, v := range c.Chunks {
		if v.K != "other" || v.Tag != tag {
			return ""
		}
		if g := v.toGo(); g != nil && !reflect.ValueOf(g).IsZero() {
			nonzero = append(nonzero, v)
		}
	}
	name := goTypeName(c.Chunks[0])
	switch len(nonzero) {
	case 0:
		zero := &CV{K: "other", Tag: tag}
		if o.Class != "val" || !reflect.DeepEqual(o.Val, fromGo(zero.toGo())) {
			return fmt.Sprintf("every chunk is the zero value of %s (no concatenation function): the result must be the zero value, concatenation returned %s", name, js(o))
		}
	case 1:
		if o.Class != "val" || !reflect.DeepEqual(o.Val, fromGo(nonzero[0].toGo())) {
			return fmt.Sprintf("exactly one chunk of type %s (no concatenation function) is non-zero, %s: the result must be that chunk, concatenation returned %s", name, js(nonzero[0]), js(o))
		}
	default:
		if o.Class != "err" {
			return fmt.Sprintf("%d chunks of type %s (no concatenation function) are non-zero: the result must be an error, concatenation returned %s", len(nonzero), name, js(o))
		}
	}
	return ""
}

// segmentsOf: the segments [i,j) of a list of n chunks the re-chunking oracle concatenates first: every proper segment
// of a list of up to 16 chunks; of a longer list the segments that start at the ends, the middle and around the powers
// of two (15..17, 31..33, 63..65, 127..129) and are 1, 2, 16, 33, 64 chunks, half the list or the rest long (~90)
func segmentsOf(n int) [][2]int {
	var out [][2]int
	if n <= 16 {
		for i := 0; i < n; i++ {
			for j := i + 1; j <= n; j++ {
				if !(i == 0 && j == n) {
					out = append(out, [2]int{i, j})
				}
			}
		}
		return out
	}
	marks := []int{0, 1, 15, 16, 17, 31, 32, 33, 63, 64, 65, 127, 128, 129, n / 2, n - 2, n - 1}
	lens := []int{1, 2, 16, 33, 64, n / 2, n}
	seen := map[[2]int]bool{}
	for _, i := range marks {
		for _, l := range lens {
			j := i + l
			if j > n {
				j = n
			}
			sg := [2]int{i, j}
			if i < 0 || i >= n || j <= i || (i == 0 && j == n) || seen[sg] {
				continue
			}
			seen[sg] = true
			out = append(out, sg)
		}
	}
	return out
}

// hasCV: some value (at any depth) satisfies p
func hasCV(vs []*CV, p func(*CV) bool) bool {
	for _, v := range vs {
		if v == nil {
			continue
		}
		if p(v) {
			return true
		}
		for _, e := range v.M {
			if hasCV([]*CV{e}, p) {
				return true
			}
		}
	}
	return false
}

func mapCoq(vs []*CV) []string {
	out := make([]string, len(vs))
	for i, v := range vs {
		out[i] = v.coq()
	}
	return out
}

func js(x any) string { b, _ := json.Marshal(x); return string(b) }

func main() {
	if coldChildMain() {
		return
	}
	lib.Main(engine{})
}
