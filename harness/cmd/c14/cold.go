// Engine C14, part 7: the FIRST concatenations of a process, run at the same time.
//
// The property: the result is a function of the chunk sequence - hence not of whether the process has
// concatenated anything before, nor of what else it concatenates for the first time at the same moment (a graph
// whose parallel branches convert their streams does exactly that in its first run).  The concurrent oracle of
// conc.go only starts after the case has been concatenated alone, so everything an implementation sets up
// lazily (a lookup table derived from the registry at the first lookup, a pool filled at the first call, a
// "once" written without sync.Once) is warm by then.  For the cases the generator marks (Case.Cold = number of
// fresh processes) this binary is started again as a child (environment VERIF_C14_COLD, the case on stdin); the
// child builds the case's chunk list and the companion calls of conc.go WITHOUT concatenating anything, releases
// two goroutines that run the case's own concatenation and six that run companions from a spin barrier, a few
// rounds each, and prints every result; the parent compares them with what the same calls give in this (warm)
// process, sequentially.  The verdict does not depend on timing: a child that cannot be started, is lost or is
// slow is skipped (tag cold:child-lost); a child that dies of Go's "concurrent map" fatal error is a failure
// (that error cannot be recovered: it is what an unsynchronised lazily filled map produces).
package main

import (
	"bytes"
	"context"
	"encoding/json"
	"fmt"
	"os"
	"os/exec"
	"runtime"
	"strings"
	"sync"
	"sync/atomic"
	"time"
)

const (
	coldEnv         = "VERIF_C14_COLD"
	coldOneIn       = 40  // one generic / message case in coldOneIn (without read error) runs the cold-start phase
	coldProcs       = 6   // fresh processes per marked case
	coldReplayProcs = 150 // fresh processes of the recorded case of a failure (a replay tries much longer)
	coldRounds      = 4   // calls per goroutine in the child
	coldOwnWorkers  = 2
	coldCompWorkers = 6
)

// coldFirst: the companion each companion goroutine of the child calls FIRST - the short typed ones (string, int64,
// any, a registered struct type, map[string]string, string through concatStreamReader), so that the first registry
// lookups of the process fall as close together as the barrier allows; after that every goroutine walks the whole list
var coldFirst = []int{0, 1, 4, 5, 6, 8}

// coldOut: what a child observed.  Own[w] = the results of the case's own concatenation on goroutine w, in order;
// Comp = companion name / rendered result, in the order the calls returned on each goroutine.
type coldOut struct {
	Own  [][]string  `json:"own"`
	Comp [][2]string `json:"comp"`
}

// coldOwn: the case's own concatenation as a reentrant call with a canonical rendering (what Run uses too)
func coldOwn(c *Case) func() string {
	if c.Kind == "msg" {
		api := c.API
		if api == apiChain {
			api = apiStreamReader
		}
		return func() string { return msgPure(api, c.Msgs) }
	}
	return func() string { return concatPure(c, c.Chunks) }
}

// coldChildMain: true when this process is a cold-start child (it has done its work and main must return)
func coldChildMain() bool {
	if os.Getenv(coldEnv) == "" {
		return false
	}
	var c Case
	if err := json.NewDecoder(os.Stdin).Decode(&c); err != nil {
		fmt.Fprintln(os.Stderr, "cold child: bad case:", err)
		os.Exit(3)
	}
	own := coldOwn(&c)
	comps := buildCompanions() // nothing is concatenated here
	out := coldOut{Own: make([][]string, coldOwnWorkers)}
	var (
		mu    sync.Mutex
		wg    sync.WaitGroup
		ready int32
	)
	const total = coldOwnWorkers + coldCompWorkers
	barrier := func() {
		atomic.AddInt32(&ready, 1)
		for atomic.LoadInt32(&ready) < total {
			runtime.Gosched()
		}
	}
	wg.Add(total)
	for w := 0; w < coldOwnWorkers; w++ {
		w := w
		go func() {
			defer wg.Done()
			barrier()
			for i := 0; i < coldRounds; i++ {
				out.Own[w] = append(out.Own[w], own())
			}
		}()
	}
	for w := 0; w < coldCompWorkers; w++ {
		w := w
		go func() {
			defer wg.Done()
			var mine [][2]string
			barrier()
			for i := 0; i < coldRounds; i++ {
				k := comps[(coldFirst[w%len(coldFirst)]+i)%len(comps)]
				mine = append(mine, [2]string{k.name, show(k.run())})
			}
			mu.Lock()
			out.Comp = append(out.Comp, mine...)
			mu.Unlock()
		}()
	}
	wg.Wait()
	_ = json.NewEncoder(os.Stdout).Encode(&out)
	return true
}

// coldPhase: the cold-start oracle on case c (own = its own concatenation); "" = nothing seen
func coldPhase(c *Case, own func() string) (why string, lost int) {
	key := concKey(c)
	if w, ok := coldFailed[key]; ok {
		return w, 0
	}
	exe, err := os.Executable()
	if err != nil {
		return "", c.Cold
	}
	companionsOnce.Do(initCompanions)
	base := own()
	if again := own(); again != base {
		return "", 0 // not deterministic even alone: reported by the sequential oracle
	}
	want := map[string]string{}
	for _, k := range companions {
		want[k.name] = show(k.base)
	}
	d := *c
	d.Conc, d.Cold = 0, 0
	body := []byte(js(&d))
	for p := 0; p < c.Cold && why == ""; p++ {
		got, died, ok := coldRunChild(exe, body)
		switch {
		case died != "":
			why = "a fresh process whose first concatenations (this case's chunk list on two goroutines, chunk lists of other types on six) run at the same time died: " + died
		case !ok:
			lost++
		default:
			for _, rs := range got.Own {
				for _, r := range rs {
					if r != base && why == "" {
						why = fmt.Sprintf("the case's chunk list gives %s in a process that has concatenated before and %s as one of the first concatenations of a fresh process (while other first concatenations run at the same time)", base, r)
					}
				}
			}
			for _, nr := range got.Comp {
				if w, known := want[nr[0]]; known && w != nr[1] && why == "" {
					why = fmt.Sprintf("%s give %s in a process that has concatenated before and %s as one of the first concatenations of a fresh process (this case's among the others running at the same time)", nr[0], w, nr[1])
				}
			}
		}
	}
	if why != "" {
		coldFailed[key] = why
		if c.Cold < coldReplayProcs {
			c.Cold = coldReplayProcs
		}
	}
	return why, lost
}

// coldFailed: what the cold-start phase reported for a case of this process (like concFailed of conc.go: the failure
// depends on the interleaving, so what was observed once is reported again when lib.Main re-runs the case, and the
// case is not minimised)
var coldFailed = map[string]string{}

// coldRunChild: one fresh process.  ok = false: the child was lost (not started, timed out, unreadable output,
// died of something that is not the concatenation's doing) - skipped, never an alarm.
func coldRunChild(exe string, body []byte) (out coldOut, died string, ok bool) {
	ctx, cancel := context.WithTimeout(context.Background(), 60*time.Second)
	defer cancel()
	cmd := exec.CommandContext(ctx, exe)
	cmd.Env = append(coldChildEnv(), coldEnv+"=1")
	cmd.Stdin = bytes.NewReader(body)
	var so, se bytes.Buffer
	cmd.Stdout, cmd.Stderr = &so, &se
	err := cmd.Run()
	if err != nil {
		if ctx.Err() == nil {
			for _, line := range strings.Split(se.String(), "\n") {
				if strings.HasPrefix(line, "fatal error: concurrent map") {
					return out, line, false
				}
			}
		}
		return out, "", false
	}
	if json.Unmarshal(so.Bytes(), &out) != nil || len(out.Own) != coldOwnWorkers {
		return out, "", false
	}
	return out, "", true
}

// coldChildEnv: this process's environment; a binary built with the race detector sleeps a second when it exits
// (GORACE atexit_sleep_ms, there to let other goroutines report) - the child has waited for all of its goroutines,
// so that is switched off (the other GORACE settings, the log path of the reports among them, are kept)
func coldChildEnv() []string {
	env := os.Environ()
	for i, kv := range env {
		if strings.HasPrefix(kv, "GORACE=") {
			env[i] = kv + " atexit_sleep_ms=0"
			return env
		}
	}
	return append(env, "GORACE=atexit_sleep_ms=0")
}
