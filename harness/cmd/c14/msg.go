// Engine C14, part 2 — chat messages (schema.ConcatMessages, ConcatMessageStream,
// compose.concatStreamReader on *Message and []*Message, a compose chain that has to turn
// a stream into a value).  Mirrors Model/ConcatMsg.v.
package main

import (
	"context"
	"fmt"
	"reflect"
	"sort"
	"strings"

	"github.com/cloudwego/eino/compose"
	"github.com/cloudwego/eino/schema"

	"verif/harness/lib"
)

// ---------------------------------------------------------------- case representation

type TC struct {
	Idx   *int64 `json:"idx"`
	ID    string `json:"id"`
	Type  string `json:"type"`
	Name  string `json:"name"`
	Args  string `json:"args"`
	Extra int    `json:"extra"` // index into tcExtraPool: 0 = nil Extra map, 1 / 2 = {"t": n}, 3 = empty non-nil map, ...
}

// tcExtraPool: the Extra maps a tool call may carry (never merged by concatToolCalls, only
// carried from the first fragment of an index group): the model sees the pool index.
var tcExtraPool = []func() map[string]any{
	func() map[string]any { return nil },
	func() map[string]any { return map[string]any{"t": 1} },
	func() map[string]any { return map[string]any{"t": 2} },
	func() map[string]any { return map[string]any{} },
	func() map[string]any { return map[string]any{"a": "x", "n": map[string]any{"b": nil}} },
	func() map[string]any { return map[string]any{"t": 1, "u": []string{"z"}} },
}

func tcExtraIndex(m map[string]any) int {
	if m == nil {
		return 0
	}
	for i := 1; i < len(tcExtraPool); i++ {
		if reflect.DeepEqual(m, tcExtraPool[i]()) {
			return i
		}
	}
	return -1
}

// MultiContent parts: a text part is its text; "img:U", "aud:U", "vid:U", "file:U" are parts of
// the other types with their URL struct filled in (checked field by field on the way back).
func partToGo(t string) schema.ChatMessagePart {
	ex := func() map[string]any { return map[string]any{"w": len(t)} }
	switch {
	case strings.HasPrefix(t, "img:"):
		return schema.ChatMessagePart{Type: schema.ChatMessagePartTypeImageURL,
			ImageURL: &schema.ChatMessageImageURL{URL: t[4:], URI: "uri-" + t[4:], Detail: schema.ImageURLDetailHigh, MIMEType: "image/png", Extra: ex()}}
	case strings.HasPrefix(t, "aud:"):
		return schema.ChatMessagePart{Type: schema.ChatMessagePartTypeAudioURL,
			AudioURL: &schema.ChatMessageAudioURL{URL: t[4:], URI: "uri-" + t[4:], MIMEType: "audio/wav", Extra: ex()}}
	case strings.HasPrefix(t, "vid:"):
		return schema.ChatMessagePart{Type: schema.ChatMessagePartTypeVideoURL,
			VideoURL: &schema.ChatMessageVideoURL{URL: t[4:], URI: "uri-" + t[4:], MIMEType: "video/mp4", Extra: ex()}}
	case strings.HasPrefix(t, "file:"):
		return schema.ChatMessagePart{Type: schema.ChatMessagePartTypeFileURL,
			FileURL: &schema.ChatMessageFileURL{URL: t[5:], URI: "uri-" + t[5:], MIMEType: "text/plain", Name: "n-" + t[5:], Extra: ex()}}
	}
	return schema.ChatMessagePart{Type: schema.ChatMessagePartTypeText, Text: t}
}

func partFromGo(p schema.ChatMessagePart) string {
	for _, cand := range []string{p.Text} {
		if reflect.DeepEqual(p, partToGo(cand)) {
			return cand
		}
	}
	url, pre := "", ""
	switch {
	case p.ImageURL != nil:
		url, pre = p.ImageURL.URL, "img:"
	case p.AudioURL != nil:
		url, pre = p.AudioURL.URL, "aud:"
	case p.VideoURL != nil:
		url, pre = p.VideoURL.URL, "vid:"
	case p.FileURL != nil:
		url, pre = p.FileURL.URL, "file:"
	}
	if pre != "" && reflect.DeepEqual(p, partToGo(pre+url)) {
		return pre + url
	}
	return "CORRUPT:" + p.Text + "|" + string(p.Type) + "|" + pre + url
}

type Meta struct {
	Finish string    `json:"finish"`
	Usage  *[3]int64 `json:"usage"`
	HasLP  bool      `json:"has_lp"`
	LP     []string  `json:"lp"` // LogProbs.Content tokens (nil vs empty kept)
}

type Msg struct {
	Nil     bool     `json:"nil,omitempty"`
	Role    string   `json:"role"`
	Name    string   `json:"name"`
	TCID    string   `json:"tcid"`
	Content string   `json:"content"`
	Multi   []string `json:"multi"` // nil vs empty kept
	TCs     []TC     `json:"tcs"`   // nil vs empty kept
	Meta    *Meta    `json:"meta"`
	Extra   *CV      `json:"extra"` // nil = nil map; {K:"map"} possibly with zero keys
}

const sentinel = "<<SENTINEL>>"
const spare = 3

// toGo builds the schema.Message. Every slice gets spare capacity filled with sentinels
// so that an append into a chunk's backing array is detected afterwards.
func (m *Msg) toGo() *schema.Message {
	if m == nil || m.Nil {
		return nil
	}
	out := &schema.Message{Role: schema.RoleType(m.Role), Name: m.Name, ToolCallID: m.TCID, Content: m.Content}
	if m.Multi != nil {
		s := make([]schema.ChatMessagePart, len(m.Multi), len(m.Multi)+spare)
		for i, t := range m.Multi {
			s[i] = partToGo(t)
		}
		full := s[:cap(s)]
		for i := len(s); i < cap(s); i++ {
			full[i] = schema.ChatMessagePart{Text: sentinel}
		}
		out.MultiContent = s
	}
	if m.TCs != nil {
		s := make([]schema.ToolCall, len(m.TCs), len(m.TCs)+spare)
		for i, t := range m.TCs {
			tc := schema.ToolCall{ID: t.ID, Type: t.Type, Function: schema.FunctionCall{Name: t.Name, Arguments: t.Args}}
			if t.Idx != nil {
				v := int(*t.Idx)
				tc.Index = &v
			}
			if t.Extra > 0 && t.Extra < len(tcExtraPool) {
				tc.Extra = tcExtraPool[t.Extra]()
			}
			s[i] = tc
		}
		full := s[:cap(s)]
		for i := len(s); i < cap(s); i++ {
			full[i] = schema.ToolCall{ID: sentinel}
		}
		out.ToolCalls = s
	}
	if m.Meta != nil {
		rm := &schema.ResponseMeta{FinishReason: m.Meta.Finish}
		if m.Meta.Usage != nil {
			u := m.Meta.Usage
			rm.Usage = &schema.TokenUsage{PromptTokens: int(u[0]), CompletionTokens: int(u[1]), TotalTokens: int(u[2])}
		}
		if m.Meta.HasLP {
			lp := &schema.LogProbs{}
			if m.Meta.LP != nil {
				s := make([]schema.LogProb, len(m.Meta.LP), len(m.Meta.LP)+spare)
				for i, t := range m.Meta.LP {
					s[i] = schema.LogProb{Token: t, LogProb: -float64(len(t)), Bytes: []int64{int64(len(t))},
						TopLogProbs: []schema.TopLogProb{{Token: t + "'", LogProb: -1}}}
				}
				full := s[:cap(s)]
				for i := len(s); i < cap(s); i++ {
					full[i] = schema.LogProb{Token: sentinel}
				}
				lp.Content = s
			}
			rm.LogProbs = lp
		}
		out.ResponseMeta = rm
	}
	if m.Extra != nil {
		out.Extra = m.Extra.toGo().(map[string]any)
	}
	return out
}

// sentinelsIntact checks the spare capacity of every slice of a message built by toGo.
func sentinelsIntact(g *schema.Message) string {
	if g == nil {
		return ""
	}
	if s := g.MultiContent; s != nil {
		for _, p := range s[:cap(s)][len(s):] {
			if p.Text != sentinel {
				return "MultiContent backing array written"
			}
		}
	}
	if s := g.ToolCalls; s != nil {
		for _, p := range s[:cap(s)][len(s):] {
			if p.ID != sentinel {
				return "ToolCalls backing array written"
			}
		}
	}
	if g.ResponseMeta != nil && g.ResponseMeta.LogProbs != nil {
		if s := g.ResponseMeta.LogProbs.Content; s != nil {
			for _, p := range s[:cap(s)][len(s):] {
				if p.Token != sentinel {
					return "LogProbs.Content backing array written"
				}
			}
		}
	}
	return ""
}

func fromGoMsg(g *schema.Message) *Msg {
	if g == nil {
		return &Msg{Nil: true}
	}
	m := &Msg{Role: string(g.Role), Name: g.Name, TCID: g.ToolCallID, Content: g.Content}
	if g.MultiContent != nil {
		m.Multi = []string{}
		for _, p := range g.MultiContent {
			m.Multi = append(m.Multi, partFromGo(p))
		}
	}
	if g.ToolCalls != nil {
		m.TCs = []TC{}
		for _, t := range g.ToolCalls {
			tc := TC{ID: t.ID, Type: t.Type, Name: t.Function.Name, Args: t.Function.Arguments}
			if t.Index != nil {
				v := int64(*t.Index)
				tc.Idx = &v
			}
			tc.Extra = tcExtraIndex(t.Extra)
			m.TCs = append(m.TCs, tc)
		}
	}
	if g.ResponseMeta != nil {
		mm := &Meta{Finish: g.ResponseMeta.FinishReason}
		if u := g.ResponseMeta.Usage; u != nil {
			mm.Usage = &[3]int64{int64(u.PromptTokens), int64(u.CompletionTokens), int64(u.TotalTokens)}
		}
		if lp := g.ResponseMeta.LogProbs; lp != nil {
			mm.HasLP = true
			if lp.Content != nil {
				mm.LP = []string{}
				for _, p := range lp.Content {
					// the whole entry must survive, not only the token
					tok := p.Token
					if p.LogProb != -float64(len(tok)) || len(p.Bytes) != 1 || p.Bytes[0] != int64(len(tok)) ||
						len(p.TopLogProbs) != 1 || p.TopLogProbs[0].Token != tok+"'" {
						tok = "CORRUPT:" + tok
					}
					mm.LP = append(mm.LP, tok)
				}
			}
		}
		m.Meta = mm
	}
	if g.Extra != nil {
		m.Extra = fromGo(g.Extra)
	}
	return m
}

// normMsg: nil and empty slices / maps are the same value
func normMsg(m *Msg) *Msg {
	if m == nil {
		return nil
	}
	c := *m
	if c.Multi == nil {
		c.Multi = []string{}
	}
	if c.TCs == nil {
		c.TCs = []TC{}
	}
	if c.Meta != nil {
		mm := *c.Meta
		if mm.HasLP && mm.LP == nil {
			mm.LP = []string{}
		}
		c.Meta = &mm
	}
	if c.Extra == nil {
		c.Extra = &CV{K: "map", M: map[string]*CV{}}
	} else {
		c.Extra = normalize(c.Extra)
	}
	return &c
}

// ---------------------------------------------------------------- Gallina printers

func (t TC) coq() string {
	idx := "None"
	if t.Idx != nil {
		idx = lib.CoqSome(lib.CoqZ(*t.Idx))
	}
	ex := t.Extra
	if ex < 0 {
		ex = 999999
	}
	return lib.CoqApp("mkTC", idx, lib.CoqStr(t.ID), lib.CoqStr(t.Type), lib.CoqStr(t.Name), lib.CoqStr(t.Args), lib.CoqN(uint64(ex)))
}

func (m *Msg) coq() string {
	if m == nil || m.Nil {
		return "None"
	}
	return lib.CoqSome(m.coqBare())
}

// coqBare: the mkMsg term itself (m must not be nil)
func (m *Msg) coqBare() string {
	tcs := make([]string, len(m.TCs))
	for i, t := range m.TCs {
		tcs[i] = t.coq()
	}
	meta := "None"
	if m.Meta != nil {
		us := "None"
		if u := m.Meta.Usage; u != nil {
			us = lib.CoqSome(lib.CoqApp("mkUsage", lib.CoqZ(u[0]), lib.CoqZ(u[1]), lib.CoqZ(u[2])))
		}
		lp := "None"
		if m.Meta.HasLP {
			lp = lib.CoqSome(lib.CoqStrList(m.Meta.LP))
		}
		meta = lib.CoqSome(lib.CoqApp("mkMeta", lib.CoqStr(m.Meta.Finish), us, lp))
	}
	extra := "[]"
	if m.Extra != nil {
		keys := make([]string, 0, len(m.Extra.M))
		for k := range m.Extra.M {
			keys = append(keys, k)
		}
		sort.Strings(keys)
		items := make([]string, len(keys))
		for i, k := range keys {
			items[i] = lib.CoqPair(lib.CoqStr(k), m.Extra.M[k].coq())
		}
		extra = lib.CoqList(items)
	}
	return lib.CoqApp("mkMsg", lib.CoqStr(m.Role), lib.CoqStr(m.Name), lib.CoqStr(m.TCID), lib.CoqStr(m.Content),
		lib.CoqStrList(m.Multi), lib.CoqList(tcs), meta, extra)
}

func msgsCoq(ms []*Msg) string {
	out := make([]string, len(ms))
	for i, m := range ms {
		out[i] = m.coq()
	}
	return lib.CoqList(out)
}

// ---------------------------------------------------------------- observations

type MObs struct {
	Class string `json:"class"` // val | err | panic
	Val   *Msg   `json:"val,omitempty"`
	List  []*Msg `json:"list,omitempty"`
	Msg   string `json:"msg,omitempty"`
}

func (o MObs) coqMsg() string {
	switch o.Class {
	case "val":
		return lib.CoqApp("MVal", o.Val.coq())
	case "err":
		return "MErr"
	}
	return "MPanic"
}

func (o MObs) coqList() string {
	switch o.Class {
	case "val":
		return lib.CoqApp("LVal", msgsCoq(o.List))
	case "err":
		return "LErr"
	}
	return "LPanic"
}

func mobsEqual(a, b MObs) bool {
	if a.Class != b.Class {
		return false
	}
	if a.Class != "val" {
		return true
	}
	if !reflect.DeepEqual(normMsg(a.Val), normMsg(b.Val)) {
		return false
	}
	if len(a.List) != len(b.List) {
		return false
	}
	for i := range a.List {
		if !reflect.DeepEqual(normMsg(a.List[i]), normMsg(b.List[i])) {
			return false
		}
	}
	return true
}

const (
	apiConcatMessages = 0 // schema.ConcatMessages on the slice (any length)
	apiMessageStream  = 1 // schema.ConcatMessageStream
	apiStreamReader   = 2 // compose.concatStreamReader[*schema.Message]
	apiChain          = 3 // compose chain: streamable lambda, Invoke
)

var apiNames = []string{"ConcatMessages", "ConcatMessageStream", "concatStreamReader", "chain.Invoke"}

func callMsgAPI(api int, ms []*schema.Message) (o MObs) { return callMsgAPIErr(api, ms, -1) }

// callMsgAPIErr: errAt >= 0 makes the reader report a read error in front of chunk errAt
// (stream-level entry points only)
func callMsgAPIErr(api int, ms []*schema.Message, errAt int) (o MObs) {
	var out *schema.Message
	var err error
	p := lib.Recover(func() {
		switch api {
		case apiConcatMessages:
			out, err = schema.ConcatMessages(ms)
		case apiMessageStream:
			out, err = schema.ConcatMessageStream(streamOf(ms, errAt))
		case apiStreamReader:
			out, err = compose.VerifConcatStreamReader(streamOf(ms, errAt))
		default:
			ctx := context.Background()
			ch := compose.NewChain[string, *schema.Message]()
			ch.AppendLambda(compose.StreamableLambda(func(ctx context.Context, in string) (*schema.StreamReader[*schema.Message], error) {
				if in == "tail" {
					return streamOf(ms[1:], -1), nil
				}
				return streamOf(ms, errAt), nil
			}))
			r, cerr := ch.Compile(ctx)
			if cerr != nil {
				panic("harness: chain does not compile: " + cerr.Error())
			}
			out, err = r.Invoke(ctx, "")
			// a second call on the SAME compiled object with ANOTHER chunk list (the first chunk dropped): what
			// the stream-level entry point gives for that list, whatever the object converted before
			if len(ms) >= 2 && errAt < 0 && secondCall == "" {
				want, werr := compose.VerifConcatStreamReader(streamOf(ms[1:], -1))
				if werr != nil || want != nil { // a nil value as a node's whole output is the graph engine's business
					got, gerr := r.Invoke(ctx, "tail")
					if w, g := msgCallObs(want, werr), msgCallObs(got, gerr); !mobsEqual(w, g) {
						secondCall = fmt.Sprintf("chain.Invoke: the second call on the same compiled chain, made with the chunk list without its first chunk, gives %s; concatStreamReader gives %s for that list", js(g), js(w))
					}
				}
			}
			// the other conversion site of the engine: the stream feeds an invoke-only successor node while the
			// chain is called with Stream (the graph converts the node input with the chunk type's concatStream)
			if errAt < 0 && secondCall == "" && (err != nil || out != nil) {
				ch2 := compose.NewChain[string, *schema.Message]()
				ch2.AppendLambda(compose.StreamableLambda(func(ctx context.Context, in string) (*schema.StreamReader[*schema.Message], error) {
					return streamOf(ms, -1), nil
				}))
				ch2.AppendLambda(compose.InvokableLambda(func(ctx context.Context, in *schema.Message) (*schema.Message, error) { return in, nil }))
				r2, cerr := ch2.Compile(ctx)
				if cerr != nil {
					panic("harness: chain does not compile: " + cerr.Error())
				}
				var got *schema.Message
				sr, gerr := r2.Stream(ctx, "")
				if gerr == nil {
					got, gerr = compose.VerifConcatStreamReader(sr)
				}
				if w, g := msgCallObs(out, err), msgCallObs(got, gerr); !mobsEqual(w, g) {
					secondCall = fmt.Sprintf("the chunk list converted for an invoke-only successor node (chain called with Stream) gives %s; chain.Invoke on the streaming node alone gives %s", js(g), js(w))
				}
				// and the third: the chunk list as the INPUT stream of a chain of one invoke-only node, called with Collect
				ch3 := compose.NewChain[*schema.Message, *schema.Message]()
				ch3.AppendLambda(compose.InvokableLambda(func(ctx context.Context, in *schema.Message) (*schema.Message, error) { return in, nil }))
				r3, cerr := ch3.Compile(ctx)
				if cerr != nil {
					panic("harness: chain does not compile: " + cerr.Error())
				}
				got3, gerr3 := r3.Collect(ctx, streamOf(ms, -1))
				if w, g := msgCallObs(out, err), msgCallObs(got3, gerr3); !mobsEqual(w, g) && secondCall == "" {
					secondCall = fmt.Sprintf("the chunk list as the input stream of an invoke-only node (chain called with Collect) gives %s; chain.Invoke on the streaming node gives %s", js(g), js(w))
				}
			}
		}
	})
	if p != nil {
		return MObs{Class: "panic", Msg: fmt.Sprint(p)}
	}
	return msgCallObs(out, err)
}

func msgCallObs(out *schema.Message, err error) MObs {
	if err != nil {
		return MObs{Class: "err", Msg: err.Error()}
	}
	return MObs{Class: "val", Val: fromGoMsg(out)}
}

func callListAPI(api int, ls [][]*schema.Message) (o MObs) {
	var out []*schema.Message
	var err error
	p := lib.Recover(func() {
		if api == 0 {
			out, err = compose.VerifConcatStreamReader(schema.StreamReaderFromArray(ls))
		} else {
			out, err = compose.VerifConcatItems(ls)
		}
	})
	if p != nil {
		return MObs{Class: "panic", Msg: fmt.Sprint(p)}
	}
	if err != nil {
		return MObs{Class: "err", Msg: err.Error()}
	}
	o = MObs{Class: "val", List: []*Msg{}}
	for _, g := range out {
		o.List = append(o.List, fromGoMsg(g))
	}
	return o
}

func buildMsgs(ms []*Msg) []*schema.Message {
	out := make([]*schema.Message, len(ms))
	for i, m := range ms {
		out[i] = m.toGo()
	}
	return out
}

// runOn builds fresh Go messages from the case, runs the API, and verifies that the
// inputs were not written to (field values and the spare capacity of every slice).
func runOn(api int, ms []*Msg) (MObs, string) {
	gs := buildMsgs(ms)
	o := callMsgAPI(api, gs)
	for i, g := range gs {
		if why := sentinelsIntact(g); why != "" {
			return o, fmt.Sprintf("input chunk %d: %s", i, why)
		}
		if !reflect.DeepEqual(fromGoMsg(g), fromGoMsg(ms[i].toGo())) {
			return o, fmt.Sprintf("input chunk %d was modified: now %s", i, js(fromGoMsg(g)))
		}
	}
	return o, ""
}

func runListOn(api int, ls [][]*Msg) (MObs, string) {
	gs := make([][]*schema.Message, len(ls))
	for i, l := range ls {
		if l != nil {
			gs[i] = buildMsgs(l)
		}
	}
	o := callListAPI(api, gs)
	for i, l := range gs {
		if len(l) != len(ls[i]) {
			return o, fmt.Sprintf("input list %d changed length", i)
		}
		for j, g := range l {
			if why := sentinelsIntact(g); why != "" {
				return o, fmt.Sprintf("input list %d message %d: %s", i, j, why)
			}
			if !reflect.DeepEqual(fromGoMsg(g), fromGoMsg(ls[i][j].toGo())) {
				return o, fmt.Sprintf("input list %d message %d was modified", i, j)
			}
		}
	}
	return o, ""
}

// ---------------------------------------------------------------- run + direct oracle

func runMsg(c *Case) lib.Result {
	if c.Kind == "msglist" {
		return runMsgList(c)
	}
	if c.Kind == "msgmap" {
		return runMsgMap(c)
	}
	if c.Kind == "deep" {
		return runDeep(c)
	}
	if c.ErrAt != nil {
		return runMsgErr(c)
	}
	res := lib.Result{}
	o, mut := runOn(c.API, c.Msgs)
	res.Obs = o
	n := len(c.Msgs)
	res.Tags = []string{"kind:msg", "api:" + apiNames[c.API], "class:" + o.Class, fmt.Sprintf("chunks:%d", n)}
	res.Tags = append(res.Tags, msgFeatureTags(c.Msgs)...)
	var extras []*CV
	for _, m := range c.Msgs {
		if m != nil && m.Extra != nil {
			extras = append(extras, m.Extra)
		}
	}
	res.Tags = append(res.Tags, clashTags(extras)...)
	res.Nontrivial = n >= 2
	api := 1
	if c.API == apiConcatMessages {
		api = 0
	}
	res.CoqTerm = lib.CoqApp("CaseMsg", lib.CoqN(uint64(api)), msgsCoq(c.Msgs), o.coqMsg())

	fail := func(sig, format string, a ...any) {
		if res.Oracle == "" {
			res.Oracle = fmt.Sprintf(format, a...)
			res.Sig = sig
		}
	}
	if mut != "" {
		fail("msg-input-mutated", "%s: %s", apiNames[c.API], mut)
	}
	apis := []int{apiConcatMessages, apiMessageStream, apiStreamReader}
	if c.Chain {
		apis = append(apis, apiChain)
	}
	obs := map[int]MObs{}
	for _, a := range apis {
		oa, m := runOn(a, c.Msgs)
		obs[a] = oa
		if oa.Class == "panic" {
			fail("msg-panic", "%s panicked: %s", apiNames[a], oa.Msg)
		}
		if m != "" {
			fail("msg-input-mutated", "%s: %s", apiNames[a], m)
		}
		for rep := 0; rep < 2; rep++ {
			if o2, _ := runOn(a, c.Msgs); !mobsEqual(oa, o2) {
				fail("msg-nondet", "%s: non-deterministic result: %s vs %s", apiNames[a], js(oa), js(o2))
			}
		}
	}
	if !mobsEqual(o, obs[c.API]) {
		fail("msg-nondet", "%s: non-deterministic result", apiNames[c.API])
	}
	// all stream-level entry points agree; with >= 2 chunks they agree with ConcatMessages
	for _, a := range apis[2:] {
		if !mobsEqual(obs[apiMessageStream], obs[a]) {
			fail("msg-api-disagree", "ConcatMessageStream and %s disagree: %s vs %s", apiNames[a], js(obs[apiMessageStream]), js(obs[a]))
		}
	}
	if n >= 2 && !mobsEqual(obs[apiConcatMessages], obs[apiMessageStream]) {
		fail("msg-api-disagree", "ConcatMessages and ConcatMessageStream disagree on %d chunks", n)
	}
	// re-chunking: concatenate any segment [i,j) first, splice the result in, concatenate again
	for _, a := range []int{apiConcatMessages, apiStreamReader} {
		whole := obs[a]
		for _, sg := range segmentsOf(n) {
			if i, j := sg[0], sg[1]; res.Oracle == "" {
				seg, _ := runOn(a, c.Msgs[i:j])
				sig := "msg-rechunk"
				if i > 0 {
					sig = "msg-rechunk-mid"
				}
				if seg.Class != "val" {
					if whole.Class == "val" {
						fail(sig, "%s: chunks [%d,%d) fail alone (%s) but the whole list concatenates", apiNames[a], i, j, seg.Msg)
					}
					continue
				}
				spliced := append(append(append([]*Msg{}, c.Msgs[:i]...), seg.Val), c.Msgs[j:]...)
				o2, _ := runOn(a, spliced)
				if !mobsEqual(whole, o2) {
					fail(sig, "%s: concatenating chunks [%d,%d) first changes the result: whole=%s split=%s", apiNames[a], i, j, js(whole), js(o2))
				}
			}
		}
	}
	// order: content is the arrival-order concatenation
	if w := obs[apiConcatMessages]; w.Class == "val" {
		var sb strings.Builder
		for _, m := range c.Msgs {
			sb.WriteString(m.Content)
		}
		if w.Val.Content != sb.String() {
			fail("msg-order", "content %q is not the arrival-order concatenation %q", w.Val.Content, sb.String())
		}
		if why := toolCallOrder(c.Msgs, w.Val); why != "" {
			fail("msg-order", "%s", why)
		}
	}
	// the anchored mechanism, field by field (an independent statement of fields_merged, Props/C14.v)
	if why := fieldSpec(c.Msgs, obs[apiConcatMessages]); why != "" {
		fail("msg-field-spec", "ConcatMessages: %s", why)
	}
	if c.Conc > 0 {
		res.Tags = append(res.Tags, "feat:concurrent")
		if res.Oracle == "" {
			api := c.API
			if api == apiChain {
				api = apiStreamReader
			}
			// the same message values for every call on every goroutine (what two consumers of one copied stream get)
			shared := buildMsgs(c.Msgs)
			own := func() string {
				o := callMsgAPI(api, shared)
				if o.Class == "panic" {
					return "panic " + o.Msg
				}
				return renderObs(o.Class, normMsg(o.Val))
			}
			if why := concurrentPhase(c, own); why != "" {
				fail("concurrent-nondet", "%s: %s", apiNames[api], why)
			}
		}
	}
	if c.Cold > 0 {
		res.Tags = append(res.Tags, "feat:cold-start")
		if res.Oracle == "" {
			api := c.API
			if api == apiChain {
				api = apiStreamReader
			}
			why, lost := coldPhase(c, func() string { return msgPure(api, c.Msgs) })
			if why != "" {
				fail("cold-start-nondet", "%s: %s", apiNames[api], why)
			}
			if lost > 0 {
				res.Tags = append(res.Tags, "cold:child-lost")
			}
		}
	}
	return res
}

// msgPure: the case's own concatenation on freshly built messages, canonical rendering, no harness state touched
func msgPure(api int, ms []*Msg) string {
	o := callMsgAPI(api, buildMsgs(ms))
	if o.Class == "panic" {
		return "panic " + o.Msg
	}
	return renderObs(o.Class, normMsg(o.Val))
}

// fieldSpec states what ConcatMessages must return for the fields the property's mechanism
// names: role / name / tool-call id consistency (the one non-empty value all chunks agree on,
// two different non-empty values are an error), content joined, finish reason = the last
// non-empty one, usage = component-wise maximum (never below 0), response meta / usage present
// iff some chunk has one, tool-call id / type / name per index group by the same consistency rule.
func fieldSpec(in []*Msg, out MObs) string {
	if out.Class == "panic" {
		return ""
	}
	for _, m := range in {
		if m == nil || m.Nil {
			if out.Class != "err" {
				return "a nil chunk must be an error"
			}
			return ""
		}
	}
	conflict := ""
	pick := func(what string, vals []string) string {
		cur := ""
		for _, v := range vals {
			if v == "" {
				continue
			}
			if cur == "" {
				cur = v
			} else if cur != v && conflict == "" {
				conflict = fmt.Sprintf("%s %q vs %q", what, cur, v)
			}
		}
		return cur
	}
	col := func(f func(*Msg) string) []string {
		var vs []string
		for _, m := range in {
			vs = append(vs, f(m))
		}
		return vs
	}
	role := pick("role", col(func(m *Msg) string { return m.Role }))
	name := pick("name", col(func(m *Msg) string { return m.Name }))
	tcid := pick("tool-call id", col(func(m *Msg) string { return m.TCID }))
	type grp struct{ id, typ, name []string }
	groups := map[int64]*grp{}
	var order []int64
	for _, m := range in {
		for _, t := range m.TCs {
			if t.Idx == nil {
				continue
			}
			g, ok := groups[*t.Idx]
			if !ok {
				g = &grp{}
				groups[*t.Idx] = g
				order = append(order, *t.Idx)
			}
			g.id, g.typ, g.name = append(g.id, t.ID), append(g.typ, t.Type), append(g.name, t.Name)
		}
	}
	want := map[int64][3]string{}
	for _, i := range order {
		g := groups[i]
		want[i] = [3]string{pick(fmt.Sprintf("tool id of index %d", i), g.id), pick(fmt.Sprintf("tool type of index %d", i), g.typ),
			pick(fmt.Sprintf("tool name of index %d", i), g.name)}
	}
	if conflict != "" {
		if out.Class != "err" {
			return "conflicting " + conflict + " must be an error, got " + js(out)
		}
		return ""
	}
	if out.Class != "val" {
		return "" // other error sources (Extra maps) are checked by the correspondence
	}
	r := out.Val
	if r.Role != role || r.Name != name || r.TCID != tcid {
		return fmt.Sprintf("role/name/tool-call id %q/%q/%q, the chunks agree on %q/%q/%q", r.Role, r.Name, r.TCID, role, name, tcid)
	}
	for _, t := range r.TCs {
		if t.Idx == nil {
			continue
		}
		if w, ok := want[*t.Idx]; ok && (t.ID != w[0] || t.Type != w[1] || t.Name != w[2]) {
			return fmt.Sprintf("tool call %d has id/type/name %q/%q/%q, its fragments agree on %q/%q/%q", *t.Idx, t.ID, t.Type, t.Name, w[0], w[1], w[2])
		}
	}
	hasMeta, hasUsage, finish := false, false, ""
	var mx [3]int64
	for _, m := range in {
		if m.Meta == nil {
			continue
		}
		hasMeta = true
		if m.Meta.Finish != "" {
			finish = m.Meta.Finish
		}
		if u := m.Meta.Usage; u != nil {
			hasUsage = true
			for i := range mx {
				if u[i] > mx[i] {
					mx[i] = u[i]
				}
			}
		}
	}
	if hasMeta != (r.Meta != nil) {
		return fmt.Sprintf("response meta present = %v, some chunk has one = %v", r.Meta != nil, hasMeta)
	}
	if r.Meta != nil {
		if r.Meta.Finish != finish {
			return fmt.Sprintf("finish reason %q, the last non-empty one is %q", r.Meta.Finish, finish)
		}
		if hasUsage != (r.Meta.Usage != nil) {
			return fmt.Sprintf("usage present = %v, some chunk has one = %v", r.Meta.Usage != nil, hasUsage)
		}
		if r.Meta.Usage != nil && *r.Meta.Usage != mx {
			return fmt.Sprintf("usage %v, the component-wise maximum is %v", *r.Meta.Usage, mx)
		}
	}
	return ""
}

// runMsgErr: a message stream whose reader reports a read error: every stream-level entry
// point must return an error (never a value, never a panic), and must not write to the chunks.
func runMsgErr(c *Case) lib.Result {
	res := lib.Result{}
	n := len(c.Msgs)
	at := *c.ErrAt
	if at < 0 || at > n {
		at = n
	}
	api := c.API
	if api == apiConcatMessages {
		api = apiStreamReader
	}
	run := func(a int) MObs { return callMsgAPIErr(a, buildMsgs(c.Msgs), at) }
	o := run(api)
	res.Obs = o
	res.Tags = []string{"kind:msg", "api:" + apiNames[api], "class:" + o.Class, fmt.Sprintf("chunks:%d", n), "feat:read-error"}
	res.Nontrivial = n >= 2
	terms := make([]string, n)
	for i, m := range c.Msgs {
		terms[i] = m.coq()
	}
	res.CoqTerm = lib.CoqApp("CaseMsgS", coqItems(terms, at), o.coqMsg())
	apis := []int{apiMessageStream, apiStreamReader}
	if c.Chain || api == apiChain {
		apis = append(apis, apiChain)
	}
	for _, a := range apis {
		for rep := 0; rep < 2 && res.Oracle == ""; rep++ {
			switch oa := run(a); oa.Class {
			case "panic":
				res.Oracle = apiNames[a] + " panicked on a stream with a read error: " + oa.Msg
				res.Sig = "msg-panic"
			case "val":
				res.Oracle = fmt.Sprintf("%s returned a value although the reader reported an error in front of chunk %d: %s", apiNames[a], at, js(oa))
				res.Sig = "read-error-ignored"
			}
		}
	}
	return res
}

// toolCallOrder checks the result's tool calls against the specification in the
// property text: fragments merged by index (ascending, one call per index, arguments in
// arrival order), calls without index kept in arrival order before them.
func toolCallOrder(in []*Msg, out *Msg) string {
	var flat []TC
	for _, m := range in {
		flat = append(flat, m.TCs...)
	}
	var nilArgs []string
	args := map[int64]string{}
	for _, t := range flat {
		if t.Idx == nil {
			nilArgs = append(nilArgs, t.Args+"|"+t.ID)
		} else {
			args[*t.Idx] += t.Args
		}
	}
	k := 0
	var prev *int64
	for _, t := range out.TCs {
		if t.Idx == nil {
			if prev != nil {
				return "a call without index follows an indexed call"
			}
			if k >= len(nilArgs) || nilArgs[k] != t.Args+"|"+t.ID {
				return "calls without index are not kept in arrival order"
			}
			k++
			continue
		}
		if prev != nil && *prev >= *t.Idx {
			return "indexed calls are not strictly ascending"
		}
		v := *t.Idx
		prev = &v
		want, ok := args[*t.Idx]
		if !ok {
			return fmt.Sprintf("index %d appears from nowhere", *t.Idx)
		}
		if want != t.Args {
			return fmt.Sprintf("arguments of index %d are %q, arrival order gives %q", *t.Idx, t.Args, want)
		}
		delete(args, *t.Idx)
	}
	if k != len(nilArgs) || len(args) != 0 {
		return "tool calls were lost"
	}
	return ""
}

func runMsgList(c *Case) lib.Result {
	res := lib.Result{}
	o, mut := runListOn(0, c.Lists)
	res.Obs = o
	n := len(c.Lists)
	res.Tags = []string{"kind:msglist", "class:" + o.Class, fmt.Sprintf("chunks:%d", n)}
	res.Nontrivial = n >= 2
	ls := make([]string, n)
	for i, l := range c.Lists {
		ls[i] = msgsCoq(l)
	}
	res.CoqTerm = lib.CoqApp("CaseMsgList", lib.CoqList(ls), o.coqList())
	fail := func(sig, format string, a ...any) {
		if res.Oracle == "" {
			res.Oracle = fmt.Sprintf(format, a...)
			res.Sig = sig
		}
	}
	if o.Class == "panic" {
		fail("msglist-panic", "concatStreamReader[[]*Message] panicked: %s", o.Msg)
	}
	if mut != "" {
		fail("msglist-input-mutated", "%s", mut)
	}
	for rep := 0; rep < 2; rep++ {
		if o2, _ := runListOn(0, c.Lists); !mobsEqual(o, o2) {
			fail("msglist-nondet", "non-deterministic result")
		}
	}
	if n >= 2 {
		if o2, _ := runListOn(1, c.Lists); !mobsEqual(o, o2) {
			fail("msglist-api-disagree", "ConcatItems and concatStreamReader disagree")
		}
	}
	for i := 0; i < n && res.Oracle == ""; i++ {
		for j := i + 1; j <= n && res.Oracle == ""; j++ {
			if i == 0 && j == n {
				continue
			}
			seg, _ := runListOn(0, c.Lists[i:j])
			sig := "msglist-rechunk"
			if i > 0 {
				sig = "msglist-rechunk-mid"
			}
			if seg.Class != "val" {
				if o.Class == "val" {
					fail(sig, "lists [%d,%d) fail alone but the whole concatenates", i, j)
				}
				continue
			}
			spliced := append(append(append([][]*Msg{}, c.Lists[:i]...), seg.List), c.Lists[j:]...)
			if o2, _ := runListOn(0, spliced); !mobsEqual(o, o2) {
				fail(sig, "concatenating lists [%d,%d) first changes the result: whole=%s split=%s", i, j, js(o), js(o2))
			}
		}
	}
	return res
}

func msgFeatureTags(ms []*Msg) []string {
	var nilMsg, tcs, nilIdx, dupInChunk, meta, negUsage, lp, extra, multi bool
	merged, distinct := 0, map[int64]bool{}
	for _, m := range ms {
		if m.Nil {
			nilMsg = true
			continue
		}
		seen := map[int64]bool{}
		for _, t := range m.TCs {
			tcs = true
			if t.Idx == nil {
				nilIdx = true
				merged++
			} else {
				if !distinct[*t.Idx] {
					distinct[*t.Idx] = true
					merged++
				}
				if seen[*t.Idx] {
					dupInChunk = true
				}
				seen[*t.Idx] = true
			}
		}
		if m.Meta != nil {
			meta = true
			if u := m.Meta.Usage; u != nil && (u[0] < 0 || u[1] < 0 || u[2] < 0) {
				negUsage = true
			}
			lp = lp || m.Meta.HasLP
		}
		extra = extra || (m.Extra != nil && len(m.Extra.M) > 0)
		multi = multi || len(m.Multi) > 0
	}
	var out []string
	for name, b := range map[string]bool{"nil-chunk": nilMsg, "toolcalls": tcs, "nil-index": nilIdx, "dup-index-in-chunk": dupInChunk,
		"meta": meta, "neg-usage": negUsage, "logprobs": lp, "extra": extra, "multi": multi, "merged-calls>12": merged > 12} {
		if b {
			out = append(out, "feat:"+name)
		}
	}
	sort.Strings(out)
	return out
}

// ---------------------------------------------------------------- generator

type msgProfile struct {
	role, name, tcid string
	keyTypes         map[string]int
	depth            int
	// wide > 0: "many tool calls" profile (a model that issues a long list of parallel calls):
	// indexes drawn from 0..wide-1, 2-6 fragments per chunk, a quarter of them without index,
	// so that the merged list is longer than the small lists every other case produces
	wide int
	// long: a stream as long as the ones a model really sends (dozens to hundreds of small chunks: content pieces,
	// fragments of up to three tool calls, now and then an Extra map, a closing response meta), free of conflicts
	long bool
}

// genLongMsg: chunk i of a long stream
func genLongMsg(r *lib.Rng, p *msgProfile, i int) *Msg {
	m := &Msg{Content: r.Pick(strPool)}
	if i == 0 || r.Chance(1, 4) {
		m.Role = p.role
	}
	if r.Chance(1, 3) {
		v := int64(r.Intn(3))
		t := TC{Idx: &v, Args: r.Pick(strPool)}
		if r.Chance(1, 4) {
			t.ID = fmt.Sprintf("call_%d", v)
		}
		if r.Chance(1, 4) {
			t.Name = fmt.Sprintf("fn%d", v)
		}
		if r.Chance(1, 4) {
			t.Type = "function"
		}
		m.TCs = []TC{t}
	}
	if r.Chance(1, 6) {
		m.Extra = &CV{K: "map", M: map[string]*CV{"a": {K: "str", S: r.Pick(strPool)}}}
		if r.Chance(1, 2) {
			m.Extra.M["n"] = &CV{K: "num", Kind: 1, Z: int64(r.Range(-2, 3))}
		}
	}
	if r.Chance(1, 10) {
		mm := &Meta{Finish: r.Pick(finishPool)}
		if r.Chance(1, 2) {
			mm.Usage = &[3]int64{int64(r.Range(0, 20)), int64(r.Range(0, 20)), int64(r.Range(0, 40))}
		}
		if r.Chance(1, 2) {
			mm.HasLP = true
			mm.LP = []string{r.Pick([]string{"t1", "t2", "t3"})}
		}
		m.Meta = mm
	}
	return m
}

func pickConsistent(r *lib.Rng, base string, others []string) string {
	switch {
	case r.Chance(1, 2):
		return ""
	case r.Chance(1, 25):
		return r.Pick(others)
	}
	return base
}

var idxPool = []int64{0, 0, 1, 1, 2, 5, -1}
var finishPool = []string{"", "", "stop", "length", "tool_calls"}

func genTC(r *lib.Rng, wide int) TC {
	t := TC{Args: r.Pick(strPool)}
	if wide > 0 && r.Chance(1, 4) {
		// a complete call without index, distinguishable from its neighbours
		t.ID = fmt.Sprintf("n%d", r.Intn(40))
		t.Name = "fnil"
		return t
	}
	if wide > 0 || !r.Chance(1, 6) {
		v := idxPool[r.Intn(len(idxPool))]
		if wide > 0 {
			v = int64(r.Intn(wide))
		}
		t.Idx = &v
		if r.Chance(1, 3) {
			t.ID = fmt.Sprintf("call_%d", v)
		}
		if r.Chance(1, 3) {
			t.Name = fmt.Sprintf("fn%d", v)
		}
	} else {
		if r.Chance(1, 2) {
			t.ID = r.Pick([]string{"n1", "n2"})
		}
		if r.Chance(1, 2) {
			t.Name = "fnil"
		}
	}
	if r.Chance(1, 3) {
		t.Type = "function"
	}
	if r.Chance(1, 30) {
		t.ID = "other_id"
	}
	if r.Chance(1, 40) {
		t.Type = "other_type"
	}
	if r.Chance(1, 40) {
		t.Name = "other_fn"
	}
	if r.Chance(1, 4) {
		t.Extra = r.Range(1, len(tcExtraPool)-1)
	}
	return t
}

func genMsg(r *lib.Rng, p *msgProfile) *Msg {
	if r.Chance(1, 40) {
		return &Msg{Nil: true}
	}
	m := &Msg{
		Role:    pickConsistent(r, p.role, []string{"user", "tool", "assistant"}),
		Name:    pickConsistent(r, p.name, []string{"bob", "alice"}),
		TCID:    pickConsistent(r, p.tcid, []string{"tc9", "tc1"}),
		Content: r.Pick(strPool),
	}
	switch {
	case r.Chance(1, 10):
		m.Multi = []string{r.Pick([]string{"p1", "p2", "p3", "img:u1", "aud:u2", "vid:u3", "file:u4", ""})}
		if r.Chance(1, 2) {
			m.Multi = append(m.Multi, r.Pick([]string{"q", "q", "img:u9"}))
		}
	case r.Chance(1, 15):
		m.Multi = []string{}
	}
	switch {
	case p.wide > 0:
		nt := r.Range(2, 6)
		m.TCs = []TC{}
		for i := 0; i < nt; i++ {
			m.TCs = append(m.TCs, genTC(r, p.wide))
		}
	case r.Chance(1, 2):
		nt := r.Range(1, 3)
		m.TCs = []TC{}
		for i := 0; i < nt; i++ {
			m.TCs = append(m.TCs, genTC(r, 0))
		}
	case r.Chance(1, 10):
		m.TCs = []TC{}
	}
	if r.Chance(1, 2) {
		mm := &Meta{Finish: r.Pick(finishPool)}
		if r.Chance(1, 2) {
			mm.Usage = &[3]int64{int64(r.Range(-3, 20)), int64(r.Range(-3, 20)), int64(r.Range(-3, 40))}
		}
		if r.Chance(2, 5) {
			mm.HasLP = true
			switch r.Intn(4) {
			case 0:
			case 1:
				mm.LP = []string{}
			default:
				mm.LP = []string{r.Pick([]string{"t1", "t2", "t3"})}
				if r.Chance(1, 2) {
					mm.LP = append(mm.LP, "u")
				}
			}
		}
		m.Meta = mm
	}
	switch {
	case r.Chance(1, 2):
		m.Extra = genMap(r, p.depth, p.keyTypes)
	case r.Chance(1, 12):
		m.Extra = &CV{K: "map", M: map[string]*CV{}}
	}
	return m
}

func newProfile(r *lib.Rng, tier string) *msgProfile {
	p := &msgProfile{role: r.Pick([]string{"assistant", "assistant", "user", "tool", ""}),
		name: r.Pick([]string{"", "bob"}), tcid: r.Pick([]string{"", "tc1"}), keyTypes: map[string]int{}, depth: 2}
	if tier == "thorough" {
		p.depth = 3
	}
	return p
}

func genMsgCase(r *lib.Rng, tier string) *Case {
	maxChunks := 7
	if tier == "thorough" {
		maxChunks = 14
	}
	if r.Chance(1, 8) {
		return genDeepCase(r, tier)
	}
	if r.Chance(1, 6) {
		return genMsgMapCase(r, tier)
	}
	if r.Chance(1, 5) {
		// message lists
		c := &Case{Kind: "msglist"}
		n := r.Intn(6)
		width := r.Intn(4)
		profiles := make([]*msgProfile, width+1)
		for i := range profiles {
			profiles[i] = newProfile(r, tier)
		}
		for i := 0; i < n; i++ {
			w := width
			if r.Chance(1, 25) {
				w = r.Intn(4)
			}
			l := []*Msg{}
			if w == 0 && r.Chance(1, 2) {
				l = nil
			}
			for j := 0; j < w; j++ {
				if r.Chance(1, 3) {
					l = append(l, &Msg{Nil: true})
				} else {
					m := genMsg(r, profiles[j%len(profiles)])
					if len(m.TCs) > 2 {
						m.TCs = m.TCs[:2]
					}
					l = append(l, m)
				}
			}
			c.Lists = append(c.Lists, l)
		}
		return c
	}
	c := &Case{Kind: "msg", API: r.Intn(4), Chain: false}
	if c.API == apiChain {
		c.Chain = true
	}
	n := r.Intn(maxChunks + 1)
	p := newProfile(r, tier)
	if r.Chance(1, 9) {
		p.wide = r.Range(8, 20)
		if n < 3 {
			n = r.Range(3, 6)
		}
	}
	if r.Chance(1, 25) {
		p.long, p.wide = true, 0
		n = r.Range(33, 100)
		if tier == "thorough" {
			n = r.Range(33, 150)
		}
	}
	for i := 0; i < n; i++ {
		if p.long {
			c.Msgs = append(c.Msgs, genLongMsg(r, p, i))
		} else {
			c.Msgs = append(c.Msgs, genMsg(r, p))
		}
	}
	if c.API != apiConcatMessages && r.Chance(1, 12) {
		k := r.Intn(n + 1)
		c.ErrAt = &k
	}
	return c
}
