package main

import "verif/harness/lib"

// Part 2 (chat messages) — placeholder until Model/ConcatMsg.v exists.
func genMsgCase(r *lib.Rng, tier string) *Case { return genGeneric(r, tier) }
func runMsg(c *Case) lib.Result              { panic("msg cases not implemented") }
