#!/bin/bash
# Private translator-tie loop for C11 (no check locks, nothing written under /verif):
#   notes/C11_refac/try.sh <eino tree> [extractor ...]
# builds go2v from main.go + the c11_*.go files only (immune to other properties' half-edited extractors), runs the
# extractors into an overlay directory and compiles Gen/*.v + Proofs/GenAgreeState*.v there with
#   coqc -R /verif/coq Eino -R <overlay> Eino      (the later -R wins for files present in both).
# Prints AGREE-OK / AGREE-BROKEN per extractor; "source shape not recognised" = tie unavailable (neutral file).
# To try one of the refactorings kept here:
#   git -C /repo worktree add --detach /tmp/wt-c11 HEAD && git -C /tmp/wt-c11 apply notes/C11_refac/<name>.diff
#   notes/C11_refac/try.sh /tmp/wt-c11 ; git -C /repo worktree remove --force /tmp/wt-c11
# C11_GO2V_DEBUG=1 prints every translated function after inlining / normalisation.
export GOFLAGS=-mod=mod GOPROXY=off GOSUMDB=off GOTOOLCHAIN=local
REPO=$1; shift
NAMES=${@:-statelock stateplumb stateaddnode statetask}
W=${C11_TRY_DIR:-/tmp/c11-try-$$}; OV=$W/ov
mkdir -p $W/g2v/go2v $OV/Gen $OV/Proofs
cp /verif/tools/go.mod $W/g2v/ 2>/dev/null; cp /verif/tools/go2v/main.go /verif/tools/go2v/c11_*.go $W/g2v/go2v/
( cd $W/g2v && go vet ./go2v && go build -o $W/go2v ./go2v ) || exit 3
( cd /verif/tools && $W/go2v -repo $REPO -out $OV/Gen $NAMES )
declare -A F=( [statelock]=StateLockCode [stateplumb]=StatePlumb [stateaddnode]=StateAddNode [statetask]=StateTask )
declare -A P=( [statelock]=GenAgreeStateLock [stateplumb]=GenAgreeStatePlumb [stateaddnode]=GenAgreeStateAddNode [statetask]=GenAgreeStateTask )
cd $OV
for n in $NAMES; do
  cp /verif/coq/Proofs/${P[$n]}.v Proofs/
  ( ulimit -v 8000000; timeout 300 coqc -q -R /verif/coq Eino -R $OV Eino -w none Gen/${F[$n]}.v ) || { echo "GEN-FILE-BROKEN $n"; continue; }
  if ( ulimit -v 8000000; timeout 300 coqc -q -R /verif/coq Eino -R $OV Eino -w none Proofs/${P[$n]}.v ) >$OV/$n.log 2>&1; then echo "AGREE-OK $n"; else echo "AGREE-BROKEN $n"; tail -5 $OV/$n.log; fi
done
[ -z "$C11_TRY_DIR" ] && rm -r $W
