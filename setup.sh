#!/bin/bash
# Run once after a fresh restore (offline): full .vo build of the Coq development
# (coq_makefile + make -j16, no -vos) and a warm build of every harness binary
# against /repo's working tree with -tags verif.
cd "$(dirname "$0")" || exit 1
export GOFLAGS=-mod=mod GOPROXY=off GOSUMDB=off GOTOOLCHAIN=local
exec ./check --setup
