(* Corr/C18.v — comparison used by the generated cases_C18_*.v files.

   A case = an agent configuration (tools with kinds, failing argument strings, unknown-tool
   handler, return-directly set, MaxStep, checker, persona modifier), the original messages,
   the model script (every reply whole and as stream chunks) and the observations of the runs
   of the real react.Agent: per run the mode, whether the case's call options applied (they do
   not when the agent graph runs as a node of a parent graph, Agent.ExportGraph), every model
   call's input history, the tool executions grouped by round (in call order), the messages
   handed out by react.WithMessageFuture (if used), and the final answer or error class
   (1 = step limit, 2 = model failure, 3 = anything else: tools node, concatenation, ...). *)
From Eino Require Import Base.Util Model.Graph Model.Tools Model.React Model.ReactGraph Model.ReactHeap Model.Host.
Local Open Scope nat_scope.
Local Open Scope string_scope.

Inductive omsg : Type := OM (role : N) (content : string) (calls : list call) (tcid : string).
Inductive oout : Type := OFinal (m : omsg) | OErr (cls : N).
Inductive omode : Type := MGenerate | MStream.
Inductive orun : Type :=
  ORun (md : omode) (callopts : bool) (inputs : list (list omsg)) (rounds : list (list call))
       (emits : option (list omsg * bool)) (out : oout)
       (mutated : bool).   (* some history slice handed to the model read differently after the run *)
Inductive tdef : Type := T (name : string) (k : tkind).

Record ccase : Type := mkCase {
  k_tdefs : list tdef;
  k_tool_list : option (list tdef); (* call option compose.WithToolList: the tools of the tools node for this call *)
  k_fail_args : list string;       (* a tool called with one of these argument strings fails *)
  k_outs : list (string * list string * N); (* a tool called with this argument string streams these chunks (>= 1, any
                                      of them empty) and returns their concatenation when invoked (flag 0) - or ends
                                      its stream with an error item after them and fails when invoked (flag 1), or
                                      panics as it is called, in either form (flag 2); any other argument string:
                                      name(args), streamed as name, "(", args, ")" *)
  k_handler : bool;                (* UnknownToolsHandler configured (answers "unk:name:args") *)
  k_rd : list string;              (* ToolReturnDirectly *)
  k_max_step : nat;                (* AgentConfig.MaxStep (0 = default) *)
  k_runtime_max : nat;             (* call option compose.WithRuntimeMaxSteps (0 = not given) *)
  k_default_checker : bool;        (* true: firstChunkStreamToolCallChecker, false: a checker reading the whole stream *)
  k_persona : option string;       (* MessageModifier = NewPersonaModifier *)
  k_mod : N;                       (* 1: in-place rewrite of the first message, 2: in-place window of 3; else by k_persona *)
  k_input : list omsg;
  k_script : list step;
  k_cbt : list bool;               (* per scripted reply: the harness's structural test of the known finding's
                                      signature (a content chunk before the first tool-call chunk) *)
  k_runs : list orun }.

(* ---- the tools of the harness ---------------------------------------------------------- *)
Fixpoint mem_str (s : string) (l : list string) : bool :=
  match l with [] => false | x :: r => String.eqb s x || mem_str s r end.

Fixpoint out_lookup (outs : list (string * list string * N)) (args : string) : option (list string * N) :=
  match outs with
  | [] => None
  | (a, cs, flag) :: r => if String.eqb a args then Some (cs, flag) else out_lookup r args
  end.

Definition h_chunks (outs : list (string * list string * N)) (name args : string) : list string * N :=
  match out_lookup outs args with Some p => p | None => ([name; "("; args; ")"], 0%N) end.

Definition h_inv (fails : list string) (outs : list (string * list string * N)) (name args : string) : tres :=
  if mem_str args fails then TErr 100
  else let '(cs, flag) := h_chunks outs name args in
       match flag with 0%N => TOk (concat_strings cs) | 1%N => TErr 100 | _ => TPanic end.
Definition h_str (fails : list string) (outs : list (string * list string * N)) (name args : string) : sres :=
  if mem_str args fails then SErr 100
  else let '(cs, flag) := h_chunks outs name args in
       match flag with 0%N => SOk cs None | 1%N => SOk cs (Some 100%N) | _ => SPanic end.

Fixpoint kind_lookup (tools : list tdef) (name : string) : option tkind :=
  match tools with
  | [] => None
  | T n k :: r =>
      match kind_lookup r name with
      | Some k' => Some k'
      | None => if String.eqb n name then Some k else None
      end
  end.

Definition h_handler (on : bool) : option (string -> string -> tres) :=
  if on then Some (fun n a => TOk ("unk:" ++ n ++ ":" ++ a)) else None.

(* the tools the tools node works with in a run: a call-time list replaces the configured one
   (compose/tool_node.go Invoke/Stream: opt.ToolList != nil) *)
Definition case_tdefs (c : ccase) (callopts : bool) : list tdef :=
  match k_tool_list c with
  | Some l => if callopts then l else k_tdefs c
  | None => k_tdefs c
  end.

Definition case_tn (c : ccase) (callopts : bool) (calls : list call) : res (list tmsg) :=
  in_graph (tools_invoke (kind_lookup (case_tdefs c callopts)) (h_inv (k_fail_args c) (k_outs c)) (h_str (k_fail_args c) (k_outs c))
                         (h_handler (k_handler c)) (seq 0 (List.length calls)) true calls).

(* the same tools node run through Stream (Stream-mode runs): streams opened, merged tool 0's
   stream first, then tool 1's, ... and read to the end (any complete interleaving gives the same
   concatenation: Props/C18.v tools_node_streams_exactly) *)
Definition case_tns (c : ccase) (callopts : bool) (calls : list call) : res (list string * list emitted * option N) :=
  tools_stream_frames (kind_lookup (case_tdefs c callopts)) (h_inv (k_fail_args c) (k_outs c)) (h_str (k_fail_args c) (k_outs c))
                      (h_handler (k_handler c)) (seq 0 (List.length calls)) seq_sched calls.

Definition case_executed (c : ccase) (callopts : bool) (calls : list call) : list call :=
  tools_executed (kind_lookup (case_tdefs c callopts)) (h_handler (k_handler c)) true calls.

(* ---- rendering and equality -------------------------------------------------------------- *)
Definition role_n (r : role) : N :=
  match r with RSystem => 0 | RUser => 1 | RAssistant => 2 | RTool => 3 end.
Definition role_of (n : N) : role :=
  match n with 0%N => RSystem | 1%N => RUser | 2%N => RAssistant | _ => RTool end.

Definition msg_of (o : omsg) : msg := match o with OM r c cl t => mkMsg (role_of r) c cl t end.

Fixpoint list_eqb {A B} (eqb : A -> B -> bool) (a : list A) (b : list B) : bool :=
  match a, b with
  | [], [] => true
  | x :: a', y :: b' => eqb x y && list_eqb eqb a' b'
  | _, _ => false
  end.
Definition call_eqb (a b : call) : bool :=
  String.eqb (c_id a) (c_id b) && String.eqb (c_name a) (c_name b) && String.eqb (c_args a) (c_args b).
Definition msg_eqb (m : msg) (o : omsg) : bool :=
  match o with
  | OM r c cl t => N.eqb (role_n (m_role m)) r && String.eqb (m_content m) c
                   && list_eqb call_eqb (m_calls m) cl && String.eqb (m_tcid m) t
  end.

Definition err_cls (e : rerr) : N :=
  match e with EStepLimit => 1 | EModel => 2 | _ => 3 end.

Definition out_eqb (o : outcome) (x : oout) : bool :=
  match o, x with
  | Final m, OFinal om => msg_eqb m om
  | Failed e, OErr cls => N.eqb (err_cls e) cls
  | _, _ => false
  end.

Definition nonempty {A} (l : list A) : bool := match l with [] => false | _ => true end.

Definition case_modifier (c : ccase) : list msg -> list msg :=
  match k_mod c with
  | 1%N => mod_rewrite
  | 2%N => mod_window 3
  | _ => match k_persona c with
         | Some p => mod_persona p
         | None => fun h => h
         end
  end.

Definition case_trace (c : ccase) (md : omode) (callopts : bool) : trace :=
  let rdn := nonempty (k_rd c) in
  agent_run (case_tn c callopts) (case_tns c callopts) (fun n => mem_str n (k_rd c)) rdn
            (case_modifier c)
            (fun _ => true)   (* every call of a round has tool callbacks - since /repo db1b29b also one answered by the UnknownToolsHandler *)
            (if k_default_checker c then default_checker else exact_checker)
            (match md with MGenerate => Generate | MStream => Stream end)
            (call_max_steps (k_max_step c) (if callopts then k_runtime_max c else 0%nat) rdn)
            (k_script c) (map msg_of (k_input c)).

(* the same run by the shared engine model on the ReAct graph (Model/ReactGraph.v); a call-time
   WithRuntimeMaxSteps replaces the compiled limit, which for the engine model is the graph's g_max *)
Definition case_engine_trace (c : ccase) (md : omode) (callopts : bool) : option trace :=
  let rdn := nonempty (k_rd c) in
  engine_trace (case_tn c callopts) (case_tns c callopts) (fun n => mem_str n (k_rd c)) rdn
            (case_modifier c)
            (fun _ => true)   (* every call of a round has tool callbacks - since /repo db1b29b also one answered by the UnknownToolsHandler *)
            (if k_default_checker c then default_checker else exact_checker)
            (match md with MGenerate => Generate | MStream => Stream end)
            (match (if callopts then k_runtime_max c else 0) with 0 => k_max_step c | r => r end)
            (k_script c) (map msg_of (k_input c)).

Definition trace_ok (c : ccase) (callopts : bool) (t : trace) (inputs : list (list omsg)) (rounds : list (list call))
           (emits : option (list omsg * bool)) (out : oout) : bool :=
  list_eqb (list_eqb msg_eqb) (t_inputs t) inputs
  && list_eqb (list_eqb call_eqb) (filter nonempty (map (case_executed c callopts) (t_rounds t))) rounds
  && match emits with   (* the future's messages, and whether it ended closed *)
     | Some (es, closed) => list_eqb msg_eqb (t_emits t) es && Bool.eqb (future_closed t) closed
     | None => true
     end
  && out_eqb (t_out t) out.

(* ---- the history as a Go slice (Model/ReactHeap.v) --------------------------------------- *)
(* the pre-handler executions of a run, read off the model's trace (messages numbered in order of
   appearance): chat on the original messages, then per round tools on the assistant message and -
   if another model call followed - chat on that round's tool messages *)
Fixpoint heap_ops_rounds (next : N) (rounds : list (list call)) (chats_left : nat) : list hop :=
  match rounds with
  | [] => []
  | cs :: r =>
      HTools next ::
      match chats_left with
      | O => []
      | S c' =>
          HChat (map (fun i => (next + 1 + N.of_nat i)%N) (seq 0 (List.length cs)))
          :: heap_ops_rounds (next + 1 + N.of_nat (List.length cs))%N r c'
      end
  end.
Definition heap_ops (n_input : nat) (t : trace) : list hop :=
  match t_inputs t with
  | [] => []
  | _ :: more => HChat (map N.of_nat (seq 1 n_input))
                 :: heap_ops_rounds (N.of_nat n_input + 1)%N (t_rounds t) (List.length more)
  end.

(* the case's modifier on message numbers (the theorems hold for any function) *)
Definition heap_modifier (c : ccase) : option (list N -> list N) :=
  match k_mod c with
  | 1%N => Some (fun h => match h with [] => [] | _ :: r => 0%N :: r end)
  | 2%N => Some (fun h => skipn (List.length h - 3) h)
  | _ => match k_persona c with
         | Some _ => Some (fun h => 0%N :: h)
         | None => None
         end
  end.

(* the slice model of the run's history: the slices handed to the model have the lengths of the
   observed model inputs, and they are intact exactly if the implementation's were *)
Definition heap_ok (c : ccase) (t : trace) (inputs : list (list omsg)) (mutated : bool) : bool :=
  let st := hrun (fun cap _ _ => 2 * cap) (heap_modifier c) (k_max_step c) (heap_ops (List.length (k_input c)) t) in
  Bool.eqb (handed_intact st) (negb mutated)
  && list_eqb Nat.eqb (map (fun p => List.length (snd p)) (h_handed st))
                      (map (fun i : list omsg => List.length i) inputs).

(* both models — the dedicated superstep loop the theorems unfold, and the engine instance —
   must reproduce what the implementation did *)
Definition run_ok (c : ccase) (r : orun) : bool :=
  match r with
  | ORun md callopts inputs rounds emits out mutated =>
      trace_ok c callopts (case_trace c md callopts) inputs rounds emits out
      && match case_engine_trace c md callopts with
         | Some t => trace_ok c callopts t inputs rounds emits out
         | None => false
         end
      && heap_ok c (case_trace c md callopts) inputs mutated
  end.

(* the harness classifies "content before the tool call" exactly as the theorems' hypothesis does *)
Definition cbt_ok (c : ccase) : bool :=
  list_eqb Bool.eqb
    (map (fun s => match s with SMsg _ _ chunks => content_before_toolcall chunks | SFail => false end) (k_script c))
    (k_cbt c).

Definition bad (c : ccase) : bool := negb (forallb (run_ok c) (k_runs c) && cbt_ok c).

(* ---- host multi-agent cases (Model/Host.v) ----------------------------------------------- *)
Inductive hrun : Type :=
  HRun (md : omode) (host_input : list omsg) (handoffs : list (string * list omsg))
       (events : option (list (string * string))) (out : oout).

Record hcase : Type := mkHCase {
  h_prompt : string;               (* Host.SystemPrompt ("" = default) *)
  h_specs : list hspec;
  h_failing : list string;         (* specialists that fail *)
  h_default_checker : bool;
  h_input : list omsg;
  h_reply : step;
  h_runs : list hrun }.

(* the specialists of the harness answer  name # i^(number of input messages) # first content *)
Definition h_answer (fails : list string) (name : string) (input : list msg) : res msg :=
  if mem_str name fails then Err 100
  else Ok (assistant (name ++ "#" ++ concat_strings (map (fun _ => "i") input) ++ "#"
                      ++ match input with m :: _ => m_content m | [] => "" end) []).

Definition herr_cls (e : herr) : N := match e with HModel => 2 | _ => 3 end.

Definition hout_eqb (o : hout) (x : oout) : bool :=
  match o, x with
  | HFinal m, OFinal om => msg_eqb m om
  | HFailed e, OErr cls => N.eqb (herr_cls e) cls
  | _, _ => false
  end.

Definition pair_str_eqb (a b : string * string) : bool :=
  String.eqb (fst a) (fst b) && String.eqb (snd a) (snd b).

Definition hrun_ok (h : hcase) (r : hrun) : bool :=
  match r with
  | HRun md host_in handoffs events out =>
      let t := host_run (h_answer (h_failing h)) (h_prompt h) (h_specs h)
                        (if h_default_checker h then default_checker else exact_checker)
                        (match md with MGenerate => Generate | MStream => Stream end)
                        (h_reply h) (map msg_of (h_input h)) in
      list_eqb msg_eqb (ht_host_input t) host_in
      && match ht_handoff t, handoffs with
         | None, [] => true
         | Some (n, i), [(n', i')] => String.eqb n n' && list_eqb msg_eqb i i'
         | _, _ => false
         end
      && match events with Some es => list_eqb pair_str_eqb (ht_events t) es | None => true end
      && hout_eqb (ht_out t) out
  end.

Inductive acase : Type := ReactCase (c : ccase) | HostCase (h : hcase).

Definition abad (a : acase) : bool :=
  match a with
  | ReactCase c => bad c
  | HostCase h => negb (forallb (hrun_ok h) (h_runs h))
  end.

Definition mismatches (cs : list acase) : list nat := mismatches_from abad 0 cs.
