(* Corr/C19.v — comparison used by the generated cases_C19_*.v files.
   A case is the compiled graph of a streaming run (the chanCall of START and of every node:
   data successors, control successors, branches), the SCHEDULE of the run (the batches of
   completed tasks in the order taskManager.wait returned them — C03 trace hook — each task with
   the outcome of its branch conditions as recorded by the harness's own condition functions)
   and what the accounting hook (schema/verif_c19_on.go) saw the engine do:
     - the sizes n >= 2 of the StreamReader.Copy(n) calls issued by compose.copyItem from
       resolveCompletedTasks (sorted ascending),
     - the number of outermost StreamReader.Close calls issued directly by
       resolveCompletedTasks, channelManager.updateValues, dagChannel.reportValues and
       dagChannel.reportSkip,
     - the sizes of the mergeValues calls of channel.get (sorted),
     - the nodes whose function was entered (sorted).
   The model recomputes all of these from graph + schedule, twice:
     (a) task by task with [account_task] (Model/StreamAcct.v — the definitions of the step theorems),
     (b) with the run-loop model [run] (Model/StreamRun.v — the definitions of the run theorems),
   and checks on the run's final state what the run theorem concludes: the run ended Done with
   nothing else scheduled, every node ran or was skipped, and the only live handle is the output.
   Completion order inside a superstep is not an observable of the property, hence the multiset
   comparisons. *)
From Eino Require Import Base.Util Model.StreamAcct Model.StreamRun Model.StreamResume.
Open Scope N_scope.

Record ccase := {
  c_graph : graph;
  c_cfg : icfg;                          (* interruptBeforeNodes / interruptAfterNodes *)
  c_segs : list (list batch);            (* the calls of the run (the first run and every resumed run), in order;
                                            the first one starts with START's pseudo task *)
  c_subs : list (graph * list batch);   (* the runs of the nested graphs, in order of their start *)
  c_copies : list Z;          (* observed, sorted ascending *)
  c_resolve_closes : nat;     (* observed *)
  c_update_closes : nat;
  c_chan_closes : nat;
  c_skip_closes : nat;
  c_merges : list nat;        (* observed, sorted *)
  c_fired : list key;         (* observed, sorted *)
  c_handlers : nat;           (* callback handlers passed with WithCallbacks *)
  c_cb_sides : list (nat * nat);  (* for every node execution: how many sides of its own paradigm are streams (0..), and how many
                                     handlers apply to that node (the undesignated ones plus those designated to it) *)
  c_cb_copies : list Z;       (* observed: sizes of the Copy calls of callbacks.OnWithStreamHandle *)
  c_cp_drains : nat;          (* observed: streams concatenated by checkPointer.convertCheckPoint *)
  c_input_closes : nat;       (* observed: ignored inputs of resumed calls closed by runner.run *)
}.

Definition mkc (w c : list key) (bs : list bdecl) : call := {| c_write_to := w; c_controls := c; c_branches := bs |}.
Definition mkbd (nodata : bool) (ends : list key) : bdecl := {| bd_nodata := nodata; bd_ends := ends |}.
Definition mkSub (dag : bool) (calls : list (key * call)) (sched : list batch) : graph * list batch :=
  ({| g_dag := dag; g_eager := false; g_calls := calls |}, sched).
Definition mkRS (dag eager : bool) (calls : list (key * call)) (before after : list key)
               (segs : list (list batch)) (subs : list (graph * list batch))
               (cp : list Z) (rc uc cc sc : nat) (mg : list nat) (fired : list key)
               (handlers : nat) (sides : list (nat * nat)) (cbc : list Z) (drains closes : nat) : ccase :=
  {| c_graph := {| g_dag := dag; g_eager := eager; g_calls := calls |};
     c_cfg := {| i_before := before; i_after := after |}; c_segs := segs; c_subs := subs;
     c_copies := cp; c_resolve_closes := rc; c_update_closes := uc; c_chan_closes := cc; c_skip_closes := sc;
     c_merges := mg; c_fired := fired; c_handlers := handlers; c_cb_sides := sides; c_cb_copies := cbc;
     c_cp_drains := drains; c_input_closes := closes |}.
Definition mkR (dag eager : bool) (calls : list (key * call)) (sched : list batch) (subs : list (graph * list batch))
               (cp : list Z) (rc uc cc sc : nat) (mg : list nat) (fired : list key)
               (handlers : nat) (sides : list (nat * nat)) (cbc : list Z) : ccase :=
  mkRS dag eager calls [] [] [sched] subs cp rc uc cc sc mg fired handlers sides cbc 0 0.

Fixpoint zlist_eqb (a b : list Z) : bool :=
  match a, b with
  | [], [] => true
  | x :: a', y :: b' => Z.eqb x y && zlist_eqb a' b'
  | _, _ => false
  end.
Fixpoint natlist_eqb (a b : list nat) : bool :=
  match a, b with
  | [], [] => true
  | x :: a', y :: b' => Nat.eqb x y && natlist_eqb a' b'
  | _, _ => false
  end.
Fixpoint nlist_eqb (a b : list N) : bool :=
  match a, b with
  | [], [] => true
  | x :: a', y :: b' => N.eqb x y && nlist_eqb a' b'
  | _, _ => false
  end.

(* ---- (a) task by task *)
Record prediction := { p_copies : list Z; p_resolve_closes : nat; p_update_closes : nat; p_balanced : bool }.

Definition tasks_of (g : graph) (sched : list batch) : res (list task) :=
  res_mapM (fun ko => match call_of g (fst ko) with
                      | Some c => mk_task (fst ko) c (snd ko)
                      | None => Err E_BAD_SCHEDULE
                      end) (List.concat sched).

Definition predict (ts : list task) : res prediction :=
  do accts <- res_mapM account_task ts;
  Ok {| p_copies := sort_by Z.ltb (flat_map a_copies accts);
        p_resolve_closes := fold_right Nat.add 0%nat (map a_resolve_closes accts);
        p_update_closes := fold_right Nat.add 0%nat (map a_update_closes accts);
        p_balanced := forallb balanced accts |}.

Definition all_runs (c : ccase) : list (graph * list batch) := (c_graph c, List.concat (c_segs c)) :: c_subs c.

Definition bad_tasks (c : ccase) : bool :=
  match (do tss <- res_mapM (fun gs => tasks_of (fst gs) (snd gs)) (all_runs c); predict (List.concat tss)) with
  | Ok p => negb (zlist_eqb (p_copies p) (c_copies c)
                  && Nat.eqb (p_resolve_closes p) (c_resolve_closes c)
                  && Nat.eqb (p_update_closes p) (c_update_closes c)
                  && p_balanced p)
  | _ => true
  end.

(* ---- (b) the runs: the top-level run and the run of every nested graph execution *)
Record rpred := {
  q_copies : list Z; q_resolve : nat; q_update : nat; q_chan : nat; q_skip : nat; q_merges : list nat;
  q_fired : list key; q_drains : nat; q_closes : nat;
  q_ok : bool;   (* the hypotheses and the conclusion of the run theorems hold on this run *)
}.

Definition predict_run (g : graph) (cfg : icfg) (segs : list (list batch)) : res rpred :=
  match run_int g cfg segs with
  | Ok (SDone out dropped st) =>
      let l := rs_log st in
      Ok {| q_copies := s_log (rs_store st); q_resolve := l_resolve_closes l; q_update := l_update_closes l;
            q_chan := l_chan_closes l; q_skip := l_skip_closes l; q_merges := l_merges l;
            q_fired := filter (fun k => negb (N.eqb k kEND)) (l_fired l);
            q_drains := l_cp_drains l; q_closes := l_input_closes l;
            q_ok := nodup_keys (all_keys g) && negb (memb kEND (all_keys g)) && (negb (g_dag g) || covered g && all_reach g)
                    && match dropped with [] => true | _ => false end
                    && nlist_eqb (rs_pending st) [kEND]
                    && (negb (g_dag g) || all_finished g st)
                    && nlist_eqb (s_open (rs_store st)) [out] |}
  | Ok _ => Err E_BAD_SCHEDULE
  | Err e => Err e
  | Panic => Panic
  end.

Definition sumn (f : rpred -> nat) (l : list rpred) : nat := fold_right Nat.add 0%nat (map f l).

Definition bad_run (c : ccase) : bool :=
  match predict_run (c_graph c) (c_cfg c) (c_segs c), res_mapM (fun gs => predict_run (fst gs) icfg0 [snd gs]) (c_subs c) with
  | Ok top, Ok subs =>
      let all := top :: subs in
      negb (zlist_eqb (sort_by Z.ltb (flat_map q_copies all)) (c_copies c)
            && Nat.eqb (sumn q_resolve all) (c_resolve_closes c)
            && Nat.eqb (sumn q_update all) (c_update_closes c)
            && Nat.eqb (sumn q_chan all) (c_chan_closes c)
            && Nat.eqb (sumn q_skip all) (c_skip_closes c)
            && natlist_eqb (sort_by Nat.ltb (flat_map q_merges all)) (c_merges c)
            && nlist_eqb (sort_by N.ltb (q_fired top)) (c_fired c)
            && Nat.eqb (q_drains top) (c_cp_drains c)
            && Nat.eqb (q_closes top) (c_input_closes c)
            && forallb q_ok all)
  | _, _ => true
  end.

(* ---- (c) callback copies: every call of the top-level runnable has a streaming callback site at its
   start, the one that completes another one at its end (an interrupted call ends with OnError); every
   nested graph run has two; every lambda execution one per streaming side of its paradigm *)
Definition bad_callbacks (c : ccase) : bool :=
  let graph_sites := (List.length (c_segs c) + 1 + 2 * List.length (c_subs c))%nat in
  negb (zlist_eqb (sort_by Z.ltb (callback_copies (c_handlers c) graph_sites ++
                                  flat_map (fun sn => callback_copies (snd sn) (fst sn)) (c_cb_sides c)))
                  (c_cb_copies c)).

Definition bad (c : ccase) : bool := bad_tasks c || bad_run c || bad_callbacks c.
Definition mismatches (cs : list ccase) : list nat := mismatches_from bad 0 cs.

(* for debugging a replay: what the run model computed *)
Definition run_view (c : ccase) :=
  match run_int (c_graph c) (c_cfg c) (c_segs c) with
  | Ok (SDone out dropped st) => Ok (1%nat, out, dropped, s_open (rs_store st), s_log (rs_store st), rs_log st, rs_pending st, rs_resolved st)
  | Ok (SRunning st) => Ok (0%nat, 0, [], s_open (rs_store st), s_log (rs_store st), rs_log st, rs_pending st, rs_resolved st)
  | Ok (SInt ready st) => Ok (2%nat, 0, ready, s_open (rs_store st), s_log (rs_store st), rs_log st, rs_pending st, rs_resolved st)
  | Err e => Err e
  | Panic => Panic
  end.
