(* Corr/C19.v — comparison used by the generated cases_C19_*.v files.
   A case is the list of tasks a streaming run completed (START's pseudo task and every node
   execution, each with the outcome of its branch conditions, as recorded by the harness's
   own node and condition functions) together with what the accounting hook
   (schema/verif_c19_on.go) saw the runner do:
     - the sizes n >= 2 of the StreamReader.Copy(n) calls issued by compose.copyItem from
       resolveCompletedTasks (sorted ascending),
     - the number of outermost StreamReader.Close calls issued directly by
       resolveCompletedTasks and by channelManager.updateValues.
   The model recomputes these from the tasks alone.  Completion order inside a superstep is
   not an observable of the property, hence the multiset comparison. *)
From Eino Require Import Base.Util Model.StreamAcct.
Open Scope N_scope.

Record ccase := {
  c_tasks : list task;
  c_copies : list Z;          (* observed, sorted ascending *)
  c_resolve_closes : nat;     (* observed *)
  c_update_closes : nat;      (* observed *)
}.

Definition mkT (n : key) (w : list key) (bs : list branch) : task :=
  {| t_node := n; t_write_to := w; t_branches := bs |}.
Definition mkB (nodata : bool) (ends sel : list key) : branch :=
  {| b_nodata := nodata; b_ends := ends; b_sel := sel |}.
Definition mkC (ts : list task) (cp : list Z) (rc uc : nat) : ccase :=
  {| c_tasks := ts; c_copies := cp; c_resolve_closes := rc; c_update_closes := uc |}.

Fixpoint zlist_eqb (a b : list Z) : bool :=
  match a, b with
  | [], [] => true
  | x :: a', y :: b' => Z.eqb x y && zlist_eqb a' b'
  | _, _ => false
  end.

Record prediction := { p_copies : list Z; p_resolve_closes : nat; p_update_closes : nat; p_balanced : bool }.

Definition predict (ts : list task) : res prediction :=
  do accts <- res_mapM account_task ts;
  Ok {| p_copies := sort_by Z.ltb (flat_map a_copies accts);
        p_resolve_closes := fold_right Nat.add 0%nat (map a_resolve_closes accts);
        p_update_closes := fold_right Nat.add 0%nat (map a_update_closes accts);
        p_balanced := forallb balanced accts |}.

Definition bad (c : ccase) : bool :=
  match predict (c_tasks c) with
  | Ok p => negb (zlist_eqb (p_copies p) (c_copies c)
                  && Nat.eqb (p_resolve_closes p) (c_resolve_closes c)
                  && Nat.eqb (p_update_closes p) (c_update_closes c)
                  && p_balanced p)
  | _ => true
  end.
Definition mismatches (cs : list ccase) : list nat := mismatches_from bad 0 cs.
