(* Corr/C19.v — comparison used by the generated cases_C19_*.v files.
   A case is the compiled graph of a streaming run (the chanCall of START and of every node:
   data successors, control successors, branches), the SCHEDULE of the run (the batches of
   completed tasks in the order taskManager.wait returned them — C03 trace hook — each task with
   the outcome of its branch conditions as recorded by the harness's own condition functions)
   and what the accounting hook (schema/verif_c19_on.go) saw the engine do:
     - the sizes n >= 2 of the StreamReader.Copy(n) calls issued by compose.copyItem from
       resolveCompletedTasks (sorted ascending),
     - the number of outermost StreamReader.Close calls issued directly by
       resolveCompletedTasks, channelManager.updateValues, dagChannel.reportValues and
       dagChannel.reportSkip,
     - the sizes of the mergeValues calls of channel.get (sorted),
     - the nodes whose function was entered (sorted).
   The model recomputes all of these from graph + schedule, twice:
     (a) task by task with [account_task] (Model/StreamAcct.v — the definitions of the step theorems),
     (b) with the run-loop model [run] (Model/StreamRun.v — the definitions of the run theorems),
   and checks on the run's final state what the run theorem concludes: the run ended Done with
   nothing else scheduled, every node ran or was skipped, and the only live handle is the output.
   Completion order inside a superstep is not an observable of the property, hence the multiset
   comparisons. *)
From Eino Require Import Base.Util Model.StreamAcct Model.StreamRun Model.StreamResume.
Open Scope N_scope.

(* the runs of one nested graph node: its graph, its interrupt configuration, START's pass of every run
   (one per execution of the node) and the recorded calls of all its runs in order *)
Record csub := { cs_graph : graph; cs_cfg : icfg; cs_starts : list batch; cs_tms : list seg }.

Record ccase := {
  c_graph : graph;
  c_cfg : icfg;                          (* interruptBeforeNodes / interruptAfterNodes *)
  c_start : batch;                       (* START's pseudo task with the outcome of its branches *)
  c_tms : list seg;                      (* the recorded calls of the run (the first run and every resumed run), in order *)
  c_subs : list csub;                    (* the nested graph nodes *)
  c_copies : list Z;          (* observed, sorted ascending *)
  c_resolve_closes : nat;     (* observed *)
  c_update_closes : nat;
  c_chan_closes : nat;
  c_skip_closes : nat;
  c_merges : list nat;        (* observed, sorted *)
  c_fired : list key;         (* observed, sorted *)
  c_handlers : nat;           (* callback handlers passed with WithCallbacks *)
  c_cb_sides : list (nat * nat);  (* for every node execution: how many sides of its own paradigm are streams (0..), and how many
                                     handlers apply to that node (the undesignated ones plus those designated to it) *)
  c_cb_copies : list Z;       (* observed: sizes of the Copy calls of callbacks.OnWithStreamHandle *)
  c_cp_drains : nat;          (* observed: streams concatenated by checkPointer.convertCheckPoint *)
  c_input_closes : nat;       (* observed: ignored inputs of resumed calls closed by runner.run *)
  c_unattr_closes : nat;      (* observed: closes issued by the run loop that the harness could not attribute to one of the
                                 five functions above (they carry other names than the ones it knows): when there are any,
                                 the closes are compared as a total instead of origin by origin *)
}.

Definition mkc (w c : list key) (bs : list bdecl) : call := {| c_write_to := w; c_controls := c; c_branches := bs |}.
Definition mkbd (nodata : bool) (ends : list key) : bdecl := {| bd_nodata := nodata; bd_ends := ends |}.
Definition mkSubs (dag : bool) (calls : list (key * call)) (before after : list key)
                  (starts : list batch) (tms : list seg) : csub :=
  {| cs_graph := {| g_dag := dag; g_eager := false; g_calls := calls |};
     cs_cfg := {| i_before := before; i_after := after |}; cs_starts := starts; cs_tms := tms |}.
Definition mkRS (dag eager : bool) (calls : list (key * call)) (before after : list key)
               (start : batch) (tms : list seg) (subs : list csub)
               (cp : list Z) (rc uc cc sc : nat) (mg : list nat) (fired : list key)
               (handlers : nat) (sides : list (nat * nat)) (cbc : list Z) (drains closes unattr : nat) : ccase :=
  {| c_graph := {| g_dag := dag; g_eager := eager; g_calls := calls |};
     c_cfg := {| i_before := before; i_after := after |}; c_start := start; c_tms := tms; c_subs := subs;
     c_copies := cp; c_resolve_closes := rc; c_update_closes := uc; c_chan_closes := cc; c_skip_closes := sc;
     c_merges := mg; c_fired := fired; c_handlers := handlers; c_cb_sides := sides; c_cb_copies := cbc;
     c_cp_drains := drains; c_input_closes := closes; c_unattr_closes := unattr |}.

Fixpoint zlist_eqb (a b : list Z) : bool :=
  match a, b with
  | [], [] => true
  | x :: a', y :: b' => Z.eqb x y && zlist_eqb a' b'
  | _, _ => false
  end.
Fixpoint natlist_eqb (a b : list nat) : bool :=
  match a, b with
  | [], [] => true
  | x :: a', y :: b' => Nat.eqb x y && natlist_eqb a' b'
  | _, _ => false
  end.
Fixpoint nlist_eqb (a b : list N) : bool :=
  match a, b with
  | [], [] => true
  | x :: a', y :: b' => N.eqb x y && nlist_eqb a' b'
  | _, _ => false
  end.

(* ---- (a) task by task *)
Record prediction := { p_copies : list Z; p_resolve_closes : nat; p_update_closes : nat; p_balanced : bool }.

Definition tasks_of (g : graph) (sched : list batch) : res (list task) :=
  res_mapM (fun ko => match call_of g (fst ko) with
                      | Some c => mk_task (fst ko) c (snd ko)
                      | None => Err E_BAD_SCHEDULE
                      end) (List.concat sched).

Definition predict (ts : list task) : res prediction :=
  do accts <- res_mapM account_task ts;
  Ok {| p_copies := sort_by Z.ltb (flat_map a_copies accts);
        p_resolve_closes := fold_right Nat.add 0%nat (map a_resolve_closes accts);
        p_update_closes := fold_right Nat.add 0%nat (map a_update_closes accts);
        p_balanced := forallb balanced accts |}.

(* the tasks that were resolved: every collected task except those that interrupted themselves *)
Definition resolved_of (tms : list seg) : batch :=
  List.concat (map (fun brr => others_of (snd brr) (fst brr)) (List.concat tms)).
Definition all_runs (c : ccase) : list (graph * list batch) :=
  (c_graph c, [c_start c; resolved_of (c_tms c)]) ::
  map (fun cs => (cs_graph cs, cs_starts cs ++ [resolved_of (cs_tms cs)])) (c_subs c).

Definition bad_tasks (c : ccase) : bool :=
  match (do tss <- res_mapM (fun gs => tasks_of (fst gs) (snd gs)) (all_runs c); predict (List.concat tss)) with
  | Ok p => negb (zlist_eqb (p_copies p) (c_copies c)
                  && (negb (Nat.eqb (c_unattr_closes c) 0)
                      || Nat.eqb (p_resolve_closes p) (c_resolve_closes c)
                         && Nat.eqb (p_update_closes p) (c_update_closes c))
                  && p_balanced p)
  | _ => true
  end.

(* ---- (b) the runs: the top-level run and the runs of every nested graph node *)
Record rpred := {
  q_copies : list Z; q_resolve : nat; q_update : nat; q_chan : nat; q_skip : nat; q_merges : list nat;
  q_fired : list key; q_drains : nat; q_closes : nat;
  q_calls : nat; (* calls of the runnable this run took *)
  q_ok : bool;   (* the hypotheses and the conclusion of the run theorems hold on this run *)
}.

Definition pred_of (g : graph) (o : sout) (calls : nat) : res rpred :=
  match o with
  | SDone out dropped st =>
      let l := rs_log st in
      Ok {| q_copies := s_log (rs_store st); q_resolve := l_resolve_closes l; q_update := l_update_closes l;
            q_chan := l_chan_closes l; q_skip := l_skip_closes l; q_merges := l_merges l;
            q_fired := filter (fun k => negb (N.eqb k kEND)) (l_fired l);
            q_drains := l_cp_drains l; q_closes := l_input_closes l; q_calls := calls;
            q_ok := nodup_keys (all_keys g) && negb (memb kEND (all_keys g)) && (negb (g_dag g) || covered g && all_reach g)
                    && match dropped with [] => true | _ => false end
                    && nlist_eqb (rs_pending st) [kEND]
                    && (negb (g_dag g) || all_finished g st)
                    && nlist_eqb (s_open (rs_store st)) [out] |}
  | _ => Err E_BAD_SCHEDULE
  end.

Definition predict_top (c : ccase) : res rpred :=
  do r <- run_one (c_graph c) (c_cfg c) (c_start c) (c_tms c);
  let '(o, n, unused) := r in
  match unused with
  | [] => pred_of (c_graph c) o n
  | _ :: _ => Err E_BAD_SCHEDULE
  end.

Definition predict_sub (cs : csub) : res (list rpred) :=
  do l <- run_many (cs_graph cs) (cs_cfg cs) (cs_starts cs) (cs_tms cs);
  res_mapM (fun on => pred_of (cs_graph cs) (fst on) (snd on)) l.

Definition sumn (f : rpred -> nat) (l : list rpred) : nat := fold_right Nat.add 0%nat (map f l).

Definition predict_all (c : ccase) : res (rpred * list rpred) :=
  do top <- predict_top c;
  do subs <- res_mapM predict_sub (c_subs c);
  Ok (top, List.concat subs).

Definition bad_run_of (c : ccase) (top : rpred) (subs : list rpred) : bool :=
      let all := top :: subs in
      negb (zlist_eqb (sort_by Z.ltb (flat_map q_copies all)) (c_copies c)
            && (if Nat.eqb (c_unattr_closes c) 0 then
                  Nat.eqb (sumn q_resolve all) (c_resolve_closes c)
                  && Nat.eqb (sumn q_update all) (c_update_closes c)
                  && Nat.eqb (sumn q_chan all) (c_chan_closes c)
                  && Nat.eqb (sumn q_skip all) (c_skip_closes c)
                  && Nat.eqb (sumn q_closes all) (c_input_closes c)
                else
                  Nat.eqb (sumn q_resolve all + sumn q_update all + sumn q_chan all + sumn q_skip all + sumn q_closes all)
                          (c_resolve_closes c + c_update_closes c + c_chan_closes c + c_skip_closes c + c_input_closes c
                           + c_unattr_closes c))
            && natlist_eqb (sort_by Nat.ltb (flat_map q_merges all)) (c_merges c)
            && nlist_eqb (sort_by N.ltb (q_fired top)) (c_fired c)
            && Nat.eqb (sumn q_drains all) (c_cp_drains c)
            && forallb q_ok all).

(* ---- (c) callback copies: every call of a runnable (top level or nested) has a streaming callback site
   at its start, the one that completes a run another one at its end (an interrupted call ends with
   OnError); every node execution one per streaming side of its paradigm *)
Definition bad_callbacks_of (c : ccase) (top : rpred) (subs : list rpred) : bool :=
      let graph_sites := sumn (fun q => S (q_calls q)) (top :: subs) in
      negb (zlist_eqb (sort_by Z.ltb (callback_copies (c_handlers c) graph_sites ++
                                      flat_map (fun sn => callback_copies (snd sn) (fst sn)) (c_cb_sides c)))
                      (c_cb_copies c)).

Definition bad (c : ccase) : bool :=
  bad_tasks c ||
  match predict_all c with
  | Ok (top, subs) => bad_run_of c top subs || bad_callbacks_of c top subs
  | _ => true
  end.
Definition mismatches (cs : list ccase) : list nat := mismatches_from bad 0 cs.

(* for debugging a replay: what the run model computed *)
Definition run_view (c : ccase) :=
  match run_one (c_graph c) (c_cfg c) (c_start c) (c_tms c) with
  | Ok (SDone out dropped st, n, u) => Ok (1%nat, n, List.length u, out, dropped, s_open (rs_store st), s_log (rs_store st), rs_log st, rs_pending st, rs_resolved st)
  | Ok (SRunning st, n, u) => Ok (0%nat, n, List.length u, 0, [], s_open (rs_store st), s_log (rs_store st), rs_log st, rs_pending st, rs_resolved st)
  | Ok (SInt ready rr st, n, u) => Ok (2%nat, n, List.length u, 0, ready, s_open (rs_store st), s_log (rs_store st), rs_log st, rs_pending st, rs_resolved st)
  | Err e => Err e
  | Panic => Panic
  end.
