(* Corr/C07.v — comparison used by the generated cases_C07_*.v files.
   A case is a construction sequence over a type universe together with what the
   implementation did: for every Add* / Compile call whether it returned nil, the types
   GraphInfo reported for the passthrough nodes after the final Compile, and the outcome
   class of every run that was made (emitted dynamic values, input, outcome); one case per
   run carries the whole tables of checkAssignable and assertType over the universe, read
   through the hook.
   Error messages are not compared (class only).

   Go's map iteration order is not visible to the harness; the model is evaluated under
   two different oracles (ascending and descending key order) and the implementation has
   to agree with one of them.  (Theorem inference_order_independent_partial and the direct
   5x-compile oracle of the harness are what says the two agree.) *)
From Eino Require Import Base.Util Model.Types Model.TypeBuilder.

Record ccase : Type := {
  c_u : univ;
  c_in : ty;
  c_out : ty;
  c_st : option N;
  c_ops : list op;
  c_oks : list bool;                              (* observed, one per op *)
  c_infer : list (key * option ty);               (* observed passthrough types (empty if not compiled) *)
  c_runs : list (list (key * dyn) * dyn * outcome); (* emit table, input, observed outcome *)
  (* hook-level observations (compose/verif_c07.go), only in the "lattice" case of a run:
     checkAssignable(input, arg) for every pair of types of the universe (None = nil
     reflect.Type) and assertType[T](v) for every dynamic value and every type *)
  c_lat : list (option ty * option ty * assignable);
  c_asrt : list (dyn * ty * bool)
}.

Definition MkCase := Build_ccase.

Fixpoint bools_eqb (a b : list bool) : bool :=
  match a, b with
  | [], [] => true
  | x :: a', y :: b' => Bool.eqb x y && bools_eqb a' b'
  | _, _ => false
  end.

Definition outcome_eqb (a b : outcome) : bool :=
  match a, b with
  | ROk x, ROk y => dyn_eqb x y
  | RTypeErr, RTypeErr | RPanicRec, RPanicRec | RPanicEsc, RPanicEsc | ROther, ROther => true
  | RMerge, RMerge => true     (* same-step fan-in: the values are merged (mergeValues); the implementation must get there too *)
  | _, _ => false
  end.

Definition descending : list key :=
  [40;39;38;37;36;35;34;33;32;31;30;29;28;27;26;25;24;23;22;21;20;19;18;17;16;15;14;13;12;11;10;9;8;7;6;5;4;3;2;1;0]%N.

Definition agrees (orcs : nat -> nat -> nat -> list key) (c : ccase) : bool :=
  let u := c_u c in
  let '(st, oks) := run_ops u orcs 0 (init_graph (c_in c) (c_out c) (c_st c)) (c_ops c) in
  bools_eqb oks (c_oks c)
  && forallb (fun p => oty_eqb (in_ty st (fst p)) (snd p) && oty_eqb (out_ty st (fst p)) (snd p)) (c_infer c)
  && forallb (fun r => match r with (em, d, o) => outcome_eqb (run u (assert_type u) em st d) o end) (c_runs c)
  && forallb (fun r => match r with (a, b, x) => assignable_eqb (check_assignable u a b) x end) (c_lat c)
  && forallb (fun r => match r with (d, t, x) => Bool.eqb (assert_type u d t) x end) (c_asrt c).

Definition bad (c : ccase) : bool :=
  negb (agrees (fun _ _ _ => []) c || agrees (fun _ _ _ => descending) c).

Definition mismatches (cs : list ccase) : list nat := mismatches_from bad 0 cs.

(* what the model says for a case (for replays / debugging) *)
Definition model_view (c : ccase) :=
  let u := c_u c in
  let '(st, oks) := run_ops u (fun _ _ _ => []) 0 (init_graph (c_in c) (c_out c) (c_st c)) (c_ops c) in
  (oks, map (fun p => (fst p, in_ty st (fst p))) (c_infer c),
   map (fun r => match r with (em, d, _) => run u (assert_type u) em st d end) (c_runs c)).
