(* Corr/C09.v — comparison used by the generated cases_C09_*.v files.

   A case is one compiled object of the harness zoo:
   * [cc_solo]  : per call spec (paradigm x input x option set) what the implementation
                  did when that call ran ALONE (recorded first, by the harness): the
                  canonical multiset (sorted list) of events (node executions, state
                  handler calls, model / tool calls, callback events seen by the call's
                  own handler) and the code of the canonically rendered result;
   * [cc_runs]  : per concurrent call: its spec and what was observed for it while
                  8 / 32 goroutines were calling the same compiled object;
   * [cc_sched] : the observed global interleaving: the run index of every event in the
                  order in which the events were logged.

   The model side runs the product system of Model/Isolation.v (instance 3: a run emits
   the events its spec emitted solo) under the OBSERVED schedule and compares, per run,
   the model's observable with the implementation's.  So the tie for C09 is
   "concurrent = solo on the implementation" (direct oracle, re-evaluated here through
   the product LTS) — the solo prediction is itself an observation; Coq contributes that
   the equality does not depend on the schedule (Props/C09.v) under the hypothesis that
   runs only read the compiled record. *)
From Eino Require Import Base.Util Model.Isolation.

Record ccase : Type := CCase {
  cc_solo : list tspec;
  cc_runs : list (nat * (list N * N));
  cc_sched : list nat
}.

Fixpoint nlist_eqb (a b : list N) : bool :=
  match a, b with
  | [], [] => true
  | x :: a', y :: b' => N.eqb x y && nlist_eqb a' b'
  | _, _ => false
  end.

Definition obs_eqb (a b : list N * N) : bool :=
  nlist_eqb (fst a) (fst b) && N.eqb (snd a) (snd b).

Fixpoint all2 {A B} (p : A -> B -> bool) (l : list A) (m : list B) : bool :=
  match l, m with
  | [], [] => true
  | a :: l', b :: m' => p a b && all2 p l' m'
  | _, _ => false
  end.

Definition model_runs (c : ccase) : option (list (option (list N * N))) :=
  match grun (lift tstep) (cc_sched c) (cc_solo c, map (fun r => tinit (fst r)) (cc_runs c)) with
  | None => None                         (* the observed schedule is not a schedule of the model *)
  | Some (_, finals) => Some (map (tobs (cc_solo c)) finals)
  end.

Definition bad (c : ccase) : bool :=
  match model_runs c with
  | None => true
  | Some obs =>
      negb (all2 (fun o run => match o with Some o' => obs_eqb o' (snd run) | None => false end)
                 obs (cc_runs c))
  end.

Definition mismatches (cs : list ccase) : list nat := mismatches_from bad 0 cs.

(* helper used by the harness printer *)
Definition TS (ev : list N) (res : N) : tspec := {| t_events := ev; t_result := res |}.
