(* Corr/C09.v — comparison used by the generated cases_C09_*.v files.

   A case is one compiled object of the harness zoo, K call specs and the observations of
   one concurrent phase:
   * [cc_obj], [cc_calls] : the compiled record (graph description printed by the harness
                  from what it built through the public API) and, per call spec, what the call
                  brings (input, options, runtime step limit) — present for the kinds of
                  objects Model/IsolationEngine.v models;
   * [cc_tab]   : the distinct observations made on the implementation (rendered result,
                  sorted event list); observations are referred to by index;
   * [cc_solo]  : per call spec, the observation of that call made ALONE;
   * [cc_runs]  : per concurrent call, its spec and its observation while 8-32 goroutines
                  were calling the same compiled object;
   * [cc_sched] : the observed global interleaving (run index of every event in time order,
                  two letters a..p per entry);
   * [cc_rec]   : the projection of the compiled record read off the implementation's *runner
                  through the hook, before the first and after the last call.

   Model side.  With [cc_obj = Some c]: the product system of Model/Isolation.v over the
   engine ([lift estep]), one run per concurrent call initialised from the call's input and
   options alone, is driven by the observed interleaving and then run to completion; every
   run's observable (rendered result, sorted node-level events) must equal what was observed
   for that call, and the engine run alone must equal the solo observation: the model
   PREDICTS both, nothing observed enters the prediction.  With [cc_obj = None] (kinds not
   modelled): the replay machine (instance 3) whose compiled record is the solo table — the
   comparison is then "concurrent = solo on the implementation", re-evaluated through the
   product system. *)
From Eino Require Import Base.Util Model.Isolation Model.IsolationEngine.

Record ccase : Type := CCase {
  cc_obj : option cobj;
  cc_calls : list call;
  cc_tab : list (string * list string);
  cc_solo : list nat;
  cc_runs : list (nat * nat);
  cc_sched : string;
  (* the compiled record as the hook compose/verif_c09.go projects it from the *runner that
     Compile built, before the first call and after the last one ([] = the object has no
     compiled graph record): both must be the projection of the description the model runs *)
  cc_rec : list string
}.

Fixpoint sched_of (s : string) : list nat :=
  match s with
  | String a (String b s') => (16 * (nat_of_ascii a - 97) + (nat_of_ascii b - 97)) :: sched_of s'
  | _ => []
  end.

Fixpoint slist_eqb (a b : list string) : bool :=
  match a, b with
  | [], [] => true
  | x :: a', y :: b' => String.eqb x y && slist_eqb a' b'
  | _, _ => false
  end.

Definition obs_eqb (a b : string * list string) : bool :=
  String.eqb (fst a) (fst b) && slist_eqb (snd a) (snd b).

Definition oobs_eqb (a b : option (string * list string)) : bool :=
  match a, b with
  | Some x, Some y => obs_eqb x y
  | _, _ => false
  end.

Fixpoint all2 {A B} (p : A -> B -> bool) (l : list A) (m : list B) : bool :=
  match l, m with
  | [], [] => true
  | a :: l', b :: m' => p a b && all2 p l' m'
  | _, _ => false
  end.

Fixpoint sequence {A} (l : list (option A)) : option (list A) :=
  match l with
  | [] => Some []
  | None :: _ => None
  | Some a :: l' => match sequence l' with Some r => Some (a :: r) | None => None end
  end.

Definition fuel : nat := 80.

(* observables of the concurrent calls according to the model *)
Definition model_runs_engine (c : cobj) (cs : ccase) : option (list (option (string * list string))) :=
  match sequence (map (fun r => nth_error (cc_calls cs) (fst r)) (cc_runs cs)) with
  | None => None
  | Some calls =>
      let inits := map (einit c) calls in
      let (g1, _) := gdrive (lift estep) (sched_of (cc_sched cs)) (c, inits) in
      let (g2, _) := gfinish (lift estep) fuel (seq 0 (List.length inits)) g1 in
      if all_final (lift estep) g2
      then Some (map (fun kr => cobs (fst kr) (snd kr)) (combine calls (snd g2)))
      else None
  end.

Definition solo_table (cs : ccase) : option (list tspec) :=
  sequence (map (fun i => option_map (fun o => {| t_events := snd o; t_result := fst o |}) (nth_error (cc_tab cs) i))
                (cc_solo cs)).

Definition model_runs_replay (cs : ccase) : option (list (option (string * list string))) :=
  match solo_table cs with
  | None => None
  | Some tab =>
      let (g1, _) := gdrive (lift tstep) (sched_of (cc_sched cs)) (tab, map (fun r => tinit (fst r)) (cc_runs cs)) in
      let (g2, _) := gfinish (lift tstep) 4096 (seq 0 (List.length (cc_runs cs))) g1 in
      if all_final (lift tstep) g2 then Some (map (tobs tab) (snd g2)) else None
  end.

Definition model_runs (cs : ccase) : option (list (option (string * list string))) :=
  match cc_obj cs with
  | Some c => model_runs_engine c cs
  | None => model_runs_replay cs
  end.

(* the solo observations against the engine run alone *)
Definition solo_ok (cs : ccase) : bool :=
  match cc_obj cs with
  | None => true
  | Some c =>
      all2 (fun k i => oobs_eqb (erun c fuel k) (nth_error (cc_tab cs) i)) (cc_calls cs) (cc_solo cs)
  end.

(* the compiled record: what Compile built is what the model runs, before and after the calls
   (Props/C09.v engine_runs_own_their_state: no schedule of any number of runs changes the model's record
   or its projection crec_proj) *)
Definition rec_ok (cs : ccase) : bool :=
  match cc_obj cs with
  | None => true
  | Some c => forallb (String.eqb (crec_proj c)) (cc_rec cs)
  end.

Definition bad (cs : ccase) : bool :=
  match model_runs cs with
  | None => true
  | Some obs =>
      negb (all2 (fun o run => oobs_eqb o (nth_error (cc_tab cs) (snd run))) obs (cc_runs cs))
      || negb (solo_ok cs) || negb (rec_ok cs)
  end.

Definition mismatches (cs : list ccase) : list nat := mismatches_from bad 0 cs.

(* helpers used by the harness printer *)
Definition CO (g : graph) (d : nat) : cobj := {| co_graph := g; co_depth := d |}.
Definition CA (v : val) (os : list copt) (m : option nat) (f : bool) (suffix : string) (cancel : option nat) : call :=
  {| ca_in := v; ca_opts := os; ca_max := m; ca_fut := f; ca_cancel := cancel; ca_suffix := suffix |}.
Definition TC (id name args : string) : tcall := {| tc_id := id; tc_name := name; tc_args := args |}.
Definition MSG (role content : string) (calls : list tcall) : msg :=
  {| m_role := role; m_content := content; m_calls := calls; m_for := "" |}.
Definition OP (k : N) (ps : list (list string)) (v : string) : copt := {| o_kind := k; o_paths := ps; o_val := v |}.
