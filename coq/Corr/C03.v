(* Corr/C03.v — comparison used by the generated cases_C03_*.v files.
   A case = mode, graph, the distinct (result, execution multiset) observations of all the runs
   of that graph under different delay seeds, and the recorded hand-off traces (each with the
   number of submitted-but-uncollected tasks the harness counted at the return of the run).

   Black box: every observation must equal the canonical-schedule prediction of
   Model/Confluence.v (batch: identity completion order; eager: see [eager_obs_ok];
   in eager mode only the executions that feed END are compared, and nothing is compared on
   a failed eager run but the error class).
   White box: every trace must be accepted by the LTS of Model/TaskMgr.v, the LTS must end with
   as many uncollected tasks as the harness counted, and none in batch mode; the traces of the nested
   runs (nested graph nodes have a task manager of their own) must be accepted with nothing left ([sub_ok]).
   Both together: the whole trace is replayed on the composed system of Model/RunHandoff.v
   ([conf_run]: protocol LTS + run loop; the run loop of the model decides which tasks are handed to
   the task manager, which of them synchronously, when the collector starts waiting and what is done
   with the tasks in the order they were collected); the replay must accept the trace, return the
   same outcome, have started exactly the same executions and leave exactly the same tasks in flight
   ([conf_ok]; batch and eager mode, graphs without branches).  Eager graphs with branches
   (Model/EagerSkip.v): the collection order recorded in the trace is replayed as a schedule of the
   order-side model ([eager_run_ok]). *)
From Eino Require Import Base.Util Model.TaskMgr Model.Confluence Model.EagerSkip Model.RunHandoff.

Inductive robs := RVal (v : val) | RErr | RPanic | RHang.

(* one traced run: the protocol trace, the number of submitted-but-uncollected tasks the harness
   counted at the return, what the run returned and every execution it started *)
Record trun := mkrun {
  r_trace : list ev;
  r_left : nat;
  r_out : robs;
  r_log : exec_log;
}.

Record ccase := mkcase {
  c_mode : N;                                   (* 0 pregel (batch), 1 dag (batch), 2 eager (dag) *)
  c_steps : nat;                                (* > 0: pregel graph that may have cycles, run with this step limit *)
  c_graph : graph;                              (* [] = outside the order-side models (batch + branches) *)
  c_brs : list br;                              (* branches (eager mode only: Model/EagerSkip.v) *)
  c_ctl : list (nid * nid);                     (* control-only edges (target, source): WorkflowNode.AddDependency *)
  c_dat : list (nid * nid);                     (* data-only edges (target, source): WithNoDirectDependency *)
  c_obs : list (robs * exec_log);
  c_traces : list trun;
  c_sub : list (list ev);                       (* complete protocol traces of the nested runs (the task managers of
                                                   nested graph nodes: two inner tasks 3 and 4, a batch run) *)
}.

Fixpoint val_eqb (a b : val) : bool :=
  match a, b with
  | [], [] => true
  | x :: a', y :: b' => N.eqb x y && val_eqb a' b'
  | _, _ => false
  end.
Definition ex_eqb (a b : nid * val) : bool := N.eqb (fst a) (fst b) && val_eqb (snd a) (snd b).
Definition count_ex (x : nid * val) (l : exec_log) : nat := List.length (filter (ex_eqb x) l).
(* equality of execution multisets *)
Definition log_eqb (a b : exec_log) : bool :=
  Nat.eqb (List.length a) (List.length b) &&
  forallb (fun x => Nat.eqb (count_ex x a) (count_ex x b)) a.

Definition fuel_of (g : graph) : nat := 2 * List.length g + 12.

(* batch modes: the identity completion order *)
(* the step limit: the one the case was compiled with (cyclic pregel graphs), else more than enough *)
Definition fuel_case (c : ccase) : nat :=
  match c_steps c with O => fuel_of (c_graph c) | n => n end.

Definition predict (c : ccase) : outcome * exec_log :=
  match c_mode c with
  | 0%N => batch (fun l => l) Pregel (c_graph c) (fuel_case c)
  | _ => batch (fun l => l) Dag (c_graph c) (fuel_case c)
  end.

(* a node that fails and does not feed END: the only graphs on which the outcome of an eager run
   depends on the schedule (Props/C03.v: eager_confluent, eager_outcome_schedule_dependent_refuted;
   known finding F-C03c) *)
(* the nodes that feed END or decide whether a node that feeds END runs: ancestors over the edges of every
   kind and the branches (a graph without branches and special edges: [ancestors g]) *)
Definition anc_graph (G : sgraph) : graph :=
  map (fun n => mkn (n_id n) (cpreds G n ++ dpreds G n) (n_fail n)) (sg_nodes G).
Definition anc_of (G : sgraph) : list nid := ancestors (anc_graph G).
Definition feeding_a (a : list nid) (l : exec_log) : exec_log := filter (fun x => nmem (fst x) a) l.

Definition has_fail_nonanc (G : sgraph) : bool :=
  let a := anc_of G in
  existsb (fun n => negb (N.eqb (n_fail n) 0) && negb (nmem (n_id n) a)) (sg_nodes G).

(* a node whose state pre-handler fails and that does not feed END: the run fails the moment the node
   becomes ready; no fixed schedule then delivers the value whenever some schedule does
   (Props/C03.v: eager_ok_complete carries prefail_feed_end; eager_prefail_schedule_dependent) *)
Definition has_prefail_nonanc (G : sgraph) : bool :=
  let a := anc_of G in
  existsb (fun n => N.eqb (n_fail n) 4 && negb (nmem (n_id n) a)) (sg_nodes G).

Definition is_batch (c : ccase) : bool := N.eqb (c_mode c) 0 || N.eqb (c_mode c) 1.

(* eager mode.  A value must be the value of the schedule that avoids failing tasks (every
   schedule that delivers a value delivers that one), with the same executions feeding END; an
   error must be what the oldest-first schedule predicts, unless the graph has a failing node
   that does not feed END (then value and error are both possible, F-C03c).  Which executions had
   started when a failure was collected is timing: not compared. *)
(* the eager model of a case: Model/Confluence.v without branches, Model/EagerSkip.v with *)
Definition plain (G : sgraph) : bool := is_nil (sg_brs G) && is_nil (sg_ctl G) && is_nil (sg_dat G).
Definition eager_model (G : sgraph) (pick : list (node * val) -> nat) : outcome * exec_log * list nid :=
  if plain G then eager pick (sg_nodes G) (fuel_of (sg_nodes G))
  else seager true pick G (fuel_of (sg_nodes G)).

Definition eager_obs_ok (G : sgraph) (o : robs * exec_log) : bool :=
  let a := anc_of G in
  match fst o with
  | RVal v =>
      match eager_model G pick_ok with
      | (ODone v', log, _) => val_eqb v v' && log_eqb (feeding_a a (snd o)) (feeding_a a log)
      | (OFail, _, _) => has_prefail_nonanc G     (* value runs: compared with each other by the direct
                                                     oracle and, traced runs, through their own schedule *)
      | _ => false
      end
  | RErr =>
      match eager_model G pick_first with
      | (OFail, _, _) => true
      | (ODone _, _, _) => has_fail_nonanc G
      | _ => false
      end
  | _ => false
  end.

Definition sg_of (c : ccase) : sgraph := mksg (c_graph c) (c_brs c) (c_ctl c) (c_dat c).

Definition obs_ok (c : ccase) (o : robs * exec_log) : bool :=
  if is_batch c then
    let '(out, log) := predict c in
    match fst o, out with
    | RVal v, ODone v' => val_eqb v v' && log_eqb (snd o) log
    | RErr, OFail => log_eqb (snd o) log
    | RErr, OFuel => negb (Nat.eqb (c_steps c) 0) && log_eqb (snd o) log   (* ErrExceedMaxSteps *)
    | _, _ => false
    end
  else eager_obs_ok (sg_of c) o.

(* the schedule of a traced run: the order in which its tasks were collected, the tasks it submitted *)
Fixpoint recv_seq (tr : list ev) : list nid :=
  match tr with
  | [] => []
  | EvRecv t _ :: tr' => t :: recv_seq tr'
  | _ :: tr' => recv_seq tr'
  end.
Fixpoint submitted (tr : list ev) : list nid :=
  match tr with
  | [] => []
  | EvSpawn t _ :: tr' => t :: submitted tr'
  | EvSync t _ :: tr' => t :: submitted tr'
  | _ :: tr' => submitted tr'
  end.
Definition set_eqb (a b : list nid) : bool :=
  Nat.eqb (List.length a) (List.length b) && forallb (fun x => nmem x b) a && forallb (fun x => nmem x a) b.

(* eager mode, exact: under the schedule recorded in the trace the model returns the same outcome,
   has started exactly the same executions (all of them, with their inputs) and leaves exactly the
   tasks running that the trace shows as submitted and never collected *)
Definition eager_run_ok (G : sgraph) (r : trun) : bool :=
  let seq := recv_seq (r_trace r) in
  let '(out, log, lrun) := eager_model G (pick_seq seq) in
  match r_out r, out with
  | RVal v, ODone v' => val_eqb v v'
  | RErr, OFail => true
  | _, _ => false
  end &&
  log_eqb (r_log r) log &&
  set_eqb lrun (filter (fun x => negb (nmem x seq)) (submitted (r_trace r))).

(* the whole traced run on the composed system (graphs without branches) *)
Definition mode_of (c : ccase) : mode := match c_mode c with 0%N => Pregel | _ => Dag end.
Definition conf_ok (c : ccase) (r : trun) : bool :=
  match conf_run (is_batch c) (mode_of c) (c_graph c) (fuel_of (c_graph c)) (r_trace r) with
  | Some (_, (res, log, lrun)) =>
      match r_out r, res with
      | RVal v, Some (ODone v') => val_eqb v v'
      | RErr, Some OFail => true
      | _, _ => false
      end &&
      log_eqb (r_log r) log &&
      set_eqb lrun (filter (fun x => negb (nmem x (recv_seq (r_trace r)))) (submitted (r_trace r)))
  | None => false
  end.

Definition trace_ok (c : ccase) (r : trun) : bool :=
  accepts (r_trace r) &&
  match trace_leftover (r_trace r) with
  | Some (lft, n) =>
      Nat.eqb lft (r_left r) && Nat.eqb n (r_left r) &&
      (if is_batch c then Nat.eqb lft 0 else true)
  | None => false
  end &&
  (if is_nil (c_graph c) then true
   else if negb (Nat.eqb (c_steps c) 0) then true      (* a node may run twice: task keys are not node keys *)
   else if plain (sg_of c) then conf_ok c r
   else if is_batch c then true else eager_run_ok (sg_of c) r).

(* a nested run is a batch run of its own: its trace is a run of the LTS at the end of which waitAll has
   returned - nothing outstanding, nothing uncollected *)
Definition sub_ok (tr : list ev) : bool :=
  accepts tr &&
  match trace_leftover tr with
  | Some (lft, n) => Nat.eqb lft 0 && Nat.eqb n 0
  | None => false
  end.

Definition bad (c : ccase) : bool :=
  negb ((is_nil (c_graph c) || forallb (obs_ok c) (c_obs c)) && forallb (trace_ok c) (c_traces c) &&
        forallb sub_ok (c_sub c)).

Definition mismatches (cs : list ccase) : list nat := mismatches_from bad 0 cs.
