(* Corr/C03.v — comparison used by the generated cases_C03_*.v files.
   A case = mode, graph, the distinct (result, execution multiset) observations of all the runs
   of that graph under different delay seeds, and the recorded hand-off traces (each with the
   number of submitted-but-uncollected tasks the harness counted at the return of the run).

   Black box: every observation must equal the canonical-schedule prediction of
   Model/Confluence.v (batch: identity completion order; eager: see [eager_obs_ok];
   in eager mode only the executions that feed END are compared, and nothing is compared on
   a failed eager run but the error class).
   White box: every trace must be accepted by the LTS of Model/TaskMgr.v, the LTS must end with
   as many uncollected tasks as the harness counted, and none in batch mode. *)
From Eino Require Import Base.Util Model.TaskMgr Model.Confluence.

Inductive robs := RVal (v : val) | RErr | RPanic | RHang.

Record ccase := mkcase {
  c_mode : N;                                   (* 0 pregel (batch), 1 dag (batch), 2 eager (dag) *)
  c_graph : graph;
  c_obs : list (robs * exec_log);
  c_traces : list (list ev * nat);
}.

Fixpoint val_eqb (a b : val) : bool :=
  match a, b with
  | [], [] => true
  | x :: a', y :: b' => N.eqb x y && val_eqb a' b'
  | _, _ => false
  end.
Definition ex_eqb (a b : nid * val) : bool := N.eqb (fst a) (fst b) && val_eqb (snd a) (snd b).
Definition count_ex (x : nid * val) (l : exec_log) : nat := List.length (filter (ex_eqb x) l).
(* equality of execution multisets *)
Definition log_eqb (a b : exec_log) : bool :=
  Nat.eqb (List.length a) (List.length b) &&
  forallb (fun x => Nat.eqb (count_ex x a) (count_ex x b)) a.

Definition fuel_of (g : graph) : nat := 2 * List.length g + 12.

(* batch modes: the identity completion order *)
Definition predict (c : ccase) : outcome * exec_log :=
  match c_mode c with
  | 0%N => batch (fun l => l) Pregel (c_graph c) (fuel_of (c_graph c))
  | _ => batch (fun l => l) Dag (c_graph c) (fuel_of (c_graph c))
  end.

(* a node that fails and does not feed END: the only graphs on which the outcome of an eager run
   depends on the schedule (Props/C03.v: eager_confluent, eager_outcome_schedule_dependent_refuted;
   known finding F-C03c) *)
Definition has_fail_nonanc (g : graph) : bool :=
  let a := ancestors g in
  existsb (fun n => negb (N.eqb (n_fail n) 0) && negb (nmem (n_id n) a)) g.

Definition is_batch (c : ccase) : bool := N.eqb (c_mode c) 0 || N.eqb (c_mode c) 1.

(* eager mode.  A value must be the value of the schedule that avoids failing tasks (every
   schedule that delivers a value delivers that one), with the same executions feeding END; an
   error must be what the oldest-first schedule predicts, unless the graph has a failing node
   that does not feed END (then value and error are both possible, F-C03c).  Which executions had
   started when a failure was collected is timing: not compared. *)
Definition eager_obs_ok (g : graph) (o : robs * exec_log) : bool :=
  match fst o with
  | RVal v =>
      match eager pick_ok g (fuel_of g) with
      | (ODone v', log, _) => val_eqb v v' && log_eqb (feeding g (snd o)) (feeding g log)
      | _ => false
      end
  | RErr =>
      match eager pick_first g (fuel_of g) with
      | (OFail, _, _) => true
      | (ODone _, _, _) => has_fail_nonanc g
      | _ => false
      end
  | _ => false
  end.

Definition obs_ok (c : ccase) (o : robs * exec_log) : bool :=
  if is_batch c then
    let '(out, log) := predict c in
    match fst o, out with
    | RVal v, ODone v' => val_eqb v v' && log_eqb (snd o) log
    | RErr, OFail => log_eqb (snd o) log
    | _, _ => false
    end
  else eager_obs_ok (c_graph c) o.

Definition trace_ok (c : ccase) (t : list ev * nat) : bool :=
  accepts (fst t) &&
  match trace_leftover (fst t) with
  | Some (lft, n) =>
      Nat.eqb lft (snd t) && Nat.eqb n (snd t) &&
      (if is_batch c then Nat.eqb lft 0 else true)
  | None => false
  end.

Definition bad (c : ccase) : bool :=
  negb (forallb (obs_ok c) (c_obs c) && forallb (trace_ok c) (c_traces c)).

Definition mismatches (cs : list ccase) : list nat := mismatches_from bad 0 cs.
