(* Corr/C03.v — comparison used by the generated cases_C03_*.v files.
   A case = mode, graph, the distinct (result, execution multiset) observations of all the runs
   of that graph under different delay seeds, and the recorded hand-off traces (each with the
   number of submitted-but-uncollected tasks the harness counted at the return of the run).

   Black box: every observation must equal the canonical-schedule prediction of
   Model/Confluence.v (batch: identity completion order; eager: oldest running task first;
   in eager mode only the executions that feed END are compared, and nothing is compared on
   a failed eager run but the error class).
   White box: every trace must be accepted by the LTS of Model/TaskMgr.v, the LTS must end with
   as many uncollected tasks as the harness counted, and none in batch mode. *)
From Eino Require Import Base.Util Model.TaskMgr Model.Confluence.

Inductive robs := RVal (v : val) | RErr | RPanic | RHang.

Record ccase := mkcase {
  c_mode : N;                                   (* 0 pregel (batch), 1 dag (batch), 2 eager (dag) *)
  c_graph : graph;
  c_obs : list (robs * exec_log);
  c_traces : list (list ev * nat);
}.

Fixpoint val_eqb (a b : val) : bool :=
  match a, b with
  | [], [] => true
  | x :: a', y :: b' => N.eqb x y && val_eqb a' b'
  | _, _ => false
  end.
Definition ex_eqb (a b : nid * val) : bool := N.eqb (fst a) (fst b) && val_eqb (snd a) (snd b).
Definition count_ex (x : nid * val) (l : exec_log) : nat := List.length (filter (ex_eqb x) l).
(* equality of execution multisets *)
Definition log_eqb (a b : exec_log) : bool :=
  Nat.eqb (List.length a) (List.length b) &&
  forallb (fun x => Nat.eqb (count_ex x a) (count_ex x b)) a.

Definition fuel_of (g : graph) : nat := 2 * List.length g + 12.

Definition predict (c : ccase) : outcome * exec_log :=
  match c_mode c with
  | 0%N => batch (fun l => l) Pregel (c_graph c) (fuel_of (c_graph c))
  | 1%N => batch (fun l => l) Dag (c_graph c) (fuel_of (c_graph c))
  | _ => fst (eager (fun _ => O) (c_graph c) (fuel_of (c_graph c)))
  end.

Definition feeding (g : graph) (l : exec_log) : exec_log :=
  let a := ancestors g in filter (fun x => nmem (fst x) a) l.

Definition obs_ok (c : ccase) (o : robs * exec_log) : bool :=
  let '(out, log) := predict c in
  let eager_mode := negb (N.eqb (c_mode c) 0 || N.eqb (c_mode c) 1) in
  match fst o, out with
  | RVal v, ODone v' =>
      val_eqb v v' &&
      (if eager_mode then log_eqb (feeding (c_graph c) (snd o)) (feeding (c_graph c) log)
       else log_eqb (snd o) log)
  | RErr, OFail => if eager_mode then true else log_eqb (snd o) log
  | _, _ => false
  end.

Definition trace_ok (c : ccase) (t : list ev * nat) : bool :=
  accepts (fst t) &&
  match trace_leftover (fst t) with
  | Some (lft, n) =>
      Nat.eqb lft (snd t) && Nat.eqb n (snd t) &&
      (if N.eqb (c_mode c) 0 || N.eqb (c_mode c) 1 then Nat.eqb lft 0 else true)
  | None => false
  end.

Definition bad (c : ccase) : bool :=
  negb (forallb (obs_ok c) (c_obs c) && forallb (trace_ok c) (c_traces c)).

Definition mismatches (cs : list ccase) : list nat := mismatches_from bad 0 cs.
