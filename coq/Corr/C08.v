(* Corr/C08.v — comparison functions for the generated cases_C08_*.v files.

   Two kinds of case:
   * [CaseSeq ops observed nfwd]: a single-goroutine script over array sources and pipes
     that are never read while they could block; the model executes the same script
     ([crun]) and every observation (returned handles, every Recv result, every Send /
     Close result) must be equal; [nfwd] = number of goroutines the implementation
     started (the model: number of forwarders); [rcl] = closeRecv count of every base stream.
   * [CaseConc build bobs writers leaves hang]: a tree built by [build] over pipes that are
     then driven by one goroutine per end.  The model executes the construction and the
     observed per-reader histories are checked against the trace predicates of
     Model/Stream.v (interleaving of prefixes of the strands, full at EOF; siblings of one
     copy parent agree; a writer that was told "closed" has no reader that saw EOF; sends
     accepted after every derived reader was closed: none if close propagates
     synchronously, boundedly many through forwarder goroutines). *)
From Eino Require Import Base.Util Model.Stream Model.StreamIlv.

(* conversion functions used by the harness, as data *)
Inductive cfspec : Type := CF (add skipm errm : N).
Definition cf_apply (c : cfspec) : cfun :=
  fun v => match c with
           | CF a s e =>
               if negb (N.eqb s 0) && N.eqb (N.modulo v s) 0 then CSkip
               else if negb (N.eqb e 0) && N.eqb (N.modulo v e) 0 then CErr v
               else CVal (v + a)%N
           end.

(* script operations; pipes are named by the handle their reader got at creation *)
Inductive cop : Type :=
| KPipe (cap : nat)
| KArray (xs : list N)
| KCopy (h n : nat)
| KMerge (hs : list nat)
| KConv (h : nat) (c : cfspec)
| KSend (hp : nat) (x : item)
| KCloseSend (hp : nat)
| KRecv (h : nat)
| KClose (h : nat).

Definition pipe_sid (G : state) (hp : nat) : option nat :=
  match nth_error (st_handles G) hp with
  | Some H => match h_rd H with RStr s => Some s | _ => None end
  | None => None
  end.

Definition to_op (G : state) (k : cop) : option op :=
  match k with
  | KPipe c => Some (OPipe c)
  | KArray xs => Some (OArray xs)
  | KCopy h n => Some (OCopy h n)
  | KMerge hs => Some (OMerge hs)
  | KConv h c => Some (OConv h (cf_apply c))
  | KSend hp x => match pipe_sid G hp with Some s => Some (OSend s x) | None => None end
  | KCloseSend hp => match pipe_sid G hp with Some s => Some (OCloseSend s) | None => None end
  | KRecv h => Some (ORecv h [])
  | KClose h => Some (OClose h)
  end.

Definition corr_fuel : nat := 400.

Fixpoint crun (G : state) (ks : list cop) : list obs * state :=
  match ks with
  | [] => ([], G)
  | k :: r =>
      match to_op G k with
      | None => let '(bs, G2) := crun G r in (BIllegal :: bs, G2)
      | Some o => let '(b, G1) := do_op corr_fuel G o in
                  let '(bs, G2) := crun G1 r in (b :: bs, G2)
      end
  end.

Definition pres_eqb (a b : pres) : bool :=
  match a, b with
  | PItem x, PItem y => item_eqb x y
  | PEOF, PEOF => true
  | PBlock, PBlock => true
  | _, _ => false          (* PFuel / PBad never equal an observation *)
  end.
Definition sres_eqb (a b : sres) : bool :=
  match a, b with
  | SOk, SOk | SClosed, SClosed | SBlock, SBlock | SPanic, SPanic => true
  | _, _ => false
  end.
Definition clres_eqb (a b : clres) : bool :=
  match a, b with
  | ClOk, ClOk | ClPanic, ClPanic => true
  | _, _ => false
  end.
Fixpoint natlist_eqb (a b : list nat) : bool :=
  match a, b with
  | [], [] => true
  | x :: a', y :: b' => Nat.eqb x y && natlist_eqb a' b'
  | _, _ => false
  end.
Definition obs_eqb (a b : obs) : bool :=
  match a, b with
  | BNew x, BNew y => natlist_eqb x y
  | BSend x, BSend y => sres_eqb x y
  | BRecv x, BRecv y => pres_eqb x y
  | BClose x, BClose y => clres_eqb x y
  | BStep, BStep => true
  | BIllegal, BIllegal => true
  | _, _ => false
  end.
Fixpoint obslist_eqb (a b : list obs) : bool :=
  match a, b with
  | [], [] => true
  | x :: a', y :: b' => obs_eqb x y && obslist_eqb a' b'
  | _, _ => false
  end.

(* ---------------------------------------------------------------- concurrent histories *)

(* writer of the pipe created as handle hp: the items it tried to send in order, the
   result of each attempted send (true = closed), how many sends that started after all
   derived readers had been closed were still accepted *)
Inductive wobs : Type := W (hp : nat) (items : list item) (results : list bool) (late_acc : nat).
(* leaf reader: handle, items received in order, whether it read up to io.EOF (else it was
   closed early) *)
Inductive lobs : Type := L (h : nat) (got : list item) (eof : bool).

(* results = false^k or false^k ++ [true] *)
Fixpoint results_ok (rs : list bool) : bool :=
  match rs with
  | [] => true
  | true :: r => nilb r
  | false :: r => results_ok r
  end.
Definition told_closed (rs : list bool) : bool := existsb (fun b => b) rs.
Definition accepted (items : list item) (rs : list bool) : list item :=
  firstn (List.length (filter negb rs)) items.

Fixpoint lookup_nat {A} (k : nat) (l : list (nat * A)) : option A :=
  match l with
  | [] => None
  | (k', a) :: r => if Nat.eqb k k' then Some a else lookup_nat k r
  end.

Definition wtable (G : state) (ws : list wobs) : list (nat * list item) :=
  flat_map (fun w => match w with W hp items rs _ =>
                       match pipe_sid G hp with Some s => [(s, accepted items rs)] | None => [] end end) ws.

Definition wfun (tbl : list (nat * list item)) : nat -> list item :=
  fun sid => match lookup_nat sid tbl with Some l => l | None => [] end.

Definition leaf_ok (G : state) (tbl : list (nat * list item)) (l : lobs) : bool :=
  match l with L h got eof =>
    match live_rd G h with
    | None => false
    | Some t =>
      match strands 100 G (wfun tbl) t with
      | None => false
      | Some strs => ilv_fast eof got strs   (* = Shuf eof got strs, Proofs/StreamIlv.v: ilv_fast_spec *)
      end
    end
  end.

Definition leaf_feeds (G : state) (l : lobs) : list (nat * nat) :=
  match l with L h _ _ =>
    match live_rd G h with
    | Some t => match feeds 100 G t with Some f => f | None => [] end
    | None => []
    end
  end.

Definition writer_ok (G : state) (ls : list lobs) (w : wobs) : bool :=
  match w with W hp items rs late_acc =>
    match pipe_sid G hp with
    | None => false
    | Some sid =>
      let fed := filter (fun l => existsb (fun sk => Nat.eqb (fst sk) sid) (leaf_feeds G l)) ls in
      let depth := fold_right Nat.max 0
                     (flat_map (fun l => map snd (filter (fun sk => Nat.eqb (fst sk) sid) (leaf_feeds G l))) ls) in
      let cap := match nth_error (streams (st_store G)) sid with Some s => eff_cap (s_cap s) | None => 0 end in
      results_ok rs
      && Nat.leb (List.length rs) (List.length items)
      && (* told closed => nobody derived from it read up to EOF *)
         (negb (told_closed rs) || forallb (fun l => match l with L _ _ eof => negb eof end) fed)
      && (* told on the next send, if close propagates synchronously *)
         (if Nat.eqb depth 0 then Nat.eqb late_acc 0 else Nat.leb late_acc (cap + 6 * depth))
    end
  end.

Definition siblings_ok (G : state) (ls : list lobs) : bool :=
  forallb (fun l1 => forallb (fun l2 =>
    match l1, l2 with
    | L h1 g1 _, L h2 g2 _ =>
      match live_rd G h1, live_rd G h2 with
      | Some (RChild p1 _), Some (RChild p2 _) =>
          negb (Nat.eqb p1 p2) || is_prefix g1 g2 || is_prefix g2 g1
      | _, _ => true
      end
    end) ls) ls.

Definition live_count (G : state) : nat := List.length (filter h_live (st_handles G)).

(* [rcl] (seq): for every base stream in creation order, how often the implementation closed its
   receive side (accounting hook of package schema) — the model's [s_rclosed].  [nstreams]
   (conc): number of base streams the implementation created (pipes, forwarder streams, the
   stream a merge builds from array arguments) — the model's store after the construction. *)
Inductive ccase : Type :=
| CaseSeq (ops : list cop) (observed : list obs) (nfwd : nat) (rcl : list nat)
| CaseConc (build : list cop) (bobs : list obs) (ws : list wobs) (ls : list lobs) (hang : bool) (nstreams : nat).

Definition bad (c : ccase) : bool :=
  match c with
  | CaseSeq ops observed nfwd rcl =>
      let '(bs, G) := crun init_state ops in
      negb (obslist_eqb bs observed && Nat.eqb (List.length (st_fwds G)) nfwd
            && natlist_eqb (map s_rclosed (streams (st_store G))) rcl)
  | CaseConc build bobs ws ls hang nstreams =>
      let '(bs, G) := crun init_state build in
      let tbl := wtable G ws in
      negb (obslist_eqb bs bobs
            && negb hang
            && Nat.eqb (List.length (streams (st_store G))) nstreams
            && Nat.eqb (live_count G) (List.length ls)
            && nodupb (map (fun l => match l with L h _ _ => h end) ls)
            && forallb (leaf_ok G tbl) ls
            && forallb (writer_ok G ls) ws
            && siblings_ok G ls)
  end.

Definition mismatches (cs : list ccase) : list nat := mismatches_from bad 0 cs.
