(* Corr/C11.v — comparison used by the generated cases_C11_*.v files.
   A case = the program (forest), the input, the number of runs, and what the harness
   observed through the public API: the global acquisition-ordered log of critical
   sections (with the identity of the state object each one was handed, the values that
   went in and out, the counter it saw), resume markers, the final value of every state
   object, the result of every run and the number of generator calls.
   The model side is Model/StateLock.v part 2 (spec_run, order_ok). *)
From Eino Require Import Base.Util Model.StateLock.
Open Scope N_scope.

Inductive outcome := OVal (x : X) | OErr.

Record ccase := mkCase {
  c_forest : forest;
  c_x0 : X;
  c_runs : N;
  c_builderr : bool;                    (* AddNode / Compile refused the program *)
  c_log : list item;
  c_finals : list (N * sstate);         (* object index -> value after all runs *)
  c_results : list (N * outcome);       (* run -> outcome *)
  c_gens : N }.

Definition all_nodes (f : forest) : list node := List.concat (map g_nodes f).

(* a state handler on a node of a graph that declares no state is rejected at AddNode *)
Definition build_err (f : forest) : bool :=
  existsb (fun g => negb (g_state g) && existsb (fun a => n_pre a || n_post a) (g_nodes g)) f.

(* a lambda that calls ProcessState where no enclosing graph declares state fails the run *)
Definition must_fail (f : forest) : bool :=
  existsb (fun a => match n_sub a with
                    | Some _ => false
                    | None => Nat.ltb 0 (n_ps a) &&
                              match find_node f (n_id a) with
                              | Some (gi, _) => match owner (S (List.length f)) f gi with Some _ => false | None => true end
                              | None => true
                              end
                    end) (all_nodes f).

Definition stateful_count (f : forest) : N := N.of_nat (List.length (filter g_state f)).

Definition labels (l : list item) : list lbl :=
  flat_map (fun it => match it with IEv e => [(e_run e, e_node e, e_kind e)] | _ => [] end) l.

(* (object index, (run, owning graph, epoch)) of every event; epoch = number of resumes of
   that run logged before it *)
Fixpoint obj_keys (f : forest) (ep : list (N * N)) (l : list item) : list (N * (N * N * N)) :=
  match l with
  | [] => []
  | IEv e :: l' =>
      let og := match find_node f (e_node e) with
                | Some (gi, _) => match owner (S (List.length f)) f gi with Some g => N.of_nat g | None => 9999 end
                | None => 9999
                end in
      let epoch := match nlist_get (e_run e) ep with Some k => k | None => 0 end in
      (e_obj e, (e_run e, og, epoch)) :: obj_keys f ep l'
  | IResume r _ _ :: l' =>
      let k := match nlist_get r ep with Some k => k | None => 0 end in
      obj_keys f (nlist_set r (k + 1) ep) l'
  end.

Definition key_eqb (a b : N * N * N) : bool :=
  N.eqb (fst (fst a)) (fst (fst b)) && N.eqb (snd (fst a)) (snd (fst b)) && N.eqb (snd a) (snd b).

(* same pointer <-> same (run, owning graph, epoch): every run and every stateful graph has
   its own object, a graph without state shares its parent's, resume makes a new one *)
Definition partition_ok (ks : list (N * (N * N * N))) : bool :=
  forallb (fun a => forallb (fun b => Bool.eqb (N.eqb (fst a) (fst b)) (key_eqb (snd a) (snd b))) ks) ks.

Definition epochs_of (l : list item) (r : N) : N :=
  N.of_nat (List.length (filter (fun it => match it with IResume r' _ _ => N.eqb r r' | _ => false end) l)).

Definition count_run (l : list item) (r : N) : nat :=
  List.length (filter (fun it => match it with IEv e => N.eqb (e_run e) r | _ => false end) l).

Definition check (c : ccase) : N :=     (* 0 = agree, otherwise the first check that failed *)
  let f := c_forest c in
  if build_err f then (if c_builderr c then 0 else 20)
  else if c_builderr c then 21 else
  match spec_run f (c_x0 c) (mkSp [] []) (c_log c) with
  | VBad w => 100 + w
  | VOk st =>
    if negb (order_ok f (labels (c_log c))) then 30 else
    let ks := obj_keys f [] (c_log c) in
    if negb (partition_ok ks) then 31 else
    (* final value of every last-epoch object = fold of the logged effects *)
    if negb (forallb (fun os =>
          match nlist_get (fst os) ks with
          | None => true
          | Some (r, og, ep) =>
              if N.eqb ep (epochs_of (c_log c) r) then
                match obj_get r (N.to_nat og) (sp_objs st) with
                | Some s => s_eqb s (snd os)
                | None => false
                end
              else true
          end) (c_finals c)) then 32 else
    (* results *)
    if negb (forallb (fun ro =>
          match snd ro with
          | OErr => must_fail f
          | OVal x => negb (must_fail f) &&
                      match spec_result f (c_x0 c) st (fst ro) with
                      | Some y => x_eqb x y
                      | None => false
                      end
                      && Nat.eqb (count_run (c_log c) (fst ro)) (cs_count f)
          end) (c_results c)) then 33 else
    if negb (N.eqb (N.of_nat (List.length (c_results c))) (c_runs c)) then 34 else
    (* generator calls = runs x stateful graphs (complete runs) *)
    if negb (must_fail f) && negb (N.eqb (c_gens c) (c_runs c * stateful_count f)) then 35
    else 0
  end.

Definition bad (c : ccase) : bool := negb (N.eqb (check c) 0).
Definition mismatches (cs : list ccase) : list nat := mismatches_from bad 0 cs.
