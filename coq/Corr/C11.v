(* Corr/C11.v — comparison used by the generated cases_C11_*.v files.
   A case = the program (forest), the input, the number of runs, and what the harness
   observed through the public API: the global acquisition-ordered log of critical
   sections (with the identity of the state object each one was handed, the values that
   went in and out, the counter it saw), resume markers, the final value of every state
   object, the result of every run and the number of generator calls.
   The model side: (a) Model/StateLockDrive.v — the transition system of
   Model/StateLockLTS.v (the object of the theorems of Props/C11.v) must be able to perform
   the observed log, and what it computes must be what was observed; (b) Model/StateLock.v
   part 2 (spec_run, order_ok), an independent deterministic replay of the same log. *)
From Eino Require Import Base.Util Model.StateLock Model.StateLockLTS Model.StateLockDrive Model.StateLockType.
Open Scope N_scope.

Inductive outcome := OVal (x : X) | OErr.

Record ccase := mkCase {
  c_forest : forest;
  c_gty : list N;                       (* per graph: which of the two state types it declares *)
  c_nty : list (N * (N * (N * N)));     (* per node: state type its pre-handler / post-handler /
                                           ProcessState calls are written for *)
  c_failing : bool;                     (* the user function of some critical section returns an
                                           error (after updating the state): the run must fail *)
  c_x0 : X;
  c_runs : N;
  c_builderr : bool;                    (* AddNode / Compile refused the program *)
  c_log : list item;
  c_finals : list (N * sstate);         (* object index -> value after all runs *)
  c_results : list (N * outcome);       (* run -> outcome *)
  c_gens : N;
  c_modruns : list N }.                 (* the runs whose resumes were called with a state modifier *)

Definition all_nodes (f : forest) : list node := List.concat (map g_nodes f).

(* [build_err_t] (AddNode / Compile refuses the program), [must_fail_t] (a ProcessState call finds
   no state of its type: the run fails), [nest_ok], [lookup_ok]: Model/StateLockType.v — the
   hypotheses and the conclusion of state_lookup_well_typed *)

(* the caller's modifier is applied exactly once to every state a checkpoint holds (and to
   nothing when the run was resumed without one - with several runs only some are called with a
   modifier): the [m] of every resume step is the caller's *)
Definition mods_ok (modruns : list N) (l : list item) : bool :=
  forallb (fun it => match it with
                     | IResume r mods snaps =>
                         if existsb (N.eqb r) modruns then l_eqb Nat.eqb mods (sort_by Nat.ltb (map fst snaps))
                         else match mods with [] => true | _ => false end
                     | _ => true
                     end) l.

Definition stateful_count (f : forest) : N := N.of_nat (List.length (filter g_state f)).

Definition labels (l : list item) : list lbl :=
  flat_map (fun it => match it with IEv e => [(e_run e, e_node e, e_kind e)] | _ => [] end) l.

(* (object index, (run, owning graph, epoch)) of every event; epoch = number of resumes of
   that run logged before it *)
Fixpoint obj_keys (f : forest) (ep : list (N * N)) (l : list item) : list (N * (N * N * N)) :=
  match l with
  | [] => []
  | IEv e :: l' =>
      let og := match find_node f (e_node e) with
                | Some (gi, _) => match owner (S (List.length f)) f gi with Some g => N.of_nat g | None => 9999 end
                | None => 9999
                end in
      let epoch := match nlist_get (e_run e) ep with Some k => k | None => 0 end in
      (e_obj e, (e_run e, og, epoch)) :: obj_keys f ep l'
  | IResume r _ _ :: l' =>
      let k := match nlist_get r ep with Some k => k | None => 0 end in
      obj_keys f (nlist_set r (k + 1) ep) l'
  end.

Definition key_eqb (a b : N * N * N) : bool :=
  N.eqb (fst (fst a)) (fst (fst b)) && N.eqb (snd (fst a)) (snd (fst b)) && N.eqb (snd a) (snd b).

(* same pointer <-> same (run, owning graph, epoch): every run and every stateful graph has
   its own object, a graph without state shares its parent's, resume makes a new one *)
Definition partition_ok (ks : list (N * (N * N * N))) : bool :=
  forallb (fun a => forallb (fun b => Bool.eqb (N.eqb (fst a) (fst b)) (key_eqb (snd a) (snd b))) ks) ks.

Definition epochs_of (l : list item) (r : N) : N :=
  N.of_nat (List.length (filter (fun it => match it with IResume r' _ _ => N.eqb r r' | _ => false end) l)).

Definition count_run (l : list item) (r : N) : nat :=
  List.length (filter (fun it => match it with IEv e => N.eqb (e_run e) r | _ => false end) l).

(* (a) the transition system replays the log. 0 = agree; 200+w: [drive] failed with code w;
   210 number of sections, 211 a section differs (run, node, kind, value in, value out, state
   seen), 212 object identities, 213 final value of an object, 214 result of a run,
   215 generator calls, 216/217 conclusions of the theorems evaluated on the configuration,
   218 the program is not well formed (hypothesis of nested_between), 219/220 conclusions of
   acquisition_order / the generator-call clause evaluated, 221 the forest is not a tree of
   nested graphs (hypothesis of state_lookup_well_typed), 222 its conclusion evaluated: some
   instance does not see the object made by the generator of the nearest enclosing graph that
   declares state, 223 the state modifier was not applied exactly once to every checkpointed
   state, 224 conclusion of one_run_per_object evaluated *)
Definition check_lts (c : ccase) : N :=
  let f := c_forest c in
  match drive f (c_x0 c) (c_runs c) (c_log c) with
  | DBad w => 200 + w
  | DOk g =>
    let evs := events_of (c_log c) in
    if negb (Nat.eqb (List.length (c_trace g)) (List.length evs)) then 210 else
    if negb (all2 (entry_matches g) (c_trace g) evs) then 211 else
    let ps := obj_pairs g (c_log c) in
    if negb (bijective ps) then 212 else
    if negb (forallb (fun os => match pair_get (fst os) ps with
                                | None => false
                                | Some o => match nth_error (c_objs g) o with
                                            | Some r => s_eqb (o_val r) (snd os)
                                            | None => false
                                            end
                                end) (c_finals c)) then 213 else
    if negb (forallb (fun ro => match snd ro with
                                | OErr => true
                                | OVal x => match find_inst sstate X g (fst ro) 0 with
                                            | Some i => match inst_result sstate X merge f g i with
                                                        | Some y => x_eqb x y
                                                        | None => false
                                                        end
                                            | None => false
                                            end
                                end) (c_results c)) then 214 else
    if negb ((c_failing c || must_fail_t f (c_gty c) (c_nty c))) && negb (N.eqb (N.of_nat (List.length (StateLockLTS.c_gens g))) (c_gens c)) then 215 else
    if negb (fold_ok g) then 216 else
    if negb (order_done_ok f g) then 217 else
    if negb (topo_ok f) then 218 else     (* hypothesis of nested_between *)
    if negb (acq_ok g) then 219 else
    if negb (gens_ok g) then 220 else
    if negb (nest_ok f) then 221 else
    if negb (lookup_ok f g) then 222 else
    if negb (c_failing c || must_fail_t f (c_gty c) (c_nty c)) && negb (mods_ok (c_modruns c) (c_log c)) then 223 else
    if negb (run_iso_ok g) then 224 else 0
  end.

Definition check_spec (c : ccase) : N :=     (* 0 = agree, otherwise the first check that failed *)
  let f := c_forest c in
  match spec_run f (c_x0 c) (mkSp [] []) (c_log c) with
  | VBad w => 100 + w
  | VOk st =>
    if negb (order_ok f (labels (c_log c))) then 30 else
    let ks := obj_keys f [] (c_log c) in
    if negb (partition_ok ks) then 31 else
    (* final value of every last-epoch object = fold of the logged effects *)
    if negb (forallb (fun os =>
          match nlist_get (fst os) ks with
          | None => true
          | Some (r, og, ep) =>
              if N.eqb ep (epochs_of (c_log c) r) then
                match obj_get r (N.to_nat og) (sp_objs st) with
                | Some s => s_eqb s (snd os)
                | None => false
                end
              else true
          end) (c_finals c)) then 32 else
    (* results *)
    if negb (forallb (fun ro =>
          match snd ro with
          | OErr => (c_failing c || must_fail_t f (c_gty c) (c_nty c))
          | OVal x => negb ((c_failing c || must_fail_t f (c_gty c) (c_nty c))) &&
                      match spec_result f (c_x0 c) st (fst ro) with
                      | Some y => x_eqb x y
                      | None => false
                      end
                      && Nat.eqb (count_run (c_log c) (fst ro)) (cs_count f)
          end) (c_results c)) then 33 else
    if negb (N.eqb (N.of_nat (List.length (c_results c))) (c_runs c)) then 34 else
    (* generator calls = runs x stateful graphs (complete runs) *)
    if negb ((c_failing c || must_fail_t f (c_gty c) (c_nty c))) && negb (N.eqb (c_gens c) (c_runs c * stateful_count f)) then 35
    else 0
  end.

Definition check (c : ccase) : N :=
  let f := c_forest c in
  if build_err_t f (c_gty c) (c_nty c) then (if c_builderr c then 0 else 20)
  else if c_builderr c then 21 else
  match check_lts c with
  | 0 => check_spec c
  | w => w
  end.

Definition bad (c : ccase) : bool := negb (N.eqb (check c) 0).
Definition mismatches (cs : list ccase) : list nat := mismatches_from bad 0 cs.
