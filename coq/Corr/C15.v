(* Corr/C15.v — comparison used by the generated cases_C15_*.v files.

   A case is a Workflow[int, T] whose END node receives one AddInput per declaration:
   declaration i has a lambda predecessor of output type [d_ty] producing [src_i]
   (Invoke) resp. the chunk list [chunks_i] (Stream), and the field mappings [d_maps];
   [c_statics] are the static values set on END (SetStaticValue).
   The struct environment and the table of promoted fields (embedded structs) are generated
   by the harness from the Go declarations (reflect) and defined in the header of the cases
   file.  The paths of a case are spelled as they were declared (promoted fields under their
   short names); the model elaborates them (Model/FieldMapPromote.v: [expand]) and everything
   below works on the elaborated declarations [x_decls] / [x_statics] / [x_unit].

   Observed (canonicalised by the harness):
     compile : accepted | overlap error | static (type) error | any other error
     invoke  : not run | value | error | panic          (5 repetitions agreed)
     more    : second request on the same compiled runnables, with other source values
     stream  : not run | chunk values | error | panic   (chunks compared as a multiset: the
                                                         fan-in merge interleaves arbitrarily)
   Error messages are never compared. *)
From Eino Require Import Base.Util Base.FMUniverse Model.FieldMap Model.FieldMapOwn Model.FieldMapPromote Model.FieldMapClean.

Inductive cobs : Type := OAccept | OOverlap | OStatic | OOther.
Inductive robs : Type := RNone | RVal (v : val) | RErr | RPanic.
Inductive sobs : Type := SNone | SVals (vs : list val) | SErr | SPanic.

Record ccase : Type := MkCase {
  c_env : senv;
  c_penv : penv;
  c_T : ty;
  r_decls : list decl;          (* as declared *)
  r_statics : statics;
  c_srcs : list val;
  c_chunks : list (list val);
  o_compile : cobs;
  o_invoke : robs;
  o_stream : sobs;
  o_srcmod : bool;     (* a predecessor's output / a static value differed from its pristine twin after a run *)
  (* unit case (c_unit non-empty, no declarations): convertTo called directly (verif hook) on the
     map c_unit, 16 times on fresh copies; o_unit = the distinct (result, "a mapped value was
     modified") observed.  Overlapping keys are allowed here: the outcome then depends on Go's
     map iteration order, and must be the model's outcome for SOME order of the keys. *)
  r_unit : fmap;
  o_unit : list (robs * bool);
  (* further requests served by the SAME compiled runnables (one for Invoke, one for Stream), after the
     first: the predecessors' values, the chunks they stream, what Invoke / Stream gave.  What a request
     yields is a function of that request's inputs alone ("identically on every run"): each is compared
     with the model exactly like the first. *)
  c_more : list (list val * list (list val) * robs * sobs)
}.

(* the elaborated case: promoted field names spelled out (canonicalTargetPath / FieldByName) *)
Definition c_decls (c : ccase) : list decl := expand_decls (c_env c) (c_penv c) (c_T c) (r_decls c).
Definition c_statics (c : ccase) : statics := expand_keys (c_env c) (c_penv c) (c_T c) (r_statics c).
Definition c_unit (c : ccase) : fmap := expand_keys (c_env c) (c_penv c) (c_T c) (r_unit c).

Definition D (t : ty) (ms : list mapping) : decl := {| d_ty := t; d_maps := ms |}.

Definition cobs_eqb (a b : cobs) : bool :=
  match a, b with
  | OAccept, OAccept | OOverlap, OOverlap | OStatic, OStatic | OOther, OOther => true
  | _, _ => false
  end.

Definition cobs_of (r : cres) : cobs :=
  match r with CAccept _ => OAccept | CErrOverlap => OOverlap | CErrStatic => OStatic end.

(* multiset equality of value lists up to [veq] *)
Fixpoint remove_first (env : senv) (v : val) (l : list val) : option (list val) :=
  match l with
  | [] => None
  | x :: l' => if veq env v x then Some l'
               else match remove_first env v l' with Some r => Some (x :: r) | None => None end
  end.
Fixpoint perm_eqb (env : senv) (a b : list val) : bool :=
  match a with
  | [] => match b with [] => true | _ => false end
  | x :: a' => match remove_first env x b with Some b' => perm_eqb env a' b' | None => false end
  end.

Definition robs_match (env : senv) (m : res val) (o : robs) : bool :=
  match o, m with
  | RNone, _ => true
  | RVal v, Ok w => veq env v w
  | RErr, Err _ => true
  | RPanic, Panic => true
  | _, _ => false
  end.

Definition sobs_match (env : senv) (m : res (list val)) (o : sobs) : bool :=
  match o, m with
  | SNone, _ => true
  | SVals vs, Ok ws => perm_eqb env vs ws
  | SErr, Err _ => true
  | SPanic, Panic => true
  | _, _ => false
  end.

(* ------------------------------------------------------------------------------------
   The clauses of the theorems of Props/C15.v, evaluated on what the IMPLEMENTATION returned
   (not on the model's result): hypotheses (sources are values of their declared types) and
   conclusions (mapped paths read back the source values, unmapped paths read zero). They
   use the very definitions the theorems are stated with. *)

Fixpoint forallb2 {A B} (f : A -> B -> bool) (l : list A) (l' : list B) : bool :=
  match l, l' with
  | [], [] => true
  | a :: l1, b :: l2 => f a b && forallb2 f l1 l2
  | _, _ => false
  end.

(* hypothesis of mapped_get_put / runtime_check_errors / stream_*: typed sources *)
Definition typed_sources (c : ccase) : bool :=
  forallb2 (fun d s => has_type (c_env c) (d_ty d) s) (c_decls c) (c_srcs c) &&
  forallb2 (fun d cs => forallb (has_type (c_env c) (d_ty d)) cs) (c_decls c) (c_chunks c).

(* the static values read back *)
Definition static_clause (env : senv) (T : ty) (ss : statics) (v : val) : bool :=
  forallb (fun kx => let '(to, x) := kx in
    match extract_ty env T to with
    | SOk st _ => match take_path env v to with Ok y => veq env y (conv st x) | _ => false end
    | _ => false
    end) ss.

(* first conclusion of mapped_get_put on the observed Invoke value *)
Definition get_clause (env : senv) (T : ty) (ds : list decl) (srcs : list val) (v : val) : bool :=
  forallb (fun ds => let '(d, s) := ds in
    forallb (fun mp => let '(from, to) := mp in
      match take_path env s from, extract_ty env T to with
      | Ok x, SOk st _ =>
          match take_path env v to with Ok y => veq env y (conv st x) | _ => false end
      | _, _ => false
      end) (d_maps d)) (combine ds srcs).

(* probe paths: every static path of T up to three steps, map / interface slots probed with
   the symbols that occur in the target paths *)
Fixpoint probes (fuel : nat) (env : senv) (syms : list N) (t : ty) : list path :=
  match fuel with
  | O => []
  | S fuel' =>
      let below f t' := [f] :: map (cons f) (probes fuel' env syms t') in
      match t with
      | TMap true e => flat_map (fun k => below k e) syms
      | TAny => flat_map (fun k => below k TAny) syms
      | _ =>
          match deref1 t with
          | TStruct n =>
              match nlist_get n env with
              | Some fs => flat_map (fun fd => let '(f, (ex, ft)) := fd in if ex : bool then below f ft else []) fs
              | None => []
              end
          | _ => []
          end
      end
  end.

(* the slots next to a target path, at any depth: at every step of the walk along [p], every
   path of up to two steps from the struct / map / interface slot the walk is in *)
Fixpoint probes_along (env : senv) (syms : list N) (t : ty) (pre p : path) : list path :=
  match p with
  | [] => []
  | f :: rest =>
      let here := map (fun q => pre ++ q) (probes 2 env syms t) in
      let next := match t with
                  | TMap true e => Some e
                  | TAny => Some TAny
                  | _ => match deref1 t with
                         | TStruct n => match lookup_field env n f with Some (_, ft) => Some ft | None => None end
                         | _ => None
                         end
                  end in
      here ++ match next with Some t' => probes_along env syms t' (pre ++ [f]) rest | None => [] end
  end.

Fixpoint dedupN (l : list N) : list N :=
  match l with
  | [] => []
  | x :: l' => if existsb (N.eqb x) l' then dedupN l' else x :: dedupN l'
  end.

(* second conclusion of mapped_get_put / assign_get_put on an observed value: a probe path
   that overlaps no target path reads as the zero value of its static type (or not at all).
   Probes: every static path up to three steps, and the neighbourhood (two steps) of every
   prefix of every target path, whatever its depth *)
Definition zero_clause (env : senv) (T : ty) (targets : list path) (v : val) : bool :=
  forallb (fun q =>
    if existsb (conflict q) targets then true
    else match take_path env v q with
         | Ok z => match extract_ty env T q with SOk st _ => veq env z (zero st) | _ => false end
         | _ => true
         end) (let syms := dedupN (List.concat targets) in
               probes 3 env syms T ++ flat_map (probes_along env syms T []) targets).

(* conclusion of stream_partition on the observed Invoke value and the observed chunks (one chunk
   per predecessor): every target slot that is not zero in the Invoke value is carried by exactly
   one chunk, which reads the same value there; a slot that is zero is zero in every chunk *)
Definition partition_clause (env : senv) (T : ty) (targets : list path) (v : val) (vs : list val) : bool :=
  forallb (fun to =>
    match extract_ty env T to, take_path env v to with
    | SOk st _, Ok y =>
        let nz := filter (fun c => match take_path env c to with Ok z => negb (veq env z (zero st)) | _ => false end) vs in
        if veq env y (zero st) then match nz with [] => true | _ => false end
        else match nz with
             | [c] => match take_path env c to with Ok z => veq env z y | _ => false end
             | _ => false
             end
    | _, _ => false
    end) targets.

Definition single_chunks (c : ccase) : bool := forallb (fun cs => match cs with [_] => true | _ => false end) (c_chunks c).

Definition clauses (c : ccase) : bool :=
  typed_sources c &&
  if has_plain (c_decls c) then true else
  let targets := all_targets (c_decls c) ++ map fst (c_statics c) in
  match o_invoke c with
  | RVal v => get_clause (c_env c) (c_T c) (c_decls c) (c_srcs c) v && static_clause (c_env c) (c_T c) (c_statics c) v
              && zero_clause (c_env c) (c_T c) targets v
              (* ... and exhaustively: the observed value differs from zero only along the target paths
                 (Model/FieldMapClean.v; by clean_b_read_zero EVERY path that overlaps no target reads zero) *)
              && clean_b 64 (c_env c) (c_T c) v targets
  | _ => true
  end &&
  match o_stream c with
  | SVals vs => forallb (zero_clause (c_env c) (c_T c) targets) vs &&
                match o_invoke c with
                | RVal v => if single_chunks c then partition_clause (c_env c) (c_T c) targets v vs else true
                | _ => true
                end
  | _ => true
  end.

(* the write report of the instrumented runs (theorem source_unmodified) against what was
   observed; the instrumented runs themselves are compared with the observed values below *)
Definition flag_of {A} (r : res (A * bool)) : bool := match r with Ok (_, fl) => fl | _ => false end.

Fixpoint insert_everywhere {A} (a : A) (l : list A) : list (list A) :=
  match l with
  | [] => [[a]]
  | b :: l' => (a :: l) :: map (cons b) (insert_everywhere a l')
  end.
Fixpoint perms {A} (l : list A) : list (list A) :=
  match l with
  | [] => [[]]
  | a :: l' => flat_map (insert_everywhere a) (perms l')
  end.

Definition unit_good (c : ccase) : bool :=
  let outcomes := map (convert_flag (c_env c) (c_T c)) (perms (c_unit c)) in
  forallb (fun ob => let '(o, sm) := ob in
    existsb (fun r =>
      match o, r with
      | RVal v, Ok (w, fl) => veq (c_env c) v w && Bool.eqb fl sm
      | RPanic, Panic => true          (* what was written before the panic is not compared *)
      | _, _ => false
      end) outcomes) (o_unit c)
  && match o_unit c with [] => false | _ => true end.

Definition wf_good (c : ccase) : bool :=
  let r := compile_s (c_env c) (c_T c) (c_decls c) (c_statics c) in
  cobs_eqb (cobs_of r) (o_compile c) &&
  match r with
  | CAccept ckss =>
      robs_match (c_env c) (run_invoke_s (c_env c) (c_T c) (c_decls c) (c_statics c) ckss (c_srcs c)) (o_invoke c)
      && sobs_match (c_env c) (run_stream_s (c_env c) (c_T c) (c_decls c) (c_statics c) ckss (c_chunks c)) (o_stream c)
      && clauses c
      && forallb (fun rq => let '(srcs, chunks, oi, os) := rq in
           forallb2 (fun d s => has_type (c_env c) (d_ty d) s) (c_decls c) srcs
           && forallb2 (fun d cs => forallb (has_type (c_env c) (d_ty d)) cs) (c_decls c) chunks
           && robs_match (c_env c) (run_invoke_s (c_env c) (c_T c) (c_decls c) (c_statics c) ckss srcs) oi
           && sobs_match (c_env c) (run_stream_s (c_env c) (c_T c) (c_decls c) (c_statics c) ckss chunks) os
           && (if has_plain (c_decls c) then true else
               let targets := all_targets (c_decls c) ++ map fst (c_statics c) in
               match oi with
               | RVal v => get_clause (c_env c) (c_T c) (c_decls c) srcs v
                           && static_clause (c_env c) (c_T c) (c_statics c) v
                           && zero_clause (c_env c) (c_T c) targets v
                           && clean_b 64 (c_env c) (c_T c) v targets
               | _ => true
               end)) (c_more c)
      && (if has_plain (c_decls c) then negb (o_srcmod c) else
          let ri := run_invoke_w (c_env c) (c_T c) (c_decls c) (c_statics c) ckss (c_srcs c) in
          let rs := run_stream_w (c_env c) (c_T c) (c_decls c) (c_statics c) ckss (c_chunks c) in
          robs_match (c_env c) (res_map fst ri) (o_invoke c)
          && sobs_match (c_env c) (res_map fst rs) (o_stream c)
          && Bool.eqb (flag_of ri || flag_of rs) (o_srcmod c))
  | _ =>
      match o_invoke c, o_stream c with RNone, SNone => true | _, _ => false end
  end.

(* compile_x / run_invoke_x / run_stream_x / convert_to_x of Model/FieldMapPromote.v are, by
   definition, the core functions on the elaborated case used above *)
Definition good (c : ccase) : bool :=
  penv_wf (c_env c) (c_penv c) &&
  match r_unit c with [] => wf_good c | _ => unit_good c end.

Definition bad (c : ccase) : bool := negb (good c).
Definition mismatches (cs : list ccase) : list nat := mismatches_from bad 0 cs.
