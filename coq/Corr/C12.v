(* Corr/C12.v — comparison used by the generated cases_C12_*.v files.
   A case is (extra registry entries, struct environment, claimed well-typedness, value,
   observation).  The observation is what Marshal followed by Unmarshal did on the real
   code: the decoded value (rendered by the same printer as the input), an encoder error,
   a decoder error or a panic.  Error messages are not compared (class only). *)
From Coq Require Import String.
From Eino Require Import Base.Util Base.Universe Model.Ser Model.SerCheckpoint Model.SerStore Model.SerCanon Model.SerStream.

Inductive obs : Type := OOk (v : val) | OEncErr | ODecErr | OPanic.

Inductive ccase : Type :=
| Case (regx : registry) (env : senv) (wtc : bool) (v : val) (o : obs)
| Probe (regx : registry) (k : string) (t : ty) (refused : bool)    (* a registration attempt *)
(* a pending input that is a stream of the given chunks (of a node of output type any) taken through
   convertCheckPoint, the store and restoreCheckPoint; resumed with streams or without.  Observed:
   what the checkpoint held (0 nil, 1 the marker nilChunk, 2 a value) and what the successor is
   handed (the chunks of the restored stream; without streams the one value) *)
| Conv (s : list chunk) (resume_stream : bool) (held : N) (handed : list chunk)
(* the same for a run without streams interrupted while the value c is the pending input *)
| ConvV (c : chunk) (resume_stream : bool) (held : N) (handed : list chunk).

Definition run_with (fx : fixes) (regx : registry) (env : senv) (v : val) : obs :=
  let reg := (builtin_registry ++ regx)%list in
  match enc_c fx reg v with
  | Err _ => OEncErr
  | Panic => OPanic
  | Ok oi =>
      match dec_c fx reg env oi with
      | Err _ => ODecErr
      | Panic => OPanic
      | Ok v' => OOk v'
      end
  end.
(* a *checkpoint goes through checkPointer.set / get and a store that already holds an
   earlier checkpoint under the same id and then receives another one under another id
   (Model/SerStore.v); the harness does the same with the real checkPointer *)
Definition run_store (regx : registry) (env : senv) (v : val) : obs :=
  let reg := (builtin_registry ++ regx)%list in
  match enc_c fixed reg v with
  | Err _ => OEncErr
  | Panic => OPanic
  | Ok _ =>
      match store_scenario_c reg env v with
      | Ok (Some v') => OOk v'
      | Ok None => ODecErr
      | Err _ => ODecErr
      | Panic => OPanic
      end
  end.
Definition run_case (regx : registry) (env : senv) (v : val) : obs :=
  if ty_eqb (ty_of v) t_checkpoint_ptr then run_store regx env v else run_with fixed regx env v.

Definition obs_eqb (a b : obs) : bool :=
  match a, b with
  | OOk v, OOk w => val_equivb v w     (* Model/SerCanon.v: equal up to nil ~ empty container *)
  | OEncErr, OEncErr => true
  | ODecErr, ODecErr => true
  | OPanic, OPanic => true
  | _, _ => false
  end.

(* a case is bad if the model predicts another observation, or if the harness and the
   model disagree on whether the value belongs to the typed universe of the theorems *)
Definition held_class (st : stored) : N :=
  match st with SNil => 0 | SNilChunk => 1 | SVal _ => 2 end%N.
Definition chunk_eqb (a b : chunk) : bool := opt_eqb val_equivb a b.
Definition conv_bad (s : list chunk) (rs : bool) (held : N) (handed : list chunk) : bool :=
  match convert concat_c true s with
  | Ok st =>
      negb (N.eqb (held_class st) held)
      || negb (list_eqb chunk_eqb (if rs then restore_stream st else [restore_value st]) handed)
  | _ => true
  end.

Definition convv_bad (c : chunk) (rs : bool) (held : N) (handed : list chunk) : bool :=
  let st := convert_value true c in
  negb (N.eqb (held_class st) held)
  || negb (list_eqb chunk_eqb (if rs then restore_stream st else [restore_value st]) handed).

Definition bad (c : ccase) : bool :=
  match c with
  | Case regx env wtc v o =>
      negb (obs_eqb (run_case regx env v) o) || negb (Bool.eqb (wt env v) wtc)
  | Probe regx k t refused =>
      negb (Bool.eqb (negb (is_ok (register (builtin_registry ++ regx)%list k t))) refused)
  | Conv s rs held handed => conv_bad s rs held handed
  | ConvV c rs held handed => convv_bad c rs held handed
  end.
Definition mismatches (cs : list ccase) : list nat := mismatches_from bad 0 cs.
