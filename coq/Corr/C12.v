(* Corr/C12.v — comparison used by the generated cases_C12_*.v files.
   A case is (extra registry entries, struct environment, claimed well-typedness, value,
   observation).  The observation is what Marshal followed by Unmarshal did on the real
   code: the decoded value (rendered by the same printer as the input), an encoder error,
   a decoder error or a panic.  Error messages are not compared (class only). *)
From Coq Require Import String.
From Eino Require Import Base.Util Base.Universe Model.Ser Model.SerCheckpoint Model.SerStore Model.SerCanon.

Inductive obs : Type := OOk (v : val) | OEncErr | ODecErr | OPanic.

Inductive ccase : Type :=
| Case (regx : registry) (env : senv) (wtc : bool) (v : val) (o : obs)
| Probe (regx : registry) (k : string) (t : ty) (refused : bool).   (* a registration attempt *)

Definition run_with (fx : fixes) (regx : registry) (env : senv) (v : val) : obs :=
  let reg := (builtin_registry ++ regx)%list in
  match enc_c fx reg v with
  | Err _ => OEncErr
  | Panic => OPanic
  | Ok oi =>
      match dec_c fx reg env oi with
      | Err _ => ODecErr
      | Panic => OPanic
      | Ok v' => OOk v'
      end
  end.
(* a *checkpoint goes through checkPointer.set / get and a store that already holds an
   earlier checkpoint under the same id and then receives another one under another id
   (Model/SerStore.v); the harness does the same with the real checkPointer *)
Definition run_store (regx : registry) (env : senv) (v : val) : obs :=
  let reg := (builtin_registry ++ regx)%list in
  match enc_c fixed reg v with
  | Err _ => OEncErr
  | Panic => OPanic
  | Ok _ =>
      match store_scenario_c reg env v with
      | Ok (Some v') => OOk v'
      | Ok None => ODecErr
      | Err _ => ODecErr
      | Panic => OPanic
      end
  end.
Definition run_case (regx : registry) (env : senv) (v : val) : obs :=
  if ty_eqb (ty_of v) t_checkpoint_ptr then run_store regx env v else run_with fixed regx env v.

Definition obs_eqb (a b : obs) : bool :=
  match a, b with
  | OOk v, OOk w => val_equivb v w     (* Model/SerCanon.v: equal up to nil ~ empty container *)
  | OEncErr, OEncErr => true
  | ODecErr, ODecErr => true
  | OPanic, OPanic => true
  | _, _ => false
  end.

(* a case is bad if the model predicts another observation, or if the harness and the
   model disagree on whether the value belongs to the typed universe of the theorems *)
Definition bad (c : ccase) : bool :=
  match c with
  | Case regx env wtc v o =>
      negb (obs_eqb (run_case regx env v) o) || negb (Bool.eqb (wt env v) wtc)
  | Probe regx k t refused =>
      negb (Bool.eqb (negb (is_ok (register (builtin_registry ++ regx)%list k t))) refused)
  end.
Definition mismatches (cs : list ccase) : list nat := mismatches_from bad 0 cs.
