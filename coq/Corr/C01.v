(* Corr/C01.v — correspondence for C01 (Pregel superstep semantics, chains).
   A case is a forest of graph definitions (root = entry 0; a Graph in any-predecessor mode or a Chain,
   sub-graphs of every kind), an input, a node-failure table and the observation of the real run.
   (1) engine: the observation is compared with a run of the engine model on the lowered forest
       (Model/GraphCmp.v, shared with C02 and later engines);
   (2) chain meaning: when the root is a Chain, the same observation is also compared, in the same way, with
       the sequential meaning of the chain ([eval_chain], Model/ChainSpec.v) — which never builds a graph.
       Props/C01.v (chain_lowering_correct) proves (1) = (2) for well-formed chains; evaluating both ties the
       specification itself, not only the lowered graph, to the implementation. *)
From Eino Require Import Base.Util Model.Graph Model.Chain Model.ChainSpec Model.ChainCompile Model.PregelOpts Model.PregelHyps Model.GraphCmp Model.RunLimitTable.

(* cc_entry: the public entry point the root was called through: 0 = Invoke, 1 = Stream (output chunks
   concatenated), 2 = Transform (input cut into one chunk per top-level key, output concatenated), 3 = Collect
   (the same input stream, the result is a value).
   The superstep rule does not depend on the paradigm, so the observation of every entry point is compared
   with the same model run. *)
(* cc_rtmax: the call option WithRuntimeMaxSteps n given to the root (0 = none): the model applies it to the
   forest ([with_rtmax], Model/PregelOpts.v: the root's limit is replaced, nested graphs keep theirs). *)
Record ccase := { cc_case : gcase; cc_entry : N; cc_rtmax : nat }.

(* round 5: the harness hands over ALL the WithRuntimeMaxSteps options of the call, in order (several options and
   non-positive ones are legal); which of them counts is decided here by [last_positive] of Model/RunLimitTable.v —
   the function that Proofs/GenAgreeRunLimit.v proves equal to the statements of runner.run regenerated from the
   source on every run ([gen_run_max_steps_agrees], [runtime_limits_are_gen]). *)
Definition mk_ccase (c : gcase) (entry : N) (rtopts : list nat) : ccase :=
  {| cc_case := c; cc_entry := entry; cc_rtmax := last_positive rtopts 0 |}.

Definition eff (c : ccase) : gcase :=
  {| gc_forest := with_rtmax (cc_rtmax c) (gc_forest (cc_case c)); gc_input := gc_input (cc_case c);
     gc_fails := gc_fails (cc_case c); gc_obs := gc_obs (cc_case c) |}.

(* sub-graph nodes of a chain run the nested engine, exactly as [run] does for a lowered root *)
Definition spec_sub (fails : list fail_entry) (F : forest) : nat -> path -> value -> unit -> outcome value * unit :=
  fun i p' v s' => match nth_error F i with
                   | Some g' => run_nest value unit tree_ops (tree_exec fails) sched_first (List.length F) F p' g' v s'
                   | None => (Fail [mkerr eUnknownNode] [], s')
                   end.

Definition chain_spec_ok (c : gcase) : bool :=
  match gc_forest c with
  | GChain sts max :: _ =>
    let F := lower_forest (gc_forest c) in
    match F with
    | [] => false
    | g :: _ =>
      let o := fst (eval_chain value unit tree_ops (tree_exec (gc_fails c)) (spec_sub (gc_fails c) F)
                               [] sts max (gc_input c) tt) in
      class_ok o (o_class (gc_obs c))
      && (if strict_log F o then log_ok F g (outcome_log value o) (o_log (gc_obs c))
          else weak_log_ok F g (o_log (gc_obs c)))
    end
  | _ => true
  end.

(* a stream fan-in has no duplicated-key check (finding F-C04 of property C04: the value form fails, the stream
   form concatenates): runs whose model outcome is that failure are not compared in the stream entries *)
Definition dup_class (e : err) : bool := N.eqb (e_class e) eDupKey || N.eqb (e_class e) eMergeType.
Definition stream_incomparable (c : gcase) : bool :=
  match model_run c with Fail es _ => existsb dup_class es | Done _ _ => false end.

(* (3) Chain.Compile accepts the forest iff every chain of it satisfies [chain_compiles] (Model/ChainCompile.v;
   Props/C01.v chain_compiles_wf: an accepted chain satisfies the hypothesis of chain_lowering_correct).
   1/10 of the cases with a chain break one construction rule on purpose. *)
Definition compile_agrees (c : gcase) : bool :=
  match o_class (gc_obs c) with
  | OCompile => negb (forest_compiles (gc_forest c))
  | _ => forest_compiles (gc_forest c)
  end.

(* A forest with a Workflow (eager task manager, C02/C03) somewhere: when several tasks of the Workflow fail (a
   failing lambda and a nested graph that runs out of steps, say), which failure the run reports depends on
   who completes first; the model follows one schedule. Then only "the run fails, and executed lambdas of the
   case" is compared (seen in the thorough tier on a loaded machine: max-steps vs no-tasks of two sibling
   sub-graphs). Forests of any-predecessor graphs and chains are always compared strictly. *)
Definition eager_failure (c : gcase) : bool :=
  existsb g_eager (lower_forest (gc_forest c)) && negb (is_done (model_run c)).

Definition weak_failure_ok (c : gcase) : bool :=
  match o_class (gc_obs c), lower_forest (gc_forest c) with
  | OFail _, g :: _ => weak_log_ok (lower_forest (gc_forest c)) g (o_log (gc_obs c))
  | _, _ => false
  end.

Definition run_bad (c : ccase) : bool :=
  if (negb (N.eqb (cc_entry c) 0) && stream_incomparable (eff c))%bool then false
  else if eager_failure (eff c) then negb (weak_failure_ok (eff c))
  else gcase_bad (eff c) || negb (chain_spec_ok (eff c)).

(* (4) the hypotheses of the theorems hold on the case ([hyps_ok], Model/PregelHyps.v: every any-predecessor entry
   of the lowered forest is a pregel_graph with unique node keys and data-carrying branches, sub-graph nodes
   refer to later entries) — a case outside them would be compared with a model the theorems say nothing about *)
Definition bad (c : ccase) : bool :=
  negb (compile_agrees (cc_case c))
  || (if forest_compiles (gc_forest (cc_case c))
      then negb (hyps_ok (lower_forest (gc_forest (eff c)))) || run_bad c
      else false).
Definition mismatches (cs : list ccase) : list nat := mismatches_from bad 0 cs.
