(* Corr/C01.v — correspondence for C01 (Pregel superstep semantics, chains).
   A case is a forest of graph definitions (root = entry 0; a Graph in any-predecessor mode or a Chain,
   sub-graphs of every kind), an input, a node-failure table and the observation of the real run.
   All comparison logic lives in Model/GraphCmp.v (shared with C02 and later engines). *)
From Eino Require Import Base.Util Model.Graph Model.Chain Model.GraphCmp.

Definition ccase := gcase.
Definition bad (c : ccase) : bool := gcase_bad c.
Definition mismatches (cs : list ccase) : list nat := mismatches_from bad 0 cs.
