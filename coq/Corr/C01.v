(* Corr/C01.v — correspondence for C01 (Pregel superstep semantics, chains).
   A case is a forest of graph definitions (root = entry 0; a Graph in any-predecessor mode or a Chain,
   sub-graphs of every kind), an input, a node-failure table and the observation of the real run.
   (1) engine: the observation is compared with a run of the engine model on the lowered forest
       (Model/GraphCmp.v, shared with C02 and later engines);
   (2) chain meaning: when the root is a Chain, the same observation is also compared, in the same way, with
       the sequential meaning of the chain ([eval_chain], Model/ChainSpec.v) — which never builds a graph.
       Props/C01.v (chain_lowering_correct) proves (1) = (2) for well-formed chains; evaluating both ties the
       specification itself, not only the lowered graph, to the implementation. *)
From Eino Require Import Base.Util Model.Graph Model.Chain Model.ChainSpec Model.GraphCmp.

Definition ccase := gcase.

(* sub-graph nodes of a chain run the nested engine, exactly as [run] does for a lowered root *)
Definition spec_sub (fails : list fail_entry) (F : forest) : nat -> path -> value -> unit -> outcome value * unit :=
  fun i p' v s' => match nth_error F i with
                   | Some g' => run_nest value unit tree_ops (tree_exec fails) sched_first (List.length F) F p' g' v s'
                   | None => (Fail [mkerr eUnknownNode] [], s')
                   end.

Definition chain_spec_ok (c : ccase) : bool :=
  match gc_forest c with
  | GChain sts max :: _ =>
    let F := lower_forest (gc_forest c) in
    match F with
    | [] => false
    | g :: _ =>
      let o := fst (eval_chain value unit tree_ops (tree_exec (gc_fails c)) (spec_sub (gc_fails c) F)
                               [] sts max (gc_input c) tt) in
      class_ok o (o_class (gc_obs c))
      && (if strict_log F o then log_ok F g (outcome_log value o) (o_log (gc_obs c))
          else weak_log_ok F g (o_log (gc_obs c)))
    end
  | _ => true
  end.

Definition bad (c : ccase) : bool := gcase_bad c || negb (chain_spec_ok c).
Definition mismatches (cs : list ccase) : list nat := mismatches_from bad 0 cs.
