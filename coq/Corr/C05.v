(* Corr/C05.v — correspondence for C05 (interrupt + resume == uninterrupted run).
   A case is a forest of graph specifications with interrupt-before/after sets and rerun tables at
   every level, the input, the plan of calls, the observed collection orders of the eager task
   managers, and what the implementation showed: the reference run (no interrupt configuration) and
   every call of the interrupted run driven through the byte store until completion.
   The model side is Model/Interrupt.v ([run_drive] = RunLoop.drive over the channel layer of
   Model/Graph.v); the comparison lives in Model/IntrObs.v. C05 compares the observables the property
   itself constrains ([whole_ok]: how the run ends, the executions and the state pre-handler runs of the
   whole run, and the reference run); where the run is interrupted and what each interrupt reports is
   compared by C06 on the same cases. *)
From Eino Require Import Base.Util Model.Graph Model.RunLoop Model.Interrupt Model.IntrObs.

Definition ccase := icase.
Definition bad (c : ccase) : bool := icase_bad_c05 c.
Definition mismatches (cs : list ccase) : list nat := mismatches_from bad 0 cs.
