(* Corr/C14.v — comparison functions used by the generated cases_C14_*.v files.
   A case is (chunks, observed); [observed] is what the implementation returned for
   concatStreamReader-style concatenation of the chunks, canonicalised by the harness:
   OVal v | OErr | OPanic.  Error messages are not compared (class only). *)
From Eino Require Import Base.Util Model.Concat Model.ConcatMsg Model.ConcatOrder Model.ConcatUser Model.ConcatMsgMap Model.ConcatStream Model.ConcatDeep Model.ConcatDeepOrder Model.ConcatOrderList.

(* the registry of application-registered concat functions: the ones the harness registers *)
#[local] Existing Instance harness_user.

Inductive obs : Type := OVal (v : cval) | OErr | OPanic.

Fixpoint canon (fuel : nat) (v : cval) : cval :=
  match fuel with
  | O => v
  | S f =>
    match v with
    | CMap mt m => CMap mt (sort_by (fun a b => string_ltb (fst a) (fst b)) (map (fun kv => (fst kv, canon f (snd kv))) m))
    | _ => v
    end
  end.

Fixpoint cval_eqb (fuel : nat) (a b : cval) : bool :=
  match fuel with
  | O => false
  | S f =>
    match a, b with
    | CStr s, CStr s' => String.eqb s s'
    | CNum k z, CNum k' z' => N.eqb k k' && Z.eqb z z'
    | CNil, CNil => true
    | COther t p, COther t' p' => N.eqb t t' && N.eqb p p'
    | CMap mt m, CMap mt' m' =>
        N.eqb mt mt' &&
        (fix go (x y : list (string * cval)) : bool :=
           match x, y with
           | [], [] => true
           | (k, v) :: x', (k', v') :: y' => String.eqb k k' && cval_eqb f v v' && go x' y'
           | _, _ => false
           end) m m'
    | _, _ => false
    end
  end.

Definition obs_of (r : res cval) : obs :=
  match r with Ok v => OVal v | Err _ => OErr | Panic => OPanic end.

Definition obs_eqb (a b : obs) : bool :=
  match a, b with
  | OVal v, OVal v' => let d := S (Nat.max (depth v) (depth v')) in cval_eqb (S d) (canon d v) (canon d v')
  | OErr, OErr => true
  | OPanic, OPanic => true
  | _, _ => false
  end.

(* ---------------------------------------------------------------- chat messages *)

Definition opt_eqb {A} (e : A -> A -> bool) (a b : option A) : bool :=
  match a, b with Some x, Some y => e x y | None, None => true | _, _ => false end.
Fixpoint list_eqb {A} (e : A -> A -> bool) (a b : list A) : bool :=
  match a, b with
  | [], [] => true
  | x :: a', y :: b' => e x y && list_eqb e a' b'
  | _, _ => false
  end.

Definition tc_eqb (a b : toolcall) : bool :=
  opt_eqb Z.eqb (tc_idx a) (tc_idx b) && String.eqb (tc_id a) (tc_id b) && String.eqb (tc_type a) (tc_type b)
  && String.eqb (tc_name a) (tc_name b) && String.eqb (tc_args a) (tc_args b) && N.eqb (tc_extra a) (tc_extra b).
Definition usage_eqb (a b : usage) : bool :=
  Z.eqb (u_prompt a) (u_prompt b) && Z.eqb (u_compl a) (u_compl b) && Z.eqb (u_total a) (u_total b).
Definition meta_eqb (a b : rmeta) : bool :=
  String.eqb (rm_finish a) (rm_finish b) && opt_eqb usage_eqb (rm_usage a) (rm_usage b)
  && opt_eqb (list_eqb String.eqb) (rm_logprobs a) (rm_logprobs b).
Definition extra_eqb (a b : list (string * cval)) : bool := obs_eqb (OVal (CMap 0 a)) (OVal (CMap 0 b)).
Definition msg_eqb (a b : msg) : bool :=
  String.eqb (m_role a) (m_role b) && String.eqb (m_name a) (m_name b) && String.eqb (m_tcid a) (m_tcid b)
  && String.eqb (m_content a) (m_content b) && list_eqb String.eqb (m_multi a) (m_multi b)
  && list_eqb tc_eqb (m_tcs a) (m_tcs b) && opt_eqb meta_eqb (m_meta a) (m_meta b)
  && extra_eqb (m_extra a) (m_extra b).

Inductive mobs : Type := MVal (m : option msg) | MErr | MPanic.
Inductive lobs : Type := LVal (l : list (option msg)) | LErr | LPanic.

Definition mobs_of (r : res (option msg)) : mobs :=
  match r with Ok v => MVal v | Err _ => MErr | Panic => MPanic end.
Definition lobs_of (r : res (list (option msg))) : lobs :=
  match r with Ok v => LVal v | Err _ => LErr | Panic => LPanic end.
Definition mobs_eqb (a b : mobs) : bool :=
  match a, b with
  | MVal v, MVal v' => opt_eqb msg_eqb v v'
  | MErr, MErr => true
  | MPanic, MPanic => true
  | _, _ => false
  end.
Definition lobs_eqb (a b : lobs) : bool :=
  match a, b with
  | LVal v, LVal v' => list_eqb (opt_eqb msg_eqb) v v'
  | LErr, LErr => true
  | LPanic, LPanic => true
  | _, _ => false
  end.

(* api = 0: schema.ConcatMessages called directly on the chunk list (any length);
   api <> 0: the stream-level entry points (ConcatMessageStream, concatStreamReader, a
   compose chain that turns a stream into a value) *)
Definition run_msg (api : N) (chunks : list (option msg)) : res (option msg) :=
  if N.eqb api 0 then res_map Some (concat_msgs chunks) else msg_stream chunks.

(* map chunks whose values may be messages (Model/ConcatMsgMap.v) *)
Definition mval_eqb (a b : mval) : bool :=
  match a, b with
  | MVPtrNil, MVPtrNil => true
  | MVMsg x, MVMsg y => msg_eqb x y
  | MVVal x, MVVal y => obs_eqb (OVal x) (OVal y)
  | _, _ => false
  end.
Definition mmap_eqb (a b : list (string * mval)) : bool :=
  let srt := sort_by (fun x y : string * mval => string_ltb (fst x) (fst y)) in
  list_eqb (fun x y => String.eqb (fst x) (fst y) && mval_eqb (snd x) (snd y)) (srt a) (srt b).
Inductive kobs : Type := KVal (m : list (string * mval)) | KErr | KPanic.
Definition kobs_of (r : res (list (string * mval))) : kobs :=
  match r with Ok v => KVal v | Err _ => KErr | Panic => KPanic end.
Definition kobs_eqb (a b : kobs) : bool :=
  match a, b with
  | KVal v, KVal v' => mmap_eqb v v'
  | KErr, KErr => true
  | KPanic, KPanic => true
  | _, _ => false
  end.

(* map chunks with messages, message lists and nested maps at any depth (Model/ConcatDeep.v) *)
Fixpoint dval_eqb (fuel : nat) (a b : dval) : bool :=
  match fuel with
  | O => false
  | S f =>
    match a, b with
    | DPtrNil, DPtrNil => true
    | DMsg x, DMsg y => msg_eqb x y
    | DList x, DList y => list_eqb (opt_eqb msg_eqb) x y
    | DVal x, DVal y => obs_eqb (OVal x) (OVal y)
    | DMap x, DMap y =>
        let srt := sort_by (fun p q : string * dval => string_ltb (fst p) (fst q)) in
        (fix go (l r : list (string * dval)) : bool :=
           match l, r with
           | [], [] => true
           | (k, v) :: l', (k', v') :: r' => String.eqb k k' && dval_eqb f v v' && go l' r'
           | _, _ => false
           end) (srt x) (srt y)
    | _, _ => false
    end
  end.
Definition dmap_eqb (a b : list (string * dval)) : bool :=
  dval_eqb (S (S (Nat.max (vdepth a) (vdepth b)))) (DMap a) (DMap b).
Inductive dobs : Type := DOVal (m : list (string * dval)) | DOErr | DOPanic.
Definition dobs_of (r : res (list (string * dval))) : dobs :=
  match r with Ok v => DOVal v | Err _ => DOErr | Panic => DOPanic end.
Definition dobs_eqb (a b : dobs) : bool :=
  match a, b with
  | DOVal v, DOVal v' => dmap_eqb v v'
  | DOErr, DOErr => true
  | DOPanic, DOPanic => true
  | _, _ => false
  end.

Inductive ccase : Type :=
| CaseGen (chunks : list cval) (o : obs)
| CaseMsg (api : N) (chunks : list (option msg)) (o : mobs)
| CaseMsgList (chunks : list (list (option msg))) (o : lobs)
| CaseMsgMap (chunks : list (list (string * mval))) (o : kobs)
| CaseAny (chunks : list cval) (o : obs)    (* a stream of [any]: chunks of any dynamic type, nil included *)
(* what the reader delivers, read errors included (Model/ConcatStream.v), through the stream-level entry points *)
| CaseGenS (items : list (sitem cval)) (o : obs)
| CaseMsgS (items : list (sitem (option msg))) (o : mobs)
| CaseDeep (chunks : list (list (string * dval))) (o : dobs).

(* the same entry points with Go's map iteration made explicit (Model/ConcatOrder.v) and
   set to an order that differs from the one Model/Concat.v and Model/ConcatMsg.v use:
   keys reversed at every nesting level, tool-call indexes visited in descending order *)
Definition run_msg_o (api : N) (chunks : list (option msg)) : res (option msg) :=
  match chunks with
  | [m] => if N.eqb api 0 then res_map Some (concat_msgs_o (@rev Z) (rev_sched 4) chunks) else Ok m
  | [] => if N.eqb api 0 then res_map Some (concat_msgs_o (@rev Z) (rev_sched 4) chunks) else Err E_EMPTY
  | _ => res_map Some (concat_msgs_o (@rev Z) (rev_sched 4) chunks)
  end.

Definition bad (c : ccase) : bool :=
  match c with
  | CaseGen chunks o =>
      negb (obs_eqb (obs_of (concat_stream chunks)) o) || negb (obs_eqb (obs_of (concat_stream_o (rev_sched 4) chunks)) o)
  | CaseMsg api chunks o =>
      negb (mobs_eqb (mobs_of (run_msg api chunks)) o) || negb (mobs_eqb (mobs_of (run_msg_o api chunks)) o)
  | CaseMsgList chunks o =>
      negb (lobs_eqb (lobs_of (msglist_stream chunks)) o) || negb (lobs_eqb (lobs_of (msglist_stream_o (@rev Z) (rev_sched 4) chunks)) o)
  | CaseMsgMap chunks o =>
      negb (kobs_eqb (kobs_of (mmap_stream chunks)) o)
      || negb (dobs_eqb (dobs_of (dmap_stream (map d_of_mmap chunks)))
                        (match o with KVal m => DOVal (d_of_mmap m) | KErr => DOErr | KPanic => DOPanic end))
  | CaseAny chunks o => negb (obs_eqb (obs_of (concat_stream_any chunks)) o)
  | CaseGenS items o => negb (obs_eqb (obs_of (stream_entry concat_stream items)) o)
  | CaseMsgS items o => negb (mobs_eqb (mobs_of (stream_entry msg_stream items)) o)
  | CaseDeep chunks o =>
      negb (dobs_eqb (dobs_of (dmap_stream chunks)) o) || negb (dobs_eqb (dobs_of (dmap_stream_o (rev_sched 6) chunks)) o)
  end.
Definition mismatches (cs : list ccase) : list nat := mismatches_from bad 0 cs.
