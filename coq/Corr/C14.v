(* Corr/C14.v — comparison functions used by the generated cases_C14_*.v files.
   A case is (chunks, observed); [observed] is what the implementation returned for
   concatStreamReader-style concatenation of the chunks, canonicalised by the harness:
   OVal v | OErr | OPanic.  Error messages are not compared (class only). *)
From Eino Require Import Base.Util Model.Concat.

Inductive obs : Type := OVal (v : cval) | OErr | OPanic.

Fixpoint canon (fuel : nat) (v : cval) : cval :=
  match fuel with
  | O => v
  | S f =>
    match v with
    | CMap m => CMap (sort_by (fun a b => string_ltb (fst a) (fst b)) (map (fun kv => (fst kv, canon f (snd kv))) m))
    | _ => v
    end
  end.

Fixpoint cval_eqb (fuel : nat) (a b : cval) : bool :=
  match fuel with
  | O => false
  | S f =>
    match a, b with
    | CStr s, CStr s' => String.eqb s s'
    | CNum k z, CNum k' z' => N.eqb k k' && Z.eqb z z'
    | CNil, CNil => true
    | COther t p, COther t' p' => N.eqb t t' && N.eqb p p'
    | CMap m, CMap m' =>
        (fix go (x y : list (string * cval)) : bool :=
           match x, y with
           | [], [] => true
           | (k, v) :: x', (k', v') :: y' => String.eqb k k' && cval_eqb f v v' && go x' y'
           | _, _ => false
           end) m m'
    | _, _ => false
    end
  end.

Definition obs_of (r : res cval) : obs :=
  match r with Ok v => OVal v | Err _ => OErr | Panic => OPanic end.

Definition obs_eqb (a b : obs) : bool :=
  match a, b with
  | OVal v, OVal v' => let d := S (Nat.max (depth v) (depth v')) in cval_eqb (S d) (canon d v) (canon d v')
  | OErr, OErr => true
  | OPanic, OPanic => true
  | _, _ => false
  end.

Inductive ccase : Type :=
| CaseGen (chunks : list cval) (o : obs).

Definition bad (c : ccase) : bool :=
  match c with
  | CaseGen chunks o => negb (obs_eqb (obs_of (concat_stream chunks)) o)
  end.
Definition mismatches (cs : list ccase) : list nat := mismatches_from bad 0 cs.
