(* Corr/C04.v — comparison functions used by the generated cases_C04_*.v files.

   Two kinds of cases:
   * [CaseProg]: a compiled graph (as an [sprog], the first-order description of the harness
     graph; [compile_sprog] is the [prog] the theorems talk about) called through its four public paradigms on
     one chunking of one input.  Observed per paradigm: the value (streams concatenated by
     the harness with eino's own concatenation) or "failed" (call-time error, error item —
     not distinguished: the property allows either).  Observed for the Invoke run and for
     the Stream run: which native implementation of every executed node was called
     (only recorded, and only compared, when all four paradigms succeeded).  For graphs
     without a fan-in the exact chunk lists of the Stream and the Transform run as well.
   * [CaseTwo]: two [CaseProg]s of the same compiled object, called one after the other on two
     different inputs.
   * [CasePack]: one lambda packed by newRunnablePacker, its four views called directly
     (hook VerifPack): results, exact output chunk lists and the native used per view.

   Error messages are never compared. *)
From Eino Require Import Base.Util Model.Paradigm Model.StreamOps Model.ParadigmProg Model.ParadigmSpec.

Inductive robs : Type := RVal (v : val) | RFail.

(* output stream as received: the chunks before the first error item, and whether the
   stream (or the call) failed *)
Inductive sobs : Type := SObs (chunks : list val) (failed : bool).

Definition amap_eqb (a b : amap) : bool :=
  (fix go (x y : amap) : bool :=
     match x, y with
     | [], [] => true
     | (k, v) :: x', (k', v') :: y' => teqb k k' && String.eqb v v' && go x' y'
     | _, _ => false
     end) a b.

Definition val_eqb (a b : val) : bool :=
  match a, b with
  | VS s, VS s' => String.eqb s s'
  | VM m, VM m' => amap_eqb m m'
  | _, _ => false
  end.

Fixpoint vals_eqb (a b : list val) : bool :=
  match a, b with
  | [], [] => true
  | x :: a', y :: b' => val_eqb x y && vals_eqb a' b'
  | _, _ => false
  end.

Definition robs_of (r : res val) : robs := match r with Ok v => RVal v | _ => RFail end.

(* exact: value compared; otherwise class only *)
Definition robs_eqb (exact : bool) (a b : robs) : bool :=
  match a, b with
  | RVal v, RVal v' => if exact then val_eqb v v' else true
  | RFail, RFail => true
  | _, _ => false
  end.

Fixpoint vals_before_bad (s : stream val) : list val * bool :=
  match s with
  | [] => ([], false)
  | Val x :: s' => let (l, b) := vals_before_bad s' in (x :: l, b)
  | Bad _ :: _ => ([], true)
  end.

Definition sobs_of (r : res (stream val)) : sobs :=
  match r with
  | Ok s => let (l, b) := vals_before_bad s in SObs l b
  | _ => SObs [] true
  end.

Definition sobs_eqb (a b : sobs) : bool :=
  match a, b with
  | SObs l f, SObs l' f' => Bool.eqb f f' && (f || vals_eqb l l')
  end.

Definition par_n (p : par) : N := match p with PI => 0 | PS => 1 | PC => 2 | PT => 3 end.

Definition calls_canon (l : list (N * par)) : list (N * N) :=
  sort_by (fun a b => N.ltb (fst a) (fst b)) (map (fun c => (fst c, par_n (snd c))) l).

Fixpoint nn_eqb (a b : list (N * N)) : bool :=
  match a, b with
  | [], [] => true
  | (x, y) :: a', (x', y') :: b' => N.eqb x x' && N.eqb y y' && nn_eqb a' b'
  | _, _ => false
  end.

Inductive ccase : Type :=
| CaseProg (sp : sprog) (chunks : list val)
           (oI oS oC oT : robs)
           (calls : option (list (N * N) * list (N * N)))   (* Invoke run, Stream run; sorted by node id *)
           (schunks : option (list val * list val))
             (* graphs without a fan-in (no merge, hence no scheduling freedom), all four
                paradigms succeeded: the exact chunk lists Stream and Transform delivered *)
| CasePack (sp : nspec) (chunks : list val)
           (oI : robs) (oS : sobs) (oC : robs) (oT : sobs)
           (used4 : list N)
| CaseTwo (a b : ccase).
    (* the same compiled object called on two inputs, one after the other (what a compiled object
       keeps between calls must not influence a later call): both must agree with the model *)

Fixpoint bad (c : ccase) : bool :=
  match c with
  | CaseTwo a b => bad a || bad b
  | CaseProg sp chunks oI oS oC oT calls schunks =>
      let s := map Val chunks in
      let p := compile_sprog sp in
      match vsconcat s with
      | Ok x =>
          (* outside the property's domain (a fan-in with a shared key: F-C04) the value a
             stream run delivers depends on the interleaving: class only *)
          let exact := dom_ok p x in
          (* [sprog_wf]: the case satisfies the hypotheses of harness_graphs_agree *)
          negb (sprog_wf sp && robs_eqb true (robs_of (g_invoke p x)) oI
                && robs_eqb exact (robs_of (vsconcatR (g_stream seq_mrg p x))) oS
                && robs_eqb exact (robs_of (g_collect seq_mrg p s)) oC
                && robs_eqb exact (robs_of (vsconcatR (g_transform seq_mrg p s))) oT
                && match calls with
                   | None => true
                   | Some (cv, cs) =>
                       nn_eqb (calls_canon (calls_value p x)) cv
                       && nn_eqb (calls_canon (calls_stream p x)) cs
                   end
                && match schunks with
                   | None => true
                   | Some (cs, ct) =>
                       sobs_eqb (sobs_of (g_stream seq_mrg p x)) (SObs cs false)
                       && sobs_eqb (sobs_of (g_transform seq_mrg p s)) (SObs ct false)
                   end)
      | _ => true   (* harness never sends an input that does not concatenate *)
      end
  | CasePack sp chunks oI oS oC oT used4 =>
      let s := map Val chunks in
      let n := node_of_spec sp in
      match vsconcat s with
      | Ok x =>
          negb (spec_wf sp && robs_eqb true (robs_of (view_I vconcat n x)) oI
                && sobs_eqb (sobs_of (view_S n x)) oS
                && robs_eqb true (robs_of (view_C vconcat vconcat n s)) oC
                && sobs_eqb (sobs_of (view_T vconcat n s)) oT
                && (fix go (a : list (option par)) (b : list N) : bool :=
                      match a, b with
                      | [], [] => true
                      | Some p :: a', q :: b' => N.eqb (par_n p) q && go a' b'
                      | _, _ => false
                      end) [used n PI; used n PS; used n PC; used n PT] used4)
      | _ => true
      end
  end.

Definition mismatches (cs : list ccase) : list nat := mismatches_from bad 0 cs.
