(* Corr/C20.v — comparison used by the generated cases_C20_*.v files.
   A case = one construction sequence over one front-end, every call paired with what
   the implementation returned (ok / error class / panic) and with the builder's state
   after the call (canonical snapshot, see below), plus the observed flag
   "every runnable obtained from a successful Compile still gave the snapshotted outputs
   after all later calls".  The model is run call by call; a case is bad when a call's
   outcome class differs or when the model's prediction about the runners differs.

   Workflow.compile iterates a Go map; which node's deferred error is met first is not
   determined by the call sequence.  The model takes that order as the argument [ord]
   of [WCompile]; the comparison accepts an observation iff SOME order reproduces it
   (tried: the nodes the Compile consumed, then every node next), and continues from
   that state. *)
From Eino Require Import Base.Util Model.Builder Model.BuilderNested.

Inductive obs : Type := BOk | BErr (e : ecls) | BPanic.

Definition matches (o : outcome) (b : obs) : bool :=
  match o, b with
  | OOk, BOk | OCompiled _, BOk => true
  | OErr e, BErr e' => ecls_beq e e'
  | OPanic, BPanic => true
  | _, _ => false
  end.

(* ---------------------------------------------------------------- state snapshots *)
(* Canonical rendering of a builder state as a sorted list of tagged strings; the harness
   renders the implementation's state (read through compose/verif_c20.go) the same way and
   the two are compared after EVERY call.  Once the build error is set the graph part
   shrinks to the error class: the partial effects of a failing addBranch / addEdge depend
   on Go's map order and nothing can read them any more. *)
Local Open Scope string_scope.

Definition ecls_str (e : ecls) : string :=
  match e with
  | EReserved => "EReserved" | EDupNode => "EDupNode" | ENeedState => "ENeedState"
  | ENodeKeyOpt => "ENodeKeyOpt" | ENoCtrlNoData => "ENoCtrlNoData" | EEndAsStart => "EEndAsStart"
  | EStartAsEnd => "EStartAsEnd" | EEdgeStartUnknown => "EEdgeStartUnknown"
  | EEdgeEndUnknown => "EEdgeEndUnknown" | EDupCtrlEdge => "EDupCtrlEdge" | EDupDataEdge => "EDupDataEdge"
  | EBranchStartUnknown => "EBranchStartUnknown" | EBranchOne => "EBranchOne"
  | EBranchEndUnknown => "EBranchEndUnknown" | ECompiled => "ECompiled"
  | ETriggerUnsupported => "ETriggerUnsupported" | ENoStart => "ENoStart" | ENoEnd => "ENoEnd"
  | EUninferred => "EUninferred" | EDupMapTarget => "EDupMapTarget" | EDagLoop => "EDagLoop"
  | EMaxStepsDag => "EMaxStepsDag" | EChainCompiled => "EChainCompiled" | EChainEmpty => "EChainEmpty"
  | EParDupKey => "EParDupKey" | EParTooFew => "EParTooFew" | EParMultiPrev => "EParMultiPrev"
  | EBrDupKey => "EBrDupKey" | EBrEmpty => "EBrEmpty" | EBrOne => "EBrOne" | EBrMultiPrev => "EBrMultiPrev"
  | EMapped => "EMapped" | EMapConflict => "EMapConflict" | EOther => "EOther"
  end.

Definition sorts (l : list string) : list string := sort_by string_ltb l.
Definition join (sep : string) (l : list string) : string :=
  match l with [] => "" | x :: r => fold_left (fun acc y => acc +++ sep +++ y) r x end.
Definition b2s (b : bool) (t f : string) : string := if b then t else f.
Definition len_str {A} (l : list A) : string := nat_str (N.of_nat (List.length l)).
Definition pair_str (p : string * string) : string := fst p +++ ">" +++ snd p.

Definition snap_graph (g : gstate) : list string :=
  match g_err g with
  | Some e => ["X:" +++ ecls_str e]
  | None =>
    map (fun kn => "N:" +++ fst kn +++ ":" +++ b2s (n_in (snd kn)) "i" "-" +++ b2s (n_out (snd kn)) "o" "-") (g_nodes g)
    ++ map (fun p => "C:" +++ pair_str p) (g_ctrl g)
    ++ map (fun p => "D:" +++ pair_str p) (g_data g)
    ++ map (fun b => "B:" +++ fst b +++ ">" +++ join "," (sorts (fst (snd b))) +++ "|" +++ b2s (snd (snd b)) "n" "d") (g_branches g)
    ++ map (fun k => "S:" +++ k) (g_starts g)
    ++ map (fun k => "E:" +++ k) (g_ends g)
    ++ map (fun p : pend => "P:" +++ pair_str (fst p) +++ "#" +++ len_str (snd p)) (g_pending g)
    ++ map (fun kf => "F:" +++ fst kf +++ ":" +++ join "," (sorts (snd kf))) (g_fm g)
    ++ map (fun p => "H:" +++ pair_str p) (g_h_edges g)
    ++ map (fun k => "R:" +++ k) (g_h_prenode g)
    ++ map (fun k => "Q:" +++ k) (g_h_prebranch g)
  end ++ (if g_compiled g then ["K:t"] else []).

Definition snap_chain (c : cstate) : list string :=
  snap_graph (c_g c)
  ++ match c_err c with Some e => ["ce:" +++ ecls_str e] | None => [] end
  ++ ["ci:" +++ nat_str (c_idx c)]
  ++ map (fun k => "cp:" +++ k) (c_pre c)
  ++ (if c_has_end c then ["ch:t"] else []).

Definition snap_wf (w : wstate) : list string :=
  snap_graph (w_g w)
  ++ map (fun kn => "wn:" +++ fst kn +++ "#" +++ len_str (wn_pending (snd kn)) +++ ":" +++
                    match wn_mapped (snd kn) with
                    | MNone => "" | MWhole => "*" | MFields fs => join "," (sorts fs)
                    end +++ ":" +++ join "," (sorts (wn_static (snd kn)))) (w_nodes w)
  ++ ["wb:" +++ len_str (w_branches w)].

(* the runner a successful Compile returns, in the same rendering (the harness reads the compiled
   record through compose.VerifC09Project): node keys, control / data edges, branches, trigger
   mode, eager flag, step limit.  The entries belong to the snapshot of that Compile call only. *)
Definition z_str (z : Z) : string :=
  match z with
  | Z0 => "0"
  | Zpos p => nat_str (Npos p)
  | Zneg p => "-" +++ nat_str (Npos p)
  end.

Definition snap_out (o : outcome) : list string :=
  match o with
  | OCompiled r =>
    map (fun kn => "rn:" +++ fst kn) (r_nodes r)
    ++ map (fun p => "rc:" +++ pair_str p) (r_ctrl r)
    ++ map (fun p => "rd:" +++ pair_str p) (r_data r)
    ++ map (fun b => "rb:" +++ fst b +++ ">" +++ join "," (sorts (fst (snd b)))) (r_branches r)
    ++ ["rg:" +++ b2s (r_dag r) "dag" "pregel"; "re:" +++ b2s (r_eager r) "eager" "batch"; "rm:" +++ z_str (r_max_steps r)]
  | _ => []
  end.

Local Open Scope list_scope.

Fixpoint list_eqb {A} (eqb : A -> A -> bool) (a b : list A) : bool :=
  match a, b with
  | [], [] => true
  | x :: a', y :: b' => eqb x y && list_eqb eqb a' b'
  | _, _ => false
  end.
Definition pair_eqb (a b : string * string) : bool := String.eqb (fst a) (fst b) && String.eqb (snd a) (snd b).
Definition branch_eqb (a b : string * (list string * bool)) : bool :=
  String.eqb (fst a) (fst b) && list_eqb String.eqb (fst (snd a)) (fst (snd b)) && Bool.eqb (snd (snd a)) (snd (snd b)).

(* the shared part of a runner's view (its own fields cannot change: it is a value) *)
Definition view_eqb (a b : rview) : bool :=
  list_eqb String.eqb (rv_prenode a) (rv_prenode b)
  && list_eqb pair_eqb (rv_h_edges a) (rv_h_edges b)
  && list_eqb String.eqb (rv_h_prebranch a) (rv_h_prebranch b)
  && list_eqb branch_eqb (rv_branch_objs a) (rv_branch_objs b).

(* runners issued so far, each with its view at the moment of the Compile that made it *)
Definition issued : Type := list (runner * rview).
Definition note (g : gstate) (o : outcome) (rs : issued) : issued :=
  match o with OCompiled r => rs ++ [(r, runner_view g r)] | _ => rs end.
Definition all_intact (g : gstate) (rs : issued) : bool :=
  forallb (fun rv => view_eqb (runner_view g (fst rv)) (snd rv)) rs.

(* what one call showed: its outcome and how the builder state changed — the snapshot
   entries that disappeared and those that appeared (a full snapshot per call would make the
   generated files five times larger) *)
Definition seen : Type := (obs * (list N * list N))%type.

(* snapshot entries travel as 40-bit hashes of their text (string literals are by far the
   most expensive thing for coqc to read); equal texts have equal hashes, so hashing can
   never raise an alarm, only — with negligible probability — miss one *)
Definition hmask : N := 1099511627775%N.
Fixpoint shash (s : string) (h : N) : N :=
  match s with
  | EmptyString => h
  | String c r => shash r (N.land (h * 131 + N_of_ascii c) hmask)
  end.
Definition hs (s : string) : N := shash s 7%N.
(* how the harness writes such a hash: five byte constructors, most significant first.  (A decimal
   literal of 13 digits costs coqc 0.7 ms to interpret, and a run has 70 000 of them: the constructors are
   read five times faster; the value is the same number.) *)
Definition H5 (a b c d e : Coq.Init.Byte.byte) : N :=
  (Coq.Strings.Byte.to_N a * 4294967296 + Coq.Strings.Byte.to_N b * 16777216 + Coq.Strings.Byte.to_N c * 65536
   + Coq.Strings.Byte.to_N d * 256 + Coq.Strings.Byte.to_N e)%N.
Definition sortn (l : list N) : list N := sort_by N.ltb l.

Fixpoint remove1 (x : N) (l : list N) : list N :=
  match l with [] => [] | y :: r => if N.eqb x y then r else y :: remove1 x r end.
Definition apply_diff (prev : list N) (d : list N * list N) : list N :=
  sortn (fold_left (fun l x => remove1 x l) (fst d) prev ++ snd d).
Definition hstate (model : list string) : list N := sortn (map hs model).
Definition same_state (model : list string) (observed : list N) : bool := list_eqb N.eqb (hstate model) observed.

(* what the harness could read: [wb_state] the builder states (white-box group verif_c20wb), [wb_runner] the compiled
   record (white-box group verif_c09wb).  A harness built without a group (the hook no longer compiles against a
   modified tree) sends no such entries: the comparison then leaves them out — without the states it is the outcome
   of every call that is compared *)
Record wbox : Type := mkWB { wb_state : bool; wb_runner : bool }.
Definition wb_all : wbox := mkWB true true.
Definition same_seen (wb : wbox) (state runner : list string) (observed : list N) : bool :=
  negb (wb_state wb) || same_state (state ++ (if wb_runner wb then runner else [])) observed.

(* result of replaying a case: None = a call's outcome or the state after it differed;
   [prev]: the implementation's state before the call, as reconstructed so far *)
Fixpoint replay_g (wb : wbox) (v : ver) (g : gstate) (prev : list N) (cs : list (gcall * seen)) (rs : issued) : option bool :=
  match cs with
  | [] => Some (all_intact g rs)
  | (c, (b, d)) :: rest =>
    let '(g', o) := gstep v g c in
    let st := apply_diff prev d in
    if matches o b && same_seen wb (snap_graph g') (snap_out o) st then replay_g wb v g' st rest (note g' o rs) else None
  end.

Fixpoint replay_c (wb : wbox) (v : ver) (c : cstate) (prev : list N) (cs : list (ccall * seen)) (rs : issued) : option bool :=
  match cs with
  | [] => Some (all_intact (c_g c) rs)
  | (call, (b, d)) :: rest =>
    let '(c', o) := cstep v c call in
    let st := apply_diff prev d in
    if matches o b && same_seen wb (snap_chain c') (snap_out o) st then replay_c wb v c' st rest (note (c_g c') o rs) else None
  end.

(* first pair of orders among the candidates whose outcome and resulting state match *)
Fixpoint pick_order (wb : wbox) (v : ver) (w : wstate) (o : copt) (b : obs) (st : list N) (cands : list (list string * list string))
  : option (wstate * outcome) :=
  match cands with
  | [] => None
  | (ord, sord) :: rest =>
    let '(w', out) := w_compile v w o ord sord in
    if matches out b && same_seen wb (snap_wf w') (snap_out out) st then Some (w', out) else pick_order wb v w o b st rest
  end.

(* [ord] / [sord] of an observed WCompile: the nodes whose deferred inputs / static values that
   Compile consumed (sorted); the node it failed on, if any, is not known: every node is
   tried next, in either loop *)
Fixpoint replay_w (wb : wbox) (v : ver) (w : wstate) (prev : list N) (cs : list (wcall * seen)) (rs : issued) : option bool :=
  match cs with
  | [] => Some (all_intact (w_g w) rs)
  | (call, (b, d)) :: rest =>
    let st := apply_diff prev d in
    match call with
    | WCompile o ord sord =>
      match pick_order wb v w o b st
              ((ord, sord) :: map (fun kn => (ord ++ [fst kn], sord)) (w_nodes w)
                           ++ map (fun kn => (ord, sord ++ [fst kn])) (w_nodes w)) with
      | Some (w', out) => replay_w wb v w' st rest (note (w_g w') out rs)
      | None => None
      end
    | _ =>
      let '(w', o) := wstep v w call in
      if matches o b && same_seen wb (snap_wf w') (snap_out o) st then replay_w wb v w' st rest (note (w_g w') o rs) else None
    end
  end.

(* nested builders (Model/BuilderNested.v): the snapshot is the outer graph's followed by every inner
   graph's, its entries prefixed with the inner graph's name; the runners whose views are followed are
   those of the outer graph (an inner runnable that changes shows up as intact = false on the
   implementation's side only, i.e. as a mismatch) *)
Local Open Scope string_scope.
Definition snap_nested (s : nstate) : list string :=
  snap_graph (ns_out s)
  ++ flat_map (fun ig => map (fun l => "I" +++ fst ig +++ "/" +++ l)
                              (match snd ig with IG g => snap_graph g | IC c => snap_chain c end)) (ns_inn s).
Local Open Scope list_scope.

Definition is_outer_compile (c : ncall) : bool := match c with NOuter (GCompile _) => true | _ => false end.

Fixpoint replay_n (wb : wbox) (s : nstate) (prev : list N) (cs : list (ncall * seen)) (rs : issued) : option bool :=
  match cs with
  | [] => Some (all_intact (ns_out s) rs)
  | (c, (b, d)) :: rest =>
    let '(s', o) := nstep s c in
    let st := apply_diff prev d in
    if matches o b && same_seen wb (snap_nested s') (snap_out o) st
    then replay_n wb s' st rest (if is_outer_compile c then note (ns_out s') o rs else rs) else None
  end.

Inductive ccase : Type :=
| CaseN (has_state : bool) (calls : list (ncall * seen)) (intact : bool)
| CaseG (has_state : bool) (calls : list (gcall * seen)) (intact : bool)
| CaseC (has_state : bool) (calls : list (ccall * seen)) (intact : bool)
| CaseW (has_state : bool) (calls : list (wcall * seen)) (intact : bool)
| Degraded (state runner : bool) (c : ccase).

Definition verdict (r : option bool) (intact : bool) : bool :=
  match r with
  | None => true
  | Some m => negb (Bool.eqb m intact)
  end.

Fixpoint bad_wb (wb : wbox) (c : ccase) : bool :=
  match c with
  | CaseN st calls intact => verdict (replay_n wb (n_init st) (hstate (snap_nested (n_init st))) calls []) intact
  | CaseG st calls intact => verdict (replay_g wb fixed (g_init CGraph st) (hstate (snap_graph (g_init CGraph st))) calls []) intact
  | CaseC st calls intact => verdict (replay_c wb fixed (c_init st) (hstate (snap_chain (c_init st))) calls []) intact
  | CaseW st calls intact =>
    (* a Workflow Compile is replayed with the order read off the states: without them the case is not compared *)
    wb_state wb && verdict (replay_w wb fixed (w_init st) (hstate (snap_wf (w_init st))) calls []) intact
  | Degraded state runner c' => bad_wb (mkWB (wb_state wb && state) (wb_runner wb && runner)) c'
  end.

Definition bad (c : ccase) : bool := bad_wb wb_all c.

Definition mismatches (cs : list ccase) : list nat := mismatches_from bad 0 cs.
