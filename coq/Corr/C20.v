(* Corr/C20.v — comparison used by the generated cases_C20_*.v files.
   A case = one construction sequence over one front-end, every call paired with what
   the implementation returned (ok / error class / panic), plus the observed flag
   "every runnable obtained from a successful Compile still gave the snapshotted outputs
   after all later calls".  The model is run call by call; a case is bad when a call's
   outcome class differs or when the model's prediction about the runners differs.

   Workflow.compile iterates a Go map; which node's deferred error is met first is not
   determined by the call sequence.  The model takes that order as the argument [ord]
   of [WCompile]; the comparison accepts an observation iff SOME order reproduces it
   (tried: the default order and every node first), and continues from that state. *)
From Eino Require Import Base.Util Model.Builder.

Inductive obs : Type := BOk | BErr (e : ecls) | BPanic.

Definition matches (o : outcome) (b : obs) : bool :=
  match o, b with
  | OOk, BOk | OCompiled _, BOk => true
  | OErr e, BErr e' => ecls_beq e e'
  | OPanic, BPanic => true
  | _, _ => false
  end.

Fixpoint list_eqb {A} (eqb : A -> A -> bool) (a b : list A) : bool :=
  match a, b with
  | [], [] => true
  | x :: a', y :: b' => eqb x y && list_eqb eqb a' b'
  | _, _ => false
  end.
Definition pair_eqb (a b : string * string) : bool := String.eqb (fst a) (fst b) && String.eqb (snd a) (snd b).
Definition branch_eqb (a b : string * (list string * bool)) : bool :=
  String.eqb (fst a) (fst b) && list_eqb String.eqb (fst (snd a)) (fst (snd b)) && Bool.eqb (snd (snd a)) (snd (snd b)).

(* the shared part of a runner's view (its own fields cannot change: it is a value) *)
Definition view_eqb (a b : rview) : bool :=
  list_eqb String.eqb (rv_prenode a) (rv_prenode b)
  && list_eqb pair_eqb (rv_h_edges a) (rv_h_edges b)
  && list_eqb String.eqb (rv_h_prebranch a) (rv_h_prebranch b)
  && list_eqb branch_eqb (rv_branch_objs a) (rv_branch_objs b).

(* runners issued so far, each with its view at the moment of the Compile that made it *)
Definition issued : Type := list (runner * rview).
Definition note (g : gstate) (o : outcome) (rs : issued) : issued :=
  match o with OCompiled r => rs ++ [(r, runner_view g r)] | _ => rs end.
Definition all_intact (g : gstate) (rs : issued) : bool :=
  forallb (fun rv => view_eqb (runner_view g (fst rv)) (snd rv)) rs.

(* result of replaying a case: None = a call's outcome differed *)
Fixpoint replay_g (v : ver) (g : gstate) (cs : list (gcall * obs)) (rs : issued) : option bool :=
  match cs with
  | [] => Some (all_intact g rs)
  | (c, b) :: rest =>
    let '(g', o) := gstep v g c in
    if matches o b then replay_g v g' rest (note g' o rs) else None
  end.

Fixpoint replay_c (v : ver) (c : cstate) (cs : list (ccall * obs)) (rs : issued) : option bool :=
  match cs with
  | [] => Some (all_intact (c_g c) rs)
  | (call, b) :: rest =>
    let '(c', o) := cstep v c call in
    if matches o b then replay_c v c' rest (note (c_g c') o rs) else None
  end.

(* first order, among the default and "node k first", whose outcome matches *)
Fixpoint pick_order (v : ver) (w : wstate) (o : copt) (b : obs) (cands : list (list string))
  : option (wstate * outcome) :=
  match cands with
  | [] => None
  | ord :: rest =>
    let '(w', out) := w_compile v w o ord in
    if matches out b then Some (w', out) else pick_order v w o b rest
  end.

Fixpoint replay_w (v : ver) (w : wstate) (cs : list (wcall * obs)) (rs : issued) : option bool :=
  match cs with
  | [] => Some (all_intact (w_g w) rs)
  | (call, b) :: rest =>
    match call with
    | WCompile o ord =>
      match pick_order v w o b (ord :: map (fun kn => [fst kn]) (w_nodes w)) with
      | Some (w', out) => replay_w v w' rest (note (w_g w') out rs)
      | None => None
      end
    | _ =>
      let '(w', o) := wstep v w call in
      if matches o b then replay_w v w' rest (note (w_g w') o rs) else None
    end
  end.

Inductive ccase : Type :=
| CaseG (has_state : bool) (calls : list (gcall * obs)) (intact : bool)
| CaseC (has_state : bool) (calls : list (ccall * obs)) (intact : bool)
| CaseW (has_state : bool) (calls : list (wcall * obs)) (intact : bool).

Definition verdict (r : option bool) (intact : bool) : bool :=
  match r with
  | None => true
  | Some m => negb (Bool.eqb m intact)
  end.

Definition bad (c : ccase) : bool :=
  match c with
  | CaseG st calls intact => verdict (replay_g fixed (g_init CGraph st) calls []) intact
  | CaseC st calls intact => verdict (replay_c fixed (c_init st) calls []) intact
  | CaseW st calls intact => verdict (replay_w fixed (w_init st) calls []) intact
  end.

Definition mismatches (cs : list ccase) : list nat := mismatches_from bad 0 cs.
