(* Corr/C13.v — comparison used by the generated cases_C13_*.v files.
   A case is the flattened forest, the paradigm, whether the context was cancelled before the
   call, the error item on the input stream (Collect / Transform), and what the implementation
   answered, projected on the observables of the property: outcome class, errors.As for the
   path-carrying wrapper (type, stream-wrapper path, node path, outermost?), errors.Is per
   sentinel, errors.As per custom type, payload of a recovered panic, ExtractInterruptInfo, and the
   node path printed in the error's message (the public carrier of the path).
   The model gives the SET of legal answers (parallel failures: any one may be reported);
   the observation must be one of them.  Messages are never compared. *)
From Eino Require Import Base.Util Model.Errors Model.ErrorsFwd Model.ErrorsResume.

(* [OErrB] / [OItemB]: a BLACK-BOX observation — the harness was built without the white-box group of hooks
   (build tag verif_c13wb: compose.VerifC13Info reads the private fields of the wrapper; it does not compile
   when those are renamed): the wrapper's fields were not observed, everything the public API gives was
   (the panic payload is then read from the message). *)
Inductive obs : Type := OOk | OErr (p : proj) | OItem (p : proj) | OPanic | OHang | OErrB (p : proj) | OItemB (p : proj).

Definition opt_eqb {A} (eqb : A -> A -> bool) (a b : option A) : bool :=
  match a, b with
  | None, None => true
  | Some x, Some y => eqb x y
  | _, _ => false
  end.

Definition internal_eqb (a b : ityp * list action * list string * bool) : bool :=
  match a, b with
  | (t, sp, np, o), (t', sp', np', o') =>
      ityp_eqb t t' && list_eqb action_eqb sp sp' && list_eqb String.eqb np np' && Bool.eqb o o'
  end.

Definition proj_eqb (a b : proj) : bool :=
  opt_eqb internal_eqb (p_internal a) (p_internal b)
  && list_eqb Bool.eqb (p_is a) (p_is b)
  && list_eqb (opt_eqb N.eqb) (p_as a) (p_as b)
  && opt_eqb N.eqb (p_panic a) (p_panic b)
  && Bool.eqb (p_interrupt a) (p_interrupt b)
  && list_eqb String.eqb (p_msg a) (p_msg b).

Definition proj_eqb_bb (a b : proj) : bool :=
  list_eqb Bool.eqb (p_is a) (p_is b)
  && list_eqb (opt_eqb N.eqb) (p_as a) (p_as b)
  && opt_eqb N.eqb (p_panic a) (p_panic b)
  && Bool.eqb (p_interrupt a) (p_interrupt b)
  && list_eqb String.eqb (p_msg a) (p_msg b).

Definition obs_of (a : answer) : option obs :=
  match a with
  | AOk => Some OOk
  | AErr e => Some (OErr (project e))
  | AItem e => Some (OItem (project e))
  | APanic => Some OPanic
  | AFuel => None          (* ill-nested case: never legal, shows up as a mismatch *)
  end.

Definition obs_eqb (a b : obs) : bool :=
  match a, b with
  | OOk, OOk => true
  | OErr p, OErr q => proj_eqb p q
  | OItem p, OItem q => proj_eqb p q
  | OErrB p, OErr q => proj_eqb_bb p q      (* observation (left) black-box, model (right) *)
  | OItemB p, OItem q => proj_eqb_bb p q
  | OPanic, OPanic => true
  | OHang, OHang => true
  | _, _ => false
  end.

(* A second kind of case drives the stream forwarders of schema/stream.go on their own
   (Model/ErrorsFwd.v): sources merged with MergeStreamReaders, the merged stream read to EOF;
   the observation must be an interleaving of the forwarded members (a single member is read
   directly). *)
(* [CaseN]: a case whose answer depends on the schedule (parallel nodes / tool calls) is run several
   times on the implementation; EVERY distinct observation must be one of the legal answers. *)
Inductive ccase : Type :=
| Case (F : forest) (p : paradigm) (cancel_before : bool) (in_item : option err) (o : obs)
| CaseN (F : forest) (p : paradigm) (cancel_before : bool) (in_item : option err) (os : list obs)
| CaseR (F : forest) (p : paradigm) (cancel_before : bool) (in_item : option err) (os : list obs)   (* interrupted runs resumed from their checkpoint until they no longer interrupt: every final observation *)
| FwdCase (srcs : list (list selem)) (o : fobs)
| FwdChild (src : list selem) (o : fobs).   (* one child of a copied source read directly *)

Definition legal (c : ccase) : list (option obs) :=
  match c with
  | Case F p cb ii _ | CaseN F p cb ii _ => map obs_of (answers F p cb ii)
  | CaseR F p cb ii _ => map obs_of (resumed_answers F p cb ii)
  | FwdCase _ _ | FwdChild _ _ => []
  end.

Definition is_legal (ls : list (option obs)) (o : obs) : bool :=
  existsb (fun l => match l with Some o' => obs_eqb o o' | None => false end) ls.

Definition bad (c : ccase) : bool :=
  match c with
  | Case F p cb ii o => negb (is_legal (legal c) o)
  | CaseN F p cb ii os | CaseR F p cb ii os => let ls := legal c in negb (forallb (is_legal ls) os) || match os with [] => true | _ => false end
  | FwdCase srcs o => negb (fwd_legal srcs o)
  | FwdChild src o => negb (child_legal src o)
  end.

Definition mismatches (cs : list ccase) : list nat := mismatches_from bad 0 cs.
