(* Corr/C10.v — comparison functions used by the generated cases_C10_*.v files.

   CaseScript: a white-box script of callback-manager operations that the harness executed
   on the real code through the hooks (managers with chosen offset / length / capacity,
   AppendHandlers, ReuseHandlers, On with every timing).  Observed: every handler
   invocation in order (unit, handler, timing code, run info) and, at the end of the script,
   the handler list every unit's manager holds.

   CaseGraph: a layered (possibly nested) graph run through the public API with recording
   handlers (global, per call in several options, designated to nodes and node paths).
   Observed: per run info (= execution unit), in ascending order of the run info, the
   SEQUENCE of (handler, timing code) in the order of invocation (within one unit the
   invocations are sequential; across units the order depends on the schedule and is not
   compared: Props/C10.v [schedule_independent]).

   It is compared with the canonical run of the heap-level model AND with the closed form
   [graph_table] / [uexp_events] of Model/CallbacksSched.v (what Props/C10.v
   [exactly_once_paired_units] states for every schedule).

   CaseRuns: a graph compiled with a checkpoint store and called with a checkpoint id, in which
   some node executions ask for an interrupt (compose.InterruptAndRerun, also through a nested
   graph); an interrupted run is followed by a run with the same checkpoint id until a run is
   not interrupted.  Observed: per run what CaseGraph observes.  The model gives the sequence of
   graphs these runs execute ([run_seqf] of Model/CallbacksResume.v: the nodes that completed are
   not executed again, the interrupted ones are; the first run is called with [opts], the runs
   that resume it with [opts2]); the number of runs must agree and every run is compared like a
   CaseGraph.

   CaseRunsF: a CaseRuns in which one resuming call fails before anything is restored (a fault of the
   checkpoint store; a newer build of the graph in which the pending nodes have other keys): that run is
   the graph's start and the graph's error, nothing else, and the sequence ends with it.

   CaseStream: one stream payload handed to n-1 handlers and the flow through the public
   callbacks.OnStartWithStreamInput / OnEndWithStreamOutput; afterwards the harness performs a
   script of recv / close actions on the n readers, in the given global order.  Observed: what
   every reader received, and (pipe source) whether the source was closed.

   The model is evaluated at the heap level (slices, Go append) with a doubling growth
   policy; Proofs/Callbacks.v shows the result does not depend on the policy. *)
From Eino Require Import Base.Util Base.GoSlice Model.Callbacks Model.CallbacksStream Model.CallbacksSched
  Model.CallbacksResume Model.CallbacksPayload.

Definition ev4 (e : event) : N * N * N * N :=
  match e with Ev u x t i => (u, x, timing_code t, i) end.
Definition ev3 (e : event) : N * N * N :=
  match e with Ev _ x t i => (x, timing_code t, i) end.

Definition n4_eqb (a b : N * N * N * N) : bool :=
  match a, b with (a1, a2, a3, a4), (b1, b2, b3, b4) => N.eqb a1 b1 && N.eqb a2 b2 && N.eqb a3 b3 && N.eqb a4 b4 end.
Definition n3_eqb (a b : N * N * N) : bool :=
  match a, b with (a1, a2, a3), (b1, b2, b3) => N.eqb a1 b1 && N.eqb a2 b2 && N.eqb a3 b3 end.
Definition n3_ltb (a b : N * N * N) : bool :=
  match a, b with (a1, a2, a3), (b1, b2, b3) =>
    if N.ltb a1 b1 then true else if N.ltb b1 a1 then false
    else if N.ltb a2 b2 then true else if N.ltb b2 a2 then false
    else N.ltb a3 b3 end.

Fixpoint list_eqb {A} (eqb : A -> A -> bool) (a b : list A) : bool :=
  match a, b with
  | [], [] => true
  | x :: a', y :: b' => eqb x y && list_eqb eqb a' b'
  | _, _ => false
  end.

Definition ev_info (e : event) : N := match e with Ev _ _ _ i => i end.
Definition ev2 (e : event) : N * N := match e with Ev _ x t _ => (x, timing_code t) end.
Definition n2_eqb (a b : N * N) : bool := N.eqb (fst a) (fst b) && N.eqb (snd a) (snd b).

Fixpoint dedup_sorted (l : list N) : list N :=
  match l with
  | a :: ((b :: _) as tl) => if N.eqb a b then dedup_sorted tl else a :: dedup_sorted tl
  | _ => l
  end.

(* the log grouped by run info: ascending run infos, the events of each in log order *)
Definition by_info (log : list event) : list (N * list (N * N)) :=
  map (fun i => (i, map ev2 (filter (fun e => N.eqb (ev_info e) i) log)))
      (dedup_sorted (sort_by N.ltb (map ev_info log))).

Definition group_eqb (a b : N * list (N * N)) : bool :=
  N.eqb (fst a) (fst b) && list_eqb n2_eqb (snd a) (snd b).

Definition mk_world (globals : list handler) (needs : list (handler * list N)) : world :=
  {| w_pol := pol_double; w_globals := globals; w_needs := needs_of needs |}.

Inductive ccase : Type :=
| CaseScript (globals : list handler) (needs : list (handler * list N)) (ops : list op)
             (obs : list (N * N * N * N)) (pobs : list N) (final : list (ukey * list handler))
    (* pobs: per observed invocation, which On call's payload the handler was handed (the k-th
       operation of the script is called with payload k, counted from 1; 0 = a stream copy the
       handler did not read to its end) *)
| CaseGraph (globals : list handler) (needs : list (handler * list N)) (opts : list copt)
            (is_stream : bool) (g : ukey) (ginf : info) (stages : list (list gnode))
            (obs : list (N * list (N * N)) * list (N * list N))
    (* second component: per unit, per invocation, the payload label: 0 the payload the unit
       consumed, 1 the one it produced, 2 the error it ended with, 8 not determined *)
| CaseRuns (globals : list handler) (needs : list (handler * list N)) (opts opts2 : list copt)
           (is_stream : bool) (g : ukey) (ginf : info) (plan : list (list rnode))
           (obs : list (list (N * list (N * N)) * list (N * list N)))
| CaseRunsF (globals : list handler) (needs : list (handler * list N)) (opts opts2 : list copt)
            (fault : nat)
            (is_stream : bool) (g : ukey) (ginf : info) (plan : list (list rnode))
            (obs : list (list (N * list (N * N)) * list (N * list N)))
    (* CaseRuns in which the [fault]-th call of the sequence (counted from 0, > 0: a call that resumes)
       fails in the prologue of runner.run: the checkpoint store fails, or the call is made by another
       build of the graph that has no node for the pending tasks of the checkpoint
       ([with_fault] / [prologue_fault] of Model/CallbacksResume.v); 0 = no such call *)
| CaseStream (globals locals : list handler) (t : timing) (order : list handler)
             (src : list N) (acts : list cact) (obs : list (list N)) (closed : option bool).
    (* order = the handlers in the order in which they were handed their copy (copy k goes
       to the k-th, the last copy to the flow) *)

Definition reader_eqb (a b : reader) : bool :=
  match a, b with
  | RHandler x, RHandler y => N.eqb x y
  | RFlow, RFlow => true
  | _, _ => false
  end.

(* the closed form: the events of all units of the table *)
Definition table_events (w : world) (is_stream : bool) (g : ukey) (ginf : info) (opts : list copt)
           (stages : list (list gnode)) : list (N * list (N * N)) :=
  by_info (flat_map (fun ep => uexp_events w (fst ep)) (graph_table_p is_stream g ginf opts stages)).

Definition final_ok (st : state) (final : list (ukey * list handler)) : bool :=
  forallb (fun uf : ukey * list handler =>
             match observed_list st (fst uf) with
             | Some l => list_eqb N.eqb l (snd uf)
             | None => false
             end) final.

(* an observed payload / label against the model's: the harness reports 0 resp. 8 when it could
   not tell (a stream copy not read to the end, a value it cannot derive) *)
Definition pay_eqb (wild : N) (model obs : N) : bool := N.eqb obs wild || N.eqb model obs.

(* the payload-carrying log grouped by run info: per unit the labels of its invocations *)
Definition labels_by_info (plog : list (event * payload)) : list (N * list N) :=
  map (fun i => (i, map (fun x => label_of (ev_unit (fst x)) (snd x))
                        (filter (fun x => N.eqb (ev_info (fst x)) i) plog)))
      (dedup_sorted (sort_by N.ltb (map (fun x => ev_info (fst x)) plog))).

Definition lgroup_eqb (a b : N * list N) : bool :=
  N.eqb (fst a) (fst b) && list_eqb (pay_eqb 8) (snd a) (snd b).

(* one run of a graph against what was observed: the canonical order of the heap-level model and
   the closed form; the payload every invocation carries *)
Definition graph_run_ok (w : world) (is_stream : bool) (g : ukey) (ginf : info) (opts : list copt)
           (stages : list (list gnode)) (obs : list (N * list (N * N)) * list (N * list N)) : bool :=
  let ops := graph_ops is_stream g ginf opts stages in
  let st := run_script true w ops in
  negb (st_bad st) && list_eqb group_eqb (by_info (st_log st)) (fst obs)
  && list_eqb group_eqb (table_events w is_stream g ginf opts stages) (fst obs)
  && list_eqb lgroup_eqb (labels_by_info (p_log (prun true w (map annot ops)))) (snd obs).

Fixpoint runs_ok (w : world) (is_stream : bool) (g : ukey) (ginf : info)
         (runs : list (list copt * list (list gnode)))
         (obs : list (list (N * list (N * N)) * list (N * list N))) : bool :=
  match runs, obs with
  | [], [] => true
  | r :: runs', o :: obs' => graph_run_ok w is_stream g ginf (fst r) (snd r) o && runs_ok w is_stream g ginf runs' obs'
  | _, _ => false
  end.

Definition bad (c : ccase) : bool :=
  match c with
  | CaseScript globals needs ops obs pobs final =>
      let st := run_script true (mk_world globals needs) ops in
      negb (negb (st_bad st) && list_eqb n4_eqb (map ev4 (st_log st)) obs && final_ok st final
            && list_eqb (pay_eqb 0) (map snd (p_log (prun true (mk_world globals needs) (numbered ops)))) pobs)
  | CaseGraph globals needs opts is_stream g ginf stages obs =>
      negb (graph_run_ok (mk_world globals needs) is_stream g ginf opts stages obs)
  | CaseRuns globals needs opts opts2 is_stream g ginf plan obs =>
      (* the first run is called with opts, the runs that resume it with opts2 *)
      negb (runs_ok (mk_world globals needs) is_stream g ginf
                    (run_seqf (S (total_intr plan)) (two_opts opts opts2) plan) obs)
  | CaseRunsF globals needs opts opts2 fault is_stream g ginf plan obs =>
      negb (runs_ok (mk_world globals needs) is_stream g ginf
                    (run_seqf (S (total_intr plan)) (with_fault fault (two_opts opts opts2)) plan) obs)
  | CaseStream globals locals t order src acts obs closed =>
      (* On: the selected handlers in invocation order; OnWithStreamHandle: one copy each, one more for the flow *)
      let w := mk_world globals [] in
      let copies := stream_copies (invoke_order t (select w t (locals ++ w_globals w))) in
      let n := List.length copies in
      negb (list_eqb reader_eqb (map snd copies) (map RHandler order ++ [RFlow]) &&
            list_eqb (list_eqb N.eqb) (received_all src n acts) obs &&
            match closed with
            | None => true
            | Some b => Bool.eqb (all_closed (run_acts (copy_n src n) acts)) b
            end)
  end.

Definition mismatches (cs : list ccase) : list nat := mismatches_from bad 0 cs.

(* what the model says, for replays and debugging *)
Definition model_script (globals : list handler) (needs : list (handler * list N)) (ops : list op) :=
  map ev4 (st_log (run_script true (mk_world globals needs) ops)).
Definition model_graph (globals : list handler) (needs : list (handler * list N)) (opts : list copt)
           (is_stream : bool) (g : ukey) (ginf : info) (stages : list (list gnode)) :=
  by_info (st_log (run_script true (mk_world globals needs) (graph_ops is_stream g ginf opts stages))).
Definition model_runs (globals : list handler) (needs : list (handler * list N)) (opts opts2 : list copt)
           (is_stream : bool) (g : ukey) (ginf : info) (plan : list (list rnode)) :=
  map (fun r => by_info (st_log (run_script true (mk_world globals needs) (graph_ops is_stream g ginf (fst r) (snd r)))))
      (run_seqf (S (total_intr plan)) (two_opts opts opts2) plan).
