(* Corr/C10.v — comparison functions used by the generated cases_C10_*.v files.

   CaseScript: a white-box script of callback-manager operations that the harness executed
   on the real code through the hooks (managers with chosen offset / length / capacity,
   AppendHandlers, ReuseHandlers, On with every timing).  Observed: every handler
   invocation in order (unit, handler, timing code, run info) and, at the end of the script,
   the handler list every unit's manager holds.

   CaseGraph: a layered (possibly nested) graph run through the public API with recording
   handlers (global, per call in several options, designated to nodes and node paths).
   Observed: the multiset of (handler, timing code, run info) over the whole run, sorted.

   It is compared with the canonical run of the heap-level model AND with the closed form
   [graph_table] / [uexp_events] of Model/CallbacksSched.v (what Props/C10.v
   [exactly_once_paired_units] states for every schedule).

   CaseStream: one stream payload handed to n-1 handlers and the flow through the public
   callbacks.OnStartWithStreamInput / OnEndWithStreamOutput; afterwards the harness performs a
   script of recv / close actions on the n readers, in the given global order.  Observed: what
   every reader received, and (pipe source) whether the source was closed.

   The model is evaluated at the heap level (slices, Go append) with a doubling growth
   policy; Proofs/Callbacks.v shows the result does not depend on the policy. *)
From Eino Require Import Base.Util Base.GoSlice Model.Callbacks Model.CallbacksStream Model.CallbacksSched.

Definition ev4 (e : event) : N * N * N * N :=
  match e with Ev u x t i => (u, x, timing_code t, i) end.
Definition ev3 (e : event) : N * N * N :=
  match e with Ev _ x t i => (x, timing_code t, i) end.

Definition n4_eqb (a b : N * N * N * N) : bool :=
  match a, b with (a1, a2, a3, a4), (b1, b2, b3, b4) => N.eqb a1 b1 && N.eqb a2 b2 && N.eqb a3 b3 && N.eqb a4 b4 end.
Definition n3_eqb (a b : N * N * N) : bool :=
  match a, b with (a1, a2, a3), (b1, b2, b3) => N.eqb a1 b1 && N.eqb a2 b2 && N.eqb a3 b3 end.
Definition n3_ltb (a b : N * N * N) : bool :=
  match a, b with (a1, a2, a3), (b1, b2, b3) =>
    if N.ltb a1 b1 then true else if N.ltb b1 a1 then false
    else if N.ltb a2 b2 then true else if N.ltb b2 a2 then false
    else N.ltb a3 b3 end.

Fixpoint list_eqb {A} (eqb : A -> A -> bool) (a b : list A) : bool :=
  match a, b with
  | [], [] => true
  | x :: a', y :: b' => eqb x y && list_eqb eqb a' b'
  | _, _ => false
  end.

Definition mk_world (globals : list handler) (needs : list (handler * list N)) : world :=
  {| w_pol := pol_double; w_globals := globals; w_needs := needs_of needs |}.

Inductive ccase : Type :=
| CaseScript (globals : list handler) (needs : list (handler * list N)) (ops : list op)
             (obs : list (N * N * N * N)) (final : list (ukey * list handler))
| CaseGraph (globals : list handler) (needs : list (handler * list N)) (opts : list copt)
            (is_stream : bool) (g : ukey) (ginf : info) (stages : list (list gnode))
            (obs : list (N * N * N))
| CaseStream (src : list N) (n : nat) (acts : list cact) (obs : list (list N)) (closed : option bool).

(* the closed form: the events of all units of the table *)
Definition table_events (w : world) (is_stream : bool) (g : ukey) (ginf : info) (opts : list copt)
           (stages : list (list gnode)) : list (N * N * N) :=
  sort_by n3_ltb (map ev3 (flat_map (uexp_events w) (graph_table is_stream g ginf opts stages))).

Definition final_ok (st : state) (final : list (ukey * list handler)) : bool :=
  forallb (fun uf : ukey * list handler =>
             match observed_list st (fst uf) with
             | Some l => list_eqb N.eqb l (snd uf)
             | None => false
             end) final.

Definition bad (c : ccase) : bool :=
  match c with
  | CaseScript globals needs ops obs final =>
      let st := run_script true (mk_world globals needs) ops in
      negb (negb (st_bad st) && list_eqb n4_eqb (map ev4 (st_log st)) obs && final_ok st final)
  | CaseGraph globals needs opts is_stream g ginf stages obs =>
      let st := run_script true (mk_world globals needs) (graph_ops is_stream g ginf opts stages) in
      negb (negb (st_bad st) && list_eqb n3_eqb (sort_by n3_ltb (map ev3 (st_log st))) obs
            && list_eqb n3_eqb (table_events (mk_world globals needs) is_stream g ginf opts stages) obs)
  | CaseStream src n acts obs closed =>
      negb (list_eqb (list_eqb N.eqb) (received_all src n acts) obs &&
            match closed with
            | None => true
            | Some b => Bool.eqb (all_closed (run_acts (copy_n src n) acts)) b
            end)
  end.

Definition mismatches (cs : list ccase) : list nat := mismatches_from bad 0 cs.

(* what the model says, for replays and debugging *)
Definition model_script (globals : list handler) (needs : list (handler * list N)) (ops : list op) :=
  map ev4 (st_log (run_script true (mk_world globals needs) ops)).
Definition model_graph (globals : list handler) (needs : list (handler * list N)) (opts : list copt)
           (is_stream : bool) (g : ukey) (ginf : info) (stages : list (list gnode)) :=
  sort_by n3_ltb (map ev3 (st_log (run_script true (mk_world globals needs) (graph_ops is_stream g ginf opts stages)))).
