(* Corr/C17.v — comparison used by the generated cases_C17_*.v files.

   A case = the tools node configuration (tool list with kinds, behaviour table keyed by the
   argument string, unknown-tool handler), one assistant message (role flag + calls) and the
   observations of up to five runs of the real ToolsNode on it:
     RInvoke  standalone / in a graph       : messages, error class or escaped panic
     RStream  standalone / in a graph       : call-time error / panic, or the sequence of
                                              sparse chunks received, how the stream ended,
                                              and what the framework's own concatenation
                                              (concatStreamReader -> concatMessageArray) of
                                              exactly those chunks returned
     RConcat  graph tools -> invokable lambda, Stream: the list the lambda received; also, one per
              consumer, the list each of SEVERAL consumers of the node's (copied) stream received:
              branch condition + selected node + output, two successors, StreamReader.Copy(2)
   plus, per run, the completion order of the tools ([pi], fed to the model as its schedule)
   and the multiset of tool executions (name, args, call id seen by the tool in its ctx, tool
   options the tool was handed).

   Call options: the sequence of ToolsNodeOptions the call was given, in the order given —
   WithToolList(tools...) (replaces the configured tool set for the call; the last one decides;
   without argument it withdraws the list) and WithToolOption(tool options...); a tool option is
   of one of two implementation-specific types and carries a tag; a tool that reads options of
   type t prefixes its output with the concatenation of the tags of the options of type t, in
   the order given.  The model folds the sequence itself (Model/ToolsOpts.v).

   Error classes: tool errors by their code (>= 100), recovered panic = 4, everything else
   the node reports (unknown tool, bad role, no call, empty stream) = one class 0. *)
From Eino Require Import Base.Util Model.Concat Model.ConcatMsg Model.Tools Model.ToolsMsg Model.ToolsOpts Model.ToolsPar.
Local Open Scope string_scope.

(* b_bare: the output is the chunks as they are (no "<tag><name>:" prefix), so that a tool can
   answer the empty string *)
Record behav : Type := mkB { b_chunks : list string; b_fail : N; b_failat : option nat; b_panic : bool; b_bare : bool }.
Inductive hcfg : Type := HNone | HOk | HErr (e : N) | HPanic.

Definition prefix_first (name : string) (cs : list string) : list string :=
  match cs with [] => [] | c :: r => (name ++ ":" ++ c) :: r end.

(* the chunks a tool named [name] that was handed the option tag [tag] emits for behaviour [b] *)
Definition out_chunks (b : behav) (tag name : string) : list string :=
  if b_bare b then b_chunks b else prefix_first (tag ++ name) (b_chunks b).

(* [tag] = the option tag the tool acts on ("" for a tool that ignores its options) *)
(* [q]: the tool is built with utils' default output marshalling: the output of an invocation,
   every chunk of a streamed execution, is rendered as a JSON string (the harness's outputs need
   no escaping) *)
Definition jq (q : bool) (s : string) : string := if q then """" ++ s ++ """" else s.

Definition tbl_inv (tbl : list (string * behav)) (q : bool) (tag : string) (name args : string) : tres :=
  match alist_get args tbl with
  | None => TErr 7
  | Some b =>
      if b_panic b then TPanic
      else if N.eqb (b_fail b) 0 then
             TOk (jq q (if b_bare b then concat_strings (b_chunks b)
                        else tag ++ name ++ ":" ++ concat_strings (b_chunks b)))
           else TErr (b_fail b)
  end.

Definition tbl_str (tbl : list (string * behav)) (q : bool) (tag : string) (name args : string) : sres :=
  match alist_get args tbl with
  | None => SErr 7
  | Some b =>
      if b_panic b then SPanic
      else if N.eqb (b_fail b) 0 then SOk (map (jq q) (out_chunks b tag name)) None
           else match b_failat b with
                | None => SErr (b_fail b)
                | Some k => SOk (firstn k (map (jq q) (out_chunks b tag name))) (Some (b_fail b))
                end
  end.

Definition handler_of (h : hcfg) : option (string -> string -> tres) :=
  match h with
  | HNone => None
  | HOk => Some (fun n a => TOk ("unk:" ++ n ++ ":" ++ a))
  | HErr e => Some (fun _ _ => TErr e)
  | HPanic => Some (fun _ _ => TPanic)
  end.

(* monomorphic constructors (no implicit arguments): the generated case files elaborate
   several times faster than with nested pairs *)
Inductive omsg : Type := M (content id : string) | NoMsg.          (* a tool message / a nil entry *)
Inductive ochunk : Type := Ch (pos : nat) (content id : string).     (* a sparse chunk: position set, message *)
Inductive xcall : Type := X (name args id tag : string).            (* one tool execution; id as seen in its ctx; option tag it was handed *)
(* a tool given to NewToolNode / WithToolList: k = None: it implements neither run interface;
   oty: the implementation-specific option type it reads (0 = none); q: its outputs are rendered
   as JSON strings; info_ok: its Info call succeeds *)
Inductive tdef : Type := T (name : string) (k : option tkind) (oty : N) (q : bool) (info_ok : bool).
(* a tool.Option: its implementation-specific type and the tag it carries *)
Inductive ctag : Type := TG (ty : N) (tag : string).
(* a ToolsNodeOption *)
Inductive cnopt : Type := NOpts (tags : list ctag) | NList (l : option (list tdef)).
Inductive brow : Type := B (args : string) (b : behav).

Inductive host : Type := HStandalone | HGraph.
Inductive iobs : Type := IMsgs (ms : list omsg) | IErr (e : N) | IPanic.
Inductive cobs : Type := CNone | CMsgs (ms : list omsg) | CErr (e : N).
Inductive sobs : Type :=
| SCallErr (e : N) | SCallPanic
| SChunks (em : list ochunk) (fin : option N) (cc : cobs).

Inductive run : Type :=
| RInvoke (h : host) (pi : list nat) (o : iobs) (ex : list xcall)
| RStream (h : host) (pi : list nat) (o : sobs) (ex : list xcall)
| RConcat (pi : list nat) (o : cobs) (ex : list xcall)
(* static: what a task's goroutine executes in parallelRunToolCall (the tool, the deferred recover
   handler, the deferred wg.Done, in execution order), read from the source the harness was built
   against; attached to the cases in which a goroutine task panics *)
| RStatic (prog : list gact).

Record ccase : Type := mkCase {
  k_tdefs : list tdef;
  k_nopts : list cnopt;                   (* the call's options, in the order given *)
  k_rows : list brow;
  k_handler : hcfg;
  k_role_ok : bool;
  k_calls : list call;
  k_runs : list run }.

(* ---- equality helpers ---------------------------------------------------------------- *)
Definition ecls (e : N) : N := if N.ltb e 100 then (if N.eqb e 4 then 4 else 0) else e.

Fixpoint list_eqb {A} (eqb : A -> A -> bool) (a b : list A) : bool :=
  match a, b with
  | [], [] => true
  | x :: a', y :: b' => eqb x y && list_eqb eqb a' b'
  | _, _ => false
  end.
Fixpoint is_prefix {A} (eqb : A -> A -> bool) (a b : list A) : bool :=
  match a, b with
  | [], _ => true
  | x :: a', y :: b' => eqb x y && is_prefix eqb a' b'
  | _, _ => false
  end.
Definition omsg_eqb (a b : omsg) : bool :=
  match a, b with
  | M c i, M c' i' => String.eqb c c' && String.eqb i i'
  | NoMsg, NoMsg => true
  | _, _ => false
  end.
Definition xcall_eqb (a b : xcall) : bool :=
  match a, b with X n a i t, X n' a' i' t' => String.eqb n n' && String.eqb a a' && String.eqb i i' && String.eqb t t' end.
Definition omsg_of (m : tmsg) : omsg := M (fst m) (snd m).
Definition omsg_of_opt (m : option tmsg) : omsg := match m with Some m => omsg_of m | None => NoMsg end.
(* a message of C14's model as the harness prints a schema.Message *)
Definition omsg_of_msg (m : option msg) : omsg :=
  match m with
  | Some m => M (if String.eqb (m_role m) "tool" then m_content m else "<role " ++ m_role m ++ ">" ++ m_content m) (m_tcid m)
  | None => NoMsg
  end.
Definition k_tbl (c : ccase) : list (string * behav) := map (fun r => match r with B a b => (a, b) end) (k_rows c).
(* what a tool that reads options of type [oty] makes of the tool options it is handed *)
Definition tag_seen (oty : N) (os : list (topt string)) : string := concat_strings (impl_specific oty os).
(* the tool as the model's convTools sees it; its implementation is the behaviour table, keyed
   by the argument string, on the tag it reads from the tool options it is handed *)
Definition decl_of (tbl : list (string * behav)) (t : tdef) : tooldecl (list (topt string)) :=
  match t with
  | T n k oty q ok =>
      mkTD ok n k (mkTI (fun os => tbl_inv tbl q (tag_seen oty os) n)
                        (fun os => tbl_str tbl q (tag_seen oty os) n))
  end.
Definition decls_of (tbl : list (string * behav)) (l : list tdef) : list (tooldecl (list (topt string))) := map (decl_of tbl) l.
(* name -> (kind, option type) in the list in force, resolved as convTools' index does *)
Definition def_lookup (l : list tdef) (name : string) : option (option tkind * N) :=
  index_lookup (map (fun t => match t with T n k s _ _ => (n, (k, s)) end) l) name.
Definition topts_of (tags : list ctag) : list (topt string) := map (fun t => match t with TG ty s => (ty, s) end) tags.
(* the call's options as the model's, over tool descriptions and over the model's tool declarations *)
Definition nopt_tdefs (o : cnopt) : nodeopt string tdef :=
  match o with NOpts tags => WithToolOption (topts_of tags) | NList l => WithToolList l end.
Definition nopt_decls (tbl : list (string * behav)) (o : cnopt) : nodeopt string (tooldecl (list (topt string))) :=
  match o with NOpts tags => WithToolOption (topts_of tags) | NList l => WithToolList (option_map (decls_of tbl) l) end.

Fixpoint remove_one {A} (eqb : A -> A -> bool) (x : A) (l : list A) : option (list A) :=
  match l with
  | [] => None
  | y :: l' => if eqb x y then Some l' else option_map (cons y) (remove_one eqb x l')
  end.
Fixpoint multiset_eqb {A} (eqb : A -> A -> bool) (a b : list A) : bool :=
  match a with
  | [] => match b with [] => true | _ => false end
  | x :: a' => match remove_one eqb x b with Some b' => multiset_eqb eqb a' b' | None => false end
  end.

(* ---- per-run comparison -------------------------------------------------------------- *)
Section Case.
  Variable c : ccase.
  Let hd := handler_of (k_handler c).
  Let cfg := decls_of (k_tbl c) (k_tdefs c).
  Let nopts := map (nopt_decls (k_tbl c)) (k_nopts c).
  Let m_invoke := call_invoke hd cfg nopts.
  Let m_stream := call_stream_open hd cfg nopts.
  (* the model's fold of the option list, on the tool descriptions: the list in force, and the
     tool options every execution is handed *)
  Let st := get_node_opts (map nopt_tdefs (k_nopts c)).
  Let eff_defs := match fst st with Some l => l | None => k_tdefs c end.

  Definition host_wrap {A} (h : host) (r : res A) : res A :=
    match h with HStandalone => r | HGraph => in_graph r end.

  (* the tag a call's execution sees: the handler takes no options *)
  Definition seen_tag (name : string) : string :=
    match def_lookup eff_defs name with
    | Some (_, oty) => tag_seen oty (snd st)
    | None => ""
    end.

  (* the harness's tools record an execution when their body is entered: not for arguments they
     cannot parse (= not in the behaviour table); the unknown-tool handler takes any input *)
  Definition enters_body (cl : call) : bool :=
    match def_lookup eff_defs (c_name cl) with
    | Some _ => match alist_get (c_args cl) (k_tbl c) with Some _ => true | None => false end
    | None => true
    end.

  Definition exec_ok (ex : list xcall) : bool :=
    multiset_eqb xcall_eqb ex
      (map (fun cl => X (c_name cl) (c_args cl) (c_id cl) (seen_tag (c_name cl)))
           (filter enters_body (call_executed hd cfg nopts (k_role_ok c) (k_calls c)))).

  Definition invoke_ok (h : host) (pi : list nat) (o : iobs) : bool :=
    match host_wrap h (m_invoke pi (k_role_ok c) (k_calls c)), o with
    | Ok ms, IMsgs ms' => list_eqb omsg_eqb (map omsg_of ms) ms'
    | Err e, IErr e' => N.eqb (ecls e) e'
    | Panic, IPanic => true
    (* standalone only (in_graph never yields Panic): whether the panic of the inline task
       escapes to the caller or is reported as the panic error is not constrained by the
       property (there is no enclosing run); both are accepted *)
    | Panic, IErr e' => N.eqb e' 4
    | _, _ => false
    end.

  Definition indexed {A} (l : list A) : list (nat * A) := combine (seq 0 (List.length l)) l.

  Definition chunks_ok (ss : list tstream) (em : list ochunk) (fin : option N) (cc : cobs) : bool :=
    let ids := stream_ids ss in
    let srcs := stream_srcs ss in
    let em' := map (fun x => match x with Ch p c _ => (p, c) end) em in
    forallb (fun x => match x with
                      | Ch p _ i => match nth_error ids p with
                                    | Some id => String.eqb id i
                                    | None => false
                                    end
                      end) em
    && match fin with
       | None =>
           forallb (fun p => list_eqb String.eqb (proj (fst p) em') (fst (snd p))
                             && match snd (snd p) with None => true | Some _ => false end) (indexed srcs)
           && match concat_pos ids em', cc with
              | Ok l, CMsgs l' => list_eqb omsg_eqb (map omsg_of_opt l) l'
              | Err e, CErr e' => N.eqb (ecls e) e'
              | _, _ => false
              end
           (* ... and C14's model of the framework's concatenation, run on the sparse lists *)
           && match @framework_concat tools_no_user ids em', cc with
              | Ok l, CMsgs l' => list_eqb omsg_eqb (map omsg_of_msg l) l'
              | Err _, CErr e' => N.eqb 0 e'
              | _, _ => false
              end
       | Some e =>
           forallb (fun p => is_prefix String.eqb (proj (fst p) em') (fst (snd p))) (indexed srcs)
           && existsb (fun p => list_eqb String.eqb (proj (fst p) em') (fst (snd p))
                                && match snd (snd p) with Some e' => N.eqb (ecls e') e | None => false end) (indexed srcs)
           && match cc with CNone => true | _ => false end
       end.

  Definition stream_ok (h : host) (pi : list nat) (o : sobs) : bool :=
    match host_wrap h (m_stream pi (k_role_ok c) (k_calls c)), o with
    | Ok ss, SChunks em fin cc => chunks_ok ss em fin cc
    | Err e, SCallErr e' => N.eqb (ecls e) e'
    | Panic, SCallPanic => true
    | Panic, SCallErr e' => N.eqb e' 4     (* as in invoke_ok *)
    | _, _ => false
    end.

  (* tools -> invokable lambda, Stream: the framework concatenates the merged stream before the lambda *)
  Definition concat_ok (pi : list nat) (o : cobs) : bool :=
    match in_graph (m_stream pi (k_role_ok c) (k_calls c)), o with
    | Ok ss, _ =>
        let srcs := stream_srcs ss in
        if forallb (fun s => match snd s with None => true | Some _ => false end) srcs then
          match concat_pos (stream_ids ss) (fst (merge_run (seq_sched srcs) srcs)), o with
          | Ok l, CMsgs l' => list_eqb omsg_eqb (map omsg_of_opt l) l'
          | Err e, CErr e' => N.eqb (ecls e) e'
          | _, _ => false
          end
        else match o with
             | CErr e => existsb (fun s => match snd s with Some e' => N.eqb (ecls e') e | None => false end) srcs
             | _ => false
             end
    | Err e, CErr e' => N.eqb (ecls e) e'
    | _, _ => false
    end.

  Definition run_ok (r : run) : bool :=
    match r with
    | RInvoke h pi o ex => invoke_ok h pi o && exec_ok ex
    | RStream h pi o ex => stream_ok h pi o && exec_ok ex
    | RConcat pi o ex => concat_ok pi o && exec_ok ex
    (* the program the protocol theorems (tools_par_invoke_refines, ...) are about *)
    | RStatic prog => prog_eqb prog prog_ok
    end.
End Case.

Definition bad (c : ccase) : bool := negb (forallb (run_ok c) (k_runs c)).
Definition mismatches (cs : list ccase) : list nat := mismatches_from bad 0 cs.
