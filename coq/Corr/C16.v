(* Corr/C16.v — comparison used by the generated cases_C16_*.v files.
   A case is a forest of graphs and a list of calls on the compiled top-level graph (the
   harness runs them concurrently); each call comes with what the implementation showed:
     OErr                 the call returned an error (class only)
     OOk deliv fired      deliv: per executing component node (DFS order of the forest) the
                                 payloads of the option values it received, in order;
                          fired: per executing callback-enabled node (top-level graph = path [],
                                 sub graph nodes, components) the handlers whose OnStart fired
                                 there, sorted (with multiplicity). *)
From Eino Require Import Base.Util Model.Options Model.OptionsResume.

Inductive obs : Type :=
| OErr
| OOk (deliv : list (path * list N)) (fired : list (path * list N))
| OModelBad (e : N).

Definition deliveries (rs : list report) : list (path * list N) :=
  flat_map (fun r => match r_items r with Some its => [(r_path r, map snd its)] | None => [] end) rs.
Definition firings (rs : list report) : list (path * list N) :=
  flat_map (fun r => match r_fired r with Some hs => [(r_path r, sort_by N.ltb hs)] | None => [] end) rs.

Definition model_obs (F : forest) (c : call) : obs :=
  match run F c with
  | Ok rs => OOk (deliveries rs) (firings rs)
  | Err e => if N.leb e 5 then OErr else OModelBad e
  | Panic => OModelBad 0
  end.

(* a call of a session: entered with what the checkpoint store holds (None: a fresh start) *)
Definition model_obs_r (F : forest) (ck : option ckpt) (c : call) : obs :=
  match resume F c ck with
  | Ok rs => OOk (deliveries rs) (firings rs)
  | Err e => if N.leb e 5 then OErr else OModelBad e
  | Panic => OModelBad 0
  end.

Fixpoint list_eqb {A} (eqb : A -> A -> bool) (x y : list A) : bool :=
  match x, y with
  | [], [] => true
  | a :: x', b :: y' => eqb a b && list_eqb eqb x' y'
  | _, _ => false
  end.
Definition pl_eqb (a b : path * list N) : bool :=
  list_eqb N.eqb (fst a) (fst b) && list_eqb N.eqb (snd a) (snd b).

Definition obs_eqb (a b : obs) : bool :=
  match a, b with
  | OErr, OErr => true
  | OOk d f, OOk d' f' => list_eqb pl_eqb d d' && list_eqb pl_eqb f f'
  | _, _ => false
  end.

(* Case: one forest, the calls run concurrently / one after the other, each from START.
   CaseR: a session on one checkpoint id — call 0 starts the run, every later call resumes it
          where the previous one was interrupted; each call comes with the forest whose n_runs
          are the nodes that executed in that call (tree unfolding: one graph per graph node)
          and with the checkpoint it was entered with, as far as the public InterruptInfo of
          the interrupted call shows it (interrupt-before / rerun nodes and interrupted sub
          graphs are inputs of the checkpoint, the latter with their own nested checkpoint). *)
Inductive ccase : Type :=
| Case (F : forest) (calls : list (call * obs))
| CaseR (steps : list (forest * option ckpt * call * obs)).

Definition bad (c : ccase) : bool :=
  match c with
  | Case F calls => negb (forallb (fun co => obs_eqb (model_obs F (fst co)) (snd co)) calls)
  | CaseR steps =>
      negb (forallb (fun s => match s with
                              | (F, ck, c, o) => obs_eqb (model_obs_r F ck c) o
                              end) steps)
  end.
Definition mismatches (cs : list ccase) : list nat := mismatches_from bad 0 cs.
