(* Corr/C16.v — comparison used by the generated cases_C16_*.v files.
   A case is a forest of graphs and a list of calls on the compiled top-level graph (the
   harness runs them concurrently); each call comes with what the implementation showed:
     OErr                 the call returned an error (class only)
     OOk deliv fired      deliv: per executing component node (DFS order of the forest) the
                                 payloads of the option values it received, in order;
                          fired: per executing callback-enabled node (top-level graph = path [],
                                 sub graph nodes, components) the handlers whose OnStart fired
                                 there, sorted (with multiplicity). *)
From Eino Require Import Base.Util Model.Options Model.OptionsSpec Model.OptionsResume Model.OptionsAll Model.OptionsHosted.

Inductive obs : Type :=
| OErr
| OOk (deliv : list (path * list N)) (fired : list (path * list N))
| OModelBad (e : N).

(* deliveries / firings: Model/OptionsAll.v *)

Definition obs_of (r : res (list report)) : obs :=
  match r with
  | Ok rs => OOk (deliveries rs) (firings rs)
  | Err e => if N.leb e 5 then OErr else OModelBad e
  | Panic => OModelBad 0
  end.

(* a call from START on the forest whose n_runs are the branch decisions of the case *)
Definition model_obs (F : forest) (c : call) : obs := obs_of (run F c).

(* a call of a session, entered with what the checkpoint store holds (None: a fresh start):
   the model's answer for EVERY node of the forest (which nodes execute in which call of a
   session is the engine's business and not an input of the model) *)
Definition model_obs_r (F : forest) (ck : option ckpt) (c : call) : obs :=
  obs_of (would_resume F c ck).

(* pointwise: every node the implementation showed to execute (its entry in deliv / fired) has
   exactly one entry in the model's answer for all nodes, with the same values
   (Proofs/OptionsAll.v: within_deliveries_sound / _complete, within_firings_sound) *)
Definition obs_within (model o : obs) : bool :=
  match model, o with
  | OErr, OErr => true
  | OOk d f, OOk d' f' => within d d' && within f f'
  | _, _ => false
  end.

(* the same, and every node the model reports was observed (at least once: a node of a looping
   graph, a ToolsNode with several tool calls has one observed entry per execution, and every
   one of them must be the model's entry for the node) *)
Definition covers (model observed : list (path * list N)) : bool :=
  forallb (fun e => existsb (fun e' => path_eqb (fst e') (fst e)) observed) model.
Definition obs_same (model o : obs) : bool :=
  match model, o with
  | OErr, OErr => true
  | OOk d f, OOk d' f' => within d d' && within f f' && covers d d' && covers f f'
  | _, _ => false
  end.

(* Case: one forest, the calls run concurrently / one after the other, each from START; the
         forest's n_runs are the decisions of the branches (inputs of the case), and the
         implementation must report exactly the nodes the model reports, every execution of a
         node with the model's values (obs_same).
   CaseR: a session on one checkpoint id — call 0 starts the run, every later call resumes it
          where the previous one was interrupted; each call comes with the checkpoint it was
          entered with, as far as the public InterruptInfo of the interrupted call shows it
          (interrupt-before / rerun nodes and interrupted sub graphs are inputs of the
          checkpoint, the latter with their own nested checkpoint). What the call showed — one
          entry per node that executed in it — is compared pointwise with the model's answer
          for all nodes.
   CaseH: like Case, but every call comes with the handlers [hh] that are already in the context it
          is issued with (a call made from inside a lambda node of a host graph whose own call carried
          the handlers hh; [] for a call from a fresh context): Model/OptionsHosted.v run_hosted. *)
Inductive ccase : Type :=
| Case (F : forest) (calls : list (call * obs))
| CaseR (F : forest) (steps : list (option ckpt * call * obs))
| CaseH (F : forest) (calls : list (list N * call * obs)).

Definition model_obs_h (F : forest) (hh : list N) (c : call) : obs := obs_of (run_hosted_call F hh c).

Definition bad (c : ccase) : bool :=
  match c with
  | Case F calls => negb (forallb (fun co => obs_same (model_obs F (fst co)) (snd co)) calls)
  | CaseR F steps =>
      negb (forallb (fun s => match s with
                              | (ck, c, o) => obs_within (model_obs_r F ck c) o
                              end) steps)
  | CaseH F calls =>
      negb (forallb (fun s => match s with
                              | (hh, c, o) => obs_same (model_obs_h F hh c) o
                              end) calls)
  end.
Definition mismatches (cs : list ccase) : list nat := mismatches_from bad 0 cs.
