(* Corr/C02.v — correspondence for C02 (all-predecessor / Workflow: nodes run at most once, exactly when
   triggered). Two kinds of cases:
   * CGraph: a forest whose root is a Graph compiled with AllPredecessor or a Workflow, an input, the
     observation of the real run (comparison logic in Model/GraphCmp.v, shared with C01);
   * CChan: white box — a real dagChannel (built by dagChannelBuilder through the hook
     compose/verif_c02.go) driven with a sequence of operations; the full channel state observed after
     every operation is compared with the model channel of Model/Graph.v. *)
From Eino Require Import Base.Util Model.Graph Model.Chain Model.GraphCmp.
Open Scope N_scope.

Inductive chan_op :=
| OpValues (ins : list (key * value))     (* reportValues: map source -> value               *)
| OpDeps (ks : list key)                  (* reportDependencies                              *)
| OpSkip (ks : list key)                  (* reportSkip; observed return value in the state  *)
| OpGet.                                  (* get(false)                                      *)

(* observed state after an operation: control states (0 waiting, 1 ready, 2 skipped), data flags,
   Skipped, values, and the operation's own result: for OpSkip the returned bool, for OpGet (ready, value) *)
Inductive op_ret := RNone | RSkip (b : bool) | RGet (v : option value) | RGetErr.
Record chan_obs := {
  co_ctrl : list (key * N); co_data : list (key * bool); co_skipped : bool;
  co_vals : list (key * value); co_ret : op_ret }.

Inductive ccase :=
| CGraph (c : gcase)
| CChan (ctrl data : list key) (ops : list (chan_op * chan_obs)).

Definition tchan := chan value.

Definition dep_code (d : dep) : N := match d with Waiting => 0 | Ready => 1 | Skipped => 2 end.

Definition chan0 (ctrl data : list key) : tchan :=
  {| c_ctrl := fold_right (fun p m => ainsert p Waiting m) [] ctrl;
     c_data := fold_right (fun p m => ainsert p false m) [] data;
     c_skipped := false; c_vals := [] |}.

(* reportValues takes a Go map: one value per source, applied in ascending key order *)
Definition apply_op (c : tchan) (op : chan_op) : tchan * op_ret :=
  match op with
  | OpValues ins => (dag_report_values value c ins, RNone)
  | OpDeps ks => (dag_report_deps value c ks, RNone)
  | OpSkip ks => let '(c', b) := dag_report_skip value c ks in (c', RSkip b)
  | OpGet => match dag_get value tree_ops c with
             | Ok (ov, c') => (c', RGet ov)
             | _ => (dag_reset value c, RGetErr)     (* the deferred reset also runs when the merge fails *)
             end
  end.

Fixpoint list_eqb {A B} (eqb : A -> B -> bool) (a : list A) (b : list B) : bool :=
  match a, b with
  | [], [] => true
  | x :: a', y :: b' => eqb x y && list_eqb eqb a' b'
  | _, _ => false
  end.

Definition ret_eqb (a b : op_ret) : bool :=
  match a, b with
  | RNone, RNone => true
  | RSkip x, RSkip y => Bool.eqb x y
  | RGet None, RGet None => true
  | RGet (Some v), RGet (Some w) => value_eqb v w
  | RGetErr, RGetErr => true
  | _, _ => false
  end.

Definition obs_matches (c : tchan) (r : op_ret) (o : chan_obs) : bool :=
  list_eqb (fun a b => N.eqb (fst a) (fst b) && N.eqb (dep_code (snd a)) (snd b)) (c_ctrl value c) (co_ctrl o)
  && list_eqb (fun a b => N.eqb (fst a) (fst b) && Bool.eqb (snd a) (snd b)) (c_data value c) (co_data o)
  && Bool.eqb (c_skipped value c) (co_skipped o)
  && list_eqb (fun a b => N.eqb (fst a) (fst b) && value_eqb (snd a) (snd b)) (c_vals value c) (co_vals o)
  && ret_eqb r (co_ret o).

Fixpoint chan_trace_ok (c : tchan) (ops : list (chan_op * chan_obs)) : bool :=
  match ops with
  | [] => true
  | (op, o) :: rest => let '(c', r) := apply_op c op in obs_matches c' r o && chan_trace_ok c' rest
  end.

Definition bad (c : ccase) : bool :=
  match c with
  | CGraph g => gcase_bad g
  | CChan ctrl data ops => negb (chan_trace_ok (chan0 ctrl data) ops)
  end.
Definition mismatches (cs : list ccase) : list nat := mismatches_from bad 0 cs.
