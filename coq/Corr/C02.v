(* Corr/C02.v — correspondence for C02 (all-predecessor / Workflow: nodes run at most once, exactly when
   triggered). Two kinds of cases:
   * CGraph: a forest whose root is a Graph compiled with AllPredecessor or a Workflow, an input, the
     observation of the real run (comparison logic in Model/GraphCmp.v, shared with C01);
   * CLoop: a forest that graph.compile rejected because validateDAG found a control cycle: the model's
     validate_dag (Model/DagValidate.v) must reject it too; every forest of a CGraph case compiled, so the
     model must accept it;
   * CFamily: the same graph and input with the branch tables replaced by every combination of constant
     outcomes (single branches: each end; multi branches over two ends: every subset), each member compared
     like a CGraph case — exhaustive over the branch outcomes of that graph;
   * CChan: white box — a real dagChannel (built by dagChannelBuilder through the hook
     compose/verif_c02.go) driven with a sequence of operations; the full channel state observed after
     every operation is compared with the model channel of Model/Graph.v. *)
From Eino Require Import Base.Util Model.Graph Model.Chain Model.GraphCmp Model.DagValidate Model.DagSpec.
Open Scope N_scope.

Inductive chan_op :=
| OpValues (ins : list (key * value))     (* reportValues: map source -> value               *)
| OpDeps (ks : list key)                  (* reportDependencies                              *)
| OpSkip (ks : list key)                  (* reportSkip; observed return value in the state  *)
| OpGet.                                  (* get(false)                                      *)

(* observed state after an operation: control states (0 waiting, 1 ready, 2 skipped), data flags,
   Skipped, values, and the operation's own result: for OpSkip the returned bool, for OpGet (ready, value) *)
Inductive op_ret := RNone | RSkip (b : bool) | RGet (v : option value) | RGetErr.
Record chan_obs := {
  co_ctrl : list (key * N); co_data : list (key * bool); co_skipped : bool;
  co_vals : list (key * value); co_ret : op_ret }.

Inductive ccase :=
| CGraph (c : gcase)
| CLoop (F : list gdef)          (* Compile rejected the forest with "DAG invalid, node[..] has loop" *)
| CFamily (cs : list gcase)      (* one graph run under EVERY combination of outcomes of its branches *)
| CChan (ctrl data : list key) (ops : list (chan_op * chan_obs)).

Definition tchan := chan value.

Definition dep_code (d : dep) : N := match d with Waiting => 0 | Ready => 1 | Skipped => 2 end.

Definition chan0 (ctrl data : list key) : tchan :=
  {| c_ctrl := fold_right (fun p m => ainsert p Waiting m) [] ctrl;
     c_data := fold_right (fun p m => ainsert p false m) [] data;
     c_skipped := false; c_vals := [] |}.

(* reportValues takes a Go map: one value per source, applied in ascending key order *)
Definition apply_op (c : tchan) (op : chan_op) : tchan * op_ret :=
  match op with
  | OpValues ins => (dag_report_values value c ins, RNone)
  | OpDeps ks => (dag_report_deps value c ks, RNone)
  | OpSkip ks => let '(c', b) := dag_report_skip value c ks in (c', RSkip b)
  | OpGet => match dag_get value tree_ops c with
             | Ok (ov, c') => (c', RGet ov)
             | _ => (dag_reset value c, RGetErr)     (* the deferred reset also runs when the merge fails *)
             end
  end.

Fixpoint list_eqb {A B} (eqb : A -> B -> bool) (a : list A) (b : list B) : bool :=
  match a, b with
  | [], [] => true
  | x :: a', y :: b' => eqb x y && list_eqb eqb a' b'
  | _, _ => false
  end.

Definition ret_eqb (a b : op_ret) : bool :=
  match a, b with
  | RNone, RNone => true
  | RSkip x, RSkip y => Bool.eqb x y
  | RGet None, RGet None => true
  | RGet (Some v), RGet (Some w) => value_eqb v w
  | RGetErr, RGetErr => true
  | _, _ => false
  end.

Definition obs_matches (c : tchan) (r : op_ret) (o : chan_obs) : bool :=
  list_eqb (fun a b => N.eqb (fst a) (fst b) && N.eqb (dep_code (snd a)) (snd b)) (c_ctrl value c) (co_ctrl o)
  && list_eqb (fun a b => N.eqb (fst a) (fst b) && Bool.eqb (snd a) (snd b)) (c_data value c) (co_data o)
  && Bool.eqb (c_skipped value c) (co_skipped o)
  && list_eqb (fun a b => N.eqb (fst a) (fst b) && value_eqb (snd a) (snd b)) (c_vals value c) (co_vals o)
  && ret_eqb r (co_ret o).

Fixpoint chan_trace_ok (c : tchan) (ops : list (chan_op * chan_obs)) : bool :=
  match ops with
  | [] => true
  | (op, o) :: rest => let '(c', r) := apply_op c op in obs_matches c' r o && chan_trace_ok c' rest
  end.

(* Eager (Workflow) instances whose run can FAIL: which task is collected first is decided by goroutine
   timing, so whether the failure is seen before END is ready, and which of several failures is seen, is not
   a function of the case. The model is run under three schedules (first / last / middle running task
   completes next); if none of them fails the comparison is the strict one of Model/GraphCmp.v, otherwise the
   implementation may have failed (any class) or finished with a result that some schedule produces (when
   one does), and its log must consist of lambdas of the case. Batch-mode forests are always compared strictly. *)
Definition sched_last : nat -> list key -> nat := fun _ ks => Nat.pred (List.length ks).
Definition sched_mid : nat -> list key -> nat := fun _ ks => Nat.div2 (List.length ks).

Definition run_with (sched : nat -> list key -> nat) (c : gcase) : outcome value :=
  fst (run value unit tree_ops (tree_exec (gc_fails c)) sched (lower_forest (gc_forest c)) (gc_input c) tt).

Definition is_fail (o : outcome value) : bool := match o with Fail _ _ => true | Done _ _ => false end.

Definition gcase_ok_c02 (c : gcase) : bool :=
  let F := lower_forest (gc_forest c) in
  if existsb g_eager F then
    let outs := [run_with sched_first c; run_with sched_last c; run_with sched_mid c] in
    if existsb is_fail outs then
      match F with
      | [] => false
      | g :: _ =>
        weak_log_ok F g (o_log (gc_obs c))
        && match o_class (gc_obs c) with
           | OFail _ => true
           | ODone v =>
               negb (existsb (fun o => negb (is_fail o)) outs)
               || existsb (fun o => match o with Done v' _ => value_eqb v v' | Fail _ _ => false end) outs
           | _ => false
           end
      end
    else gcase_ok c
  else gcase_ok c.

(* THE DENOTATION against the implementation (Model/DagSpec.v; Props/C02.v dag_result_is_den,
   dag_executed_is_den, dag_failure_is_den). For a case whose root is in all-predecessor mode and whose nodes are
   listed in a topological order (topo_ok: every graph of the generators except the deliberately cyclic ones),
   den_run is evaluated by recursion on that order — no channels, no loop, no schedule — and compared with what
   the implementation showed: every logged execution of a root lambda is of a node den triggers, on den's input;
   a finished run returned den's result; a node failure the run reported is a DFail of den. Nested graphs enter
   through nout (run_nest of the sub-graph); cases with a failing lambda AND a nested graph are left out (a
   failing eager sub-graph is not a function of its input). *)
Definition sub_of (fails : list fail_entry) (F : forest) : nat -> path -> value -> unit -> outcome value * unit :=
  fun i p' v s' =>
    match nth_error F i with
    | Some g' => run_nest value unit tree_ops (tree_exec fails) sched_first (List.length F) F p' g' v s'
    | None => (Fail [mkerr eUnknownNode] [], s')
    end.

Definition nout_of (fails : list fail_entry) (F : forest) (n : node) (v : value) : tres value :=
  fst (fst (run_task value unit tree_ops (tree_exec fails) (sub_of fails F) [] n v tt)).

Definition has_sub (g : graph) : bool :=
  existsb (fun n => match n_kind n with KSub _ => true | _ => false end) (g_nodes g).

Definition den_applicable (c : gcase) (g : graph) : bool :=
  match g_mode g with Dag => true | Pregel => false end
  && topo_ok g (node_order g)
  && (match gc_fails c with [] => true | _ => false end || negb (has_sub g)).

Definition den_ok (c : gcase) : bool :=
  let F := lower_forest (gc_forest c) in
  match F with
  | [] => true
  | g :: _ =>
    if den_applicable c g then
      let ord := node_order g in
      let nout := nout_of (gc_fails c) F in
      let T := den_run value tree_ops g nout (gc_input c) ord in
      forallb (fun ev : path * value =>
                 match fst ev with
                 | [t] => match den_trig value tree_ops g T t with
                          | TRun w => value_eqb w (snd ev)
                          | _ => false
                          end
                 | _ => true
                 end) (o_log (gc_obs c))
      && match o_class (gc_obs c) with
         | ODone v => match den_trig value tree_ops g T kEND with TRun v' => value_eqb v v' | _ => false end
         | OFail cls =>
             if N.ltb eNodeBase cls then
               existsb (fun k => match stat value T k with
                                 | DFail es => existsb (fun e => N.eqb (e_class e) cls) es
                                 | _ => false
                                 end) ord
             else true
         | _ => true
         end
    else true
  end.

Definition bad (c : ccase) : bool :=
  match c with
  | CGraph g => negb (gcase_ok_c02 g) || negb (forest_dag_valid (lower_forest (gc_forest g)))   (* it compiled *)
                || negb (den_ok g)
  | CLoop F => forest_dag_valid (lower_forest F)
  | CFamily gs => existsb (fun g => negb (gcase_ok_c02 g) || negb (forest_dag_valid (lower_forest (gc_forest g))) || negb (den_ok g)) gs
  | CChan ctrl data ops => negb (chan_trace_ok (chan0 ctrl data) ops)
  end.
Definition mismatches (cs : list ccase) : list nat := mismatches_from bad 0 cs.
