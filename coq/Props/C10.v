(* Props/C10.v — property C10: callback handlers fire exactly once per execution unit, start
   paired with end-or-error, for the right node, with that node's run info; designated
   handlers only there; stream payload copies independent.
   Only statements, each closed by [exact]; non-vacuity Examples; [_refuted] witnesses for the
   code as it was before the repairs of F-C10 (8b69b91), F-C10c (db1b29b) and F-C10d (31b7668). *)
From Coq Require Import List Arith NArith Bool.
From Eino Require Import Base.Util Base.GoSlice Model.Callbacks Model.CallbacksStream Model.CallbacksSched
  Model.CallbacksResume Model.CallbacksEager Model.CallbacksPayload.
From Eino Require Import Proofs.CallbacksSlice Proofs.Callbacks Proofs.CallbacksEngine Proofs.CallbacksStream
  Proofs.CallbacksSched Proofs.CallbacksWitness Proofs.CallbacksResume Proofs.CallbacksEager Proofs.CallbacksPayload
  Proofs.CallbacksFault.
Import ListNotations.
Local Open Scope N_scope.

(* ------------------------------------------------------------------ slices: Go's append *)

(* Go's append on a well-formed slice reads  old ++ xs  and stays well formed, for every
   growth policy (every Go version's growslice). *)
Theorem go_append_spec :
  forall (pol : policy) (h : heap) (s : slice) (xs : list elem),
    wf h s ->
    read (fst (append pol h s xs)) (snd (append pol h s xs)) = read h s ++ xs /\
    wf (fst (append pol h s xs)) (snd (append pol h s xs)).
Proof. exact append_spec. Qed.
Print Assumptions go_append_spec.

Example go_append_spec_nonvacuous_in_place :
  let hs := alloc_slice [] 1 [1; 2; 3] 2 in
  wfb (fst hs) (snd hs) = true /\
  append pol_double (fst hs) (snd hs) [7] =
    ([[0; 1; 2; 3; 7; 0]], {| arr := 0; off := 1; len := 4; cap := 5 |}).
Proof. vm_compute. split; reflexivity. Qed.

Example go_append_spec_nonvacuous_realloc :
  let hs := alloc_slice [] 1 [1; 2; 3] 0 in
  append pol_double (fst hs) (snd hs) [7] =
    ([[0; 1; 2; 3]; [1; 2; 3; 7; 0; 0]], {| arr := 1; off := 0; len := 4; cap := 6 |}).
Proof. vm_compute. reflexivity. Qed.

(* ------------------------------------------------------------------ refinement *)

(* The heap-level model of the repaired manager code (slice headers into shared arrays, Go's
   append, every growth policy, every capacity and offset) and the pure list specification
   ("inherited ++ designated") agree on every script of operations: same flag, same event
   log, related contexts. *)
Theorem script_refines_spec :
  forall (w : world) (ops : list op), R w (run_script true w ops) (run_spec w ops).
Proof. exact Proofs.Callbacks.script_refines_spec. Qed.
Print Assumptions script_refines_spec.

(* ------------------------------------------------------------------ handler_lists_immutable *)

(* For every growth policy / global handler list / timing table [w], every prefix [pre] of
   operations (managers created with any offset, length and spare capacity; AppendHandlers
   through initGraphCallbacks / initNodeCallbacks; ReuseHandlers; On with every timing) by any
   units in any order, a unit [u] created by AppendHandlers from [parent] with the designated
   option lists [opts], and every suffix [post] of operations by any units in any order that
   does not give u's name to a new unit: the handler list u observes afterwards is
   inherited ++ designated as computed at its creation. *)
Theorem handler_lists_immutable :
  forall (w : world) (pre : list op) (parent : option ukey) (u : ukey) (inf : info)
         (opts : list (list handler)) (post : list op) (inh : list handler),
    inherited_list (run_script true w pre) parent = Some inh ->
    no_rebind u post ->
    observed_list (run_script true w (pre ++ OAppend parent u inf opts :: post)) u
    = Some (inh ++ List.concat opts).
Proof. exact handler_lists_immutable_proof. Qed.
Print Assumptions handler_lists_immutable.

(* [w_plain globals]: doubling growth policy, the given global handlers, no TimingChecker;
   [fc10_pre], [fc10_post]: the scenario of F-C10 (parent list [1;2;3] with one spare slot, two
   siblings) — Proofs/CallbacksWitness.v *)

Example handler_lists_immutable_nonvacuous :
  inherited_list (run_script true (w_plain [9]) [ORaw 0 100 0%nat [1; 2; 3] 1%nat]) (Some 0) = Some [1; 2; 3] /\
  (forall o, In o fc10_post -> creates o <> Some 1) /\
  observed_list (run_script true (w_plain [9]) (fc10_pre ++ fc10_post)) 1 = Some [1; 2; 3; 4] /\
  observed_list (run_script true (w_plain [9]) (fc10_pre ++ fc10_post)) 2 = Some [1; 2; 3; 5].
Proof.
  split; [vm_compute; reflexivity|]. split.
  - intros o [<-|[<-|[<-|[<-|[]]]]]; discriminate.
  - split; vm_compute; reflexivity.
Qed.

(* the caller passes hs[0:3] of the slice it passed for unit 0 again (unit 5): the two managers
   share one array and the new one's spare slot is unit 0's fourth handler; nothing is written *)
Example handler_lists_immutable_nonvacuous_alias :
  let pre := [ORaw 0 100 1%nat [1; 2; 3; 4] 0%nat] in
  let post := [OAlias 0 5 105 0%nat 3%nat; OOn 5 TStart; OOn 5 TEnd; OOn 1 TEnd] in
  observed_list (run_script true (w_plain [9]) (pre ++ OAppend (Some 0) 1 101 [[7]] :: post)) 1 = Some [1; 2; 3; 4; 7] /\
  observed_list (run_script true (w_plain [9]) (pre ++ OAppend (Some 0) 1 101 [[7]] :: post)) 0 = Some [1; 2; 3; 4] /\
  observed_list (run_script true (w_plain [9]) (pre ++ OAppend (Some 0) 1 101 [[7]] :: post)) 5 = Some [1; 2; 3] /\
  (* On as it was writes the global handler 9 over unit 0's handler 4 *)
  observed_list (run_script false (w_plain [9]) (pre ++ OAppend (Some 0) 1 101 [[7]] :: post)) 0 = Some [1; 2; 3; 9].
Proof. vm_compute. repeat split; reflexivity. Qed.

(* The code as it was (AppendHandlers = append(cbm.handlers, hs...)): the sibling's append
   lands in the shared spare slot and unit 1 afterwards observes the handler designated to
   unit 2. *)
Theorem handler_lists_immutable_v0_refuted :
  exists (w : world) (pre : list op) (parent : option ukey) (u : ukey) (inf : info)
         (opts : list (list handler)) (post : list op) (inh : list handler),
    inherited_list (run_script false w pre) parent = Some inh /\
    no_rebind u post /\
    observed_list (run_script false w (pre ++ OAppend parent u inf opts :: post)) u
    = Some [1; 2; 3; 5] /\
    inh ++ List.concat opts = [1; 2; 3; 4].
Proof. exact handler_lists_immutable_v0_refuted_witness. Qed.
Print Assumptions handler_lists_immutable_v0_refuted.

(* The same for On as it was (append(mgr.handlers, mgr.globalHandlers...) for the iteration):
   the parent's own On writes the global handler over the child's designated handler. *)
Theorem handler_lists_immutable_on_v0_refuted :
  exists (w : world) (pre : list op) (parent : option ukey) (u : ukey) (inf : info)
         (opts : list (list handler)) (post : list op) (inh : list handler),
    inherited_list (run_script false w pre) parent = Some inh /\
    no_rebind u post /\
    (forall o, In o post -> exists v t, o = OOn v t) /\
    observed_list (run_script false w (pre ++ OAppend parent u inf opts :: post)) u
    = Some [1; 2; 3; 9] /\
    inh ++ List.concat opts = [1; 2; 3; 4].
Proof. exact handler_lists_immutable_on_v0_refuted_witness. Qed.
Print Assumptions handler_lists_immutable_on_v0_refuted.

(* ------------------------------------------------------------------ designated_only_there *)

(* A handler that is neither global, nor in the list the unit inherits, nor designated to the
   unit is never invoked for it — whoever else it is designated to, whatever the other units
   do before and after, in any order, with any slice capacities and growth policy. *)
Theorem designated_only_there :
  forall (w : world) (pre : list op) (parent : option ukey) (u : ukey) (inf : info)
         (opts : list (list handler)) (post : list op) (inh : list handler) (x : handler),
    inherited_list (run_script true w pre) parent = Some inh ->
    (forall o, In o pre -> creates o <> Some u) ->
    no_rebind u post ->
    ~ In x inh -> ~ In x (List.concat opts) -> ~ In x (w_globals w) ->
    forall e, In e (st_log (run_script true w (pre ++ OAppend parent u inf opts :: post))) ->
              ev_unit e = u -> ev_handler e <> x.
Proof. exact designated_only_there_proof. Qed.
Print Assumptions designated_only_there.

Example designated_only_there_nonvacuous :
  let log := st_log (run_script true (w_plain [9]) (fc10_pre ++ fc10_post)) in
  (* handler 5 is designated to unit 2 only, and it is invoked — for unit 2 only *)
  filter (fun e => N.eqb (ev_handler e) 5) log = [Ev 2 5 TStart 102] /\
  filter (of_unit 1) log = [Ev 1 1 TEnd 101; Ev 1 2 TEnd 101; Ev 1 3 TEnd 101; Ev 1 4 TEnd 101; Ev 1 9 TEnd 101].
Proof. vm_compute. split; reflexivity. Qed.

(* As it was: the handler designated to unit 2 receives the end of unit 1. *)
Theorem designated_only_there_v0_refuted :
  exists (w : world) (pre : list op) (parent : option ukey) (u : ukey) (inf : info)
         (opts : list (list handler)) (post : list op) (inh : list handler) (x : handler),
    inherited_list (run_script false w pre) parent = Some inh /\
    (forall o, In o pre -> creates o <> Some u) /\
    no_rebind u post /\
    ~ In x inh /\ ~ In x (List.concat opts) /\ ~ In x (w_globals w) /\
    exists e, In e (st_log (run_script false w (pre ++ OAppend parent u inf opts :: post))) /\
              ev_unit e = u /\ ev_handler e = x.
Proof. exact designated_only_there_v0_refuted_witness. Qed.
Print Assumptions designated_only_there_v0_refuted.

(* ------------------------------------------------------------------ exactly_once_paired: one graph *)

(* A graph unit g (its context created by any earlier operations [pre], with any slice
   capacities) and n parallel node units, in EVERY interleaving [body] of the nodes' programs
   (initNodeCallbacks; On start; On end-or-error): the events of every node unit are exactly
   its start events followed by exactly its end events, one per attachment of a handler that
   asks for the timing (graph list ++ designated ++ global), carrying the node's run info. *)
Theorem exactly_once_paired_flat :
  forall (w : world) (pre : list op) (g : ukey) (Lg : list handler) (nodes : list fnode)
         (body : list op) (sg eg : timing),
    observed_list (run_script true w pre) g = Some Lg ->
    NoDup (map fn_key nodes) ->
    ~ In g (map fn_key nodes) ->
    (forall n o, In n nodes -> In o pre -> mentions (fn_key n) o = false) ->
    Interleave (map (fprog g) nodes) body ->
    forall n, In n nodes ->
      filter (of_unit (fn_key n)) (flat_log w pre g body sg eg) =
        served w (fn_key n) (fn_info n) (Lg ++ List.concat (fn_opts n)) (fn_start n) ++
        served w (fn_key n) (fn_info n) (Lg ++ List.concat (fn_opts n)) (fn_end n).
Proof. exact node_events. Qed.
Print Assumptions exactly_once_paired_flat.

(* ------------------------------------------------------------------ exactly_once_paired: the engine *)

(* The run of a compiled (nested, layered) graph as a program tree: the graph's callbacks
   context, On start, then stage after stage all nodes of the stage IN PARALLEL (each node:
   initNodeCallbacks, then On start / On end-or-error around the body, or recursively the run
   of a sub graph, or a ToolsNode: On start, all tool calls of the message IN PARALLEL — each
   ReuseHandlers with the tool's run info, On start / On end-or-error — then On end-or-error),
   a failing node or a rejected designation ending the run with On error.
   [traces p t]: t is a schedule of p (any interleaving of parallel branches, at every
   nesting level).  The canonical operation list that Corr/C10.v evaluates is one of them: *)
Theorem canonical_order_is_a_schedule :
  forall is_stream g ginf opts stages,
    flatten (graph_prog is_stream g ginf opts stages) = graph_ops is_stream g ginf opts stages /\
    traces (graph_prog is_stream g ginf opts stages) (graph_ops is_stream g ginf opts stages).
Proof. exact canonical_order_is_a_schedule_witness. Qed.
Print Assumptions canonical_order_is_a_schedule.

(* For every world (growth policy, global handlers, timing table), paradigm, graph (any
   nesting, any stage widths, failing nodes, passthrough nodes, any native paradigms of the
   lambdas), any call options (handlers for the whole graph, designated to nodes and to node
   paths, valid or not) and EVERY schedule t: for every unit of the closed-form table
   [graph_table] (the units that execute; handler list = inherited ++ designated, top down),
   the events of that unit in the log are exactly the expected ones: for each of its timings
   (start; then end / stream end / error) the handlers of list ++ globals that ask for the
   timing, one event per attachment, start timings in reverse order, all with the unit's
   run info. *)
Theorem exactly_once_paired_units :
  forall w is_stream g ginf opts stages t,
    NoDup (g :: stages_uids stages) ->
    traces (graph_prog is_stream g ginf opts stages) t ->
    forall e, In e (graph_table is_stream g ginf opts stages) ->
      filter (of_unit (ue_unit e)) (st_log (run_script true w t)) = uexp_events w e.
Proof. exact engine_unit_logs. Qed.
Print Assumptions exactly_once_paired_units.

(* ... and nothing else fires: every event of every schedule belongs to a unit of the table
   and is one of that unit's expected events (so a unit that does not execute — a stage after
   a failing one, anything below a rejected designation — has no events). *)
Theorem no_other_events :
  forall w is_stream g ginf opts stages t,
    NoDup (g :: stages_uids stages) ->
    traces (graph_prog is_stream g ginf opts stages) t ->
    forall ev, In ev (st_log (run_script true w t)) ->
      exists e, In e (graph_table is_stream g ginf opts stages) /\ ev_unit ev = ue_unit e /\
                In ev (uexp_events w e).
Proof. exact engine_no_other_events. Qed.
Print Assumptions no_other_events.

(* The counting form.  A served unit has timings [s; f] (s a start timing, f an end / stream
   end / error timing, see [table_timings]); for every handler x and timing tm, the number of
   invocations of x for the unit with timing tm and the unit's run info is the number of
   times x is attached to the unit if tm is s or f and x asks for it, otherwise zero.  In
   particular a handler without TimingChecker attached once is invoked exactly once at the
   start and exactly once at the end-or-error. *)
Theorem exactly_once_paired :
  forall w is_stream g ginf opts stages t,
    NoDup (g :: stages_uids stages) ->
    traces (graph_prog is_stream g ginf opts stages) t ->
    forall e, In e (graph_table is_stream g ginf opts stages) ->
    forall s f, ue_timings e = [s; f] ->
    forall x tm,
      List.length (filter (is_ev (ue_unit e) x tm (ue_info e)) (st_log (run_script true w t))) =
      if (timing_eqb tm s || timing_eqb tm f) && w_needs w x tm
      then count_occ N.eq_dec (ue_list e ++ w_globals w) x else 0%nat.
Proof. exact engine_exactly_once_paired. Qed.
Print Assumptions exactly_once_paired.

Theorem table_timings :
  forall is_stream g ginf opts stages e,
    In e (graph_table is_stream g ginf opts stages) ->
    ue_timings e = [] \/
    exists s f, ue_timings e = [s; f] /\ is_start s = true /\ is_start f = false.
Proof. exact graph_table_timings. Qed.
Print Assumptions table_timings.

(* a passthrough node gets a callbacks context but is never served *)
Theorem unserved_unit_silent :
  forall w is_stream g ginf opts stages t,
    NoDup (g :: stages_uids stages) ->
    traces (graph_prog is_stream g ginf opts stages) t ->
    forall e, In e (graph_table is_stream g ginf opts stages) -> ue_timings e = [] ->
      filter (of_unit (ue_unit e)) (st_log (run_script true w t)) = [].
Proof. exact engine_unserved_silent. Qed.
Print Assumptions unserved_unit_silent.

(* what the correspondence check compares (per unit / per handler event multisets of the
   canonical order) is what every schedule gives *)
Theorem schedule_independent :
  forall w is_stream g ginf opts stages t,
    NoDup (g :: stages_uids stages) ->
    traces (graph_prog is_stream g ginf opts stages) t ->
    forall u, filter (of_unit u) (st_log (run_script true w t)) =
              filter (of_unit u) (st_log (run_script true w (graph_ops is_stream g ginf opts stages))).
Proof. exact engine_schedule_independent. Qed.
Print Assumptions schedule_independent.

(* In every schedule every operation of the run finds the context it needs (AppendHandlers /
   ReuseHandlers on an existing parent context, On on an existing context): the model's flag
   [st_bad] — which Corr/C10.v requires to be false on the canonical order — is false on every
   schedule, so no expected event is lost to a missing context. *)
Theorem model_never_flags :
  forall w is_stream g ginf opts stages t,
    NoDup (g :: stages_uids stages) ->
    traces (graph_prog is_stream g ginf opts stages) t ->
    st_bad (run_script true w t) = false.
Proof. exact engine_never_flagged. Qed.
Print Assumptions model_never_flags.

(* ------------------------------------------------------------------ designated_only_there: node paths *)

(* [graph_table_p]: the table with every unit's node path from the top graph (what
   compose.NewNodePath addresses); forgetting the paths gives back the table. *)
Theorem table_with_paths :
  forall is_stream g ginf opts stages,
    map fst (graph_table_p is_stream g ginf opts stages) = graph_table is_stream g ginf opts stages.
Proof. exact graph_table_p_fst. Qed.
Print Assumptions table_with_paths.

(* The handler list of a unit consists exactly of the handlers of the call options that
   attach to the unit's node path: options without designation (whole graph and everything
   nested in it) and options designated to the unit itself or to a sub graph node enclosing
   it ([attaches o q]: snd o = [] or some non-empty path of o is a prefix of q). *)
Theorem handler_list_by_node_path :
  forall is_stream g ginf opts stages e pe,
    In (e, pe) (graph_table_p is_stream g ginf opts stages) ->
    forall x, In x (ue_list e) <-> exists o, In o opts /\ In x (fst o) /\ attaches o pe.
Proof. exact engine_lists_by_path. Qed.
Print Assumptions handler_list_by_node_path.

(* DESIGNATED ONLY THERE at the level of the public API: in every schedule of every run, a
   handler is invoked for a unit only if it is a global handler or some call option attaches
   it to that unit's node path.  A handler designated to one node is never invoked for
   another node, however many nodes run in parallel and however the handlers were passed. *)
Theorem invoked_only_where_attached :
  forall w is_stream g ginf opts stages t,
    NoDup (g :: stages_uids stages) ->
    traces (graph_prog is_stream g ginf opts stages) t ->
    forall ev, In ev (st_log (run_script true w t)) ->
      exists e pe, In (e, pe) (graph_table_p is_stream g ginf opts stages) /\
        ev_unit ev = ue_unit e /\
        (In (ev_handler ev) (w_globals w) \/
         exists o, In o opts /\ In (ev_handler ev) (fst o) /\ attaches o pe).
Proof. exact engine_invoked_only_where_attached. Qed.
Print Assumptions invoked_only_where_attached.

(* Non-vacuity: a nested graph in transform mode — a Stream-only lambda (unit 1), a sub graph
   (unit 2) holding a Transform lambda (3) and a failing Invoke lambda (4) in parallel and a
   second stage (5) that never runs, a passthrough (6), a ToolsNode (8) with an invoke-only
   tool call (9) and a failing stream-only tool call (10) in parallel, a second outer stage (7)
   that never runs; handlers for the whole graph, designated to nodes, to the sub graph, to
   node paths inside it and to the ToolsNode; one global handler; under the round-robin
   schedule. *)
Definition ex_opts : list copt :=
  [([1], []); ([2], [[1]]); ([3], [[2]]); ([4], [[2; 1]]); ([5], [[2; 2]]); ([6], [[3]]); ([7], [[5]])].
Definition ex_stages : list (list gnode) :=
  [[GLambda 1 1 1 2 false;
    GSub 2 2 2 [[GLambda 3 1 3 8 false; GLambda 4 2 4 1 true]; [GLambda 5 3 5 1 false]];
    GPass 6 3;
    GTools 8 5 8 [(9, 9, 1, false); (10, 10, 2, true)]];
   [GLambda 7 4 7 1 false]].
Definition ex_sched : list op := flatten_alt (graph_prog true 0 0 ex_opts ex_stages).

Example exactly_once_paired_nonvacuous :
  NoDup (0 :: stages_uids ex_stages) /\
  traces (graph_prog true 0 0 ex_opts ex_stages) ex_sched /\
  ex_sched <> graph_ops true 0 0 ex_opts ex_stages /\
  map (fun e => (ue_unit e, ue_list e, ue_timings e)) (graph_table true 0 0 ex_opts ex_stages) =
    [(0, [1], [TStartStream; TError]); (1, [1; 2], [TStart; TEndStream]);
     (2, [1; 3], [TStartStream; TError]); (3, [1; 3; 4], [TStartStream; TEndStream]);
     (4, [1; 3; 5], [TStart; TError]); (6, [1; 6], []);
     (8, [1; 7], [TStart; TError]); (9, [1; 7], [TStart; TEnd]); (10, [1; 7], [TStart; TError])] /\
  map (fun ep => (ue_unit (fst ep), snd ep)) (graph_table_p true 0 0 ex_opts ex_stages) =
    [(0, []); (1, [1]); (2, [2]); (3, [2; 1]); (4, [2; 2]); (6, [3]); (8, [5]); (9, [5]); (10, [5])] /\
  filter (of_unit 4) (st_log (run_script true (w_plain [9]) ex_sched)) =
    [Ev 4 9 TStart 4; Ev 4 5 TStart 4; Ev 4 3 TStart 4; Ev 4 1 TStart 4;
     Ev 4 1 TError 4; Ev 4 3 TError 4; Ev 4 5 TError 4; Ev 4 9 TError 4] /\
  filter (of_unit 10) (st_log (run_script true (w_plain [9]) ex_sched)) =
    [Ev 10 9 TStart 10; Ev 10 7 TStart 10; Ev 10 1 TStart 10;
     Ev 10 1 TError 10; Ev 10 7 TError 10; Ev 10 9 TError 10] /\
  st_bad (run_script true (w_plain [9]) ex_sched) = false.
Proof.
  split.
  - vm_compute. repeat (constructor; [simpl; intuition discriminate|]). constructor.
  - split; [apply traces_flatten_alt|].
    split; [vm_compute; discriminate|].
    split; [vm_compute; reflexivity|]. split; [vm_compute; reflexivity|].
    split; [vm_compute; reflexivity|]. split; vm_compute; reflexivity.
Qed.

(* The code as it was, on the graph of F-C10 (three separate WithCallbacks options for the
   whole graph: the graph's list has length 3 and capacity 4; handler 4 designated to node 1,
   handler 5 to node 2, both in one stage): in the schedule in which both nodes are created
   before either starts, node 1 is served handler 5 and never handler 4.  (In the canonical
   order node 1 has finished before node 2 is created and nothing shows: the quantification
   over schedules is what the theorem above is about.) *)

Theorem exactly_once_paired_v0_refuted :
  exists w is_stream g ginf opts stages t e,
    NoDup (g :: stages_uids stages) /\
    traces (graph_prog is_stream g ginf opts stages) t /\
    In e (graph_table is_stream g ginf opts stages) /\
    ue_list e = [1; 2; 3; 4] /\
    filter (of_unit (ue_unit e)) (st_log (run_script false w t)) =
      [Ev 1 5 TStart 1; Ev 1 3 TStart 1; Ev 1 2 TStart 1; Ev 1 1 TStart 1;
       Ev 1 1 TEnd 1; Ev 1 2 TEnd 1; Ev 1 3 TEnd 1; Ev 1 5 TEnd 1] /\
    filter (of_unit (ue_unit e)) (st_log (run_script false w t)) <> uexp_events w e /\
    (* while the canonical order hides it *)
    filter (of_unit (ue_unit e)) (st_log (run_script false w (graph_ops is_stream g ginf opts stages)))
      = uexp_events w e.
Proof. exact exactly_once_paired_v0_refuted_witness. Qed.
Print Assumptions exactly_once_paired_v0_refuted.

(* F-C10c (repaired by db1b29b): before the repair a tool call answered by the ToolsNode's
   UnknownToolsHandler was an execution unit to which the ToolsNode's handlers applied (its context
   was created with the tool's run info) for which no handler was ever invoked; the repaired code
   (the model's [call_ops], the same for every tool call) serves it start ++ end. *)
Theorem unknown_tool_call_v0_refuted :
  exists (w : world) (is_stream : bool) (pre : list op) (tn : ukey) (c : ukey * info * N * bool),
    let cu := fst (fst (fst c)) in
    observed_list (run_script true w (pre ++ call_ops is_stream tn c)) cu = Some [1] /\
    filter (of_unit cu) (st_log (run_script true w (pre ++ call_ops is_stream tn c))) =
      [Ev cu 1 TStart 7; Ev cu 1 TEnd 7] /\
    observed_list (run_script true w (pre ++ call_ops_unknown_v0 tn c)) cu = Some [1] /\
    filter (of_unit cu) (st_log (run_script true w (pre ++ call_ops_unknown_v0 tn c))) = [].
Proof. exact unknown_tool_call_v0_refuted_witness. Qed.
Print Assumptions unknown_tool_call_v0_refuted.

(* F-C10d (repaired by 31b7668): before the repair a node whose component panicked (the panic is
   contained by the engine and reported as the node's error) was served its start callbacks and no
   end of any kind; the repaired code serves start ++ error, as for a returned error ([fails]). *)
Theorem panicking_unit_v0_refuted :
  exists (w : world) (pre : list op) (opts : list copt),
    filter (of_unit 2) (st_log (run_script true w (pre ++ fst (node_ops false 0 opts (GLambda 2 1 2 1 true))))) =
      [Ev 2 4 TStart 2; Ev 2 1 TStart 2; Ev 2 1 TError 2; Ev 2 4 TError 2] /\
    filter (of_unit 2) (st_log (run_script true w (pre ++ lambda_ops_panic_v0 false 0 opts 2 1 2 1))) =
      [Ev 2 4 TStart 2; Ev 2 1 TStart 2].
Proof. exact panicking_unit_v0_refuted_witness. Qed.
Print Assumptions panicking_unit_v0_refuted.

(* ------------------------------------------------------------------ eager task collection (Workflow) *)

(* [reorder c t] (Model/CallbacksEager.v): t arises from c by exchanging adjacent operations of
   different units neither of which creates the context the other reads.  The executions of a
   Workflow (eager task collection: the run returns and the graph reports its error as soon as
   one task has failed, while the other tasks of that step, nested workflows included, finish
   on their own) are reorderings of schedules of the program tree that are in general NOT
   schedules of the tree (example below).  Exchanging independent operations changes no unit's
   events: *)
Theorem reordering_preserves_unit_events :
  forall (w : world) (c t : list op),
    reorder c t ->
    forall u, filter (of_unit u) (st_log (run_script true w t)) = filter (of_unit u) (st_log (run_script true w c)).
Proof. exact reorder_unit_logs. Qed.
Print Assumptions reordering_preserves_unit_events.

(* ... hence exactly-once-paired for every reordering of every schedule of every graph *)
Theorem eager_exactly_once_paired_units :
  forall w is_stream g ginf opts stages t0 t,
    NoDup (g :: stages_uids stages) ->
    traces (graph_prog is_stream g ginf opts stages) t0 -> reorder t0 t ->
    forall e, In e (graph_table is_stream g ginf opts stages) ->
      filter (of_unit (ue_unit e)) (st_log (run_script true w t)) = uexp_events w e.
Proof. exact eager_unit_logs. Qed.
Print Assumptions eager_exactly_once_paired_units.

Theorem eager_no_other_events :
  forall w is_stream g ginf opts stages t0 t,
    NoDup (g :: stages_uids stages) ->
    traces (graph_prog is_stream g ginf opts stages) t0 -> reorder t0 t ->
    forall ev, In ev (st_log (run_script true w t)) ->
      exists e, In e (graph_table is_stream g ginf opts stages) /\ ev_unit ev = ue_unit e /\
                In ev (uexp_events w e).
Proof. exact Proofs.CallbacksEager.eager_no_other_events. Qed.
Print Assumptions eager_no_other_events.

Theorem eager_exactly_once_paired :
  forall w is_stream g ginf opts stages t0 t,
    NoDup (g :: stages_uids stages) ->
    traces (graph_prog is_stream g ginf opts stages) t0 -> reorder t0 t ->
    forall e, In e (graph_table is_stream g ginf opts stages) ->
    forall s f, ue_timings e = [s; f] ->
    forall x tm,
      List.length (filter (is_ev (ue_unit e) x tm (ue_info e)) (st_log (run_script true w t))) =
      if (timing_eqb tm s || timing_eqb tm f) && w_needs w x tm
      then count_occ N.eq_dec (ue_list e ++ w_globals w) x else 0%nat.
Proof. exact Proofs.CallbacksEager.eager_exactly_once_paired. Qed.
Print Assumptions eager_exactly_once_paired.

Theorem eager_model_never_flags :
  forall w is_stream g ginf opts stages t0 t,
    NoDup (g :: stages_uids stages) ->
    traces (graph_prog is_stream g ginf opts stages) t0 -> reorder t0 t ->
    st_bad (run_script true w t) = false.
Proof. exact eager_never_flagged. Qed.
Print Assumptions eager_model_never_flags.

(* [linearisation c t] (Model/CallbacksEager.v): t is a permutation of c in which every two
   operations that are NOT independent keep the order they have in c (the operations of one unit;
   the creation of a context and the operations that read it).  Every linearisation of a
   duplicate-free schedule is reached by exchanges of adjacent independent operations: *)
Theorem linearisations_are_reorderings :
  forall (t c : list op), NoDup c -> linearisation c t -> reorder c t.
Proof. exact linearisation_reorder. Qed.
Print Assumptions linearisations_are_reorderings.

(* ... and conversely: the reorderings are exactly the linearisations of the causal order *)
Theorem reorderings_are_linearisations :
  forall (c t : list op), reorder c t -> linearisation c t.
Proof. exact reorder_linearisation. Qed.
Print Assumptions reorderings_are_linearisations.

(* the operations of a graph run are pairwise distinct *)
Theorem run_operations_distinct :
  forall is_stream g ginf opts stages,
    NoDup (g :: stages_uids stages) -> NoDup (graph_ops is_stream g ginf opts stages).
Proof. exact graph_ops_NoDup. Qed.
Print Assumptions run_operations_distinct.

(* ... so: for EVERY linearisation of the causal order of the canonical schedule - every
   execution that performs the run's operations, each unit's in their order, every context
   created before it is read - every executed unit is served exactly its expected events *)
Theorem causal_executions_exactly_once_paired :
  forall w is_stream g ginf opts stages t,
    NoDup (g :: stages_uids stages) ->
    linearisation (graph_ops is_stream g ginf opts stages) t ->
    forall e, In e (graph_table is_stream g ginf opts stages) ->
      filter (of_unit (ue_unit e)) (st_log (run_script true w t)) = uexp_events w e.
Proof. exact linearisation_unit_logs. Qed.
Print Assumptions causal_executions_exactly_once_paired.

(* every schedule of the program tree ends with the graph's own end-or-error callback ... *)
Theorem tree_schedules_end_with_the_graph :
  forall is_stream g ginf opts stages t,
    graph_ok stages opts = true ->
    traces (graph_prog is_stream g ginf opts stages) t ->
    exists t' tm, t = t' ++ [OOn g tm].
Proof. exact graph_prog_last. Qed.
Print Assumptions tree_schedules_end_with_the_graph.

(* ... an eager execution need not: node 1 fails, the graph reports the error, and only then node
   2 (slower) creates its callback context, starts and ends.  It is a reordering of the
   canonical order, not a schedule of the tree, and node 2 is still served exactly its start
   events followed by its end events (handler 1 for the graph, 5 designated to node 2, global 9). *)
Definition eg_opts : list copt := [([1], []); ([5], [[2]])].
Definition eg_stages : list (list gnode) := [[GLambda 1 1 1 1 true; GLambda 2 2 2 1 false]].
Definition eg_eager : list op :=
  [OAppend None 0 0 [[1]]; OOn 0 TStart;
   OAppend (Some 0) 1 1 []; OOn 1 TStart; OOn 1 TError;
   OOn 0 TError;
   OAppend (Some 0) 2 2 [[5]]; OOn 2 TStart; OOn 2 TEnd].

Example eager_nonvacuous :
  NoDup (0 :: stages_uids eg_stages) /\
  reorder (graph_ops false 0 0 eg_opts eg_stages) eg_eager /\
  linearisation (graph_ops false 0 0 eg_opts eg_stages) eg_eager /\
  ~ traces (graph_prog false 0 0 eg_opts eg_stages) eg_eager /\
  filter (of_unit 2) (st_log (run_script true (w_plain [9]) eg_eager)) =
    [Ev 2 9 TStart 2; Ev 2 5 TStart 2; Ev 2 1 TStart 2; Ev 2 1 TEnd 2; Ev 2 5 TEnd 2; Ev 2 9 TEnd 2].
Proof.
  split; [vm_compute; repeat (constructor; [simpl; intuition discriminate|]); constructor|].
  assert (RO : reorder (graph_ops false 0 0 eg_opts eg_stages) eg_eager); [|split; [exact RO|split; [now apply reorderings_are_linearisations|]]].
  - assert (I : forall o, In o [OAppend (Some 0) 2 2 [[5]]; OOn 2 TStart; OOn 2 TEnd] -> indep o (OOn 0 TError)).
    { intros o [<-|[<-|[<-|[]]]]; (split; [simpl; discriminate|]); split; simpl; intros u E; try discriminate;
        injection E as <-; intros [H|[]]; discriminate. }
    apply (RO_swap _ [OAppend None 0 0 [[1]]; OOn 0 TStart; OAppend (Some 0) 1 1 []; OOn 1 TStart; OOn 1 TError]
                   (OAppend (Some 0) 2 2 [[5]]) (OOn 0 TError) [OOn 2 TStart; OOn 2 TEnd]); [|apply I; simpl; auto].
    apply (RO_swap _ [OAppend None 0 0 [[1]]; OOn 0 TStart; OAppend (Some 0) 1 1 []; OOn 1 TStart; OOn 1 TError;
                      OAppend (Some 0) 2 2 [[5]]]
                   (OOn 2 TStart) (OOn 0 TError) [OOn 2 TEnd]); [|apply I; simpl; auto].
    apply (RO_swap _ [OAppend None 0 0 [[1]]; OOn 0 TStart; OAppend (Some 0) 1 1 []; OOn 1 TStart; OOn 1 TError;
                      OAppend (Some 0) 2 2 [[5]]; OOn 2 TStart]
                   (OOn 2 TEnd) (OOn 0 TError) []); [|apply I; simpl; auto].
    vm_compute. apply RO_refl.
  - split; [|vm_compute; reflexivity].
    intros T. apply tree_schedules_end_with_the_graph in T; [|vm_compute; reflexivity].
    destruct T as (t' & tm & E). apply (f_equal (@rev op)) in E. rewrite rev_app_distr in E.
    vm_compute in E. discriminate.
Qed.

(* ------------------------------------------------------------------ interrupt / resume *)

(* A run plan (Model/CallbacksResume.v): a nested layered graph whose lambdas and tool calls ask
   for an interrupt (compose.InterruptAndRerun) during their next k executions.  [plan_seqf] is
   the run and the runs that resume it (same checkpoint id; the k-th run is called with the call
   options [os k] - the handlers come with the call, nothing about them is in the checkpoint): a
   run in which an execution asks for an interrupt (directly, through a tool call, or through a
   nested graph) ends with an error after the stage, the next run executes the interrupted nodes
   again (a nested graph continues from its own interrupted stage) and not the completed ones.
   [run_seqf] = what each run executes: (the call options that still designate something, the
   graph).  For EVERY plan, every call options of every run, every run of the sequence and every
   schedule of that run: every executed unit - also one whose execution ends with an interrupt -
   has exactly its start events followed by its end-or-error events. *)
Theorem resumed_runs_exactly_once_paired_units :
  forall w is_stream g ginf fuel os plan r t,
    NoDup (g :: rstages_uids plan) ->
    In r (run_seqf fuel os plan) ->
    traces (graph_prog is_stream g ginf (fst r) (snd r)) t ->
    forall e, In e (graph_table is_stream g ginf (fst r) (snd r)) ->
      filter (of_unit (ue_unit e)) (st_log (run_script true w t)) = uexp_events w e.
Proof. exact runsf_unit_logs. Qed.
Print Assumptions resumed_runs_exactly_once_paired_units.

Theorem resumed_runs_no_other_events :
  forall w is_stream g ginf fuel os plan r t,
    NoDup (g :: rstages_uids plan) ->
    In r (run_seqf fuel os plan) ->
    traces (graph_prog is_stream g ginf (fst r) (snd r)) t ->
    forall ev, In ev (st_log (run_script true w t)) ->
      exists e, In e (graph_table is_stream g ginf (fst r) (snd r)) /\ ev_unit ev = ue_unit e /\
                In ev (uexp_events w e).
Proof. exact runsf_no_other_events. Qed.
Print Assumptions resumed_runs_no_other_events.

(* counting form: one start and one end-or-error invocation per attachment and execution *)
Theorem resumed_runs_exactly_once_paired :
  forall w is_stream g ginf fuel os plan r t,
    NoDup (g :: rstages_uids plan) ->
    In r (run_seqf fuel os plan) ->
    traces (graph_prog is_stream g ginf (fst r) (snd r)) t ->
    forall e, In e (graph_table is_stream g ginf (fst r) (snd r)) ->
    forall s f, ue_timings e = [s; f] ->
    forall x tm,
      List.length (filter (is_ev (ue_unit e) x tm (ue_info e)) (st_log (run_script true w t))) =
      if (timing_eqb tm s || timing_eqb tm f) && w_needs w x tm
      then count_occ N.eq_dec (ue_list e ++ w_globals w) x else 0%nat.
Proof. exact runsf_exactly_once_paired. Qed.
Print Assumptions resumed_runs_exactly_once_paired.

(* every run of the sequence is some j-th call, and in it a handler is invoked for a unit only if
   it is global or an option of THAT call attaches it to the unit (the reduced option list of a
   resumed run attaches nothing the call does not): no handler of the interrupted call is served
   by the run that resumes it *)
Theorem resumed_runs_invoked_only_where_attached :
  forall w is_stream g ginf fuel os plan r t,
    NoDup (g :: rstages_uids plan) ->
    In r (run_seqf fuel os plan) ->
    traces (graph_prog is_stream g ginf (fst r) (snd r)) t ->
    exists j, forall ev, In ev (st_log (run_script true w t)) ->
      exists e pe, In (e, pe) (graph_table_p is_stream g ginf (fst r) (snd r)) /\
        ev_unit ev = ue_unit e /\
        (In (ev_handler ev) (w_globals w) \/
         exists o, In o (os j) /\ In (ev_handler ev) (fst o) /\ attaches o pe).
Proof. exact runsf_invoked_only_where_attached. Qed.
Print Assumptions resumed_runs_invoked_only_where_attached.

(* the sequence ends: with fuel beyond the number of interrupts still to come, the last run of
   [plan_seqf] is not interrupted (so the fuel Corr/C10.v uses, S (total_intr plan), never cuts a
   sequence short), and more fuel changes nothing *)
Theorem run_sequence_ends :
  forall fuel k os plan,
    (total_intr plan < fuel)%nat ->
    exists pre last, plan_seqf fuel k os plan = pre ++ [last] /\
      is_intr (run_outcome (live_opts (snd last) (fst last)) (snd last)) = false.
Proof. exact plan_seqf_complete. Qed.
Print Assumptions run_sequence_ends.

Theorem run_sequence_fuel_irrelevant :
  forall fuel k os plan d,
    (total_intr plan < fuel)%nat -> plan_seqf (fuel + d) k os plan = plan_seqf fuel k os plan.
Proof. exact plan_seqf_fuel. Qed.
Print Assumptions run_sequence_fuel_irrelevant.

(* Non-vacuity: lambda 1 asks for an interrupt once; sub graph 2 holds lambda 3 and then lambda 4
   (Transform) that asks once; lambda 5 completes; second stage lambda 6.  First call: handler 1
   for the whole graph, 2 designated to node path [2; 2] (lambda 4), 3 to node 5.  Run 0 is
   interrupted after the first stage (units 1, 4, the sub graph 2 and the graph end with an error).
   The resuming call passes handler 4 for the whole graph, 2 to [2; 2] again, 3 to node 5 and 5 to
   the path [2; 1] of the completed lambda 3: run 1 executes 1 and 4 again - not 3 and 5, whose
   designations are accepted and attach to nothing - and then 6; handler 1 is not served. *)
Definition ex_plan : list (list rnode) :=
  [[RLambda 1 1 1 1 false 1; RSub 2 2 2 [[RLambda 3 1 3 1 false 0]; [RLambda 4 2 4 8 false 1]];
    RLambda 5 3 5 1 false 0];
   [RLambda 6 4 6 1 false 0]].
Definition ex_popts : list copt := [([1], []); ([2], [[2; 2]]); ([3], [[3]])].
Definition ex_popts2 : list copt := [([4], []); ([2], [[2; 2]]); ([3], [[3]]); ([5], [[2; 1]])].

Example resumed_runs_nonvacuous :
  NoDup (0 :: rstages_uids ex_plan) /\
  map (fun r => (fst r, map (fun e => (ue_unit e, ue_list e, ue_timings e)) (graph_table false 0 0 (fst r) (snd r))))
      (run_seqf (S (total_intr ex_plan)) (two_opts ex_popts ex_popts2) ex_plan) =
    [(ex_popts,
      [(0, [1], [TStart; TError]); (1, [1], [TStart; TError]); (2, [1], [TStart; TError]);
       (3, [1], [TStart; TEnd]); (4, [1; 2], [TStartStream; TError]); (5, [1; 3], [TStart; TEnd])]);
     ([([4], []); ([2], [[2; 2]])],
      [(0, [4], [TStart; TEnd]); (1, [4], [TStart; TEnd]); (2, [4], [TStart; TEnd]);
       (4, [4; 2], [TStartStream; TEndStream]); (6, [4], [TStart; TEnd])])] /\
  map (fun r => filter (of_unit 4)
                (st_log (run_script true (w_plain [9]) (flatten_alt (graph_prog false 0 0 (fst r) (snd r))))))
      (run_seqf (S (total_intr ex_plan)) (two_opts ex_popts ex_popts2) ex_plan) =
    [[Ev 4 9 TStartStream 4; Ev 4 2 TStartStream 4; Ev 4 1 TStartStream 4;
      Ev 4 1 TError 4; Ev 4 2 TError 4; Ev 4 9 TError 4];
     [Ev 4 9 TStartStream 4; Ev 4 2 TStartStream 4; Ev 4 4 TStartStream 4;
      Ev 4 4 TEndStream 4; Ev 4 2 TEndStream 4; Ev 4 9 TEndStream 4]] /\
  (* a designation below the completed lambda 3 is rejected by the resumed run, as by the first *)
  map (fun r => graph_ok (snd r) (fst r))
      (run_seqf (S (total_intr ex_plan)) (two_opts ex_popts [([5], [[2; 1; 7]])]) ex_plan) = [true; false].
Proof.
  split.
  - vm_compute. repeat (constructor; [simpl; intuition discriminate|]). constructor.
  - repeat split; vm_compute; reflexivity.
Qed.

(* configured interrupt points (compile options WithInterruptBeforeNodes / WithInterruptAfterNodes): the
   plans the theorems [resumed_runs_*] quantify over contain them ([RStop], a stage of its own).  A graph
   1 -> stop -> {2, sub graph 3 (4 -> stop -> 5)}: the first run executes node 1 and is interrupted before
   the second stage (the graph starts and ends with an error, no unit of the second stage exists); the
   second run executes node 2 and, in the sub graph, node 4, and is interrupted by the sub graph's own
   interrupt point (the sub graph and the graph end with an error); the third run executes node 5 only. *)
Definition ex_stop_plan : list (list rnode) :=
  [[RLambda 1 1 1 1 false 0]; [RStop 1];
   [RLambda 2 2 2 1 false 0; RSub 3 3 3 [[RLambda 4 1 4 1 false 0]; [RStop 1]; [RLambda 5 2 5 8 false 0]]]].

Example resumed_runs_with_interrupt_points_nonvacuous :
  NoDup (0 :: rstages_uids ex_stop_plan) /\
  total_intr ex_stop_plan = 2%nat /\
  map (fun r => map (fun e => (ue_unit e, ue_list e, ue_timings e)) (graph_table false 0 0 (fst r) (snd r)))
      (run_seqf (S (total_intr ex_stop_plan)) (fun _ => [([7], []); ([8], [[3; 2]])]) ex_stop_plan) =
    [[(0, [7], [TStart; TError]); (1, [7], [TStart; TEnd])];
     [(0, [7], [TStart; TError]); (2, [7], [TStart; TEnd]); (3, [7], [TStart; TError]); (4, [7], [TStart; TEnd])];
     [(0, [7], [TStart; TEnd]); (3, [7], [TStart; TEnd]); (5, [7; 8], [TStartStream; TEndStream])]] /\
  (* an interrupt point is no node: no call option can address it *)
  graph_ok (proj_stages ex_stop_plan) [([7], [[0]])] = false.
Proof.
  split.
  - vm_compute. repeat (constructor; [simpl; intuition discriminate|]). constructor.
  - repeat split; vm_compute; reflexivity.
Qed.

(* ------------------------------------------------------------------ a resuming call that fails before anything is restored *)

(* runner.run can fail in its prologue - before the first task is submitted: the checkpoint store
   fails, the checkpoint does not decode or cannot be restored, the state modifier fails, the pending
   tasks of the checkpoint belong to no node of the graph that resumes it (a newer build of the graph),
   a call option is rejected.  The model says so with a call option that is rejected and carries no
   handler ([prologue_fault], Model/CallbacksResume.v).  For every world, graph, call options and
   schedule, the WHOLE log of such a run is: the handlers for the whole graph (and the global ones)
   are served the graph's start, then the graph's error - once per attachment each - and nothing else. *)
Theorem failed_prologue_serves_the_graph_once :
  forall w is_stream g ginf opts stages t,
    NoDup (g :: stages_uids stages) ->
    traces (graph_prog is_stream g ginf (prologue_fault :: opts) stages) t ->
    st_log (run_script true w t) =
      served w g ginf (List.concat (undesignated opts)) (graph_start is_stream) ++
      served w g ginf (List.concat (undesignated opts)) TError.
Proof. exact fault_run_log. Qed.
Print Assumptions failed_prologue_serves_the_graph_once.

(* the run sequence in which the k-th call (k > 0: a call that resumes) fails in its prologue is a
   [run_seqf] like every other ([with_fault k os] are call options): all [resumed_runs_*] theorems
   hold for every run of it; the failing call is the last one, whatever was still to be executed *)
Theorem failed_resume_ends_the_sequence :
  forall fuel k os plan,
    (0 < k)%nat ->
    plan_seqf (S fuel) k (with_fault k os) plan = [(prologue_fault :: os k, plan)].
Proof. exact fault_ends_sequence. Qed.
Print Assumptions failed_resume_ends_the_sequence.

(* Non-vacuity: the plan of [resumed_runs_nonvacuous]; the first call (handler 1 for the whole graph) is
   interrupted, the call that resumes it (handler 4 for the whole graph, 3 designated to node 5) is made
   by a build of the graph that cannot restore the pending tasks: the graph unit alone, start and
   error; handler 4 is invoked twice, handler 3 and the global handler's siblings never. *)
Example failed_resume_nonvacuous :
  map (fun r => map (fun e => (ue_unit e, ue_list e, ue_timings e)) (graph_table false 0 0 (fst r) (snd r)))
      (run_seqf (S (total_intr ex_plan)) (with_fault 1 (two_opts ex_popts ex_popts2)) ex_plan) =
    [[(0, [1], [TStart; TError]); (1, [1], [TStart; TError]); (2, [1], [TStart; TError]);
      (3, [1], [TStart; TEnd]); (4, [1; 2], [TStartStream; TError]); (5, [1; 3], [TStart; TEnd])];
     [(0, [4], [TStart; TError])]] /\
  map (fun r => st_log (run_script true (w_plain [9]) (flatten_alt (graph_prog false 0 0 (fst r) (snd r)))))
      (skipn 1 (run_seqf (S (total_intr ex_plan)) (with_fault 1 (two_opts ex_popts ex_popts2)) ex_plan)) =
    [[Ev 0 9 TStart 0; Ev 0 4 TStart 0; Ev 0 4 TError 0; Ev 0 9 TError 0]].
Proof. split; vm_compute; reflexivity. Qed.

(* The prologue of a NESTED graph fails: the run that resumes restores the tasks of the top-level graph, the
   nested graph - continued from its own checkpoint, handed down in the context - cannot (restoreCheckPoint,
   the state modifier, restoreTasks: a newer build of the nested graph has no node for a pending task).  In a
   run plan: [RFault delay] as the first stage of that nested graph - it strikes in the execution that follows
   [delay] interrupted executions of the nested graph, and is nothing until then.  Plans with such stages are
   plans: every [resumed_runs_*] theorem holds for every run of their sequences.  What the stage amounts to:
   when it strikes, the operations of the node are its context, the nested graph's start and the nested graph's
   error; the nested graph is the one executed unit below the node, with timings start; error, whatever its
   stages, options and handler lists are; the node has FAILED (not: been interrupted), so the enclosing stage
   fails and the sequence ends. *)
Theorem failed_nested_prologue_serves_that_graph_once :
  forall is_stream parent inh opts uid key inf stages,
    proj (RSub uid key inf ([RFault 0] :: stages)) = [GSub uid key inf ([GStop] :: proj_stages stages)] /\
    node_ops is_stream parent opts (GSub uid key inf ([GStop] :: proj_stages stages)) =
      ([OAppend (Some parent) uid inf (designated key opts); OOn uid (graph_start is_stream); OOn uid TError], true) /\
    node_table is_stream inh opts (GSub uid key inf ([GStop] :: proj_stages stages)) =
      ([{| ue_unit := uid; ue_info := inf; ue_list := inh ++ List.concat (designated key opts);
           ue_timings := [graph_start is_stream; TError] |}], true) /\
    node_outcome opts (RSub uid key inf ([RFault 0] :: stages)) = OutFail.
Proof.
  intros. split; [apply nested_fault_proj|]. split; [apply nested_fault_ops|].
  split; [apply nested_fault_table|apply nested_fault_outcome].
Qed.
Print Assumptions failed_nested_prologue_serves_that_graph_once.

(* until it strikes the stage is nothing, and every interrupted execution of the nested graph brings it one
   step nearer (so [RFault d] strikes exactly in the execution that follows d interrupted ones) *)
Theorem nested_fault_waits_for_its_execution :
  forall opts uid key inf d stages,
    node_outcome opts (RSub uid key inf ([RFault (S d)] :: stages)) = node_outcome opts (RSub uid key inf stages) /\
    (forall is_stream inh o,
       node_table is_stream inh o (GSub uid key inf (proj_stages ([RFault (S d)] :: stages))) =
       node_table is_stream inh o (GSub uid key inf (proj_stages stages))) /\
    (forall stages', resume_node opts (RSub uid key inf stages) = RSub uid key inf stages' ->
       resume_node opts (RSub uid key inf ([RFault (S d)] :: stages)) = RSub uid key inf ([RFault d] :: stages')).
Proof.
  intros. split; [apply nested_fault_pending_outcome|]. split; [apply nested_fault_pending_table|].
  intros stages'. apply nested_fault_counts_down.
Qed.
Print Assumptions nested_fault_waits_for_its_execution.

(* Non-vacuity: the plan of [resumed_runs_nonvacuous] with the fault in sub graph 2 after one interrupted
   execution: run 0 is interrupted (lambda 1, and lambda 4 inside sub graph 2); in run 1 lambda 1 completes,
   sub graph 2 - handler 2 is designated into it - reports its start and its error and nothing in it executes,
   the graph fails; there is no run 2. *)
Example failed_nested_resume_nonvacuous :
  map (fun r => map (fun e => (ue_unit e, ue_list e, ue_timings e)) (graph_table false 0 0 (fst r) (snd r)))
      (run_seqf 5 (fun _ => [([1], []); ([2], [[2]])])
         [[RLambda 1 1 1 1 false 1;
           RSub 2 2 2 [[RFault 1]; [RLambda 3 1 3 1 false 0]; [RLambda 4 2 4 8 false 1]];
           RLambda 5 3 5 1 false 0];
          [RLambda 6 4 6 1 false 0]]) =
    [[(0, [1], [TStart; TError]); (1, [1], [TStart; TError]); (2, [1; 2], [TStart; TError]);
      (3, [1; 2], [TStart; TEnd]); (4, [1; 2], [TStartStream; TError]); (5, [1], [TStart; TEnd])];
     [(0, [1], [TStart; TError]); (1, [1], [TStart; TEnd]); (2, [1; 2], [TStart; TError])]].
Proof. vm_compute. reflexivity. Qed.

(* ------------------------------------------------------------------ payloads *)

(* Operations with the payload their On call is given ([pop]); [prun]: the run in which every
   invocation is logged with the payload the handler was handed (Model/CallbacksPayload.v).
   Forgetting the payloads gives back the plain run - the payload-carrying model is the model
   all other theorems are about: *)
Theorem payload_log_erases :
  forall fixed w (pops : list pop),
    map fst (p_log (prun fixed w pops)) = st_log (run_script fixed w (map fst pops)).
Proof. exact plog_erases. Qed.
Print Assumptions payload_log_erases.

(* every invocation hands the handler the payload of an On call of the script, made for the
   unit and with the timing of that invocation - never another call's payload *)
Theorem payload_is_the_calls :
  forall fixed w (pops : list pop) e p,
    In (e, p) (p_log (prun fixed w pops)) ->
    exists u t, In (OOn u t, p) pops /\ ev_unit e = u /\ ev_timing e = t.
Proof. exact payload_delivered. Qed.
Print Assumptions payload_is_the_calls.

(* WITH THE PAYLOAD THE UNIT CONSUMED OR PRODUCED.  [annot]: the On calls of a graph run with the
   payloads runWithCallbacks / runner.run give them: [pin u] what unit u is then run on, [pout u]
   what it returned, [perr u] the error it returned.  For every graph, options, schedule of the
   tree and reordering of it (eager collection): the invocations for a unit of the table are
   exactly its expected events, every start invocation carrying what the unit consumes, every
   end / stream-end invocation what it produced, every error invocation the error it ended with. *)
Theorem handlers_get_the_units_own_payload :
  forall w is_stream g ginf opts stages t0 t,
    NoDup (g :: stages_uids stages) ->
    traces (graph_prog is_stream g ginf opts stages) t0 -> reorder t0 t ->
    forall e, In e (graph_table is_stream g ginf opts stages) ->
      filter (fun x => of_unit (ue_unit e) (fst x)) (p_log (prun true w (map annot t))) =
      map (fun ev => (ev, payload_of (ue_unit e) (ev_timing ev))) (uexp_events w e).
Proof. exact engine_unit_payloads. Qed.
Print Assumptions handlers_get_the_units_own_payload.

Example payloads_nonvacuous :
  (* the eager execution of the example above: node 2 (handlers 1, 5, global 9) *)
  filter (fun x => of_unit 2 (fst x)) (p_log (prun true (w_plain [9]) (map annot eg_eager))) =
    [(Ev 2 9 TStart 2, pin 2); (Ev 2 5 TStart 2, pin 2); (Ev 2 1 TStart 2, pin 2);
     (Ev 2 1 TEnd 2, pout 2); (Ev 2 5 TEnd 2, pout 2); (Ev 2 9 TEnd 2, pout 2)] /\
  filter (fun x => of_unit 1 (fst x)) (p_log (prun true (w_plain [9]) (map annot eg_eager))) =
    [(Ev 1 9 TStart 1, pin 1); (Ev 1 1 TStart 1, pin 1); (Ev 1 1 TError 1, perr 1); (Ev 1 9 TError 1, perr 1)] /\
  (* a script: the third and fourth operations are On calls with payloads 3 and 4 *)
  map snd (p_log (prun true (w_plain [9]) (numbered [ORaw 0 100 0%nat [1; 2] 1%nat; OAppend (Some 0) 1 101 [[7]];
                                                     OOn 1 TStart; OOn 0 TEnd]))) = [3; 3; 3; 3; 4; 4; 4].
Proof. vm_compute. repeat split; reflexivity. Qed.

(* ------------------------------------------------------------------ stream_payload_independent *)

(* One stream payload handed to n handlers and to the flow (OnWithStreamHandle: cpy(n+1)):
   what the reader of copy i receives is a function of the original stream and of that
   reader's own recv / close actions — whatever the other readers do (read everything, read
   a little, close at once, never read), in whatever order. *)
Theorem stream_payload_independent :
  forall (src : list N) (n i : nat) (acts : list cact),
    (i < n)%nat -> received (copy_n src n) i acts = view src (Some 0%nat) i acts.
Proof. exact stream_copies_independent. Qed.
Print Assumptions stream_payload_independent.

Theorem stream_payload_same_own_actions :
  forall (src : list N) (n i : nat) (acts1 acts2 : list cact),
    (i < n)%nat -> filter (own i) acts1 = filter (own i) acts2 ->
    received (copy_n src n) i acts1 = received (copy_n src n) i acts2.
Proof. exact stream_copies_same_own. Qed.
Print Assumptions stream_payload_same_own_actions.

Example stream_payload_independent_nonvacuous :
  (* two handlers and the flow (copy 2): handler 0 closes at once, handler 1 reads one chunk
     and closes, the flow reads everything, interleaved *)
  received (copy_n [10; 20; 30] 3) 2
    [CRecv 2; CClose 0; CRecv 1; CRecv 2; CClose 1; CRecv 2; CRecv 2] = [10; 20; 30] /\
  received (copy_n [10; 20; 30] 3) 1
    [CRecv 2; CClose 0; CRecv 1; CRecv 2; CClose 1; CRecv 2; CRecv 2] = [10].
Proof. vm_compute. split; reflexivity. Qed.
