(* Props/C10.v — placeholder while the harness is brought up; theorems follow. *)
From Eino Require Import Base.Util Base.GoSlice Model.Callbacks.
Example c10_model_runs : st_bad (run_script true {| w_pol := pol_double; w_globals := []; w_needs := fun _ _ => true |} [OAppend None 0%N 0%N [[1%N]]; OOn 0%N TStart]) = false.
Proof. vm_compute. reflexivity. Qed.
