(* Props/C01.v — property C01: any-predecessor (Pregel) runs follow lock-step superstep semantics and
   terminate; a chain is sequential composition. Only statements, each closed by [exact]. *)
From Eino Require Import Base.Util Model.Graph Model.Chain Proofs.Graph.
Open Scope N_scope.

(* default step limit = number of nodes + 10 (graph.compile) *)
Theorem default_limit :
  forall g, g_max g = 0%nat -> max_steps g = (List.length (real_nodes g) + 10)%nat.
Proof. exact max_steps_default. Qed.
Print Assumptions default_limit.
